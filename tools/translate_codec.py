#!/usr/bin/env python3
"""tools/translate_codec.py -- CODE translator for the register value codecs of genapi/src/utils.rs:
int_from_slice, bytes_from_int (both written as a local `macro_rules!` with four arms per entry of the invocation list),
float_from_slice, bytes_from_float (plain matches).

Each function is a `match (len, endianness[, sign])` whose arms are, in order, tested against the scrutinee; the
translator reads the arm patterns, the arm bodies (one of a fixed set of conversion shapes) and, for the two macros, the
invocation list `(8, i64, u64), (4, i32, u32), ...`, and emits the match as a chain of tests in the same order:

    coq/theories/gen/CodecSrc.v    src_int_from_slice  src_bytes_from_int  src_float_from_slice  src_bytes_from_float

over the conversion primitives of lib/RustInt.v (c_from_bytes / c_to_bytes: `T::from_xx_bytes(slice.try_into().unwrap())`
panics unless the slice has the size of T; `buf.copy_from_slice(..)` panics unless the lengths agree; `as` between
integer types reinterprets the pattern; f32 <-> f64 conversions are the model's widen / narrow on IEEE bit patterns).
Endianness::LE is 0, BE 1; Sign::Unsigned 0, Signed 1 (the harness numbering).  ShapeError on anything else."""
import os, re, sys

HERE = os.path.dirname(os.path.abspath(__file__))
OUT = os.path.join(os.path.dirname(HERE), "coq", "theories", "gen", "CodecSrc.v")

BITS = {"i8": 8, "i16": 16, "i32": 32, "i64": 64, "u8": 8, "u16": 16, "u32": 32, "u64": 64}
END = {"Endianness::LE": 0, "Endianness::BE": 1}
SIGN = {"Sign::Unsigned": 0, "Sign::Signed": 1}
ERR = {"GenApiError::invalid_buffer": "E_INVALID_BUFFER"}


class ShapeError(Exception):
    pass


def strip_comments(s):
    s = re.sub(r"/\*.*?\*/", "", s, flags=re.S)
    return re.sub(r"//[^\n]*", "", s)


def block_after(src, start):
    i = src.index("{", start)
    depth = 0
    for j in range(i, len(src)):
        if src[j] == "{":
            depth += 1
        elif src[j] == "}":
            depth -= 1
            if depth == 0:
                return src[i + 1:j], j + 1
    raise ShapeError("unbalanced braces")


def fn_body(src, name, sig):
    m = re.search(r"fn %s\(\s*%s\s*\)\s*->\s*GenApiResult<(\w+|\(\))>\s*\{" % (name, sig), src)
    if not m:
        raise ShapeError("fn %s with the expected signature not found" % name)
    body, _ = block_after(src, m.end() - 1)
    return body, m.group(1)


def norm(s):
    return re.sub(r"\s+", "", s)


def split_arms(text):
    """arms of a match body: `pattern => body,` with bodies possibly in braces / parentheses"""
    arms, depth, cur = [], 0, ""
    for ch in text:
        if ch in "({[":
            depth += 1
        elif ch in ")}]":
            depth -= 1
        if ch == "," and depth == 0:
            if cur.strip():
                arms.append(cur.strip())
            cur = ""
        else:
            cur += ch
            if ch == "}" and depth == 0 and "=>" in cur and cur.split("=>", 1)[1].lstrip().startswith("{"):
                arms.append(cur.strip())          # an arm whose body is a block needs no comma
                cur = ""
    if cur.strip():
        arms.append(cur.strip())
    out = []
    for a in arms:
        if "=>" not in a:
            raise ShapeError("arm without `=>`: %r" % a[:60])
        p, b = a.split("=>", 1)
        out.append((norm(p), norm(b)))
    return out


def err_arm(body):
    m = re.fullmatch(r"Err\((GenApiError::\w+)\(\"[^\"]*\"\.into\(\),?\)\)", body)
    if not m or m.group(1) not in ERR:
        raise ShapeError("fall-through arm is not a known error: %r" % body[:80])
    return ERR[m.group(1)]


# ------------------------------------------------------------------------------------------ the two macros --
def macro_fn(body, mname, pats_expected):
    m = re.search(r"macro_rules!\s*%s\s*\{" % mname, body)
    if not m:
        raise ShapeError("macro %s not found" % mname)
    mb, end = block_after(body, m.end() - 1)
    mm = re.match(r"\s*\(\$\(\(\$len:literal,\s*\$signed_ty:ty,\s*\$unsigned_ty:ty\)\),\*\)\s*=>\s*\{", mb)
    if not mm:
        raise ShapeError("macro %s does not take ($len:literal, $signed_ty:ty, $unsigned_ty:ty) entries" % mname)
    inner, _ = block_after(mb, mm.end() - 1)
    im = re.match(r"\s*match\s*\((.*?)\)\s*\{", inner, flags=re.S)
    if not im:
        raise ShapeError("macro %s: body is not a match on a tuple" % mname)
    scrut = norm(im.group(1))
    arms_text, aend = block_after(inner, im.end() - 1)
    if inner[aend:].strip():
        raise ShapeError("macro %s: something follows the match" % mname)
    rm = re.match(r"\s*\$\(\s*(.*?)\)\*\s*(_\s*=>.*)$", arms_text, flags=re.S)
    if not rm:
        raise ShapeError("macro %s: arms are not `$( ... )* _ => ...`" % mname)
    rep = split_arms(rm.group(1))
    last = split_arms(rm.group(2))
    if len(last) != 1 or last[0][0] != "_":
        raise ShapeError("macro %s: no single catch-all arm" % mname)
    # invocation
    rest = body[end:]
    iv = re.fullmatch(r"\s*%s!\(((?:\(\d+,\w+,\w+\),?)+)\)\s*" % mname, norm(rest))
    if not iv:
        raise ShapeError("%s! is not invoked as the function's value with (len, signed, unsigned) entries" % mname)
    entries = [(int(a), b, c) for a, b, c in re.findall(r"\((\d+),(\w+),(\w+)\)", iv.group(1))]
    for ln, st, ut in entries:
        if st not in BITS or ut not in BITS or not st.startswith("i") or not ut.startswith("u"):
            raise ShapeError("entry (%d, %s, %s)" % (ln, st, ut))
    arms = []
    for p, b in rep:
        pm = re.fullmatch(r"\(\$len,(Endianness::\w+),(Sign::\w+)\)", p)
        if not pm or pm.group(1) not in END or pm.group(2) not in SIGN:
            raise ShapeError("arm pattern %r" % p)
        arms.append((END[pm.group(1)], SIGN[pm.group(2)], b))
    return scrut, arms, err_arm(last[0][1]), entries


def int_from_body(b):
    """-> (ty_var, endian of the conversion, 'from'|'as')"""
    m = re.fullmatch(r"Ok\(i64::from\(<\$(signed_ty|unsigned_ty)>::from_(le|be)_bytes\(slice\.try_into\(\)\.unwrap\(\)\)\)\)", b)
    if m:
        return m.group(1), m.group(2), "from"
    m = re.fullmatch(r"Ok\(<\$(signed_ty|unsigned_ty)>::from_(le|be)_bytes\(slice\.try_into\(\)\.unwrap\(\)\)asi64\)", b)
    if m:
        return m.group(1), m.group(2), "as"
    raise ShapeError("conversion %r" % b[:90])


def int_to_body(b):
    m = re.fullmatch(r"Ok\(buf\.copy_from_slice\(&\(valueas\$(signed_ty|unsigned_ty)\)\.to_(le|be)_bytes\(\)\)\)", b)
    if m:
        return m.group(1), m.group(2)
    raise ShapeError("conversion %r" % b[:90])


def translate(repo):
    path = os.path.join(repo, "genapi", "src", "utils.rs")
    src = strip_comments(open(path).read())
    et = strip_comments(open(os.path.join(repo, "genapi", "src", "elem_type.rs")).read())
    if not re.search(r"pub enum Endianness \{\s*LE,\s*BE,\s*\}", et) or not re.search(r"pub enum Sign \{\s*Signed,\s*Unsigned,\s*\}", et):
        raise ShapeError("enum Endianness / Sign changed")
    out = []
    # ---- int_from_slice
    body, ret = fn_body(src, "int_from_slice", r"slice: &\[u8\],\s*endianness: Endianness,\s*sign: Sign,?")
    if ret != "i64":
        raise ShapeError("int_from_slice returns %s" % ret)
    scrut, arms, err, entries = macro_fn(body, "convert_from_slice", None)
    if scrut != "slice.len(),endianness,sign":
        raise ShapeError("int_from_slice matches on %r" % scrut)
    code = "Err %s" % err
    for ln, st, ut in reversed(entries):
        for e, s, b in reversed(arms):
            tv, conv_e, how = int_from_body(b)
            ty = st if tv == "signed_ty" else ut
            signed = "true" if ty.startswith("i") else "false"
            # i64::from(x) requires a lossless conversion: rustc accepts it for i8..i64 and u8..u32 only
            if how == "from" and ty == "u64":
                raise ShapeError("i64::from(u64) does not exist")
            prim = "c_from_bytes %d %s %s bs" % (BITS[ty], signed, "false" if conv_e == "le" else "true")
            val = "omap (sw 64) (%s)" % prim if how == "as" else prim
            code = "if (zlen bs =? %d) && (endian =? %d) && (sign =? %d) then %s\n  else %s" % (ln, e, s, val, code)
    out.append("Definition src_int_from_slice (bs : list Z) (endian sign : Z) : outcome Z :=\n  %s." % code)
    # ---- bytes_from_int
    body, ret = fn_body(src, "bytes_from_int", r"value: i64,\s*buf: &mut \[u8\],\s*endianness: Endianness,\s*sign: Sign,?")
    if ret != "()":
        raise ShapeError("bytes_from_int returns %s" % ret)
    scrut, arms, err, entries = macro_fn(body, "convert_to_slice", None)
    if scrut != "buf.len(),endianness,sign":
        raise ShapeError("bytes_from_int matches on %r" % scrut)
    code = "Err %s" % err
    for ln, st, ut in reversed(entries):
        for e, s, b in reversed(arms):
            tv, conv_e = int_to_body(b)
            ty = st if tv == "signed_ty" else ut
            prim = "c_to_bytes %d %s len v" % (BITS[ty], "false" if conv_e == "le" else "true")
            code = "if (len =? %d) && (endian =? %d) && (sign =? %d) then %s\n  else %s" % (ln, e, s, prim, code)
    out.append("Definition src_bytes_from_int (v len endian sign : Z) : outcome (list Z) :=\n  %s." % code)
    # ---- float_from_slice
    body, ret = fn_body(src, "float_from_slice", r"slice: &\[u8\],\s*endianness: Endianness")
    if ret != "f64":
        raise ShapeError("float_from_slice returns %s" % ret)
    fm = re.fullmatch(r"\s*match\s*\(slice\.len\(\),\s*endianness\)\s*\{(.*)\}\s*", body, flags=re.S)
    if not fm:
        raise ShapeError("float_from_slice is not a single match on (slice.len(), endianness)")
    arms = split_arms(fm.group(1))
    if arms[-1][0] != "_":
        raise ShapeError("float_from_slice: no catch-all arm")
    code = "Err %s" % err_arm(arms[-1][1])
    for p, b in reversed(arms[:-1]):
        pm = re.fullmatch(r"\((\d+),(Endianness::\w+)\)", p)
        if not pm or pm.group(2) not in END:
            raise ShapeError("arm pattern %r" % p)
        m1 = re.fullmatch(r"Ok\(f64::from_(le|be)_bytes\(slice\.try_into\(\)\.unwrap\(\)\)\)", b)
        m2 = re.fullmatch(r"Ok\(f64::from\(f32::from_(le|be)_bytes\(slice\.try_into\(\)\.unwrap\(\)\)\)\)", b)
        if m1:
            val = "c_from_bytes 64 false %s bs" % ("false" if m1.group(1) == "le" else "true")
        elif m2:
            val = "omap widen (c_from_bytes 32 false %s bs)" % ("false" if m2.group(1) == "le" else "true")
        else:
            raise ShapeError("conversion %r" % b[:90])
        code = "if (zlen bs =? %d) && (endian =? %d) then %s\n  else %s" % (int(pm.group(1)), END[pm.group(2)], val, code)
    out.append("Definition src_float_from_slice (bs : list Z) (endian : Z) : outcome Z :=\n  %s." % code)
    # ---- bytes_from_float
    body, ret = fn_body(src, "bytes_from_float", r"value: f64,\s*buf: &mut \[u8\],\s*endianness: Endianness,?")
    if ret != "()":
        raise ShapeError("bytes_from_float returns %s" % ret)
    fm = re.fullmatch(r"\s*match\s*\(buf\.len\(\),\s*endianness\)\s*\{(.*)\}\s*", body, flags=re.S)
    if not fm:
        raise ShapeError("bytes_from_float is not a single match on (buf.len(), endianness)")
    arms = split_arms(fm.group(1))
    if arms[-1][0] != "_":
        raise ShapeError("bytes_from_float: no catch-all arm")
    code = "Err %s" % err_arm(arms[-1][1])
    for p, b in reversed(arms[:-1]):
        pm = re.fullmatch(r"\((\d+),(Endianness::\w+)\)", p)
        if not pm or pm.group(2) not in END:
            raise ShapeError("arm pattern %r" % p)
        m1 = re.fullmatch(r"\{buf\.copy_from_slice\(&value\.to_(le|be)_bytes\(\)\);Ok\(\(\)\)\}", b)
        m2 = re.fullmatch(r"\{buf\.copy_from_slice\(&\(valueasf32\)\.to_(le|be)_bytes\(\)\);Ok\(\(\)\)\}", b)
        if m1:
            val = "c_to_bytes 64 %s len bits" % ("false" if m1.group(1) == "le" else "true")
        elif m2:
            val = "c_to_bytes 32 %s len (narrow bits)" % ("false" if m2.group(1) == "le" else "true")
        else:
            raise ShapeError("conversion %r" % b[:90])
        code = "if (len =? %d) && (endian =? %d) then %s\n  else %s" % (int(pm.group(1)), END[pm.group(2)], val, code)
    out.append("Definition src_bytes_from_float (bits len endian : Z) : outcome (list Z) :=\n  %s." % code)
    return out


def render(defs):
    return ("(* GENERATED by tools/translate_codec.py from genapi/src/utils.rs - do not edit.\n"
            "   Endianness::LE = 0, BE = 1; Sign::Unsigned = 0, Signed = 1.  The arms are tested in the source's order. *)\n"
            "From Cam Require Import Outcome Bytes Mem RustBytes RegCodec.\n\n" + "\n\n".join(defs) + "\n")


def regenerate(repo=None):
    repo = repo or os.environ.get("VERIF_REPO", "/repo")
    text = render(translate(repo))
    old = open(OUT).read() if os.path.exists(OUT) else None
    if old != text:
        with open(OUT, "w") as f:
            f.write(text)
    return text


if __name__ == "__main__":
    try:
        print(regenerate(sys.argv[1] if len(sys.argv) > 1 else None))
    except ShapeError as e:
        print("ShapeError:", e)
        sys.exit(1)
