"""Register-history cases shared by C01 / C02: one register, a list of sibling nodes on it,
an operation history; rendered to GenApi XML + harness line and to the model's token list."""
import struct

import xmlrender as X
from vplib import Case, xhex

KIND = {"int": 0, "float": 1, "string": 2, "raw": 3, "masked": 4}
OPC = {"v": 1, "s": 2, "mn": 3, "mx": 4, "fv": 5, "fs": 6, "sv": 7, "ss": 8, "rr": 9, "rw": 10, "rej": 20, "lost": 21}
CODE = 101


def render_nodes(addr, length, endian, nodes, cachable="NoCache", sibling_invalidators=False):
    out = []
    names = ["N%d" % i for i in range(len(nodes))]
    for i, n in enumerate(nodes):
        kw = dict(cachable=n.get("cachable", cachable), access=n.get("access", "RW"))
        if sibling_invalidators == "all":
            # one list for the whole structure, every node's own name in it (as a StructReg-level declaration gives),
            # rotated so that the node's own name stands at a different place for each sibling
            kw["invalidators"] = names[i // 2:] + names[:i // 2]
        elif sibling_invalidators:
            kw["invalidators"] = [x for j, x in enumerate(names) if j != i]
        en = "BigEndian" if endian else "LittleEndian"
        sg = "Signed" if n.get("sign") else "Unsigned"
        k = n["kind"]
        if n.get("implicit"):
            # the schema's defaults left unwritten: no <Endianess> is LittleEndian, no <Sign> is Unsigned
            en = None if not endian else en
            sg = None if not n.get("sign") else sg
        if k == "int":
            out.append(X.int_reg(names[i], addr, length, sign=sg, endian=en, representation=n.get("repr"), **kw))
        elif k == "float":
            out.append(X.float_reg(names[i], addr, length, endian=en, **kw))
        elif k == "string":
            out.append(X.string_reg(names[i], addr, length, **kw))
        elif k == "raw":
            out.append(X.register(names[i], addr, length, **kw))
        elif k == "masked":
            out.append(X.masked_int_reg(names[i], addr, length, n["lsb"], n["msb"], sign=sg, endian=en,
                                        bit=n["lsb"] if n.get("bit") else None, **kw))
    return out


def rust_op(op):
    k = op[0]
    if k in ("rej", "lost"):
        return "%s:%d" % (k, op[1])
    name = "N%d" % op[1]
    if k in ("v", "mn", "mx", "fv", "sv"):
        return "%s:%s" % (k, name)
    if k in ("s", "fs", "rr"):
        return "%s:%s:%d" % (k, name, op[2])
    if k in ("ss", "rw"):
        return "%s:%s:%s" % (k, name, bytes(op[2]).hex())
    raise ValueError(k)


def model_op(op):
    k = op[0]
    if k in ("rej", "lost"):
        return [2, OPC[k], op[1]]
    body = [OPC[k], op[1]]
    if k in ("s", "fs", "rr"):
        body.append(op[2])
    elif k in ("ss", "rw"):
        body += list(op[2])
    return [len(body)] + body


def reg_case(addr, length, endian, base, image, nodes, ops, flags=1, cachable="NoCache", sibling_invalidators=False,
             struct_entries=False, meta=None, port_swap=False, struct_access="RW"):
    if struct_entries:
        ents = [("N%d" % i, n["lsb"], n["msb"], n["lsb"] if n.get("bit") else None,
                 "Signed" if n.get("sign") else "Unsigned") for i, n in enumerate(nodes)]
        xml = X.document([X.struct_reg(addr, length, ents, endian="BigEndian" if endian else "LittleEndian",
                                       cachable=cachable, access=struct_access)])
    else:
        xml = X.document(render_nodes(addr, length, endian, nodes, cachable, sibling_invalidators), port_swap=port_swap)
    rline = "g %d %s %d %s %s" % (flags, xhex(xml.encode()), base, xhex(image), " ".join(rust_op(o) for o in ops))
    toks = [addr, length, endian, base, len(nodes)]
    for n in nodes:
        toks += [KIND[n["kind"]], 1 if n.get("sign") else 0, n.get("lsb", 0), n.get("msb", 0)]
    toks += [len(image)] + list(image)
    for o in ops:
        toks += model_op(o)
    m = dict(addr=addr, length=length, endian=endian, base=base, image=bytes(image), nodes=nodes, ops=ops, flags=flags)
    if meta:
        m.update(meta)
    return Case("reg", toks, m, rline=rline)


def parse_output(out, nops):
    """-> (per-op results, log entries, final memory) or None"""
    if out is None or len(out) < 2 or out in ([2], [3], [4]):
        return None
    res, i = [], 0
    for _ in range(nops):
        n = out[i]
        res.append(out[i + 1:i + 1 + n])
        i += 1 + n
    if out[i] != -7:
        return None
    nlog = out[i + 1]
    i += 2
    log = []
    for _ in range(nlog):
        if out[i] == 0:
            log.append(("R", out[i + 1], out[i + 2]))
            i += 3
        else:
            ln = out[i + 2]
            log.append(("W", out[i + 1], out[i + 3:i + 3 + ln]))
            i += 3 + ln
    if out[i] != -8:
        return None
    return res, log, out[i + 1:]


def f64_bits(x):
    return struct.unpack("<Q", struct.pack("<d", x))[0]


def bits_f64(b):
    return struct.unpack("<d", struct.pack("<Q", b))[0]


def narrow_bits(b):
    """f64 bits -> f32 bits with the C library's conversion (independent of the model)."""
    x = bits_f64(b)
    if x != x:
        return None          # NaN payloads are platform business
    try:
        return struct.unpack("<I", struct.pack("<f", x))[0]
    except OverflowError:
        return 0x7F800000 | (0x80000000 if b >> 63 else 0)


def widen_bits(b):
    x = struct.unpack("<f", struct.pack("<I", b))[0]
    if x != x:
        return None
    return f64_bits(x)
