"""Standard scripted U3V device images for the h_u3v harness (token lists) and a Python mirror of
the world used by the independent predicates."""
from vplib import xhex

ABRM, SBRM, SIRM, MANIFEST = 0, 0x10000, 0x20000, 0x30000


def pattern(n, seed):
    return bytes(((seed + 7 * i + (i >> 8)) & 255) for i in range(n))


def le(v, n):
    return bytes((v >> (8 * i)) & 255 for i in range(n))


class World:
    """Python mirror of rust/shim World memory (used to compute expectations)."""

    def __init__(self):
        self.segs = []      # (base, bytearray)
        self.toks = []

    def seg(self, base, data):
        self.segs.append((base, bytearray(data)))
        self.toks += [1, base, xhex(data)]

    def fill(self, base, n, seed):
        self.segs.append((base, bytearray(pattern(n, seed))))
        self.toks += [2, base, n, seed]

    def poke(self, addr, width, value):
        self.write(addr, le(value, width))
        self.toks += [4, addr, width, value]

    def read(self, addr, n):
        for b, m in self.segs:
            if addr >= b and addr - b + n <= len(m):
                return bytes(m[addr - b:addr - b + n])
        return None

    def write(self, addr, data):
        for b, m in self.segs:
            if addr >= b and addr - b + len(data) <= len(m):
                m[addr - b:addr - b + len(data)] = data
                return True
        return False


def std_world(max_cmd=1024, max_ack=1024, resp_ms=5, dev_cap=0, u3v_cap=1, sbrm=SBRM, sirm=SIRM, manifest=MANIFEST,
              abrm_len=0x400):
    w = World()
    w.seg(ABRM, bytes(abrm_len))
    w.seg(sbrm, bytes(0x100))
    w.seg(sirm, bytes(0x100))
    w.poke(0x1C4, 8, dev_cap)
    w.poke(0x1CC, 4, resp_ms)
    w.poke(0x1D0, 8, manifest)
    w.poke(0x1D8, 8, sbrm)
    w.poke(sbrm + 0x04, 8, u3v_cap)
    w.poke(sbrm + 0x14, 4, max_cmd)
    w.poke(sbrm + 0x18, 4, max_ack)
    w.poke(sbrm + 0x20, 8, sirm)
    return w
