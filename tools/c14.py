"""C14 — device description retrieval returns exactly the newest device XML or fails.

Real `ControlHandle::genapi` (unmodified /repo/cameleon sources compiled against the scripted USB layer
rust/shim, harness rust/h_u3v, operation 15) vs the Gallina model model/XmlFetch.v (`run_fetch`, coqc /
vm_compute) on the same token stream, plus the property's own predicate written from the property text and
the U3V manifest layout (Python hashlib / zipfile / utf-8 decoder, independent of the Rust crates and of the
model): result in {Err, text of the newest DeviceXml entry's file}, never a panic / abort, never another text;
on a well-formed device exactly the text (or exactly an error when the property demands one)."""
import hashlib
import io
import json
import sys
import zipfile

from ctlcase import OPEN, READ, GENAPI, CLOSE, RETRY, ctl_case, parse_output, show_data, std_world, le, World, WRITE
from vplib import Check, Rng, Case, _clip, zlist, xhex

U64 = 1 << 64
TAB = 0x30000
FILES = 0x40000
KNOWN = {
    "property": "C14", "status": "known",
    "site": "cameleon/src/u3v/control_handle.rs genapi(): `vec![0; file_size]`",
    "match": {"file_size_min": 1 << 31},
    "what": "known: property=C14 a manifest entry advertising an absurd file size (>= 2^31) makes genapi() allocate the "
            "whole buffer up front: >= 2^63 panics with 'capacity overflow', sizes the allocator refuses abort the "
            "process (no error is returned); the entry count is likewise unbounded (one or two device reads per "
            "advertised entry)",
}


# ---------------------------------------------------------------- the standard's manifest layout (by hand)
def entry_bytes(ver, info, addr, size, sha=None, pad=0):
    return le(ver, 4) + le(info, 4) + le(addr % U64, 8) + le(size % U64, 8) + (sha or bytes(20)) + bytes([pad]) * 20


def ver32(major, minor, sub):
    return (major << 24) | (minor << 16) | sub


def info32(ftype=0, comp=0, schema=(1, 1), reserved=0):
    return (schema[0] << 24) | (schema[1] << 16) | (comp << 10) | ((reserved & 0x7F) << 3) | ftype


def mkzip(files, method=zipfile.ZIP_DEFLATED):
    z = io.BytesIO()
    with zipfile.ZipFile(z, "w", method) as f:
        for name, data in files:
            f.writestr(name, data)
    return z.getvalue()


def py_unzip(b):
    try:
        zf = zipfile.ZipFile(io.BytesIO(bytes(b)))
    except Exception:
        return None
    out = []
    for inf in zf.infolist():
        try:
            out.append(zf.read(inf))
        except Exception:
            out.append(None)
    return out


def utf8_lossy(b):
    """Unicode 'maximal subpart' replacement (Table 3-7 of the Unicode standard), written out by hand."""
    out = bytearray()
    i, n = 0, len(b)
    while i < n:
        c = b[i]
        if c < 0x80:
            out.append(c)
            i += 1
            continue
        if 0xC2 <= c <= 0xDF:
            need, lo, hi = 1, 0x80, 0xBF
        elif c == 0xE0:
            need, lo, hi = 2, 0xA0, 0xBF
        elif 0xE1 <= c <= 0xEC or 0xEE <= c <= 0xEF:
            need, lo, hi = 2, 0x80, 0xBF
        elif c == 0xED:
            need, lo, hi = 2, 0x80, 0x9F
        elif c == 0xF0:
            need, lo, hi = 3, 0x90, 0xBF
        elif 0xF1 <= c <= 0xF3:
            need, lo, hi = 3, 0x80, 0xBF
        elif c == 0xF4:
            need, lo, hi = 3, 0x80, 0x8F
        else:
            out += b"\xef\xbf\xbd"
            i += 1
            continue
        j = i + 1
        ok = True
        for k in range(need):
            if j < n and (lo if k == 0 else 0x80) <= b[j] <= (hi if k == 0 else 0xBF):
                j += 1
            else:
                ok = False
                break
        if ok:
            out += b[i:j]
        else:
            out += b"\xef\xbf\xbd"
        i = j
    return bytes(out)


# ---------------------------------------------------------------- token stream -> device mirror
def parse_tokens(toks):
    """-> (World mirror, number of planned-fault items, ops)"""
    w = World()
    p = 0
    faults = 0
    t = list(toks)

    def bts(x):
        return bytes.fromhex(x[1:])

    while p < len(t):
        k = int(t[p]) if not str(t[p]).startswith("x") else None
        if k is None or k >= 10:
            break
        p += 1
        if k == 1:
            w.segs.append((int(t[p]), bytearray(bts(t[p + 1]))))
            p += 2
        elif k == 2:
            from u3vworld import pattern
            w.segs.append((int(t[p]), bytearray(pattern(int(t[p + 1]), int(t[p + 2])))))
            p += 3
        elif k == 4:
            w.write(int(t[p]), le(int(t[p + 2]), int(t[p + 1])))
            p += 3
        elif k == 5:
            faults += 1
            n = int(t[p + 1])
            p += 2
            for _ in range(n):
                r = int(t[p])
                p += 1
                if r in (0, 3):
                    p += 1
                elif r == 1:
                    ne = int(t[p])
                    p += 1
                    for _e in range(ne):
                        e = int(t[p])
                        p += 1
                        p += {0: 2, 1: 2, 2: 1, 3: 1, 4: 1}[e]
                elif r == 2:
                    p += 1
        elif k == 6:
            p += 1
        elif k in (7, 8):
            p += 1
    return w, faults, [x for x in t[p:]]


def manifest_of(w, max_entries=80):
    """-> (count, entries, complete) read from the mirror; an entry is a dict or None when unreadable."""
    raw = w.read(0x1D0, 8)
    if raw is None:
        return None
    tab = int.from_bytes(raw, "little")
    raw = w.read(tab, 8)
    if raw is None:
        return None
    n = int.from_bytes(raw, "little")
    ents = []

    def fld(a, k):
        if a + k > U64:
            return None
        b = w.read(a, k)
        return None if b is None else bytes(b)

    def num(b):
        return None if b is None else int.from_bytes(b, "little")

    for i in range(min(n, max_entries)):
        a = tab + 8 + 64 * i
        ents.append(dict(idx=i, ver=num(fld(a, 4)), info=num(fld(a + 4, 4)), addr=num(fld(a + 8, 8)),
                         size=num(fld(a + 16, 8)), sha=fld(a + 24, 20)))
    return n, ents


def candidates(w):
    """byte strings the device may hand to SHA-1 / unzip: the files of all readable entries"""
    m = manifest_of(w)
    out = []
    if m is None:
        return out
    for e in m[1]:
        if e["size"] is None or e["addr"] is None or e["size"] > (1 << 22):
            continue
        d = w.read(e["addr"], e["size"]) if e["size"] > 0 else b""
        if d is not None and bytes(d) not in out:
            out.append(bytes(d))
    return out


def hash_bytes(bs):
    h = 0
    for b in bs:
        h = (h * 31 + b) & 0xFFFFFFFF
    return h


def gal_bytes(b):
    return "[" + ";".join(str(x) for x in b) + "]"


def oracle_tables(w):
    st, ut, keys = [], [], set()
    for d in candidates(w):
        k = (len(d), hash_bytes(d))
        if k in keys:
            continue            # same key, other bytes: 2^-32; the model then sees the first one (reported as mismatch)
        keys.add(k)
        st.append("((%d,%d),%s)" % (k[0], k[1], gal_bytes(hashlib.sha1(d).digest())))
        u = py_unzip(d)
        if u is None:
            continue            # unknown to the table = None
        fs = ";".join("None" if f is None else "Some %s" % gal_bytes(f) for f in u)
        ut.append("((%d,%d),Some [%s])" % (k[0], k[1], fs))
    return "[" + ";".join(st) + "]", "[" + ";".join(ut) + "]"


def worlds_along(c):
    """the device memory before the history and after each WRITE of it (the host can store new files)"""
    w, _, ops = parse_tokens(c.toks)
    out = [w]
    i = 0
    while i < len(ops):
        op = int(ops[i])
        if op == WRITE:
            import copy
            w = copy.deepcopy(w)
            w.write(int(ops[i + 1]), bytes.fromhex(str(ops[i + 2])[1:]))
            out.append(w)
            i += 3
        elif op == READ:
            i += 3
        elif op == RETRY:
            i += 2
        else:
            i += 1
    return out


def oracle_tables_all(ws):
    st, ut, seen = [], [], set()
    for w in ws:
        a, b = oracle_tables(w)
        for item in a[1:-1].split(";((") if a != "[]" else []:
            item = item if item.startswith("((") else "((" + item
            if item not in seen:
                seen.add(item)
                st.append(item)
        for item in b[1:-1].split(";((") if b != "[]" else []:
            item = item if item.startswith("((") else "((" + item
            if ("u", item) not in seen:
                seen.add(("u", item))
                ut.append(item)
    return "[" + ";".join(st) + "]", "[" + ";".join(ut) + "]"


def model_term(c):
    ws = worlds_along(c)
    st, ut = oracle_tables(ws[0]) if len(ws) == 1 else oracle_tables_all(ws)
    return "run_fetch %s %s %s" % (st, ut, zlist(c.expanded()))


# ---------------------------------------------------------------- the property's predicate
def vkey(v):
    return ((v >> 24) & 0xFF, (v >> 16) & 0xFF, v & 0xFFFF)


def spec(w):
    """What the property demands for one retrieval on an opened handle over an honest device whose memory is
    the mirror.  -> ('err', why) | ('text', bytes) ; third component: entry chosen (or None)"""
    m = manifest_of(w)
    if m is None:
        return ("err", "manifest table not readable", None)
    n, ents = m
    if n > len(ents):
        return ("err", "more entries advertised than the device holds", None)
    if any(e["info"] is None for e in ents):
        return ("err", "truncated manifest table", None)
    dev = [e for e in ents if (e["info"] & 7) == 0]
    if not dev:
        return ("err", "no DeviceXml entry", None)
    if any(e["ver"] is None for e in dev):
        return ("err", "truncated manifest table", None)
    best = dev[0]
    for e in dev[1:]:
        if vkey(e["ver"]) > vkey(best["ver"]):
            best = e
    if best["addr"] is None or best["size"] is None or best["sha"] is None:
        return ("err", "truncated manifest table", best)
    if best["size"] >= (1 << 31):
        return ("err", "absurd file size", best)
    data = w.read(best["addr"], best["size"]) if best["size"] > 0 else b""
    if data is None:
        return ("err", "file not in device memory", best)
    if best["sha"] != bytes(20) and hashlib.sha1(data).digest() != best["sha"]:
        return ("err", "sha1 mismatch", best)
    comp = (best["info"] >> 10) & 0x3F
    if comp == 0:
        return ("text", utf8_lossy(data), best)
    if comp == 1:
        u = py_unzip(data)
        if u is None:
            return ("err", "corrupt archive", best)
        if len(u) != 1:
            return ("err", "archive with %d files" % len(u), best)
        if u[0] is None:
            return ("err", "unreadable archive member", best)
        return ("text", utf8_lossy(u[0]), best)
    return ("err", "unknown compression", best)


def predicate(c, out):
    m = c.meta or {}
    if out in ([3],):
        return "retrieval hangs"
    if out in ([4],) or out is None:
        return "harness process died (abort) during the retrieval"
    po = parse_output(out)
    if po is None:
        return "harness output unreadable: %r" % (_clip(out),)
    res, _events, _writes = po
    if any(r[0] == "panic" for r in res):
        return "operation %d panicked" % [r[0] for r in res].index("panic")
    w, faults, ops = parse_tokens(c.toks)
    # walk the operations
    opened = False
    i = 0
    k = 0
    sp = spec(w)
    allowed_extra = [bytes.fromhex(x) for x in m.get("also_ok", [])]
    lenient = bool(m.get("lenient")) or faults > 0
    inval = False
    mm = manifest_of(w)
    if mm is not None:
        inval = any(e["info"] is not None and (e["info"] & 7) > 1 for e in mm[1])
    while i < len(ops):
        op = int(ops[i])
        if k >= len(res):
            return "fewer results than operations"
        r = res[k]
        if op == OPEN:
            opened = r[0] == "ok" or opened
            i += 1
        elif op == CLOSE:
            opened = False
            i += 1
        elif op == RETRY:
            i += 2
        elif op == READ:
            i += 3
        elif op == WRITE:
            # the host itself changes device memory through the handle (e.g. a new file and manifest entry are
            # stored): from now on the specification is that of the new memory contents
            if opened and r[0] == "ok":
                w.write(int(ops[i + 1]), bytes.fromhex(str(ops[i + 2])[1:]))
                sp = spec(w)
                mm = manifest_of(w)
                inval = mm is not None and any(e["info"] is not None and (e["info"] & 7) > 1 for e in mm[1])
            i += 3
        elif op == GENAPI:
            i += 1
            if not opened:
                if r[0] != "err":
                    return "retrieval on a handle that is not open did not fail"
            elif r[0] == "ok":
                got = r[1]
                texts = ([sp[1]] if sp[0] == "text" else []) + allowed_extra
                if not any(list(got) == show_data(t) for t in texts):
                    if sp[0] == "err":
                        return "returned a document although %s (must be an error)" % sp[1]
                    return "returned a text that is not the newest DeviceXml entry's file (entry %d expected)" % sp[2]["idx"]
                if sp[0] == "err" and not lenient:
                    return "returned a document although %s" % sp[1]
            else:
                if sp[0] == "text" and not lenient and not inval:
                    return "failed with error class %r although entry %d holds a valid document" % (r[1], sp[2]["idx"])
        else:
            return "unknown op"
        k += 1
    return None


def matcher(f, c, out, why):
    """structural: some manifest entry of the case advertises file_size >= 2^31 (or the table >= 2^16 entries)
    and the failure is a panic / abort / hang, not a wrong document"""
    if why is None or ("panicked" not in why and "died" not in why and "hangs" not in why):
        return False
    w, _, _ = parse_tokens(c.toks)
    m = manifest_of(w)
    if m is None:
        return False
    lim = f.get("match", {}).get("file_size_min", 1 << 31)
    return any(e["size"] is not None and e["size"] >= lim for e in m[1])


# ---------------------------------------------------------------- cases
XML_A = b'<?xml version="1.0"?><RegisterDescription ModelName="A" SchemaMajorVersion="1"/>'


def doc(tag, n):
    """an ASCII document of exactly n bytes, distinguishable by tag"""
    head = ("<!--%s-->" % tag).encode()
    body = (head + b"<RegisterDescription/>" + bytes(32 + (i * 7 + len(tag)) % 90 for i in range(n)))[:n]
    return body


class Dev:
    """builder of a device image with a manifest"""

    def __init__(self, max_cmd=1024, max_ack=1024, tab=TAB):
        self.max_cmd, self.max_ack, self.tab = max_cmd, max_ack, tab
        self.entries = []     # raw 64-byte entries
        self.files = []       # (addr, bytes)
        self.next = FILES
        self.count = None
        self.tab_trunc = None

    def put(self, data, addr=None):
        if addr is None:
            addr = self.next
            self.next += (len(data) + 0x1FF) // 0x100 * 0x100
        self.files.append((addr, bytes(data)))
        return addr

    def entry(self, ver, data, ftype=0, comp=0, sha="ok", addr=None, size=None, schema=(1, 1), reserved=0, pad=0,
              store=True):
        a = self.put(data, addr) if store else (addr if addr is not None else self.next)
        s = len(data) if size is None else size
        h = bytes(20)
        if sha == "ok":
            h = hashlib.sha1(data).digest()
        elif isinstance(sha, (bytes, bytearray)):
            h = bytes(sha)
        self.entries.append(entry_bytes(ver, info32(ftype, comp, schema, reserved), a, s, h, pad))
        return a

    def world(self, extra_plans=()):
        w = std_world(self.max_cmd, self.max_ack, manifest=self.tab)
        n = len(self.entries) if self.count is None else self.count
        tb = le(n % U64, 8) + b"".join(self.entries)
        if self.tab_trunc is not None:
            tb = tb[:self.tab_trunc]
        w.seg(self.tab, tb)
        for a, d in self.files:
            if len(d):
                w.seg(a, d)
            else:
                w.seg(a, b"\0")      # an address that exists; a zero-length file reads nothing
        return w


def case(dev_or_w, ops=(OPEN, GENAPI), plans=(), fam="", **meta):
    w = dev_or_w.world() if isinstance(dev_or_w, Dev) else dev_or_w
    wt = list(w.toks) + list(plans)
    meta["fam"] = fam
    meta.setdefault("model", True)
    return ctl_case(wt, list(ops), meta)


def fault_plans(k, kind):
    """planned misbehaviour at transaction k after the 6 transactions of open()"""
    head = [6, 6 + k]
    if kind == "send":
        return head + [5, 1, 0]
    if kind == "sendbusy":
        return head + [5, 5, 0]
    if kind == "recv":
        return head + [5, -1, 1, 3, 6]
    if kind == "recvio":
        return head + [5, -1, 1, 3, 1]
    if kind == "pend3":
        return head + [5, -1, 4, 0, 1, 0, 1, 0, 1, 1, 0]
    if kind == "pend1":
        return head + [5, -1, 2, 0, 1, 1, 0]          # one pending, then the answer: must still succeed
    if kind == "status":
        return head + [5, -1, 1, 1, 1, 1, 4, 0x8006]
    if kind == "rid":
        return head + [5, -1, 1, 1, 1, 1, 10, 0x7777]
    if kind == "trunc":
        return head + [5, -1, 1, 1, 1, 2, 7]
    if kind.startswith("cut"):                       # the transfer ends early, the CCD still announces the full SCD
        return head + [5, -1, 1, 1, 1, 2, int(kind[3:])]
    if kind == "short":
        return head + [5, -1, 1, 1, 1, 4, 1]
    if kind == "long":
        return head + [5, -1, 1, 1, 1, 4, 9]
    if kind == "garbage":
        return head + [5, -1, 1, 2, xhex(b"\x00\x01\x02")]
    raise ValueError(kind)


FAULTS = ["send", "sendbusy", "recv", "recvio", "pend3", "status", "rid", "trunc", "short", "long", "garbage"]


def ntx(dev_entries_types, size, chunk):
    """transactions of a successful genapi: table address, count, per entry info (+ version), address, size,
    file chunks, hash"""
    n = 2
    for t in dev_entries_types:
        n += 2 if t == 0 else 1
    return n + 2 + -(-size // chunk) + 1


def gen_cases(ck):
    rng = Rng(ck.seed)
    quick = ck.tier == "quick"
    cases = []

    def rbytes(n):
        return bytes(rng.below(256) for _ in range(n))

    # ---- 1. boundary set: one entry, sizes 0..3 chunks x limits x plain/zip x hash ---------------------
    for max_ack in (13, 16, 64, 128, 1024, 65536 + 12):
        chunk = min(max_ack - 12, 65535)
        sizes = sorted({0, 1, 2, chunk - 1, chunk, chunk + 1, 2 * chunk, 2 * chunk + 1, 3 * chunk - 1, 3 * chunk})
        sizes = [s for s in sizes if 0 <= s <= 9000]
        for s in sizes:
            for sha in ("ok", None):
                d = Dev(max_ack=max_ack)
                d.entry(ver32(1, 0, 0), doc("s%d" % s, s), sha=sha)
                cases.append(case(d, fam="boundary sizes"))
        if max_ack >= 64:
            for method in (zipfile.ZIP_STORED, zipfile.ZIP_DEFLATED):
                for s in (0, 1, chunk, 3 * chunk + 5):
                    if s > 9000:
                        continue
                    z = mkzip([("dev.xml", doc("z%d" % s, s))], method)
                    for sha in ("ok", None):
                        d = Dev(max_ack=max_ack)
                        d.entry(ver32(1, 0, 0), z, comp=1, sha=sha)
                        cases.append(case(d, fam="boundary sizes"))
    # ---- 2. selection: 0..6 entries, both types, duplicates, unordered, sub-minor >= 256 ----------------
    vers = [ver32(1, 0, 0), ver32(1, 0, 255), ver32(1, 0, 256), ver32(1, 0, 65535), ver32(1, 1, 0), ver32(0, 255, 65535),
            ver32(2, 0, 0), ver32(255, 255, 65535), ver32(1, 255, 0), ver32(0, 0, 0), ver32(1, 0, 257), ver32(1, 1, 1)]
    nsel = 260 if quick else 3000
    for it in range(nsel):
        n = it % 7
        d = Dev(max_ack=rng.choice([64, 128, 1024]))
        pool = [rng.choice(vers) for _ in range(3)] if rng.chance(1, 2) else vers
        for j in range(n):
            ft = rng.choice([0, 0, 0, 1])
            comp = rng.choice([0, 0, 1])
            body = doc("e%d-%d" % (it, j), rng.choice([0, 5, 40, 130, 300]))
            data = mkzip([("x.xml", body)], rng.choice([zipfile.ZIP_STORED, zipfile.ZIP_DEFLATED])) if comp else body
            d.entry(rng.choice(pool), data, ftype=ft, comp=comp, sha=rng.choice(["ok", None]),
                    schema=(rng.below(256), rng.below(256)), reserved=rng.below(128), pad=rng.choice([0, 0xFF]))
        ops = rng.choice([(OPEN, GENAPI), (OPEN, GENAPI), (OPEN, GENAPI, GENAPI), (OPEN, READ, TAB, 40, GENAPI, GENAPI)])
        cases.append(case(d, ops=ops, fam="selection"))
    # all orders of three versions incl. a duplicate
    import itertools
    for perm in itertools.permutations([ver32(1, 2, 3), ver32(1, 2, 3), ver32(1, 2, 259), ver32(1, 1, 900)]):
        d = Dev(max_ack=128)
        for j, v in enumerate(perm):
            d.entry(v, doc("p%d" % j, 60 + j), sha="ok" if j % 2 else None)
        cases.append(case(d, fam="selection"))
    # a BufferXml entry with the highest version must never be chosen; only BufferXml -> error
    for order in ((0, 1), (1, 0)):
        d = Dev(max_ack=128)
        for ft in order:
            d.entry(ver32(9, 9, 9) if ft == 1 else ver32(1, 0, 0), doc("t%d" % ft, 70), ftype=ft)
        cases.append(case(d, fam="selection"))
    d = Dev()
    d.entry(ver32(1, 0, 0), doc("buf", 50), ftype=1)
    cases.append(case(d, fam="selection"))
    cases.append(case(Dev(), fam="selection"))                                   # empty table
    # handle states
    d = Dev()
    d.entry(ver32(1, 0, 0), XML_A)
    cases.append(case(d, ops=(GENAPI,), fam="handle state"))
    cases.append(case(d, ops=(OPEN, CLOSE, GENAPI), fam="handle state"))
    cases.append(case(d, ops=(OPEN, GENAPI, CLOSE, OPEN, GENAPI), fam="handle state"))
    cases.append(case(d, ops=(OPEN, READ, FILES, 200, GENAPI, READ, FILES, 30, GENAPI), fam="handle state"))
    # the packet buffer is shrunk back after the retrieval: an over-long raw acknowledge to a later read is
    # refused by the channel or not (visible in the wire log); second retrieval restores to the capacity
    for raw_len in (28, 33, 40, 49, 100, 300):
        for twice in (False, True):
            d = Dev(max_ack=1024)
            d.entry(ver32(1, 0, 0), doc("buf", 300), sha="ok")
            k = 8 + (7 if twice else 0)
            ops = (OPEN, GENAPI) + ((GENAPI,) if twice else ()) + (READ, FILES, 4)
            cases.append(case(d, ops=ops, plans=[6, 6 + k, 5, -1, 1, 2, xhex(bytes(raw_len))], fam="buffer restore",
                              lenient=True))
    # the manifest changes between two retrievals on ONE handle (also across close / open): a newer DeviceXml entry is
    # stored in another slot (the host writes the file, the entry and the new count through the handle); every
    # retrieval answers for the table as it is then, nothing about the earlier selection may be remembered
    for reopen in (False, True):
        for comp in (0, 1):
            d = Dev(max_cmd=1024, max_ack=1024)
            old_doc = doc("a-1.2.0", 300)
            new_doc = doc("b-2.0.0", 280)
            new_data = mkzip([("b.xml", new_doc)]) if comp else new_doc
            d.entry(ver32(1, 2, 0), old_doc, sha="ok")
            w0 = d.world()
            new_addr = d.next
            # (the bytes of the future file and of the second table slot exist already, as zeros)
            w0.seg(new_addr, bytes(len(new_data)))
            tab_img = le(1, 8) + d.entries[0] + bytes(64)
            w0.seg(d.tab, tab_img)
            e1 = entry_bytes(ver32(2, 0, 0), info32(0, comp, (1, 1), 0), new_addr, len(new_data),
                             hashlib.sha1(new_data).digest(), 0)
            mid = (CLOSE, OPEN) if reopen else ()
            ops = (OPEN, GENAPI, WRITE, new_addr, xhex(new_data), WRITE, d.tab + 8 + 64, xhex(e1),
                   WRITE, d.tab, xhex(le(2, 8))) + mid + (GENAPI,)
            cases.append(case(w0, ops=ops, fam="manifest changes between retrievals"))
    # table at the very top of the address space; manifest address itself hostile
    for n in (1, 2):
        top = U64 - 8 - 64 * n
        d = Dev(tab=top)
        for j in range(n):
            d.entry(ver32(1, j, 0), doc("top%d" % j, 33))
        cases.append(case(d, fam="address space"))
    # the FILE in the last bytes of the address space (its exclusive end is exactly 2^64: a legal range, read
    # completely), plain / zipped, with and without a hash, under small and large chunk limits
    for size in (1, 33, 304, 1564):
        for comp in (0, 1):
            for sha in ("ok", None):
                for lim in (64, 1024):
                    body = doc("end%d" % size, size)
                    data = mkzip([("a.xml", body)]) if comp else body
                    d = Dev(max_cmd=lim, max_ack=lim)
                    d.entry(ver32(1, 0, 0), doc("low", 40), sha="ok")
                    d.entry(ver32(2, 0, 0), data, comp=comp, sha=sha, addr=U64 - len(data))
                    cases.append(case(d, fam="address space"))
    for tabaddr in (U64 - 1, U64 - 8, U64 - 9, U64 - 72, 0x7000_0000):
        d = Dev(tab=tabaddr)
        d.entry(ver32(1, 0, 0), XML_A)
        w = std_world(1024, 1024, manifest=tabaddr)
        if tabaddr == U64 - 72:
            w.seg(tabaddr, le(2, 8) + d.entries[0])        # count 2, second entry would start at 2^64
        elif tabaddr == U64 - 8:
            w.seg(tabaddr, le(1, 8))
        for a, b in d.files:
            w.seg(a, b)
        cases.append(case(w, fam="address space", lenient=True))
    # ---- 3. invalid enumerants ------------------------------------------------------------------------
    for ft in (2, 3, 4, 5, 6, 7):
        for pos in (0, 1, 2):
            d = Dev(max_ack=128)
            for j in range(3):
                d.entry(ver32(1, j, 0), doc("i%d" % j, 40), ftype=ft if j == pos else 0)
            cases.append(case(d, fam="invalid enumerants"))
    for comp in (2, 3, 4, 32, 62, 63):
        for pos in (0, 1):
            d = Dev(max_ack=128)
            for j in range(2):
                d.entry(ver32(1, j, 0), doc("c%d" % j, 40), comp=comp if j == pos else 0)
            cases.append(case(d, fam="invalid enumerants"))
    # ---- 4. hash / archive errors the property names ---------------------------------------------------
    body = doc("h", 150)
    for flip in (0, 7, 19):
        h = bytearray(hashlib.sha1(body).digest())
        h[flip] ^= 1 << (flip % 8)
        d = Dev(max_ack=128)
        d.entry(ver32(1, 0, 0), body, sha=bytes(h))
        cases.append(case(d, fam="hash"))
    z = mkzip([("x.xml", body)])
    d = Dev(max_ack=128)
    d.entry(ver32(1, 0, 0), z, comp=1, sha=hashlib.sha1(body).digest())     # hash of the *unzipped* text: wrong
    cases.append(case(d, fam="hash"))
    for pos in range(20):                                                     # a hash that is almost absent
        h = bytearray(20)
        h[pos] = 1 << (pos % 8)
        d = Dev(max_ack=128)
        d.entry(ver32(1, 0, 0), body, sha=bytes(h))
        cases.append(case(d, fam="hash"))
    for files in ([], [("a.xml", body), ("b.xml", doc("other", 90))], [("a.xml", body)] * 2,
                  [("d/", b""), ("d/a.xml", body)]):
        for method in (zipfile.ZIP_STORED, zipfile.ZIP_DEFLATED):
            import warnings
            with warnings.catch_warnings():
                warnings.simplefilter("ignore")
                zz = mkzip(files, method)
            d = Dev(max_ack=256)
            d.entry(ver32(1, 0, 0), zz, comp=1, sha=rng.choice(["ok", None]))
            cases.append(case(d, fam="archive shape"))
    for junk in (b"", b"PK", b"not a zip archive at all", bytes(22), b"PK\x05\x06" + bytes(18), body):
        d = Dev(max_ack=128)
        d.entry(ver32(1, 0, 0), junk, comp=1, sha=None)
        cases.append(case(d, fam="archive shape"))
    # a plain file that happens to be an archive is returned as it is
    d = Dev(max_ack=128)
    d.entry(ver32(1, 0, 0), z, comp=0)
    cases.append(case(d, fam="archive shape"))
    # ---- 5. non-ASCII / ill-formed UTF-8 documents (from_utf8_lossy) ------------------------------------
    samples = ["éü", "€中", "\U0001F600\U00010000", "퟿�\U0010ffff"]
    for s in samples:
        d = Dev(max_ack=128)
        d.entry(ver32(1, 0, 0), ("<a>%s</a>" % s).encode("utf-8"))
        cases.append(case(d, fam="utf-8"))
    bad = [b"\x80", b"\xc0\x80", b"\xc2", b"\xc2A", b"\xe0\x80\x80", b"\xe0\xa0", b"\xe0\xa0A", b"\xed\xa0\x80",
           b"\xf0\x80\x80\x80", b"\xf0\x90\x80", b"\xf0\x90\x80A", b"\xf4\x90\x80\x80", b"\xf5\x80\x80\x80",
           b"\xff\xfe", b"\xe1\x80\xe1\x80\x80", b"\xf1\x80\x80\xc2\xa9", b"\xc2\xc2\xa9", b"\xef\xbf\xbd\xef\xbf"]
    for b in bad:
        for wrap in (b"%s", b"<a>%s</a>"):
            d = Dev(max_ack=128)
            d.entry(ver32(1, 0, 0), wrap % b)
            cases.append(case(d, fam="utf-8"))
    for _ in range(40 if quick else 600):
        n = rng.range(1, 24)
        alphabet = [0x41, 0x80, 0xBF, 0xC2, 0xE0, 0xA0, 0xED, 0x9F, 0xF0, 0x90, 0xF4, 0x8F, 0xF5, 0xC1, 0xEF]
        b = bytes(rng.choice(alphabet) if rng.chance(3, 4) else rng.below(256) for _ in range(n))
        d = Dev(max_ack=128)
        if rng.chance(1, 4):
            d.entry(ver32(1, 0, 0), mkzip([("x", b)]), comp=1)
        else:
            d.entry(ver32(1, 0, 0), b)
        cases.append(case(d, fam="utf-8"))
    # ---- 6. corruptions: bit flips in file / hash / table; truncated tables ------------------------------
    ncor = 150 if quick else 2500
    for it in range(ncor):
        d = Dev(max_ack=rng.choice([64, 128, 1024]))
        n = rng.range(1, 4)
        for j in range(n):
            d.entry(ver32(1, rng.below(3), rng.below(600)), doc("k%d-%d" % (it, j), rng.choice([10, 80, 200])),
                    ftype=rng.choice([0, 0, 1]), sha=rng.choice(["ok", "ok", None]))
        what = rng.choice(["file", "hash", "table", "trunc", "count"])
        if what == "file":
            k = rng.below(len(d.files))
            a, b = d.files[k]
            b = bytearray(b)
            b[rng.below(len(b))] ^= 1 << rng.below(8)
            d.files[k] = (a, bytes(b))
        elif what == "hash":
            k = rng.below(n)
            e = bytearray(d.entries[k])
            e[24 + rng.below(20)] ^= 1 << rng.below(8)
            d.entries[k] = bytes(e)
        elif what == "table":
            k = rng.below(n)
            e = bytearray(d.entries[k])
            e[rng.below(24)] ^= 1 << rng.below(8)
            d.entries[k] = bytes(e)
        elif what == "trunc":
            d.tab_trunc = rng.below(8 + 64 * n)
        else:
            d.count = rng.choice([n + 1, n + 2, n - 1, 0, 255, 65536])
        # the stored (possibly damaged) image is what the property speaks about: exact expectation applies,
        # except that a damaged table may advertise anything (absurd sizes are a separate family)
        c = case(d, fam="corruption: " + what)
        w, _, _ = parse_tokens(c.toks)
        mm = manifest_of(w)
        if mm and any(e["size"] is not None and e["size"] >= (1 << 31) for e in mm[1]):
            continue                    # the 'absurd size' family (a process abort per case) covers these
        if mm and (mm[0] > 4096 or any(e["size"] is not None and e["size"] >= (1 << 16) for e in mm[1])):
            c.meta["model"] = False     # unary fuel in the model: implementation + predicate only
        cases.append(c)
    # zip damage: Python's and Rust's zip readers need not agree on what is still readable ->
    # property only: Err, or what Python extracts, or the undamaged text; never anything else
    nz = 120 if quick else 2000
    for it in range(nz):
        body = doc("z%d" % it, rng.choice([30, 200, 700]))
        method = rng.choice([zipfile.ZIP_STORED, zipfile.ZIP_DEFLATED])
        zz = bytearray(mkzip([("device.xml", body)], method))
        where = rng.choice(["any", "dir", "dir", "data"])
        if where == "dir":
            cd = bytes(zz).rfind(b"PK\x01\x02")
            pos = rng.range(cd, len(zz) - 1)
        elif where == "data":
            pos = rng.range(30, max(31, bytes(zz).rfind(b"PK\x01\x02") - 1))
        else:
            pos = rng.below(len(zz))
        if rng.chance(1, 6):
            zz = zz[:pos]                                   # truncated archive
        else:
            zz[pos] ^= 1 << rng.below(8)
        d = Dev(max_ack=rng.choice([128, 1024]))
        d.entry(ver32(1, 0, 0), bytes(zz), comp=1, sha=None)
        cases.append(case(d, fam="corruption: zip", lenient=True, also_ok=[utf8_lossy(body).hex()], model=False))
    # ---- 7. device errors at any transaction ------------------------------------------------------------
    d0 = Dev(max_ack=64)
    d0.entry(ver32(1, 0, 0), doc("old", 60), sha="ok")
    d0.entry(ver32(1, 0, 1), doc("new", 120), sha="ok")
    total = ntx([0, 0], 120, 52)
    ks = range(total + 1)
    for k in ks:
        kinds = FAULTS if (not quick or k % 3 == 0) else [FAULTS[(k * 5 + j) % len(FAULTS)] for j in range(4)]
        for kind in kinds:
            cases.append(case(d0, plans=fault_plans(k, kind), fam="device errors"))
        cases.append(case(d0, plans=fault_plans(k, "pend1"), fam="device errors (one pending)", must_ok=True))
    dz = Dev(max_ack=128)
    dz.entry(ver32(2, 0, 0), mkzip([("x.xml", doc("zip", 400))]), comp=1, sha="ok")
    totz = 2 + 2 + 2 + 4 + 1
    for k in range(totz + 1):
        for kind in (FAULTS if not quick else [FAULTS[(k + j) % len(FAULTS)] for j in range(3)]):
            cases.append(case(dz, ops=(OPEN, GENAPI, GENAPI), plans=fault_plans(k, kind), fam="device errors"))
    # acknowledges cut short by the transport (12 header bytes intact, SCD incomplete) at every transaction of
    # the retrieval of a file WITHOUT hash: nothing but the acknowledge check stands between the leftovers
    # of earlier packets in the receive buffer and the returned document
    dn = Dev(max_ack=64)
    dn.entry(ver32(1, 0, 0), doc("old", 60), sha=None)
    dn.entry(ver32(1, 0, 1), doc("new", 120), sha=None)
    for k in range(ntx([0, 0], 120, 52) + 1):
        for cut in ((12, 13, 16, 19, 20, 30, 63) if not quick else (12, 13, 19, 30, 63)):
            cases.append(case(dn, plans=fault_plans(k, "cut%d" % cut), fam="device errors (acknowledge cut short)"))
    # retry count 1 and a pending acknowledge
    cases.append(case(d0, ops=(RETRY, 1, OPEN, GENAPI), plans=[6, 8, 5, -1, 2, 0, 1, 1, 0], fam="device errors"))
    # ---- 8. absurd sizes and counts (implementation + predicate; the model runs where it can) ------------
    for size in (1 << 31, (1 << 31) + 5, 1 << 40, (1 << 63) - 1, 1 << 63, U64 - 1):
        d = Dev(max_ack=1024)
        d.entry(ver32(1, 0, 0), XML_A, size=size, sha=None)
        cases.append(case(d, fam="absurd size", model=size >= (1 << 63)))
    for size in (1 << 63, (1 << 63) + 77):                 # an older, sane entry does not help
        d = Dev(max_ack=1024)
        d.entry(ver32(1, 0, 0), XML_A)
        d.entry(ver32(1, 0, 1), XML_A, size=size, sha=None)
        cases.append(case(d, fam="absurd size"))
    for count, model in ((1 << 16, True), (1 << 40, False), ((1 << 58) - 1, False), (1 << 58, True), (U64 - 1, True)):
        d = Dev(max_ack=1024)
        d.entry(ver32(1, 0, 0), XML_A)
        d.entry(ver32(1, 0, 1), doc("second", 100))
        d.count = count
        cases.append(case(d, fam="absurd count", model=model))
    return cases


def nontrivial(c, out):
    po = parse_output(out) if out else None
    if po is None:
        return False
    sends = [e for e in po[1] if e[0] == "send"]
    return len(sends) >= 6 + 4


def main():
    ck = Check("C14")
    ck.rule = ("real ControlHandle::genapi (unmodified /repo/cameleon sources over the scripted USB layer rust/shim, "
               "harness rust/h_u3v op 15) vs the Gallina model XmlFetch.run_fetch on the same token stream (results, wire "
               "log); SHA-1 / unzip oracles of the model = per-case tables from Python hashlib / zipfile; families: "
               "sizes 0..3 chunks x limits 13..65548 x plain/stored/deflate x hash, 0..6 entries (types, duplicate / "
               "unordered versions, sub-minor >= 256), repeated retrieval, handle states, tables at the top of the "
               "address space, invalid enumerants, hash / archive-shape errors, ill-formed UTF-8, bit flips in file / "
               "hash / table, truncated tables and wrong counts, damaged archives (predicate only), device errors at "
               "every transaction (11 kinds), absurd sizes / counts; predicate = result in {Err, text of the newest "
               "DeviceXml entry's stored file}, exact on undamaged devices; non-trivial = at least 4 transactions "
               "after open")
    ck.trusted += ["rust/shim (scripted U3V device) and its transcription in model/Control.v",
                   "Python hashlib.sha1 / zipfile as the SHA-1 / unzip oracles of the model and in the predicate; "
                   "`sha-1`, `zip` crates are not verified (oracle parameters of every theorem)",
                   "hypotheses of the theorems about DeviceControl::read (honest_reads / conforming_reads): the "
                   "subject of C06 / C07, not re-proved here",
                   "allocation failure is not modelled (known finding for absurd sizes)",
                   "tools/c14.py, tools/ctlcase.py, tools/u3vworld.py"]
    if not any(f.get("status") == "known" for f in ck.findings):
        ck.findings.append(KNOWN)       # until the entry of notes/C14.md is in KNOWN_FINDINGS.json
    ck.prove()
    ck.phase("prove")
    binary, log = ck.cargo_build("h_u3v")
    ck.phase("cargo")
    if binary is None:
        path = ck.write_replay({"kind": "build", "property": "C14", "unchecked": "correspondence via rust/h_u3v",
                                "log": log[-6000:]})
        ck.violations.append((path, True, "harness rust/h_u3v does not build against /repo"))
        ck.finish()
    if ck.replay:
        r = json.load(open(ck.replay))
        if r.get("kind") != "case":
            print(json.dumps(r, indent=1)[:4000])
            sys.exit(0)
        c = Case("ctl", r["mtoks"].split(), meta=r.get("meta") or {"lenient": True})
        impl = ck.run_impl(binary, [c.line], big_stack=True)
        w, _, _ = parse_tokens(c.toks)
        print("spec :", _clip(list(spec(w)[:2]), 12))
        print("impl :", _clip(impl[0], 200))
        why = predicate(c, impl[0])
        print("predicate:", why or "holds")
        agree = True
        if (c.meta or {}).get("model", True):
            try:
                model = ck.run_model_terms(["XmlFetch"], [model_term(c)])
                print("model:", _clip(model[0], 200))
                agree = impl[0] == model[0]
                print("agree:", agree)
            except Exception as e:          # absurd sizes: the model cannot be evaluated
                print("model: not evaluated (%s)" % str(e)[:200])
        sys.exit(0 if agree and why is None else 1)
    cases = gen_cases(ck)
    metas = {c.line: c.meta for c in cases}
    orig = ck.write_replay

    def wr(obj):
        if obj.get("case") in metas:
            obj["meta"] = metas[obj["case"]]
        return orig(obj)
    ck.write_replay = wr
    ck.phase("generate")
    impl = ck.run_impl(binary, [c.line for c in cases], jobs=16, big_stack=True)
    ck.phase("impl")
    both = [i for i, c in enumerate(cases) if c.meta.get("model", True)]
    only = [i for i, c in enumerate(cases) if not c.meta.get("model", True)]
    model = []
    for lo in range(0, len(both), 1600):        # bounded memory per coqc process
        model += ck.run_model_terms(["XmlFetch"], [model_term(cases[i]) for i in both[lo:lo + 1600]], per_eval=20,
                                    jobs=16)
    ck.phase("model")
    fams = sorted({c.meta["fam"] for c in cases})
    for fam in fams:
        ix = [i for i in both if cases[i].meta["fam"] == fam]
        if ix:
            ck.compare([cases[i] for i in ix], [impl[i] for i in ix], [model[both.index(i)] for i in ix], predicate,
                       nontrivial, matcher, family=fam)
        ix = [i for i in only if cases[i].meta["fam"] == fam]
        if ix:
            ck.compare([cases[i] for i in ix], [impl[i] for i in ix], None, predicate, nontrivial, matcher,
                       family=fam + " (implementation + predicate)")
    # every well-formed retrieval of the 'one pending' family must succeed
    for c, o in zip(cases, impl):
        if c.meta.get("must_ok"):
            po = parse_output(o) if o else None
            if po is None or po[0][-1][0] != "ok":
                path = ck.write_replay({"kind": "case", "property": "C14", "case": c.line, "ckind": "ctl",
                                        "mtoks": " ".join(c.toks), "impl": o,
                                        "predicate_failure": "one pending acknowledge made the retrieval fail"})
                ck.violations.append((path, False, "one pending acknowledge made the retrieval fail"))
    ck.finish()
