"""C05 — formula evaluation follows GenApi expression semantics and is total.

Correspondence: generated expression trees are rendered to formula text (minimal / full / random
redundant parentheses, random whitespace, XML-escaped operators, decimal / hex / float literals) and
given, with a variable environment, to the real `formula::parse` + `Expr::eval` (rust/h_formula)
and to the Gallina model (`run_fe`, model/FormulaSyntax.v + model/Formula.v, evaluated by
coqc/vm_compute with the Flocq float instance of model/FormulaFlocq.v).

Predicate (independent of the model): the AST returned by the implementation must be the generated
tree (the renderer parenthesises from the GenApi precedence table below), and the value must be
the one computed by the reference evaluator `ref_eval` below (Python integers with explicit 64-bit
wrap, Python floats = IEEE binary64, C libm through ctypes), bit for bit, NaN == NaN.
"""
import ctypes
import ctypes.util
import json
import math
import os
import struct
import subprocess
import sys

from vplib import Check, Case, Rng, VERIF, zlit, _clip

PID = "C05"
I64_MIN, I64_MAX = -(1 << 63), (1 << 63) - 1
NAN_BITS = 0x7FF8000000000000

BINOPS = ["+", "-", "*", "/", "%", "**", "<<", ">>", "&&", "||", "=", "<>", "<", "<=", ">", ">=", "&", "|", "^"]
BIN_CODE = {k: i for i, k in enumerate(BINOPS)}          # declaration order of BinOpKind
UNOPS = ["~", "ABS", "SGN", "NEG", "SIN", "COS", "TAN", "ASIN", "ACOS", "ATAN", "EXP", "LN", "LG", "SQRT", "TRUNC",
         "FLOOR", "CEIL", "ROUND"]
UN_CODE = {k: i for i, k in enumerate(UNOPS)}            # declaration order of UnOpKind
# GenApi formula grammar: precedence (higher binds tighter); binary levels 1..10 associate to the left,
# ?: and ** to the right; the operand of a prefix operator and the exponent of ** are at the prefix level.
LEVEL = {"||": 1, "&&": 2, "|": 3, "^": 4, "&": 5, "=": 6, "<>": 6, "<": 7, "<=": 7, ">": 7, ">=": 7,
         "<<": 8, ">>": 8, "+": 9, "-": 9, "*": 10, "/": 10, "%": 10, "**": 12}
L_TERNARY, L_PREFIX, L_POW, L_PRIMARY = 0, 11, 12, 13

libm = ctypes.CDLL(ctypes.util.find_library("m") or "libm.so.6")
for _n in ("sin", "cos", "tan", "asin", "acos", "atan", "exp", "log", "log10", "sqrt", "trunc", "floor", "ceil", "round"):
    getattr(libm, _n).restype = ctypes.c_double
    getattr(libm, _n).argtypes = [ctypes.c_double]
for _n in ("pow", "fmod"):
    getattr(libm, _n).restype = ctypes.c_double
    getattr(libm, _n).argtypes = [ctypes.c_double, ctypes.c_double]
LIBM1 = {"SIN": "sin", "COS": "cos", "TAN": "tan", "ASIN": "asin", "ACOS": "acos", "ATAN": "atan", "EXP": "exp",
         "LN": "log", "LG": "log10", "SQRT": "sqrt", "TRUNC": "trunc", "FLOOR": "floor", "CEIL": "ceil", "ROUND": "round"}
ORACLE1 = {"SIN", "COS", "TAN", "ASIN", "ACOS", "ATAN", "EXP", "LN", "LG"}     # looked up by the model's float instance


def f2b(f):
    if f != f:
        return NAN_BITS
    return struct.unpack("<Q", struct.pack("<d", f))[0]


def b2f(b):
    return struct.unpack("<d", struct.pack("<Q", b))[0]


def wrap(z):
    return ((z + (1 << 63)) % (1 << 64)) - (1 << 63)


# ----------------------------------------------------------------- trees --
# ("bin", op, l, r) ("un", op, e, form)  form: "prefix" (~x, -x) or "func" (NAME(x))
# ("if", c, t, f) ("int", v, "dec"|"hex") ("flt", text) ("const", "PI"|"E") ("id", name)
def ast_ints(t):
    k = t[0]
    if k == "bin":
        return [1, BIN_CODE[t[1]]] + ast_ints(t[2]) + ast_ints(t[3])
    if k == "un":
        return [2, UN_CODE[t[1]]] + ast_ints(t[2])
    if k == "if":
        return [3] + ast_ints(t[1]) + ast_ints(t[2]) + ast_ints(t[3])
    if k == "int":
        return [4, t[1]]
    if k == "flt":
        return [5, f2b(float(t[1]))]
    if k == "const":
        return [5, f2b(math.pi if t[1] == "PI" else math.e)]
    if k == "id":
        b = t[1].encode()
        return [6, len(b)] + list(b)
    raise ValueError(k)


def tree_prec(t):
    if t[0] == "if":
        return L_TERNARY
    if t[0] == "bin":
        return LEVEL[t[1]]
    if t[0] == "un" and t[3] == "prefix":
        return L_PREFIX
    return L_PRIMARY


def render(t, ctx, style, rng):
    """List of token strings.  style: 'min' | 'full' | 'rand' (min + random redundant parentheses)."""
    k = t[0]
    if k == "if":
        body = render(t[1], 1, style, rng) + ["?"] + render(t[2], 0, style, rng) + [":"] + render(t[3], 0, style, rng)
    elif k == "bin" and t[1] == "**":
        body = render(t[2], L_PRIMARY, style, rng) + ["**"] + render(t[3], L_PREFIX, style, rng)
    elif k == "bin":
        lv = LEVEL[t[1]]
        body = render(t[2], lv, style, rng) + [t[1]] + render(t[3], lv + 1, style, rng)
    elif k == "un" and t[3] == "prefix":
        body = [{"~": "~", "NEG": "-"}[t[1]]] + render(t[2], L_PREFIX, style, rng)
    elif k == "un":
        body = [t[1], "("] + render(t[2], 0, style, rng) + [")"]
    elif k == "int":
        body = [("0x%x" % t[1]) if t[2] == "hex" else ("0x%X" % t[1]) if t[2] == "HEX" else str(t[1])]
    elif k == "flt":
        body = [t[1]]
    else:
        body = [t[1]]
    leaf = k in ("int", "flt", "const", "id")
    need = tree_prec(t) < ctx
    if need or (style == "full" and not leaf) or (style == "rand" and rng.chance(1, 4)):
        body = ["("] + body + [")"]
        if style == "rand" and rng.chance(1, 8):
            body = ["("] + body + [")"]
    elif style == "rand" and ctx <= L_PREFIX and tree_prec(t) >= L_POW and rng.chance(1, 10):
        body = ["+"] + body          # unary plus is accepted in front of a power-level operand and dropped
    return body


def join_tokens(toks, rng, ws, escape):
    out = []
    for i, t in enumerate(toks):
        if escape:
            t = "".join({"&": "&amp;", "<": "&lt;", ">": "&gt;"}[ch] if ch in "&<>" and (escape == 2 or rng.chance(1, 2)) else ch
                        for ch in t)
        if ws == 3:
            return join_min_space(toks, rng, escape)
        if ws == 0:
            sep = ""
        elif ws == 1:
            sep = " "
        else:
            sep = "".join(rng.choice([" ", " ", "\t", "\n", "\r"]) for _ in range(rng.below(3)))
        out.append(sep + t if i or ws == 2 else t)
    s = "".join(out)
    if ws == 2 and rng.chance(1, 2):
        s += rng.choice([" ", "\n", "  "])
    return s


# ------------------------------------------- minimal white space (lexer) --
# Written from the lexer's greedy rules, independently of the Coq predicate needs_space: a separator is
# needed exactly when the first (entity-decoded) character of the next token would be absorbed.
IDENT_CH = set("abcdefghijklmnopqrstuvwxyzABCDEFGHIJKLMNOPQRSTUVWXYZ0123456789._")
ENTITIES = (("&amp;", "&"), ("&lt;", "<"), ("&gt;", ">"))


def decode_first(text):
    for ent, ch in ENTITIES:
        if text.startswith(ent):
            return ch
    return text[:1]


def decode_all(text):
    out = []
    while text:
        for ent, ch in ENTITIES:
            if text.startswith(ent):
                out.append(ch)
                text = text[len(ent):]
                break
        else:
            out.append(text[0])
            text = text[1:]
    return "".join(out)


def py_needs_space(a, b):
    """a, b: spelled tokens (text, possibly with entity escapes)."""
    da, w = decode_all(a), decode_first(b)
    if da == "*":
        return w == "*"
    if da == "|":
        return w == "|"
    if da == "&":
        return w == "&"
    if da == "<":
        return w in "<>="
    if da == ">":
        return w in ">="
    if da[0].isalpha():
        return w in IDENT_CH
    if da.startswith("0x"):
        return w in "0123456789abcdefABCDEF"
    if da[0] == ".":
        return w.isdigit()
    if da[0].isdigit():
        return w.isdigit() or w == "." or (da == "0" and w == "x")
    return False


def escape_token(t, rng, escape):
    if not escape:
        return t
    return "".join({"&": "&amp;", "<": "&lt;", ">": "&gt;"}[ch] if ch in "&<>" and (escape == 2 or rng.chance(1, 2)) else ch
                   for ch in t)


def join_min_space(toks, rng, escape):
    sp = [escape_token(t, rng, escape) for t in toks]
    out = []
    for i, t in enumerate(sp):
        out.append(t)
        if i + 1 < len(sp) and py_needs_space(t, sp[i + 1]):
            out.append(" ")
    return "".join(out)


SOUP_TOKENS = ["(", ")", "+", "-", "*", "**", "/", "%", "&", "&&", "|", "||", "^", "~", "=", "<>", ":", "?", "<", "<=", ">", ">=",
               "<<", ">>", "X", "Y", "x1", "amp", "lt", "gt", "a_b", "e5", "0", "7", "12", "0x1f", "0xA", "1.5", ".5", "3.", "00"]


# --------------------------------------------------- reference evaluator --
class EvalError(Exception):
    pass


class Ctx:
    def __init__(self, env):
        self.env = env            # name -> ("int", v) | ("flt", bits) | ("expr", tree)
        self.table = {}           # (code, a_bits, b_bits) -> result bits   (libm results used by the model)
        self.lits = {}            # literal text -> bits
        self.unspec = False       # an operation the property text leaves open was evaluated
        self.depth = 0


def to_float(v):
    return float(v) if isinstance(v, int) else v


def fdiv(a, b):
    if b == 0.0:
        if a != a or a == 0.0:
            return math.nan
        return math.copysign(math.inf, a) * math.copysign(1.0, b)
    return a / b


def call1(cx, name, x):
    r = getattr(libm, LIBM1[name])(x)
    if name in ORACLE1:
        cx.table[(100 + UN_CODE[name], f2b(x), 0)] = f2b(r)
    return r


def call2(cx, code, fn, a, b):
    r = getattr(libm, fn)(a, b)
    cx.table[(code, f2b(a), f2b(b))] = f2b(r)
    return r


def sat_i64(cx, v):
    """Integer operand of an integer-only operator.  A float operand is not covered by the property
    text; the evaluator continues with the saturating truncation but marks the case."""
    if isinstance(v, int):
        return v
    cx.unspec = True
    if v != v:
        return 0
    if v >= 9.3e18:
        return I64_MAX
    if v <= -9.3e18:
        return I64_MIN
    return max(I64_MIN, min(I64_MAX, int(v)))


def truthy(v):
    return v != 0


def ref_eval(cx, t):
    k = t[0]
    if k == "int":
        return t[1]
    if k == "flt":
        cx.lits[t[1]] = f2b(float(t[1]))
        return float(t[1])
    if k == "const":
        return math.pi if t[1] == "PI" else math.e
    if k == "id":
        if t[1] not in cx.env:
            raise EvalError("unknown identifier")
        e = cx.env[t[1]]
        if e[0] == "int":
            return e[1]
        if e[0] == "flt":
            return b2f(e[1])
        cx.depth += 1
        if cx.depth > 50:
            raise RecursionError
        r = ref_eval(cx, e[1])
        cx.depth -= 1
        return r
    if k == "if":
        return ref_eval(cx, t[2]) if truthy(ref_eval(cx, t[1])) else ref_eval(cx, t[3])
    if k == "un":
        v = ref_eval(cx, t[2])
        op = t[1]
        if op == "~":
            return ~sat_i64(cx, v)
        if op == "NEG":
            return wrap(-v) if isinstance(v, int) else -v
        if op == "ABS":
            return wrap(abs(v)) if isinstance(v, int) else math.fabs(v)
        if op == "SGN":
            if isinstance(v, int):
                return (v > 0) - (v < 0)
            return math.nan if v != v else math.copysign(1.0, v)
        return call1(cx, op, to_float(v))
    op = t[1]
    if op == "&&":
        return int(truthy(ref_eval(cx, t[2])) and truthy(ref_eval(cx, t[3])))
    if op == "||":
        return int(truthy(ref_eval(cx, t[2])) or truthy(ref_eval(cx, t[3])))
    a = ref_eval(cx, t[2])
    b = ref_eval(cx, t[3])
    ints = isinstance(a, int) and isinstance(b, int)
    if op == "+":
        return wrap(a + b) if ints else to_float(a) + to_float(b)
    if op == "-":
        return wrap(a - b) if ints else to_float(a) - to_float(b)
    if op == "*":
        return wrap(a * b) if ints else to_float(a) * to_float(b)
    if op == "/":
        return fdiv(to_float(a), to_float(b))
    if op == "%":
        if ints:
            if b == 0:
                raise EvalError("integer remainder by zero")
            r = abs(a) % abs(b)
            return wrap(-r if a < 0 else r)
        return call2(cx, 201, "fmod", to_float(a), to_float(b))
    if op == "**":
        if ints and b >= 0:
            return wrap(pow(a, b, 1 << 64))
        return call2(cx, 200, "pow", to_float(a), to_float(b))
    if op in ("=", "<>", "<", "<=", ">", ">="):
        x, y = (a, b) if ints else (to_float(a), to_float(b))
        return int({"=": x == y, "<>": x != y, "<": x < y, "<=": x <= y, ">": x > y, ">=": x >= y}[op])
    x, y = sat_i64(cx, a), sat_i64(cx, b)
    if op in ("<<", ">>"):
        if not 0 <= y <= 63:
            cx.unspec = True            # shift counts outside 0..63: the implementation uses the low 6 bits
        y &= 63
        return wrap(x << y) if op == "<<" else x >> y
    if op == "&":
        return x & y
    if op == "|":
        return x | y
    if op == "^":
        return x ^ y
    raise ValueError(op)


def expected(meta):
    """-> (ast ints, outcome, ctx) where outcome is ('ok', 0|1, value) | ('err',) ; ctx carries unspec + tables."""
    tree, env = meta["tree"], meta["env"]
    cx = Ctx({n: tuple(v) for n, v in env})
    try:
        v = ref_eval(cx, tree)
        out = ("ok", 0, v) if isinstance(v, int) else ("ok", 1, f2b(v))
    except EvalError:
        out = ("err",)
    return ast_ints(tree), out, cx


def split_out(out):
    """harness/model output -> (ast ints, eval part) or None"""
    if not out or out[0] != 0 or len(out) < 2:
        return None
    k = out[1]
    return out[2:2 + k], out[2 + k:]


def predicate(c, out):
    m = c.meta
    if m.get("malformed"):
        return None                      # outside the property's quantifier; only the model is compared
    if out is None or out in ([3], [4], [9]):
        return "harness died on the case: %r" % (out,)
    if out == [2]:
        return "formula::parse panicked on a well-formed formula"
    so = split_out(out)
    if so is None:
        return "unparsable harness output"
    ast, ev = so
    east, eout, cx = expected(m)
    if ast != east:
        return "parsed AST differs from the expression the text denotes under the GenApi precedence/associativity rules"
    if ev == [2]:
        return "Expr::eval panicked"
    if eout[0] == "err":
        return None if (len(ev) == 2 and ev[0] == 1) else "evaluation must report an error (unknown identifier / integer remainder by zero), got %r" % (ev,)
    if cx.unspec:
        return None if ev and ev[0] in (0, 1) else "no result"
    if ev != [0, eout[1], eout[2]]:
        return "value %r differs from the reference evaluator's %r" % (ev, [0, eout[1], eout[2]])
    return None


def nontrivial(c, out):
    so = split_out(out) if out else None
    return bool(so and so[1] and so[1][0] == 0 and len(so[0]) >= 6 and not c.meta.get("malformed"))


# ------------------------------------------------------------- Gallina side --
def zl(bs):
    return "[" + ";".join(str(b) for b in bs) + "]"


def gexpr_value(v, fops):
    if v[0] == "int":
        return "EInt %s" % zlit(v[1])
    if v[0] == "flt":
        return "EFloat %d" % v[1]
    return "env_src %s %s" % (fops, zl(v[2].encode()))


def all_lits(t, acc):
    if not t:
        return
    if t[0] == "flt":
        acc[t[1]] = f2b(float(t[1]))
    for x in t[1:]:
        if isinstance(x, (list, tuple)):
            all_lits(x, acc)


def model_term(meta):
    _, _, cx = expected_safe(meta)
    all_lits(meta.get("tree"), cx.lits)
    for _n, v in meta["env"]:
        if v[0] == "expr":
            all_lits(v[1], cx.lits)
    tbl = "[" + ";".join("(%d,%d,%d,%d)" % (k[0], k[1], k[2], r) for k, r in sorted(cx.table.items())) + "]"
    lits = "[" + ";".join("(%s,%d)" % (zl(t.encode()), b) for t, b in sorted(cx.lits.items())) + "]"
    fops = "(flocq_ops %s %s)" % (tbl, lits)
    env = "[" + ";".join("(%s, %s)" % (zl(n.encode()), gexpr_value(v, fops)) for n, v in meta["env"]) + "]"
    return "run_fe %s %s %s" % (fops, zl(meta["src"].encode()), env)


# Reference reader for texts that are not generated from a tree (malformed / token-soup families).  It is used ONLY to fill the
# model's per-case libm table when such a text happens to have a well-formed prefix; nothing is judged with it.
import re as _re
_TOK = _re.compile(r"\s*(?:(\*\*|&&|\|\||<>|<=|<<|>=|>>|[()+\-*/%&|^~=:?<>])|([A-Za-z][A-Za-z0-9._]*)|(0x[0-9a-fA-F]+)|([0-9][0-9.]*|\.[0-9]+))")
_LEVELS = [["||"], ["&&"], ["|"], ["^"], ["&"], ["=", "<>"], ["<", "<=", ">", ">="], ["<<", ">>"], ["+", "-"], ["*", "/", "%"]]


class _Reader:
    def __init__(self, text):
        self.text, self.pos, self.peeked = decode_all(text), 0, None

    def peek(self):
        if self.peeked is None:
            m = _TOK.match(self.text, self.pos)
            if not m:
                if self.text[self.pos:].strip() == "":
                    self.peeked = ("end", "")
                    return self.peeked
                raise ValueError("lex")
            self.pos = m.end()
            op, ident, hx, num = m.groups()
            self.peeked = ("op", op) if op else ("id", ident) if ident else ("hex", hx) if hx else ("num", num)
        return self.peeked

    def eat(self, op):
        if self.peek() == ("op", op):
            self.peeked = None
            return True
        return False

    def expr(self):
        c = self.level(0)
        if self.eat("?"):
            t = self.expr()
            if not self.eat(":"):
                raise ValueError("colon")
            return ("if", c, t, self.expr())
        return c

    def level(self, i):
        if i == len(_LEVELS):
            return self.unop()
        e = self.level(i + 1)
        while True:
            k, v = self.peek()
            if k == "op" and v in _LEVELS[i]:
                self.peeked = None
                e = ("bin", v, e, self.level(i + 1))
            else:
                return e

    def unop(self):
        if self.eat("~"):
            return ("un", "~", self.unop(), "prefix")
        if self.eat("-"):
            return ("un", "NEG", self.unop(), "prefix")
        self.eat("+")
        b = self.primary()
        if self.eat("**"):
            return ("bin", "**", b, self.unop())
        return b

    def primary(self):
        if self.eat("("):
            e = self.expr()
            if not self.eat(")"):
                raise ValueError("paren")
            return e
        k, v = self.peek()
        self.peeked = None
        if k == "hex":
            return ("int", int(v, 16), "hex")
        if k == "num":
            if "." not in v:
                return ("int", int(v), "dec")
            if v.count(".") != 1:
                raise ValueError("float")
            return ("flt", v)
        if k == "id":
            if v in ("PI", "E"):
                return ("const", v)
            if self.eat("("):
                if v not in UNOPS or v == "~":
                    raise ValueError("function")
                e = self.expr()
                if not self.eat(")"):
                    raise ValueError("paren")
                return ("un", v, e, "func")
            return ("id", v)
        raise ValueError("primary")


def expected_safe(meta):
    if meta.get("malformed"):
        cx = Ctx({n: tuple(v) for n, v in meta["env"]})
        for lit in meta.get("lits", []):
            cx.lits[lit] = f2b(float(lit))
        try:
            tree = _Reader(meta["src"]).expr()
            all_lits(tree, cx.lits)
            ref_eval(cx, tree)
        except Exception:
            pass
        return None, None, cx
    return expected(meta)


def rust_line(meta):
    toks = ["fe", "x" + meta["src"].encode().hex(), str(len(meta["env"]))]
    for n, v in meta["env"]:
        toks.append("x" + n.encode().hex())
        if v[0] == "int":
            toks += ["0", str(v[1])]
        elif v[0] == "flt":
            toks += ["1", str(v[1])]
        else:
            toks += ["2", "x" + v[2].encode().hex()]
    toks.append("m" + json.dumps(meta, separators=(",", ":")).encode().hex())
    return toks


def make_case(meta):
    toks = rust_line(meta)
    return Case("fe", toks[1:], meta)


def case_from_line(line):
    t = line.split()
    meta = json.loads(bytes.fromhex(t[-1][1:]).decode())
    return make_case(meta)


# --------------------------------------------------------------- generator --
INT_VALUES = [0, 1, -1, 2, -2, 3, 7, 10, 63, 64, 65, 255, 256, (1 << 31) - 1, 1 << 31, (1 << 32) - 1, 1 << 32, (1 << 32) + 1,
              (1 << 53) + 1, (1 << 62) - 1, 1 << 62, (1 << 62) + 1, I64_MAX - 1, I64_MAX, I64_MIN, I64_MIN + 1, -(1 << 62), -(1 << 31)]
INT_VALUES_Q = [0, 1, -1, 2, 3, 63, 64, (1 << 32) + 1, (1 << 53) + 1, 1 << 62, I64_MAX, I64_MIN, I64_MIN + 1, -7]
FLT_VALUES = [0.0, -0.0, 1.0, -1.0, 0.5, -0.5, 1.5, -2.5, 2.5, 3.0, 1e-310, -5e-324, 1e308, -1e308, math.inf, -math.inf, math.nan,
              9.3e18, -9.3e18, 9223372036854775807.0, 0.1, 1e16 + 2, 4.0, 63.0, 64.9, math.pi / 2]
FLT_VALUES_Q = [0.0, -0.0, 1.0, -1.5, 2.5, 1e-310, 1e308, math.inf, -math.inf, math.nan, 9.3e18, 0.1, 64.9]
NAMES = ["X", "Y", "Z", "VAR1", "Foo1.Max", "a_b", "EPS", "TO", "FROM", "P1", "Ex", "PIx", "SIN", "x.y_z9"]
FLT_TEXTS = ["0.5", "1.5", ".25", "3.", "0.1", "2.0", "10.75", "123456.789", "0.000001", ".5", "1.0", "9007199254740993.",
             "0.30000000000000004", "179769313486231570000000000000.0", "4.9", "00.50"]


def gen_tree(rng, depth, names, allow_err):
    """Random expression tree; leaves are literals, constants, variables."""
    if depth <= 0 or rng.chance(1, 6):
        k = rng.below(10)
        if k < 4 and names:
            return ("id", rng.choice(names))
        if k < 6:
            v = rng.choice([0, 1, 2, 3, 5, 8, 10, 63, 64, 100, 255, 65535, 1 << 31, (1 << 63) - 1, rng.below(1 << 16), rng.below(1 << 63)])
            return ("int", v, "dec")
        if k < 7:
            v = rng.choice([0, 1, 0xFF, 0xF0F0, 0xFF00, 0xDEADBEEF, (1 << 63) - 1, rng.below(1 << 63), rng.below(1 << 12)])
            return ("int", v, rng.choice(["hex", "HEX"]))
        if k < 9:
            return ("flt", rng.choice(FLT_TEXTS))
        return ("const", rng.choice(["PI", "E"]))
    k = rng.below(20)
    if k < 12:
        op = rng.choice(BINOPS)
        return ("bin", op, gen_tree(rng, depth - 1, names, allow_err), gen_tree(rng, depth - 1, names, allow_err))
    if k < 17:
        op = rng.choice(UNOPS)
        form = "prefix" if op == "~" else rng.choice(["prefix", "func"]) if op == "NEG" else "func"
        return ("un", op, gen_tree(rng, depth - 1, names, allow_err), form)
    return ("if", gen_tree(rng, depth - 1, names, allow_err), gen_tree(rng, depth - 1, names, allow_err),
            gen_tree(rng, depth - 1, names, allow_err))


def gen_int_tree(rng, depth, names):
    """Integer fragment: + - * % ** << >> & | ^ ~ - ABS SGN, comparisons, logical, ternary over integer leaves."""
    if depth <= 0 or rng.chance(1, 6):
        if names and rng.chance(1, 2):
            return ("id", rng.choice(names))
        return ("int", rng.choice([0, 1, 2, 3, 7, 63, 255, (1 << 32) - 1, (1 << 63) - 1, rng.below(1 << 20), rng.below(1 << 63)]),
                rng.choice(["dec", "dec", "hex"]))
    k = rng.below(20)
    if k < 13:
        op = rng.choice(["+", "-", "*", "%", "&", "|", "^", "+", "-", "*", "=", "<>", "<", "<=", ">", ">=", "&&", "||", "<<", ">>", "**"])
        l = gen_int_tree(rng, depth - 1, names)
        r = gen_int_tree(rng, depth - 1, names)
        if op in ("<<", ">>"):
            r = ("int", rng.below(64), "dec")
        if op == "**":
            r = ("int", rng.choice([0, 1, 2, 3, 5, 31, 63, 64, 65, 1000, (1 << 32) - 1]), "dec")
        return ("bin", op, l, r)
    if k < 17:
        op = rng.choice(["~", "NEG", "NEG", "ABS", "SGN"])
        form = "prefix" if op == "~" else rng.choice(["prefix", "func"]) if op == "NEG" else "func"
        return ("un", op, gen_int_tree(rng, depth - 1, names), form)
    return ("if", gen_int_tree(rng, depth - 1, names), gen_int_tree(rng, depth - 1, names), gen_int_tree(rng, depth - 1, names))


def rand_env(rng, names, ints_only=False):
    env = []
    for n in names:
        k = rng.below(10)
        if ints_only or k < 5:
            v = rng.choice(INT_VALUES + [rng.range(-100, 100), wrap(rng.next())])
            env.append([n, ["int", v]])
        elif k < 9:
            f = rng.choice(FLT_VALUES + [b2f(rng.next()), (rng.below(2000) - 1000) / 8.0])
            env.append([n, ["flt", f2b(f)]])
        else:
            # an <Expression>-style entry: a small closed expression given as text
            t = gen_tree(rng, 2, [], False)
            env.append([n, ["expr", t, join_tokens(render(t, 0, "min", rng), rng, 1, 0)]])
    return env


def mk(rng, tree, env, style=None, ws=None, escape=None):
    style = style or rng.choice(["min", "min", "full", "rand"])
    ws = rng.choice([0, 1, 2]) if ws is None else ws
    escape = rng.choice([0, 0, 1, 2]) if escape is None else escape
    src = join_tokens(render(tree, 0, style, rng), rng, ws, escape)
    return make_case({"tree": tree, "env": env, "src": src})


def gen_cases(ck):
    rng = Rng(ck.seed)
    quick = ck.tier == "quick"
    cases = []
    ivals = INT_VALUES_Q if quick else INT_VALUES
    fvals = FLT_VALUES_Q if quick else FLT_VALUES
    vals = [["int", v] for v in ivals] + [["flt", f2b(f)] for f in fvals]
    # 1. boundary layer: every binary operator on every pair of boundary values, every unary operator / function
    for op in BINOPS:
        for a in vals:
            for b in vals:
                if quick and a[0] == "flt" and b[0] == "flt" and rng.chance(1, 2):
                    continue
                tree = ("bin", op, ("id", "A"), ("id", "B"))
                cases.append(mk(rng, tree, [["A", a], ["B", b]], style="min", ws=1, escape=rng.below(3)))
    for op in UNOPS:
        for a in [["int", v] for v in INT_VALUES] + [["flt", f2b(f)] for f in FLT_VALUES]:
            forms = ["prefix"] if op == "~" else ["prefix", "func"] if op == "NEG" else ["func"]
            for form in forms:
                cases.append(mk(rng, ("un", op, ("id", "A"), form), [["A", a]], style="min", ws=0, escape=0))
    for a in vals:
        for t, f in ((("int", 7, "dec"), ("id", "U")), (("id", "U"), ("flt", "2.5"))):
            cases.append(mk(rng, ("if", ("id", "A"), t, f), [["A", a]], style="min", ws=1, escape=0))
        # short circuit: the unknown identifier U must not be evaluated when the left operand decides
        cases.append(mk(rng, ("bin", "&&", ("id", "A"), ("id", "U")), [["A", a]], style="min", ws=1, escape=2))
        cases.append(mk(rng, ("bin", "||", ("id", "A"), ("bin", "%", ("int", 1, "dec"), ("int", 0, "dec"))), [["A", a]], style="min", ws=1, escape=0))
    # 2. precedence / associativity layer: every pair of binary operators in both nestings, minimal and full parentheses
    leaves = [("id", "A"), ("id", "B"), ("id", "C")]
    penv = [["A", ["int", 13]], ["B", ["int", 5]], ["C", ["int", 3]]]
    for o1 in BINOPS:
        for o2 in BINOPS:
            for tree in (("bin", o1, ("bin", o2, leaves[0], leaves[1]), leaves[2]),
                         ("bin", o1, leaves[0], ("bin", o2, leaves[1], leaves[2]))):
                cases.append(mk(rng, tree, penv, style="min", ws=rng.below(3), escape=rng.below(3)))
                if not quick:
                    cases.append(mk(rng, tree, penv, style="full", ws=1, escape=0))
        for u in ("~", "NEG"):
            for tree in (("bin", o1, ("un", u, leaves[0], "prefix"), leaves[1]), ("bin", o1, leaves[0], ("un", u, leaves[1], "prefix")),
                         ("un", u, ("bin", o1, leaves[0], leaves[1]), "prefix")):
                cases.append(mk(rng, tree, penv, style="min", ws=rng.below(3), escape=rng.below(3)))
        for tree in (("if", ("bin", o1, leaves[0], leaves[1]), leaves[1], leaves[2]),
                     ("if", leaves[0], ("bin", o1, leaves[0], leaves[1]), ("bin", o1, leaves[1], leaves[2])),
                     ("bin", o1, ("if", leaves[0], leaves[1], leaves[2]), leaves[1]),
                     ("bin", o1, leaves[0], ("if", leaves[0], leaves[1], leaves[2]))):
            cases.append(mk(rng, tree, penv, style="min", ws=rng.below(3), escape=rng.below(3)))
    cases.append(mk(rng, ("if", leaves[0], ("if", leaves[1], leaves[0], leaves[2]), ("if", leaves[2], leaves[1], leaves[0])), penv, style="min"))
    cases.append(mk(rng, ("if", ("if", leaves[0], leaves[1], leaves[2]), leaves[1], leaves[2]), penv, style="min"))
    # 3. structured random: integer fragment over boundary environments, then the whole language
    n_int = 1200 if quick else 20000
    n_all = 2200 if quick else 40000
    for _ in range(n_int):
        names = [rng.choice(NAMES) for _ in range(rng.range(1, 3))]
        names = sorted(set(names))
        tree = gen_int_tree(rng, rng.range(1, 6), names)
        cases.append(mk(rng, tree, rand_env(rng, names, ints_only=True)))
    for _ in range(n_all):
        names = sorted(set(rng.choice(NAMES) for _ in range(rng.range(0, 4))))
        env = rand_env(rng, names)
        use = list(names)
        if rng.chance(1, 12):
            use.append("Missing")        # unknown identifier -> error unless short-circuited away
        tree = gen_tree(rng, rng.range(1, 6), use, True)
        cases.append(mk(rng, tree, env))
    # 3b. no white space at all / white space only where the lexer needs it: every operator pair in both nestings and the
    #     unary / ternary / function / redundant-parenthesis / unary-plus combinations, raw, mixed and fully escaped
    for o1 in BINOPS:
        for o2 in BINOPS:
            for tree in (("bin", o1, ("bin", o2, leaves[0], ("int", 7, "dec")), ("flt", ".5")),
                         ("bin", o1, ("int", 0, "dec"), ("bin", o2, ("un", "NEG", leaves[1], "prefix"), ("int", 31, "hex")))):
                esc = rng.below(3)
                cases.append(mk(rng, tree, penv, style="min", ws=3, escape=esc))
                if not quick:
                    cases.append(mk(rng, tree, penv, style="rand", ws=0, escape=esc))
        for tree in (("if", ("bin", o1, leaves[0], leaves[1]), ("un", "ABS", leaves[1], "func"), ("un", "~", leaves[2], "prefix")),
                     ("un", "NEG", ("bin", o1, leaves[0], ("flt", "3.")), "func")):
            cases.append(mk(rng, tree, penv, style="rand", ws=3, escape=rng.below(3)))
    for _ in range(300 if quick else 6000):
        names = sorted(set(rng.choice(NAMES) for _ in range(rng.range(0, 3))))
        tree = gen_tree(rng, rng.range(1, 5), names, False)
        cases.append(mk(rng, tree, rand_env(rng, names), style=rng.choice(["min", "rand", "full"]), ws=3, escape=rng.below(3)))
    # 4. malformed / outside the grammar: only model == implementation is compared
    for src, lits in MALFORMED:
        cases.append(make_case({"tree": None, "env": [], "src": src, "malformed": 1, "lits": lits}))
    for _ in range(60 if quick else 600):
        # integer fragment only: what survives the mutation as a valid formula needs no float oracle table
        t = gen_int_tree(rng, 3, ["X"])
        toks = render(t, 0, "min", rng)
        k = rng.below(len(toks))
        mut = rng.below(4)
        if mut == 0:
            del toks[k]
        elif mut == 1:
            toks.insert(k, rng.choice([")", "(", "*", "?", ":", "$", "#", "1", "X", "FOO", "(", "0x", ".", "1.2.3", "99999999999999999999"]))
        elif mut == 2:
            toks = toks[:k]
        else:
            toks[k] = rng.choice(["@", "!", "==", "FOO(", "_x", "'"])
        src = join_tokens(toks, rng, 1, 0)
        lits = sorted({x for x in toks if is_float_text(x)})
        cases.append(make_case({"tree": None, "env": [["X", ["int", 3]]], "src": src, "malformed": 1, "lits": lits}))
    # 5. token soup rendered with minimal white space: arbitrary token sequences after a leading operand; formula::parse reads
    #    an expression prefix (or panics) and peeks one more token, so this exercises the lexer on adjacent tokens of every
    #    kind (model == implementation only)
    for _ in range(400 if quick else 6000):
        toks = [rng.choice(["X", "7", "0", "0x1f", ".5", "(X)", "1.5"])] + [rng.choice(SOUP_TOKENS) for _ in range(rng.range(1, 6))]
        if toks[0] == "(X)":
            toks = ["(", "X", ")"] + toks[1:]
        src = join_min_space(toks, rng, rng.below(3))
        if rng.chance(1, 6):
            src = "".join(escape_token(t, rng, rng.below(3)) for t in toks)      # and with no separator at all
        lits = sorted({x for x in toks if is_float_text(x)} | {y for y in re_float_texts(src)})
        cases.append(make_case({"tree": None, "env": [["X", ["int", 3]], ["Y", ["int", 5]]], "src": src, "malformed": 1, "lits": lits}))
    return cases


def re_float_texts(src):
    """Every maximal digit/dot run of the source with exactly one dot (what the lexer may hand to f64::from_str), and the
    `.digits` runs: the model's literal table must know them all."""
    import re
    out = set()
    for m in re.finditer(r"[0-9][0-9.]*|\.[0-9]+", src):
        t = m.group(0)
        if t.count(".") == 1 and len(t) > 1:
            out.add(t)
    for m in re.finditer(r"\.[0-9]+", src):
        out.add(m.group(0))
    return out


def is_float_text(x):
    return x.count(".") == 1 and len(x) > 1 and all(ch in "0123456789." for ch in x)


MALFORMED = [("", []), ("   ", []), ("1 2 $", []), ("1 $", []), ("0x", []), ("0xFFFFFFFFFFFFFFFF", []), ("9223372036854775808", []),
             ("(1", []), ("FOO(1)", []), ("1 ? 2", []), ("1.2.3", []), (".", []), ("++1", []), ("+-1", []), ("-+1", []),
             ("1 +", []), ("X Y", []), ("E(1)", []), ("PI", []), ("1e5", []), ("1 2", []), ("2 ** +1", []), ("_a", []), ("a_", []),
             ("SIN 1", []), ("SIN(1", []), ("()", []), (")", []), ("1)", []), ("1 ? 2 : ", []), ("&amp", []), ("1 &lt 2", []),
             ("1 &amp;amp; 2", []), ("1 = = 2", []), ("1 < > 2", []), ("0X10", []), ("1.5.", ["1.5"]), ("..5", []), ("1 .5", [".5"]),
             ("NEG(-1)", []), ("SGN(2)", []), ("sin(1)", []), ("0x1G", []), ("1 ? 2 : 3 : 4", []), ("~", []), ("- ", []),
             ("\t1\n+\r2 ", []), ("1 &amp;&amp; 0", []), ("1 &amp;& 0", []), ("3 &gt;&gt; 1", []), ("3 &gt;= 1", []), ("3 &lt;&gt; 1", [])]


# -------------------------------------------------------------------- main --
def run(ck, binary, cases):
    impl = ck.run_impl(binary, [c.line for c in cases])
    ck.phase("impl")
    terms = [model_term(c.meta) for c in cases]
    model = ck.run_model_terms(["Outcome", "Formula", "FormulaSyntax", "FormulaFlocq"], terms, per_eval=100)
    ck.phase("model")
    return impl, model


def main():
    ck = Check(PID)
    ck.rule = ("expression trees (depth <= 6 random; all operator pairs in both nestings; every operator and function on "
               "all pairs of boundary values: i64 0, +-1, MIN, MAX, 2^k+-1, f64 +-0, +-inf, NaN, subnormal, huge) rendered with "
               "minimal / full / random redundant parentheses, random whitespace, &amp; &lt; &gt; escapes, decimal / hex / "
               "float literals, unary plus; environments of integer, float and expression entries; real formula::parse + "
               "Expr::eval vs the Gallina model (lazy lexer, fuel-indexed parser, eval with Flocq binary64 and per-case libm "
               "tables); predicate = AST equals the generated tree and value equals the Python reference evaluator's bit for "
               "bit (NaN == NaN); non-trivial = Ok value and an AST of >= 6 integers")
    ck.trusted += ["tools/translate_funcs.py (regex translator of the function / constant / operator tables of formula.rs)",
                   "C libm (through Rust std on the implementation side, through ctypes in the predicate and the model's "
                   "per-case oracle table) and Python float() as correctly rounded decimal -> binary64 conversion",
                   "Flocq 4 binary64 operations are used only to run the model in the correspondence; no theorem depends on them"]
    rc = subprocess.run([sys.executable, os.path.join(VERIF, "tools/translate_funcs.py")], capture_output=True, text=True)
    if rc.returncode != 0:
        path = ck.write_replay({"kind": "translator", "property": PID, "unchecked": "gen/FuncTable.v", "log": rc.stdout + rc.stderr})
        ck.violations.append((path, True, "function table of formula.rs no longer has the expected shape: " + rc.stdout.strip()[:200]))
    ck.prove(extra_targets=["theories/model/FormulaFlocq.vo"])
    ck.phase("prove")
    binary, log = ck.cargo_build("h_formula")
    ck.phase("cargo")
    if binary is None:
        path = ck.write_replay({"kind": "build", "property": PID, "unchecked": "correspondence via rust/h_formula", "log": log[-6000:]})
        ck.violations.append((path, True, "harness rust/h_formula does not build against the repository: correspondence cannot be established"))
        ck.finish()
    if ck.replay:
        r = json.load(open(ck.replay))
        if r.get("kind") != "case":
            print(json.dumps(r, indent=1)[:4000])
            sys.exit(0)
        c = case_from_line(r["case"])
        impl, model = run(ck, binary, [c])
        print("source   :", repr(c.meta["src"]))
        print("env      :", c.meta["env"])
        print("impl     :", _clip(impl[0], 400))
        print("model    :", _clip(model[0], 400))
        print("predicate:", predicate(c, impl[0]) or "holds")
        ck.compare([c], impl, model, predicate, nontrivial)
        ck.finish()
    cases = gen_cases(ck)
    ck.phase("generate")
    impl, model = run(ck, binary, cases)
    wf = [i for i, c in enumerate(cases) if not c.meta.get("malformed")]
    mf = [i for i, c in enumerate(cases) if c.meta.get("malformed")]
    ck.compare([cases[i] for i in wf], [impl[i] for i in wf], [model[i] for i in wf], predicate, nontrivial,
               family="well-formed formulas")
    ck.compare([cases[i] for i in mf], [impl[i] for i in mf], [model[i] for i in mf], predicate, nontrivial,
               family="malformed formulas (model = implementation only)")
    ck.dist["unspecified_by_property(float operand of integer operator / shift count)"] = sum(
        1 for i in wf if expected(cases[i].meta)[2].unspec)
    ck.finish()


if __name__ == "__main__":
    main()
