#!/usr/bin/env python3
"""tools/translate_bitmask.py -- CODE translator for `impl BitMask` of genapi/src/masked_int_reg.rs.

The seven methods lsb / msb / mask / min / max / apply_mask / masked_value are parsed (a small recursive-descent parser
for the subset of Rust expressions they use), type-checked (i64 / u64 / usize / bool / Sign / Endianness, integer
literals take the type their context demands) and emitted as Gallina functions over lib/RustInt.v, with the DEBUG-build
semantics of every operation (usize `-` and `*` and i64 `-` / unary `-` panic on overflow, shifts panic when the
amount is not below the width, `as` reinterprets the bit pattern):

    coq/theories/gen/BitMaskSrc.v    src_bm_lsb src_bm_msb src_bm_mask src_bm_min src_bm_max src_bm_apply_mask
                                     src_bm_masked_value

`self` becomes the two parameters raw_lsb raw_msb (SingleBit(b) is raw_lsb = raw_msb = b: the translator checks that
lsb() / msb() read the variant fields with the `SingleBit(x) | Range { x, .. }` pattern); Sign::Signed is 1,
Sign::Unsigned 0, Endianness::LE 0, Endianness::BE 1 (the numbering of the harnesses).  Anything the parser does not
accept raises ShapeError - the check then reports the proof obligation `C02_*_from_source` as broken instead of
translating something else.  proofs/P_C02s.v proves that the translated functions are the hand-written model
model/BitField.v on every field the model is used for."""
import os, re, sys

HERE = os.path.dirname(os.path.abspath(__file__))
OUT = os.path.join(os.path.dirname(HERE), "coq", "theories", "gen", "BitMaskSrc.v")


class ShapeError(Exception):
    pass


def strip_comments(s):
    s = re.sub(r"/\*.*?\*/", "", s, flags=re.S)
    return re.sub(r"//[^\n]*", "", s)


def block_after(src, start):
    i = src.index("{", start)
    depth = 0
    for j in range(i, len(src)):
        if src[j] == "{":
            depth += 1
        elif src[j] == "}":
            depth -= 1
            if depth == 0:
                return src[i + 1:j], j + 1
    raise ShapeError("unbalanced braces")


TOK = re.compile(r"""\s*(
    "(?:[^"\\]|\\.)*" |
    [A-Za-z_][A-Za-z0-9_]*(?:::[A-Za-z_][A-Za-z0-9_]*)* |
    \d[\d_]*(?:_?[iu](?:8|16|32|64|size))? |
    => | == | != | <= | >= | << | >> | \|\| | && | \.\. |
    [(){},;.|&^!\-+*<>=]
)""", re.X)


def tokenize(s):
    out, pos = [], 0
    s = s.strip()
    while pos < len(s):
        m = TOK.match(s, pos)
        if not m:
            raise ShapeError("cannot tokenize %r" % s[pos:pos + 40])
        out.append(m.group(1))
        pos = m.end()
        while pos < len(s) and s[pos].isspace():
            pos += 1
    return out


INT = {"i64": ("s", 64), "u64": ("u", 64), "usize": ("u", 64), "i32": ("s", 32)}
ENUMS = {"Sign": {"Sign::Signed": 1, "Sign::Unsigned": 0}, "Endianness": {"Endianness::LE": 0, "Endianness::BE": 1}}
ERRS = {"GenApiError::invalid_data": 33}      # error class numbers of the harnesses (rust/h_genapi, model/RegCodec.v)
CONSTS = {"i64::MIN": ("(- 2 ^ 63)", "i64"), "i64::MAX": ("(2 ^ 63 - 1)", "i64")}


# ------------------------------------------------------------------------------------------------ parser --
class Parser:
    def __init__(self, toks):
        self.t, self.i = toks, 0

    def peek(self, k=0):
        return self.t[self.i + k] if self.i + k < len(self.t) else None

    def eat(self, x=None):
        tok = self.peek()
        if tok is None or (x is not None and tok != x):
            raise ShapeError("expected %r, found %r near %r" % (x, tok, " ".join(self.t[max(0, self.i - 6):self.i + 6])))
        self.i += 1
        return tok

    # block := stmt* [expr]
    def block(self):
        stmts = []
        while self.peek() not in ("}", None):
            if self.peek() == "let":
                self.eat("let")
                if self.peek() == "(":
                    self.eat("(")
                    names = [self.eat()]
                    while self.peek() == ",":
                        self.eat(",")
                        names.append(self.eat())
                    self.eat(")")
                    pat = tuple(names)
                else:
                    pat = self.eat()
                    if not re.fullmatch(r"[a-z_][a-z0-9_]*", pat):
                        raise ShapeError("let pattern %r" % pat)
                self.eat("=")
                e = self.expr()
                self.eat(";")
                stmts.append(("let", pat, e))
                continue
            e = self.expr()
            if self.peek() == ";":
                self.eat(";")
                if e[0] not in ("return",):
                    raise ShapeError("expression statement %r is not a return" % (e[0],))
                stmts.append(("expr", e))
                continue
            if self.peek() == "}" or self.peek() is None:
                stmts.append(("tail", e))
                break
            # `if c { return ..; }` without a semicolon, followed by more statements
            if e[0] == "if" and e[3] is None:
                stmts.append(("expr", e))
                continue
            raise ShapeError("statement not understood near %r" % self.peek())
        return ("block", stmts)

    LEVELS = [["||"], ["&&"], ["==", "!=", "<", ">", "<=", ">="], ["|"], ["^"], ["&"], ["<<", ">>"], ["+", "-"], ["*"]]

    def expr(self, lvl=0):
        if lvl == len(self.LEVELS):
            return self.cast()
        e = self.expr(lvl + 1)
        while self.peek() in self.LEVELS[lvl]:
            # `|` of a match-arm pattern never reaches here: patterns are parsed separately
            op = self.eat()
            r = self.expr(lvl + 1)
            e = ("bin", op, e, r)
            if lvl == 2:
                break           # comparisons do not chain
        return e

    def cast(self):
        e = self.unary()
        while self.peek() == "as":
            self.eat("as")
            ty = self.eat()
            if ty not in INT:
                raise ShapeError("cast to %r" % ty)
            e = ("as", e, ty)
        return e

    def unary(self):
        if self.peek() in ("-", "!"):
            op = self.eat()
            return ("un", op, self.unary())
        return self.postfix()

    def postfix(self):
        e = self.atom()
        while self.peek() == ".":
            self.eat(".")
            name = self.eat()
            if self.peek() == "(":
                args = self.args()
                e = ("mcall", e, name, args)
            else:
                e = ("field", e, name)
        return e

    def args(self):
        self.eat("(")
        out = []
        while self.peek() != ")":
            out.append(self.expr())
            if self.peek() == ",":
                self.eat(",")
        self.eat(")")
        return out

    def atom(self):
        tok = self.eat()
        if tok == "(":
            e = self.expr()
            if self.peek() == ",":
                items = [e]
                while self.peek() == ",":
                    self.eat(",")
                    if self.peek() == ")":
                        break
                    items.append(self.expr())
                self.eat(")")
                return ("tuple", items)
            self.eat(")")
            return ("paren", e)
        if tok == "{":
            b = self.block()
            self.eat("}")
            return b
        if tok == "if":
            c = self.expr()
            self.eat("{")
            a = self.block()
            self.eat("}")
            b = None
            if self.peek() == "else":
                self.eat("else")
                self.eat("{")
                b = self.block()
                self.eat("}")
            return ("if", c, a, b)
        if tok == "match":
            s = self.expr()
            self.eat("{")
            arms = []
            while self.peek() != "}":
                pats = [self.pattern()]
                while self.peek() == "|":
                    self.eat("|")
                    pats.append(self.pattern())
                guard = None
                if self.peek() == "if":
                    self.eat("if")
                    guard = self.expr()
                self.eat("=>")
                body = self.expr()
                if self.peek() == ",":
                    self.eat(",")
                arms.append((pats, guard, body))
            self.eat("}")
            return ("match", s, arms)
        if tok == "return":
            return ("return", self.expr())
        if tok in ("Ok", "Err"):
            a = self.args()
            if len(a) != 1:
                raise ShapeError("%s with %d arguments" % (tok, len(a)))
            return (tok.lower(), a[0])
        if tok.startswith('"'):
            return ("str", tok)
        m = re.fullmatch(r"(\d[\d_]*?)(?:_?([iu](?:8|16|32|64|size)))?", tok)
        if m:
            return ("lit", int(m.group(1).replace("_", "")), m.group(2))
        if re.fullmatch(r"[A-Za-z_][A-Za-z0-9_:]*", tok):
            if self.peek() == "(" and "::" in tok:
                return ("pcall", tok, self.args())
            return ("id", tok)
        raise ShapeError("unexpected token %r" % tok)

    def pattern(self):
        tok = self.eat()
        if tok == "_":
            return ("wild",)
        if tok in ("Self::SingleBit",):
            self.eat("(")
            v = self.eat()
            self.eat(")")
            return ("single", v)
        if tok == "Self::Range":
            self.eat("{")
            v = self.eat()
            self.eat(",")
            self.eat("..")
            self.eat("}")
            return ("range", v)
        for en, vs in ENUMS.items():
            if tok in vs:
                return ("enum", en, tok)
        raise ShapeError("pattern %r" % tok)


# ------------------------------------------------------------------------------------- typing + emission --
class Gen:
    """compiles an expression to (coq term of type `outcome T`, T) where T is 'i64' | 'u64' | 'usize' | 'bool' |
    'Sign' | 'Endianness' | ('tuple', [..]); `want` is the type demanded by the context (None: unknown)"""

    def __init__(self, sigs, ret, result):
        self.sigs, self.ret, self.result = sigs, ret, result
        self.n = 0

    def fresh(self, base="t"):
        self.n += 1
        return "%s%d_" % (base, self.n)

    def is_untyped_lit(self, e):
        k = e[0]
        if k == "lit":
            return e[2] is None
        if k == "paren":
            return self.is_untyped_lit(e[1])
        if k == "un" and e[1] == "-":
            return self.is_untyped_lit(e[2])
        if k == "bin" and e[1] in ("<<", ">>"):
            return self.is_untyped_lit(e[2])
        if k == "bin" and e[1] in ("+", "-", "*", "&", "|", "^"):
            return self.is_untyped_lit(e[2]) and self.is_untyped_lit(e[3])
        return False

    def mentions_guessed(self, e, env):
        if e[0] == "id":
            return e[1] in env and len(env[e[1]]) > 2 and env[e[1]][2]
        return any(self.mentions_guessed(x, env) for x in e[1:] if isinstance(x, tuple) and x and isinstance(x[0], str))

    def int_ops(self, ty):
        if ty not in INT:
            raise ShapeError("integer operation at type %r" % (ty,))
        return INT[ty]

    def binop(self, op, a, b, ty, bty=None):
        sg, w = self.int_ops(ty)
        if op == "-":
            return "%s %d %s %s" % ("i_sub" if sg == "s" else "r_sub", w, a, b)
        if op == "+":
            return "%s %d %s %s" % ("i_add" if sg == "s" else "r_add", w, a, b)
        if op == "*":
            return "%s %d %s %s" % ("i_mul" if sg == "s" else "r_mul", w, a, b)
        if op == "<<":
            return "%s %d %s %s" % ("i_shl" if sg == "s" else "r_shl", w, a, b)
        if op == ">>":
            return "%s %d %s %s" % ("i_shr" if sg == "s" else "r_shr", w, a, b)
        f = {"&": "and", "|": "or", "^": "xor"}[op]
        if sg == "s":
            return "Ok (i_%s %d %s %s)" % (f, w, a, b)
        return "Ok (Z.l%s %s %s)" % (f, a, b)

    def expr(self, e, env, want=None):
        k = e[0]
        if k == "paren":
            return self.expr(e[1], env, want)
        if k == "lit":
            ty = e[2] or want
            if ty is None:
                raise ShapeError("the type of the literal %d cannot be determined" % e[1])
            if ty not in INT:
                raise ShapeError("literal %d at type %r" % (e[1], ty))
            sg, w = INT[ty]
            if not (0 <= e[1] < 2 ** (w - (1 if sg == "s" else 0))):
                raise ShapeError("literal %d does not fit %s" % (e[1], ty))
            return ("Ok %d" % e[1], ty)
        if k == "id":
            if e[1] in env:
                return ("Ok %s" % env[e[1]][0], env[e[1]][1])
            if e[1] in CONSTS:
                return ("Ok %s" % CONSTS[e[1]][0], CONSTS[e[1]][1])
            for en, vs in ENUMS.items():
                if e[1] in vs:
                    return ("Ok %d" % vs[e[1]], en)
            raise ShapeError("unknown identifier %r" % e[1])
        if k == "tuple":
            wants = want[1] if isinstance(want, tuple) else [None] * len(e[1])
            parts = [self.expr(x, env, w_) for x, w_ in zip(e[1], wants)]
            names = [self.fresh() for _ in parts]
            code = "Ok (%s)" % ", ".join(names)
            for n_, p in reversed(list(zip(names, parts))):
                code = "let? %s := %s in %s" % (n_, p[0], code)
            return (code, ("tuple", [p[1] for p in parts]))
        if k == "as":
            # the operand of a cast gets no type from the cast: an integer literal that nothing else constrains is an
            # i32 (rustc's fallback), e.g. `(1 << n) as i64` shifts an i32
            if self.mentions_guessed(e[1], env):
                raise ShapeError("cast of a value whose type the translator only guessed")
            src = self.expr(e[1], env, None if not self.is_untyped_lit(e[1]) else "i32")
            sty, dty = src[1], e[2]
            (ss, sw_), (ds, dw) = self.int_ops(sty), self.int_ops(dty)
            x = self.fresh()
            if ds == "u":
                conv = "r_cast %d %s" % (dw, x)           # two's complement pattern, truncated
            else:
                conv = "sw %d %s" % (dw, x)
            return ("let? %s := %s in Ok (%s)" % (x, src[0], conv), dty)
        if k == "un":
            if e[1] == "-":
                a = self.expr(e[2], env, want)
                sg, w = self.int_ops(a[1])
                if sg != "s":
                    raise ShapeError("unary minus at type %r" % a[1])
                x = self.fresh()
                return ("let? %s := %s in i_neg %d %s" % (x, a[0], w, x), a[1])
            a = self.expr(e[2], env, want)
            x = self.fresh()
            if a[1] == "bool":
                return ("let? %s := %s in Ok (negb %s)" % (x, a[0], x), "bool")
            sg, w = self.int_ops(a[1])
            return ("let? %s := %s in Ok (%s %d %s)" % (x, a[0], "i_not" if sg == "s" else "r_not", w, x), a[1])
        if k == "bin":
            op, l, r = e[1], e[2], e[3]
            if op in ("||", "&&"):
                a = self.expr(l, env, "bool")
                b = self.expr(r, env, "bool")
                if a[1] != "bool" or b[1] != "bool":
                    raise ShapeError("%s on non-booleans" % op)
                x = self.fresh()
                if op == "||":
                    return ("let? %s := %s in if %s then Ok true else %s" % (x, a[0], x, paren(b[0])), "bool")
                return ("let? %s := %s in if %s then %s else Ok false" % (x, a[0], x, paren(b[0])), "bool")
            if op in ("<<", ">>"):
                a = self.expr(l, env, want)
                b = self.expr(r, env, None if not self.is_untyped_lit(r) else "u64")   # rustc: i32, any width works the same
                self.int_ops(b[1])
                x, y = self.fresh(), self.fresh()
                return ("let? %s := %s in let? %s := %s in %s" % (x, a[0], y, b[0], self.binop(op, x, y, a[1])), a[1])
            if op in ("==", "!=", "<", ">", "<=", ">="):
                if self.is_untyped_lit(l) and not self.is_untyped_lit(r):
                    b = self.expr(r, env, None)
                    a = self.expr(l, env, b[1])
                else:
                    a = self.expr(l, env, None)
                    b = self.expr(r, env, a[1])
                if a[1] != b[1]:
                    raise ShapeError("comparison of %r with %r" % (a[1], b[1]))
                x, y = self.fresh(), self.fresh()
                c = {"==": "%s =? %s", "!=": "negb (%s =? %s)", "<": "%s <? %s", ">": "%s >? %s", "<=": "%s <=? %s",
                     ">=": "%s >=? %s"}[op] % (x, y)
                return ("let? %s := %s in let? %s := %s in Ok (%s)" % (x, a[0], y, b[0], c), "bool")
            # arithmetic / bitwise: both operands of one type
            if self.is_untyped_lit(l) and not self.is_untyped_lit(r):
                b = self.expr(r, env, want)
                a = self.expr(l, env, b[1])
            else:
                a = self.expr(l, env, want)
                b = self.expr(r, env, a[1])
            if a[1] != b[1]:
                raise ShapeError("operands of %s have types %r and %r" % (op, a[1], b[1]))
            x, y = self.fresh(), self.fresh()
            return ("let? %s := %s in let? %s := %s in %s" % (x, a[0], y, b[0], self.binop(op, x, y, a[1])), a[1])
        if k == "mcall":
            if e[1] != ("id", "self"):
                raise ShapeError("method call on something other than self")
            if e[2] not in self.sigs:
                raise ShapeError("call of unknown method %r" % e[2])
            params, rty, res = self.sigs[e[2]]
            if len(params) != len(e[3]):
                raise ShapeError("arity of %s" % e[2])
            if res:
                raise ShapeError("call of a fallible method %r without `?`" % e[2])
            names, code = [], None
            parts = []
            for (pn, pt), a in zip(params, e[3]):
                p = self.expr(a, env, pt)
                if p[1] != pt:
                    raise ShapeError("argument %s of %s has type %r, not %r" % (pn, e[2], p[1], pt))
                parts.append(p)
                names.append(self.fresh())
            code = "src_bm_%s raw_lsb raw_msb %s" % (e[2], " ".join(names))
            for n_, p in reversed(list(zip(names, parts))):
                code = "let? %s := %s in %s" % (n_, p[0], code)
            return (code, rty)
        if k == "if":
            c = self.expr(e[1], env, "bool")
            if c[1] != "bool":
                raise ShapeError("condition of type %r" % (c[1],))
            if e[3] is None:
                raise ShapeError("`if` without else in expression position")
            a = self.block(e[2], env, want)
            b = self.block(e[3], env, want if a[1] is None else a[1])
            if a[1] != b[1]:
                raise ShapeError("branches of types %r / %r" % (a[1], b[1]))
            x = self.fresh("c")
            return ("let? %s := %s in if %s then %s else %s" % (x, c[0], x, paren(a[0]), paren(b[0])), a[1])
        if k == "block":
            return self.block(e, env, want)
        if k == "match":
            return self.match(e, env, want)
        if k == "ok":
            if not self.result:
                raise ShapeError("Ok(..) in a function that does not return a Result")
            return self.expr(e[1], env, self.ret)
        if k == "err":
            return (self.err(e[1]), self.ret)
        if k == "return":
            raise ShapeError("`return` in expression position")
        raise ShapeError("expression kind %r" % k)

    def err(self, e):
        if not self.result:
            raise ShapeError("Err(..) in a function that does not return a Result")
        if e[0] == "pcall" and e[1] in ERRS:
            return "Err %d" % ERRS[e[1]]
        raise ShapeError("error constructor %r" % (e[1] if len(e) > 1 else e,))

    def match(self, e, env, want):
        s = self.expr(e[1], env, None)
        sv = self.fresh("m")
        if s[1] not in ENUMS:
            raise ShapeError("match on a value of type %r" % (s[1],))
        vs = ENUMS[s[1]]
        arms = e[2]
        seen, code_arms, ty = set(), [], None
        exhaustive = False
        for pats, guard, body in arms:
            if len(pats) != 1:
                raise ShapeError("or-pattern in an enum match")
            p = pats[0]
            b = self.expr(body, env, want if ty is None else ty)
            if ty is None:
                ty = b[1]
            elif ty != b[1]:
                raise ShapeError("match arms of types %r / %r" % (ty, b[1]))
            g = None
            if guard is not None:
                g = self.expr(guard, env, "bool")
                if g[1] != "bool":
                    raise ShapeError("guard of type %r" % (g[1],))
            if p[0] == "wild":
                cond = None
            elif p[0] == "enum" and p[1] == s[1]:
                cond = "%s =? %d" % (sv, vs[p[2]])
            else:
                raise ShapeError("pattern %r in a match on %s" % (p, s[1]))
            code_arms.append((cond, g, b[0]))
            if g is None:
                if cond is None:
                    exhaustive = True
                    break
                seen.add(p[2])
                if seen == set(vs):
                    exhaustive = True
                    break
        if not exhaustive:
            raise ShapeError("match is not seen to be exhaustive")
        # the last arm is unconditional (wildcard, or the only variant left)
        code = code_arms[-1][2]
        if code_arms[-1][1] is not None:
            raise ShapeError("last arm has a guard")
        for cond, g, b in reversed(code_arms[:-1]):
            if g is None:
                inner = b if cond is None else None
                code = "if %s then %s else %s" % (cond, paren(b), paren(code)) if cond else b
            else:
                gv = self.fresh("g")
                guarded = "let? %s := %s in if %s then %s else %s" % (gv, g[0], gv, paren(b), paren(code))
                code = "if %s then %s else %s" % (cond, paren(guarded), paren(code)) if cond else guarded
        return ("let? %s := %s in %s" % (sv, s[0], code), ty)

    def block(self, blk, env, want):
        assert blk[0] == "block"
        env = dict(env)
        stmts = blk[1]
        if not stmts or stmts[-1][0] != "tail":
            raise ShapeError("block without a tail expression")

        def go(i):
            st = stmts[i]
            if st[0] == "tail":
                return self.expr(st[1], env, want)
            if st[0] == "let":
                pat, ex = st[1], st[2]
                if isinstance(pat, tuple):
                    v = self.expr(ex, env, None)
                    if not (isinstance(v[1], tuple) and len(v[1][1]) == len(pat)):
                        raise ShapeError("tuple pattern against %r" % (v[1],))
                    for n_, t_ in zip(pat, v[1][1]):
                        env[n_] = (n_, t_)
                    rest = go(i + 1)
                    return ("let? (%s) := %s in %s" % (", ".join(pat), v[0], rest[0]), rest[1])
                w_ = None
                if self.is_untyped_lit(ex):
                    w_ = self.ret           # see the module comment: an unconstrained literal-headed let takes the
                                            # type of the function's value; every later use is checked against it
                v = self.expr(ex, env, w_)
                env[pat] = (pat, v[1], w_ is not None)
                rest = go(i + 1)
                return ("let? %s := %s in %s" % (pat, v[0], rest[0]), rest[1])
            if st[0] == "expr":
                ex = st[1]
                if ex[0] == "if" and ex[3] is None:
                    body = ex[2][1]
                    if not (len(body) == 1 and body[0][0] == "expr" and body[0][1][0] == "return"):
                        raise ShapeError("`if` statement whose body is not a single return")
                    c = self.expr(ex[1], env, "bool")
                    if c[1] != "bool":
                        raise ShapeError("condition of type %r" % (c[1],))
                    r = self.ret_value(body[0][1][1], env)
                    rest = go(i + 1)
                    x = self.fresh("c")
                    return ("let? %s := %s in if %s then %s else %s" % (x, c[0], x, paren(r), paren(rest[0])), rest[1])
                raise ShapeError("statement %r" % (ex[0],))
            raise ShapeError("statement kind %r" % st[0])
        return go(0)

    def ret_value(self, e, env):
        """operand of `return`"""
        if self.result:
            if e[0] == "err":
                return self.err(e[1])
            if e[0] == "ok":
                v = self.expr(e[1], env, self.ret)
                if v[1] != self.ret:
                    raise ShapeError("return of type %r" % (v[1],))
                return v[0]
            raise ShapeError("return of something other than Ok / Err")
        v = self.expr(e, env, self.ret)
        if v[1] != self.ret:
            raise ShapeError("return of type %r, not %r" % (v[1], self.ret))
        return v[0]


def paren(s):
    return "(" + s + ")"


# ------------------------------------------------------------------------------------------- functions --
METHODS = ["lsb", "msb", "mask", "min", "max", "apply_mask", "masked_value"]


def signatures(body):
    sigs, bodies = {}, {}
    for m in re.finditer(r"fn (\w+)\(\s*(&?self),\s*([^)]*)\)\s*->\s*([\w<>]+)\s*\{", body):
        name, params, ret = m.group(1), m.group(3), m.group(4)
        ps = []
        for p in [x.strip() for x in params.split(",") if x.strip()]:
            pm = re.fullmatch(r"(\w+): (\w+)", p)
            if not pm:
                raise ShapeError("parameter %r of %s" % (p, name))
            ps.append((pm.group(1), pm.group(2)))
        res = False
        rm = re.fullmatch(r"GenApiResult<(\w+)>", ret)
        if rm:
            ret, res = rm.group(1), True
        for _, t in ps:
            if t not in INT and t not in ENUMS:
                raise ShapeError("parameter type %r of %s" % (t, name))
        if ret not in INT:
            raise ShapeError("return type %r of %s" % (ret, name))
        sigs[name] = (ps, ret, res)
        bodies[name], _ = block_after(body, m.end() - 1)
    return sigs, bodies


def field_reader(text, which):
    """lsb() / msb(): `let X = match self { Self::SingleBit(X) | Self::Range { X, .. } => X as usize, };` then the rest"""
    m = re.match(r"\s*let (\w+) = match self \{\s*Self::SingleBit\((\w+)\) \| Self::Range \{ (\w+), \.\. \} => (\w+) as usize,?\s*\};",
                 text)
    if not m or len({m.group(1), m.group(2), m.group(3), m.group(4)}) != 1 or m.group(1) != which:
        raise ShapeError("%s() does not start by reading the field `%s` of both variants" % (which, which))
    return m.group(1), text[m.end():]


def translate(repo):
    path = os.path.join(repo, "genapi", "src", "masked_int_reg.rs")
    src = strip_comments(open(path).read())
    et = strip_comments(open(os.path.join(repo, "genapi", "src", "elem_type.rs")).read())
    if not re.search(r"pub enum BitMask \{\s*SingleBit\(u64\),\s*Range \{ lsb: u64, msb: u64 \},\s*\}", et):
        raise ShapeError("enum BitMask is not { SingleBit(u64), Range { lsb: u64, msb: u64 } }")
    if not re.search(r"pub enum Endianness \{\s*LE,\s*BE,\s*\}", et) or not re.search(r"pub enum Sign \{\s*Signed,\s*Unsigned,\s*\}", et):
        raise ShapeError("enum Endianness / Sign changed")
    ms = [m.start() for m in re.finditer(r"(?m)^impl BitMask \{", src)]
    if len(ms) != 1:
        raise ShapeError("%d `impl BitMask` blocks" % len(ms))
    body, _ = block_after(src, ms[0])
    sigs, bodies = signatures(body)
    for n in METHODS:
        if n not in sigs:
            raise ShapeError("method %s not found" % n)
    extra = sorted(set(sigs) - set(METHODS))
    if extra:
        raise ShapeError("methods the translator does not know: %s" % extra)
    defs = []
    for n in METHODS:
        params, ret, res = sigs[n]
        text = bodies[n]
        env = {pn: (pn, pt) for pn, pt in params}
        pre = ""
        if n in ("lsb", "msb"):
            var, text = field_reader(text, n)
            # `X as usize` of a u64 field
            pre = "let? %s := Ok (r_cast 64 raw_%s) in " % (var, n)
            env[var] = (var, "usize")
        elif re.search(r"\bmatch self\b|\bSelf::", text):
            raise ShapeError("%s() inspects the variant itself" % n)
        p = Parser(tokenize(text))
        blk = p.block()
        if p.peek() is not None:
            raise ShapeError("trailing tokens in %s" % n)
        g = Gen(sigs, ret, res)
        code, ty = g.block(blk, env, ret)
        if ty != ret:
            raise ShapeError("%s: body has type %r, declared %r" % (n, ty, ret))
        defs.append((n, [pn for pn, _ in params], pre + code))
    return {"defs": defs, "path": path, "methods": METHODS}


def wrap(s, width=112, ind="    "):
    out, line = [], ""
    for w in s.split(" "):
        if len(line) + len(w) + 1 > width and line:
            out.append(line)
            line = ind + w
        else:
            line = (line + " " + w) if line else w
    out.append(line)
    return "\n".join(out)


def render(t):
    o = ["(* GENERATED by tools/translate_bitmask.py from genapi/src/masked_int_reg.rs (impl BitMask) - do not edit.",
         "   self = (raw_lsb, raw_msb): SingleBit(b) is raw_lsb = raw_msb = b.  Sign::Signed = 1, Unsigned = 0; LE = 0, BE = 1. *)",
         "From Cam Require Import Outcome RustInt.", ""]
    for n, params, code in t["defs"]:
        o.append(wrap("Definition src_bm_%s (raw_lsb raw_msb %s : Z) : outcome Z :=" % (n, " ".join(params))))
        o.append(wrap("  " + code + "."))
        o.append("")
    return "\n".join(o)


def regenerate(repo=None):
    repo = repo or os.environ.get("VERIF_REPO", "/repo")
    t = translate(repo)
    text = render(t)
    old = open(OUT).read() if os.path.exists(OUT) else None
    if old != text:
        with open(OUT, "w") as f:
            f.write(text)
    return t


if __name__ == "__main__":
    try:
        t = regenerate(sys.argv[1] if len(sys.argv) > 1 else None)
    except ShapeError as e:
        print("ShapeError:", e)
        sys.exit(1)
    print(open(OUT).read())
