"""Family of register maps for C20 and its three renderings:
  * Rust source instantiating the REAL #[memory] / #[register_map] macros (rust/h_impl/src/maps.rs),
  * Gallina `list fragdecl` terms for model/Memory.v,
  * plain Python objects for the independent predicate of tools/c20.py.
Deterministic (no randomness): the family is part of the harness crate that setup.sh builds.
Maps with full=True are compiled only with `--features full` (thorough tier)."""
import os
import struct

SCALARS = {"u8": (8, 0), "u16": (16, 0), "u32": (32, 0), "u64": (64, 0),
           "i8": (8, 1), "i16": (16, 1), "i32": (32, 1), "i64": (64, 1)}
AR_NUM = {"NA": 0, "RO": 1, "WO": 2, "RW": 3}


class Reg:
    def __init__(self, name, length, acc, ty, off=None, init=None, sym_off=False, sym_len=False):
        self.name, self.len, self.acc, self.ty, self.off, self.init = name, length, acc, ty, off, init
        # the offset / length spelled as a path to a constant instead of a literal (same layout either way)
        self.sym_off, self.sym_len = sym_off, sym_len
        # filled by Map.resolve()
        self.addr = None
        self.endian = None

    # --- type helpers -------------------------------------------------------------------
    @property
    def kind(self):
        if isinstance(self.ty, tuple):
            return "bf"
        if self.ty in SCALARS:
            return "int"
        return {"f32": "float", "f64": "float", "String": "str", "Bytes": "bytes"}[self.ty]

    @property
    def bits(self):
        if self.kind == "bf":
            return self.ty[1]
        if self.kind == "int":
            return SCALARS[self.ty][0]
        return {"f32": 32, "f64": 64}[self.ty]

    @property
    def signed(self):
        if self.kind == "bf":
            return self.ty[2]
        if self.kind == "int":
            return SCALARS[self.ty][1]
        return 0

    def norm_field(self):
        """(lsb, msb) in LSB-0 numbering of the register value."""
        _, bits, _, rl, rm = self.ty
        if self.endian == "BE":
            return bits - 1 - rl, bits - 1 - rm
        return rl, rm


class Frag:
    def __init__(self, name, base, endian, regs):
        self.name, self.base, self.endian, self.regs = name, base, endian, regs


class Map:
    def __init__(self, name, frags, full=False, tags=()):
        self.name, self.frags, self.full, self.tags = name, frags, full, set(tags)
        self.resolve()

    def resolve(self):
        """Addresses as the property states them: base + running / explicit offset; size = max end."""
        self.regs = []
        size = 0
        for f in self.frags:
            run = 0
            fsize = 0
            for r in f.regs:
                o = r.off if r.off is not None else run
                run = o + r.len
                fsize = max(fsize, run)
                r.addr = f.base + o
                r.endian = f.endian
                self.regs.append(r)
            f.size = fsize
            size = max(size, f.base + fsize)
        self.size = size


def int_ty(bits, signed):
    return ("i" if signed else "u") + str(bits)


def bf(bits, signed, endian, lsb, msb):
    """BitField type with NORMALISED positions (declared numbering derived from the endianness)."""
    if endian == "BE":
        return ("bf", bits, signed, bits - 1 - lsb, bits - 1 - msb)
    return ("bf", bits, signed, lsb, msb)


def edge_positions(bits, full):
    e = {0, 1, 7, 8, bits - 2, bits - 1}
    if full:
        e |= {15, 16, 30, 31, 32, 33, 62, 63, bits // 2 - 1, bits // 2}
    return sorted(x for x in e if 0 <= x < bits)


def bf_pairs(bits, full):
    if bits == 8 or (bits == 16 and full):
        return [(l, m) for l in range(bits) for m in range(l, bits)]
    e = edge_positions(bits, full)
    return [(l, m) for l in e for m in e if l <= m]


def bf_map(bits, signed, endian, full):
    size = bits // 8
    pairs = bf_pairs(bits, full)
    regs = [Reg("Pre", 2, "RW", "u16")]
    for l, m in pairs:
        regs.append(Reg("F%d_%d" % (l, m), size, "RW", bf(bits, signed, endian, l, m), off=2))
    regs.append(Reg("Post", 2, "RW", "u16", off=2 + size))
    base = 4 if signed else 0
    name = "bf_%s_%s%s" % (int_ty(bits, signed), endian.lower(), "_full" if full else "")
    return Map(name, [Frag("F", base, endian, regs)], full=full, tags=("bf",))


def f32_bits(x):
    return struct.unpack("<I", struct.pack("<f", x))[0]


def f64_bits(x):
    return struct.unpack("<Q", struct.pack("<d", x))[0]


def scalar_map(endian, base, accs, with_init):
    names = ["u8", "i8", "u16", "i16", "u32", "i32", "u64", "i64", "f32", "f64"]
    inits = {"u16": 321, "i8": -128, "i16": -2, "u32": 0xDEADBEEF, "i64": -(1 << 63), "u64": 0x1000,
             "f32": f32_bits(0.291), "f64": f64_bits(0.27)}
    regs = []
    for i, t in enumerate(names):
        ln = (SCALARS[t][0] if t in SCALARS else int(t[1:])) // 8
        init = ("int", inits[t]) if (with_init and t in inits) else None
        regs.append(Reg(t.upper(), ln, accs[i % len(accs)], t, init=init))
    regs.append(Reg("S8", 8, "RW", "String", init=("str", b"Cam") if with_init else None))
    regs.append(Reg("B4", 4, "RO", "Bytes", init=("bytes", bytes([0x11, 0x22, 0x33, 0x44])) if with_init else None))
    regs.append(Reg("S1", 1, "WO", "String"))
    regs.append(Reg("Z0", 0, "RO", "Bytes"))
    regs.append(Reg("S3", 3, "RW", "String", init=("str", b"xyz") if with_init else None))
    return Map("sc_%s" % endian.lower(), [Frag("S", base, endian, regs)], tags=("scalar",))


def layout_map():
    a = Frag("A", 0, "LE", [
        Reg("R0", 2, "RW", "u16", init=("int", 0x1234)),
        Reg("R1", 4, "RO", "u32", off=8, sym_off=True),
        Reg("R2", 1, "WO", "u8"),
        Reg("R3", 2, "RW", "u16", off=2, init=("int", 0xBEEF)),
        Reg("R4", 4, "RW", "u32", sym_len=True),
        Reg("R5", 8, "RO", "u64", off=6),
    ])
    b = Frag("B", 0x20, "BE", [
        Reg("R0", 4, "RW", "u32", init=("int", 0x01020304)),
        Reg("R1", 2, "WO", "i16", init=("int", -2)),
        Reg("R2", 6, "RW", "String", off=10, init=("str", b"ab"), sym_off=True),
    ])
    c = Frag("C", 0x1C, "LE", [
        Reg("R0", 2, "RO", "u16"),
        Reg("R1", 8, "NA", "Bytes", init=("bytes", bytes(range(1, 9)))),
    ])
    return Map("layout", [a, c, b], tags=("layout", "raw"))


def rights_map():
    pat = ["RO", "RW", "NA", "WO", "RO", "WO", "RW", "RW", "NA", "RO", "RW", "WO"]
    regs = [Reg("C%d" % i, 1, p, "u8", init=("int", 0xA0 + i)) for i, p in enumerate(pat)]
    regs.append(Reg("T", 2, "RW", "u16", off=14, init=("int", 0x55AA)))
    regs.append(Reg("W", 4, "RW", "u32", off=4))         # overlaps C4..C7, declared later: rights RW win
    regs.append(Reg("N", 2, "NA", "u16", off=0))         # overlaps C0 (RO), C1 (RW), declared later: NA wins
    regs.append(Reg("N2", 1, "NA", "u8", off=15))        # the upper byte of T (RW) becomes NA
    return Map("rights", [Frag("R", 0, "LE", regs)], tags=("raw",))


def rights3_map():
    """A later fragment of the same memory reserves (NA) cells an earlier fragment declared readable / writable."""
    a = Frag("A", 0, "LE", [Reg("A0", 4, "RW", "u32", init=("int", 0x11223344)),
                            Reg("A1", 2, "RO", "u16", init=("int", 0x5566)),
                            Reg("A2", 2, "WO", "u16")])
    b = Frag("B", 2, "LE", [Reg("B0", 2, "NA", "u16"),                 # cells 2..3 of A0
                            Reg("B1", 1, "NA", "u8", off=3),           # cell 5: upper byte of A1
                            Reg("B2", 1, "RW", "u8", off=5)])          # cell 7: upper byte of A2 (WO -> RW)
    return Map("rights3", [a, b], tags=("raw",))


def rights2_map():
    """Two fragments whose rights interleave; the second starts inside a protection block."""
    a = Frag("A", 0, "BE", [Reg("A0", 3, "RW", "Bytes", init=("bytes", b"\x01\x02\x03")),
                            Reg("A1", 2, "RO", "u16", init=("int", 0x0405)),
                            Reg("A2", 1, "WO", "u8")])
    b = Frag("B", 7, "LE", [Reg("B0", 1, "RW", "u8"), Reg("B1", 2, "WO", "u16"), Reg("B2", 1, "RO", "u8"),
                            Reg("B3", 4, "RW", "u32", off=3)])
    return Map("rights2", [a, b], tags=("raw",))


def init_map(endian):
    B = lambda bits, sg, l, m: bf(bits, sg, endian, l, m)
    regs = [
        Reg("U8Bit", 1, "RO", B(8, 0, 1, 1), init=("int", 1)),
        Reg("U8", 1, "RO", B(8, 0, 1, 4), init=("int", 0b1011)),
        Reg("I8", 1, "RW", B(8, 1, 1, 4), init=("int", -3)),
        Reg("I8Full", 1, "RW", B(8, 1, 0, 7), init=("int", -128)),
        Reg("U32", 4, "RW", B(32, 0, 9, 21), init=("int", 0b1001011101101)),
        Reg("I32", 4, "RW", B(32, 1, 9, 21), init=("int", -324)),
        Reg("O1", 2, "RW", B(16, 0, 0, 4), off=20, init=("int", 0b10011)),
        Reg("O2", 2, "RW", B(16, 0, 5, 9), off=20, init=("int", 0b01000)),
        Reg("O3", 2, "RW", B(16, 0, 10, 15), off=20, init=("int", 0b111111)),
        Reg("S1", 2, "RW", B(16, 1, 0, 10), off=22, init=("int", -1)),
        Reg("S2", 2, "RW", B(16, 1, 11, 15), off=22, init=("int", -16)),
        Reg("Sgn", 1, "RW", B(8, 1, 7, 7), off=24, init=("int", -1)),
        Reg("Lo7", 1, "RW", B(8, 0, 0, 6), off=24, init=("int", 0x55)),
        Reg("Wide", 8, "RW", B(64, 0, 0, 63), off=32, init=("int", (1 << 64) - 1)),
        Reg("WideS", 8, "RW", B(64, 1, 0, 63), off=40, init=("int", -(1 << 63))),
        Reg("U63", 8, "RW", B(64, 0, 1, 63), off=48, init=("int", (1 << 63) - 1)),
        Reg("Mid", 2, "RW", B(16, 0, 4, 11), off=56, init=("int", 0xAB)),
    ]
    return Map("init_%s" % endian.lower(), [Frag("I", 100, endian, regs)], tags=("bfinit",))


def family():
    maps = []
    for bits in (8, 16, 32, 64):
        for signed in (0, 1):
            for endian in ("LE", "BE"):
                maps.append(bf_map(bits, signed, endian, False))
    maps.append(scalar_map("LE", 0x10, ["RW", "RO", "WO", "NA", "RW"], True))
    maps.append(scalar_map("BE", 0, ["RO", "RW", "RW", "WO"], False))
    maps[-1].name = "sc_be"
    maps.append(layout_map())
    maps.append(rights_map())
    maps.append(rights2_map())
    maps.append(rights3_map())
    maps.append(init_map("LE"))
    maps.append(init_map("BE"))
    for bits in (16, 32, 64):
        for signed in (0, 1):
            for endian in ("LE", "BE"):
                maps.append(bf_map(bits, signed, endian, True))
    for i, m in enumerate(maps):
        m.id = i
    return maps


# ------------------------------------------------------------------ single declarations ----
def declarations():
    """(name, endianness, Reg): single-register maps used to compare what the macro ACCEPTS (compiles) with the
    decision function of the model; covers every numerical type with matching / shorter / longer len, String and
    Bytes of several lengths, and BitField positions at and beyond the legal limits in both numberings."""
    out = []

    def add(name, endian, length, ty):
        out.append((name, endian, Reg("R", length, "RW", ty)))

    sizes = dict((t, b // 8) for t, (b, _) in SCALARS.items())
    sizes.update({"f32": 4, "f64": 8})
    for t, n in sizes.items():
        add("ok_%s" % t, "LE" if n % 2 else "BE", n, t)
    for t, ln in (("u16", 4), ("u16", 1), ("u8", 0), ("u8", 2), ("u32", 8), ("i64", 4), ("i32", 3), ("f32", 2),
                  ("f32", 8), ("f64", 4), ("u64", 16), ("i8", 4)):
        add("len_%s_%d" % (t, ln), "LE" if ln % 2 else "BE", ln, t)
    for ln in (0, 1, 5):
        add("str_%d" % ln, "LE", ln, "String")
        add("bytes_%d" % ln, "BE", ln, "Bytes")
    # BitField: raw (declared) positions
    for bits, sg, e, rl, rm, ln in (
            (8, 0, "LE", 0, 7, 1), (8, 1, "LE", 7, 7, 1), (64, 1, "LE", 63, 63, 8), (64, 0, "LE", 0, 63, 8),
            (16, 0, "BE", 15, 0, 2), (16, 1, "BE", 0, 0, 2), (32, 0, "BE", 31, 31, 4), (8, 0, "BE", 7, 0, 1),
            (8, 0, "LE", 5, 3, 1), (8, 0, "LE", 0, 8, 1), (8, 0, "LE", 8, 8, 1), (16, 1, "LE", 3, 16, 2),
            (64, 0, "LE", 0, 64, 8), (8, 0, "BE", 3, 5, 1), (8, 0, "BE", 8, 0, 1), (8, 0, "BE", 7, 8, 1),
            (16, 0, "BE", 16, 16, 2), (32, 1, "BE", 0, 31, 4),
            (16, 0, "LE", 4, 11, 4), (16, 0, "BE", 11, 4, 1), (64, 0, "LE", 0, 47, 4), (8, 1, "LE", 1, 4, 2),
            (32, 0, "LE", 0, 31, 8), (16, 1, "BE", 15, 0, 3)):
        add("bf_%s_%s_%d_%d_len%d" % (int_ty(bits, sg), e.lower(), rl, rm, ln), e, ln, ("bf", bits, sg, rl, rm))
    return out


def decl_accepted_by_property(endian, r):
    """The property: a numerical register is one value of its type, so its length is the size of the type; a bit
    field lies inside its integer (positions counted from the least significant bit for LE maps, from the most
    significant bit for BE maps), LSB below or at MSB."""
    if r.kind in ("str", "bytes"):
        return True
    if r.len != r.bits // 8:
        return False
    if r.kind == "bf":
        _, bits, _, rl, rm = r.ty
        lsb, msb = (rl, rm) if endian == "LE" else (bits - 1 - rl, bits - 1 - rm)
        return 0 <= lsb <= msb < bits
    return True


def decl_rust(endian, r):
    return ("use cameleon_impl::memory::{memory, prelude::*, register_map};\n"
            "#[register_map(base = 0, endianness = %s)]\npub enum A {\n"
            "    #[register(len = %d, access = %s, ty = %s)]\n    R,\n}\n"
            "#[memory]\npub struct M {\n    a: A,\n}\n"
            "fn main() {\n    let m = M::new();\n    let _ = m.access_right::<A::R>();\n}\n"
            % (endian, r.len, r.acc, rust_ty(r)))


# ---------------------------------------------------------------------------------- Rust ----
def rust_ty(r):
    if r.kind == "bf":
        _, bits, sg, rl, rm = r.ty
        return "BitField<%s, LSB = %d, MSB = %d>" % (int_ty(bits, sg), rl, rm)
    return r.ty


def value_ty(r):
    if r.kind in ("bf", "int"):
        return int_ty(r.bits, r.signed)
    return r.ty


def render_rust(maps):
    o = ["// @generated by /verif/tools/gen_regmaps.py -- do not edit.",
         "// Instantiates the real #[memory] / #[register_map] macros of cameleon-impl on the C20 family.",
         "#![allow(non_snake_case, non_camel_case_types, dead_code, unused_imports, clippy::all)]", ""]
    for m in maps:
        cfg = '#[cfg(feature = "full")]\n' if m.full else ""
        o.append("%spub mod m%d {" % (cfg, m.id))
        o.append("    // %s" % m.name)
        o.append("    use cameleon_impl::memory::{memory, prelude::*, register_map, AccessRight, MemoryResult, MemoryError, Register};")
        consts = []
        for fi, f in enumerate(m.frags):
            for ri, r in enumerate(f.regs):
                if r.init is None:
                    continue
                k, v = r.init
                cn = "INIT_%d_%d" % (fi, ri)
                if k == "int":
                    if r.kind == "float":
                        consts.append("    const %s: %s = %s::from_bits(%d);" % (cn, r.ty, r.ty, v))
                    else:
                        consts.append("    const %s: %s = (%d);" % (cn, value_ty(r), v))
        for fi, f in enumerate(m.frags):
            for ri, r in enumerate(f.regs):
                if r.sym_off and r.off is not None:
                    consts.append("    const OFF_%d_%d: usize = %d;" % (fi, ri, r.off))
                if r.sym_len:
                    consts.append("    const LEN_%d_%d: usize = %d;" % (fi, ri, r.len))
        o += consts
        for fi, f in enumerate(m.frags):
            o.append("    #[register_map(base = %d, endianness = %s)]" % (f.base, f.endian))
            o.append("    pub enum %s {" % f.name)
            for ri, r in enumerate(f.regs):
                off = ""
                if r.off is not None:
                    off = ", offset = OFF_%d_%d" % (fi, ri) if r.sym_off else ", offset = %d" % r.off
                ln = "LEN_%d_%d" % (fi, ri) if r.sym_len else "%d" % r.len
                o.append("        #[register(len = %s, access = %s, ty = %s%s)]" % (ln, r.acc, rust_ty(r), off))
                if r.init is None:
                    o.append("        %s," % r.name)
                else:
                    k, v = r.init
                    if k == "int":
                        o.append("        %s = INIT_%d_%d," % (r.name, fi, ri))
                    elif k == "str":
                        o.append('        %s = "%s",' % (r.name, v.decode("ascii")))
                    else:
                        o.append("        %s = &[%s]," % (r.name, ", ".join("0x%02x" % b for b in v)))
            o.append("    }")
        o.append("    #[memory]")
        o.append("    pub struct Mem {")
        for f in m.frags:
            o.append("        %s: %s," % (f.name.lower(), f.name))
        o.append("    }")
        o.append("    pub const SIZE: usize = crate::cmax(&[%s]);" %
                 ", ".join("%s::base() + %s::size()" % (f.name, f.name) for f in m.frags))
        o.append("    pub struct Dump {}")
        o.append("    impl Register for Dump {")
        o.append("        type Ty = Vec<u8>;")
        o.append("        const ADDRESS: usize = 0;")
        o.append("        const LENGTH: usize = SIZE;")
        o.append("        const ACCESS_RIGHT: AccessRight = AccessRight::NA;")
        o.append("        fn parse(data: &[u8]) -> MemoryResult<Vec<u8>> { Ok(data.to_vec()) }")
        o.append("        fn serialize(data: Vec<u8>) -> MemoryResult<Vec<u8>> {")
        o.append('            if data.len() != SIZE { return Err(MemoryError::InvalidRegisterData("poke length".into())); }')
        o.append("            Ok(data)")
        o.append("        }")
        o.append("    }")
        o.append("    impl crate::HMem for Mem {")
        o.append("        fn new_mem() -> Self { Mem::new() }")
        o.append("        fn dump(&self) -> MemoryResult<Vec<u8>> { self.read::<Dump>() }")
        o.append("        fn poke(&mut self, data: Vec<u8>) -> MemoryResult<()> { self.write::<Dump>(data) }")
        o.append("        fn layout() -> Vec<i128> {")
        o.append("            let mut v: Vec<i128> = vec![SIZE as i128, %d];" % len(m.frags))
        for f in m.frags:
            o.append("            v.push(%s::base() as i128); v.push(%s::size() as i128);" % (f.name, f.name))
        o.append("            v.push(%d);" % len(m.regs))
        for f in m.frags:
            for r in f.regs:
                p = "%s::%s" % (f.name, r.name)
                o.append("            v.push(<%s as Register>::ADDRESS as i128); v.push(<%s as Register>::LENGTH as i128); "
                         "v.push(<%s as Register>::ACCESS_RIGHT.as_num() as i128);" % (p, p, p))
        for f in m.frags:
            for r in f.regs:
                if r.kind == "bf":
                    o.append("            v.push(%s::%s::LSB as i128); v.push(%s::%s::MSB as i128);" % (f.name, r.name, f.name, r.name))
        o.append("            v")
        o.append("        }")
        o.append("        fn dispatch(&mut self, st: &mut crate::St, k: usize, op: &crate::RegOp) -> Vec<i128> {")
        o.append("            match k {")
        k = 0
        for f in m.frags:
            for r in f.regs:
                o.append("                %d => crate::do_op::<Self, %s::%s>(self, st, op)," % (k, f.name, r.name))
                k += 1
        o.append("                _ => vec![9],")
        o.append("            }")
        o.append("        }")
        o.append("    }")
        o.append("}")
        o.append("")
    o.append("pub fn run_map(id: usize, toks: &[&str]) -> Vec<i128> {")
    o.append("    match id {")
    for m in maps:
        cfg = '        #[cfg(feature = "full")]\n' if m.full else ""
        o.append("%s        %d => crate::run_case::<m%d::Mem>(toks)," % (cfg, m.id, m.id))
    o.append("        _ => vec![7],")
    o.append("    }")
    o.append("}")
    return "\n".join(o) + "\n"


def write_rust(verif_root, maps=None):
    """Write rust/h_impl/src/maps.rs if its content changed; returns the path."""
    maps = maps or family()
    path = os.path.join(verif_root, "rust", "h_impl", "src", "maps.rs")
    txt = render_rust(maps)
    old = open(path).read() if os.path.exists(path) else None
    if old != txt:
        with open(path, "w") as f:
            f.write(txt)
    return path


# ------------------------------------------------------------------------------- Gallina ----
def zl(x):
    return "(%d)" % x if x < 0 else "%d" % x


def coq_bytes(bs):
    return "[" + "; ".join(str(b) for b in bs) + "]"


def coq_ty(r):
    if r.kind == "bf":
        _, bits, sg, rl, rm = r.ty
        return "(TBitField %d %s %d %d)" % (bits, "true" if sg else "false", rl, rm)
    if r.kind == "int":
        return "(TInt %d %s)" % (r.bits, "true" if r.signed else "false")
    return {"f32": "TF32", "f64": "TF64", "String": "TStr", "Bytes": "TBytes"}[r.ty]


def coq_value(kind, v):
    if kind == "int":
        return "(VInt %s)" % zl(v)
    return "(VBytes %s)" % coq_bytes(v)


def coq_reg(r):
    off = "None" if r.off is None else "(Some %d)" % r.off
    init = "None" if r.init is None else "(Some %s)" % coq_value(*r.init)
    return "{| rd_len := %d; rd_acc := %s; rd_ty := %s; rd_off := %s; rd_init := %s |}" % (
        r.len, r.acc, coq_ty(r), off, init)


def coq_map(m):
    fr = []
    for f in m.frags:
        fr.append("{| fd_base := %d; fd_endian := %s; fd_regs := [\n    %s] |}" % (
            f.base, f.endian, ";\n    ".join(coq_reg(r) for r in f.regs)))
    return "Definition map_%d : list fragdecl := [\n  %s].\n" % (m.id, ";\n  ".join(fr))


if __name__ == "__main__":
    import sys
    root = os.path.dirname(os.path.dirname(os.path.abspath(__file__)))
    p = write_rust(root)
    ms = family()
    print(p, "maps=%d quick_regs=%d full_regs=%d" % (
        len(ms), sum(len(m.regs) for m in ms if not m.full), sum(len(m.regs) for m in ms)))
