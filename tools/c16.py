"""C16 — Camera start/stop/close keep device acquisition state consistent.

The real `cameleon::Camera<FakeCtrl, FakeStrm, DefaultGenApiCtxt>` (rust/h_camera: recording fakes, every
DeviceControl / PayloadStream operation can be made to fail) and the Gallina model (model/Camera.v,
`cam_case true`) are run on the same sessions x failure plans (a failure = operation index + fault CLASS:
Io, Timeout, Disconnected, Busy, NotOpened, InvalidData, ...); per-call result class (which carries the
fault class), failed operation, the device log (every operation attempted, in order), effect trace,
value read and the state after every call are compared.
The descriptions served by the fakes also define a selector-addressed register bank (one cache block per slot):
sessions read slots through the camera's params context before and after close / reopen while the device's own
memory changes behind the cache (a read after a clean close must be a device read returning the device's value),
and one description declares TLParamsLocked with <pValue> + <pValueCopy> (the mirror write is a failure point of
its own).  Further descriptions: the two commands carry <pIsAvailable> backed by device registers which the
device changes by itself (execute() does not consult them: when no operation fails nothing may fail), TLParamsLocked
as a host-side variable, AcquisitionStop with CommandValue 0; a params write of a further host-side variable; the
effect log carries the VALUE AcquisitionStart / AcquisitionStop write, checked against the description's CommandValue.
The predicate below is the property itself, evaluated on the implementation's output only.
"""
import json
import sys

import vplib
from vplib import Check, Case, Rng, zlist

OPEN, STOP, CLOSE, PARAMS = 0, 3, 4, 5
LOAD, START = 20, 13           # load_context with the conforming description, start_streaming(3)
ALPHABET = [OPEN, LOAD, START, STOP, CLOSE, PARAMS]
LOADC = 48                     # load_context, conforming description with TLParamsLocked = <pValue> + <pValueCopy>
LOADA = 49                     # conforming, AcquisitionStart / AcquisitionStop carry <pIsAvailable> backed by device registers
LOADH = 50                     # TLParamsLocked is a host-side variable (<Value>0</Value>), AcquisitionStop <CommandValue>0
LOADZ = 51                     # conforming (TLParamsLocked in its register), AcquisitionStop <CommandValue>0
LOADM = 52                     # conforming, TLParamsLocked is a <MaskedIntReg> (bit 0 of its 4-byte register)
LAST_LOAD = 52
HOLD, DROP = 81, 82            # the application takes / drops a second handle of the camera's (sharable) context
BANK = 60                      # BANK + k: select slot k of the register bank and read it through params_ctxt
USER = 70                      # USER + v: params write UserVar := v (a host-side variable of the context, <Value>1</Value>)
NSLOT = 4
NMEM = 7                       # words of the device memory the environment may change: 0..3 the bank, 4 / 5 the
AVAIL_START, AVAIL_STOP = 4, 5  # availability registers of AcquisitionStart / AcquisitionStop (description LOADA)
A_START, A_STOP = 0x1004, 0x1008
TL_OTHER = 6                   # word 6: the bits 1..7 of the TLParamsLocked register (another feature's)


def poke(k, v):
    """the environment: the device's own memory of bank slot k becomes v (0..255), behind the host's cache"""
    return 1000 + 256 * k + v


# effect codes of rust/h_camera
E_CTRL_OPEN, E_STRM_OPEN, E_FETCH, E_ENABLE, E_TL1, E_TL0, E_ASTART, E_ASTOP = 1, 2, 3, 4, 5, 6, 7, 8
E_LSTART, E_LSTOP, E_DISABLE, E_CTRL_CLOSE, E_STRM_CLOSE, E_READ = 9, 10, 11, 12, 13, 15
CTRL_OPS = {E_CTRL_OPEN, E_FETCH, E_ENABLE, E_DISABLE, E_CTRL_CLOSE}
STRM_OPS = {E_STRM_OPEN, E_LSTART, E_LSTOP, E_STRM_CLOSE}
E_COPY1, E_COPY0, E_BANK = 16, 17, 30     # write of 1 / 0 to the <pValueCopy> mirror; E_BANK + k: device read of bank slot k
E_ASTART0, E_ASTOP0 = 19, 18              # write of 0 to the AcquisitionStart / AcquisitionStop register (7 / 8: write of 1)
BANK_READS = set(range(E_BANK, E_BANK + NSLOT))
AVAIL_READS = {E_BANK + AVAIL_START, E_BANK + AVAIL_STOP}
REG_OPS = {E_TL1, E_TL0, E_ASTART, E_ASTOP, E_ASTART0, E_ASTOP0, E_READ, E_COPY1, E_COPY0} | BANK_READS | AVAIL_READS
FOCUS_OPS = {E_COPY1, E_COPY0, E_READ} | BANK_READS   # failure points that get every fault class in the focus families

F_LOOP, F_CTXT, F_C_TL, F_C_START, F_C_STOP, F_COPEN, F_SOPEN, F_ENABLED, F_LOCKED, F_ACQ = \
    1, 2, 4, 8, 16, 32, 64, 128, 256, 512
F_MIRROR, F_C_COPY, F_C_BANK = 1024, 2048, 4096 * (2 ** NSLOT - 1)   # mirror register != 0; mirror / bank slots cached


NCLASS = 8      # fault classes of rust/h_camera (0 Io 1 Timeout 2 Disconnected 3 Busy 4 NotOpened 5 InvalidData ...)


def mk(calls, plan=(), shared=False):
    """plan: (call index, operation index, fault class) triples; shared: the camera is instantiated with the sharable
    context type SharedDefaultGenApiCtxt (harness line `cams`) - the model is the same"""
    flat = [x for p in plan for x in p]
    toks = [len(calls)] + list(calls) + [len(plan)] + flat
    return Case("cams" if shared else "cam", toks, {"calls": list(calls), "plan": [tuple(p) for p in plan], "shared": shared},
                term="cam_case true %s %s" % (zlist(calls), zlist(flat)))


def case_from_line(line):
    t = [int(x) for x in line.split()[1:]]
    n = t[0]
    calls = t[1:1 + n]
    m = t[1 + n]
    flat = t[2 + n:2 + n + 3 * m]
    return mk(calls, [tuple(flat[3 * i:3 * i + 3]) for i in range(m)], shared=line.split()[0] == "cams")


def parse(out, ncalls):
    """-> list of per-call dicts, or None when the output does not have the harness' shape."""
    if not out or out[0] != 0:
        return None
    pos, res = 1, []
    for _ in range(ncalls):
        if pos + 4 > len(out):
            return None
        r, failed, nops = out[pos:pos + 3]
        pos += 3
        atts = out[pos:pos + nops]
        pos += nops
        if pos >= len(out) or len(atts) != nops:
            return None
        k = out[pos]
        pos += 1
        effs = []
        for _ in range(k):
            if pos >= len(out):
                return None
            code = out[pos]
            if code == 90:
                effs.append(tuple(out[pos:pos + 4]))
                pos += 4
            elif code == 91:
                effs.append(tuple(out[pos:pos + 3]))
                pos += 3
            else:
                effs.append((code,))
                pos += 1
        if pos + 2 > len(out):
            return None
        val, flags = out[pos:pos + 2]
        pos += 2
        res.append({"res": r, "failed": failed, "nops": nops, "atts": atts, "effs": effs, "val": val, "flags": flags})
    return res if pos == len(out) else None


ALL_BITS = (F_LOOP | F_C_TL | F_C_START | F_C_STOP | F_COPEN | F_SOPEN | F_ENABLED | F_LOCKED | F_ACQ | F_MIRROR
            | F_C_COPY | F_C_BANK)


def predicate(c, out):
    """The property, on the implementation's output.  A device view is replayed from the effects
    (written here from the property text, independently of the model)."""
    calls, plan = c.meta["calls"], c.meta["plan"]
    if out is None:
        return "no output (harness died)"
    if out == [2]:
        return "the harness itself panicked outside a camera call"
    if c.kind == "cam16":
        rs = parse_e2e(out, len(calls))
        if rs is None:
            return "output does not have the expected shape"
        return judge_e2e(c, rs)
    rs = parse(out, len(calls))
    if rs is None:
        return "output does not have the expected shape"
    return judge(calls, plan, rs, ALL_BITS)


def judge(calls, plan, rs, bits, faulty_call=None):
    """bits: the state bits the harness reports (the end-to-end harness sees the device memory and
    the streaming flag only; there nops is None: no failure is planned)."""
    copen = sopen = enabled = locked = acq = alive = False
    flocked = False              # TLParamsLocked as the protocol sees it: the register, or (description LOADH) a host-side
                                 # variable whose writes are not device-visible: there it is taken as set with AcquisitionStart
    desc = None                  # the description loaded last (call code)
    mirror = False               # the <pValueCopy> mirror register of TLParamsLocked, replayed from the effects
    hascopy = False              # the description loaded last declares the mirror
    loaded = set()               # the descriptions loaded so far
    loops = 0
    any_failure = False          # a planned failure that was reached
    good = True                  # all calls so far inside close_clean's hypotheses
    ctxt = False
    mem = [0] * NMEM             # the device's own memory (changed by the environment steps of the session)
    fresh = {}                   # slot -> the value a device read of it returned since the last clean close
    for i, (call, r) in enumerate(zip(calls, rs)):
        flag_before = alive       # equality with the flag was checked after the previous call
        where = "call %d (%d)" % (i, call)
        is_start = 10 <= call <= 19
        hosttl = desc == LOADH
        stopval = 0 if desc in (LOADH, LOADZ) else 1          # CommandValue of AcquisitionStop; AcquisitionStart: 1
        ctxt_before = ctxt
        if is_start and call == 10:
            good = False
        if 20 <= call <= 47 and call not in (20, 47):
            good = False
        if call >= 1000:                     # the environment changes the device's bank memory
            mem[(call - 1000) // 256] = (call - 1000) % 256
        # --- starting while streaming / without a description
        if is_start and flag_before:
            if r["res"] != 12 or r["effs"] or r["nops"] not in (0, None):
                return where + ": start while streaming must fail with InStreaming and do nothing"
        elif is_start and not ctxt:
            if r["res"] != 13:
                return where + ": start without a loaded description must fail with GenApiContextMissing"
            if r["effs"] or r["nops"] not in (0, None):
                return where + ": start without a loaded description must not touch the device"
        # --- when a step fails its error is returned (checked first: what a call that swallowed a failure did
        #     afterwards is reported by the rules below only when this one holds)
        fails = sorted((j, cls) for (ci, j, cls) in plan if ci == i)
        reached = [(j, cls) for (j, cls) in fails if r["nops"] is not None and j < r["nops"]]
        if reached and r["res"] in (0, 2):
            return where + ": operation %d failed (fault class %d) but the call did not return an error" % reached[0]
        # --- the effects, in order
        for e in r["effs"]:
            code = e[0]
            if code == 90 and e[1] in (A_START, A_STOP):
                return where + ": %s wrote %d, its CommandValue in the description is %d" % (
                    "AcquisitionStart" if e[1] == A_START else "AcquisitionStop", e[3], 1 if e[1] == A_START else stopval)
            if code in (90, 91):
                return where + ": unexpected register access %r" % (e,)
            if code == E_ASTART0:
                return where + ": AcquisitionStart wrote 0, its CommandValue in the description is 1"
            if code in (E_ASTOP, E_ASTOP0):
                if (1 if code == E_ASTOP else 0) != stopval:
                    return where + ": AcquisitionStop wrote %d, its CommandValue in the description is %d" % (1 - stopval, stopval)
                code = E_ASTOP
            if code in BANK_READS and call != BANK + code - E_BANK:
                return where + ": unexpected device read of bank slot %d" % (code - E_BANK)
            if code == E_ENABLE:
                if alive:
                    return where + ": EnableStreaming while a loop is alive"
                enabled = True
            elif code == E_TL1:
                if not enabled or alive:
                    return where + ": TLParamsLocked=1 before the stream is enabled / while a loop is alive"
                locked = flocked = True
            elif code == E_COPY1:
                if not (enabled and flocked) or alive:
                    return where + ": mirror of TLParamsLocked set before the stream is enabled and TLParamsLocked=1 / while a loop is alive"
                mirror = True
            elif code == E_COPY0:
                if alive or acq or flocked:
                    return where + ": mirror of TLParamsLocked cleared before the loop is halted, AcquisitionStop issued and TLParamsLocked=0"
                mirror = False
            elif code == E_ASTART:
                if hosttl:
                    flocked = True
                if not (enabled and flocked) or alive:
                    return where + ": AcquisitionStart before EnableStreaming and TLParamsLocked=1"
                if hascopy and not mirror:
                    return where + ": AcquisitionStart before the <pValueCopy> mirror of TLParamsLocked is set"
                acq = True
            elif code == E_LSTART:
                if alive:
                    return where + ": a second receive loop is started"
                if not (enabled and flocked and acq):
                    return where + ": receive loop started before EnableStreaming, TLParamsLocked=1, AcquisitionStart"
                alive = True
                loops += 1
            elif code == E_LSTOP:
                if not alive:
                    return where + ": LoopStop without a loop"
                alive = False
                loops -= 1
            elif code == E_ASTOP:
                if alive:
                    return where + ": AcquisitionStop before the loop is halted"
                acq = False
            elif code == E_TL0:
                if alive or acq:
                    return where + ": TLParamsLocked=0 before the loop is halted and AcquisitionStop issued"
                locked = flocked = False
            elif code == E_DISABLE:
                if hosttl:
                    flocked = False
                if alive or acq or flocked:
                    return where + ": DisableStreaming before loop halt, AcquisitionStop and TLParamsLocked=0"
                if hascopy and mirror:
                    return where + ": DisableStreaming before the <pValueCopy> mirror of TLParamsLocked is cleared"
                enabled = False
            elif code == E_CTRL_OPEN:
                copen = True
            elif code == E_CTRL_CLOSE:
                copen = False
            elif code == E_STRM_OPEN:
                sopen = True
            elif code == E_STRM_CLOSE:
                sopen = False
            if not 0 <= loops <= 1:
                return where + ": %d loops alive" % loops
            if alive and not (enabled and flocked and acq):
                return where + ": a loop is alive while the device is not in the streaming configuration"
        if is_start and r["res"] != 0 and alive != flag_before:
            return where + ": a failed start left a loop running"
        # --- stopping halts the loop FIRST: whatever else a stop / close of a streaming camera does or fails to
        #     do (a missing or wrongly typed AcquisitionStop / TLParamsLocked node, a failing register access ...),
        #     halting the receive loop is its first operation; the only way to return without having halted it is
        #     that halting the loop is itself the operation that failed
        if call in (STOP, CLOSE) and flag_before:
            codes = [e[0] for e in r["effs"]]
            if codes[:1] != [E_LSTOP] and not (not codes and r.get("failed") == E_LSTOP):
                return where + (": stop / close of a streaming camera did not halt the receive loop first "
                                "(effects %r, result %d, failed operation %d)" % (codes, r["res"], r.get("failed", -1)))
        # --- the streaming flag matches whether a loop is running; device state as replayed
        f = r["flags"]
        if bool(f & F_LOOP) != alive:
            return where + ": is_loop_running() = %d but a loop is %s" % (f & F_LOOP, "alive" if alive else "not alive")
        for bit, v, name in ((F_COPEN, copen, "control handle opened"), (F_SOPEN, sopen, "stream handle opened"),
                             (F_ENABLED, enabled, "stream enabled"), (F_LOCKED, locked, "TLParamsLocked"),
                             (F_ACQ, acq, "acquiring"), (F_MIRROR, mirror, "mirror of TLParamsLocked")):
            if bits & bit and bool(f & bit) != v:
                return where + ": device state '%s' differs from the effects that happened" % name
        ctxt = bool(f & F_CTXT)
        if 20 <= call <= LAST_LOAD and r["res"] == 0:
            hascopy = call == LOADC
            desc = call
            loaded.add(call)
        # --- a successful open leaves BOTH channels opened (also when an earlier open failed half-way: the retry
        #     must open what is still closed); everything after it presupposes that
        if call == OPEN and r["res"] == 0 and (bits & F_COPEN) and (bits & F_SOPEN) and not (copen and sopen):
            return where + ": open returned Ok but the %s channel is not opened" % ("control" if not copen else "stream")
        # --- failure: error returned, later steps not performed
        effcodes = [e[0] for e in r["effs"]]
        if reached:
            any_failure = True
            j, cls = reached[0]
            if r["res"] in (0, 2):
                return where + ": operation %d failed (fault class %d) but the call did not return an error" % (j, cls)
            if r["nops"] != j + 1:
                return where + ": operations were attempted after the failed operation %d (fault class %d): device log %r" % (j, cls, r["atts"])
            if len(r["effs"]) != j:
                return where + ": effects do not stop at the failed operation %d" % j
            fo = r["failed"]
            want = 100 + cls if fo in CTRL_OPS else 200 + cls if fo in STRM_OPS else 300 + cls if fo in REG_OPS else None
            if want is None or r["res"] != want:
                return where + ": error %d is not the error of the failed operation (code %d, fault class %d)" % (r["res"], fo, cls)
            if r["atts"] != effcodes + [fo]:
                return where + ": device log %r is not the successful accesses followed by the one failed attempt" % (r["atts"],)
        elif r["failed"] != 0:
            return where + ": an operation failed that the plan does not fail"
        elif r["atts"] is not None and r["atts"] != effcodes and not (E_LSTOP in r["atts"] and E_LSTOP not in effcodes):
            return where + ": device log %r differs from the accesses that took effect %r" % (r["atts"], effcodes)
        # --- every device access of a call is attempted at most once
        if r["atts"] is not None and len(set(r["atts"])) != len(r["atts"]):
            return where + ": an access was attempted twice: device log %r" % (r["atts"],)
        # --- bank access: a device read returns the device's value; a read served without a device access returns
        #     what a device read of that slot returned since the last clean close (cached values are dropped by close)
        if BANK <= call < BANK + NSLOT and r["res"] == 0:
            k = call - BANK
            if (E_BANK + k,) in r["effs"]:
                if r["val"] != mem[k]:
                    return where + ": device read of bank slot %d returned %d, the device holds %d" % (k, r["val"], mem[k])
                fresh[k] = r["val"]
            elif k not in fresh:
                return where + (": bank slot %d read as %d without a device access, although no value of it was read from the "
                                "device since the last close: cached register values must be dropped by close "
                                "(the device holds %d)" % (k, r["val"], mem[k]))
            elif r["val"] != fresh[k]:
                return where + (": bank slot %d read as %d without a device access; the value read from the device since "
                                "the last close is %d" % (k, r["val"], fresh[k]))
        # --- no device operation failed => no error: open / stop return Ok, start returns Ok unless it is refused for
        #     one of the two documented reasons (close: below)
        if i == faulty_call:
            any_failure = True      # end-to-end: a transaction of this call was disturbed
        if good and not any_failure and r["res"] != 0:
            if call in (OPEN, STOP):
                return where + ": %s failed (result %d) although no operation failed" % ("open" if call == OPEN else "stop_streaming", r["res"])
            if is_start and not flag_before and ctxt_before:
                return where + ": start_streaming failed (result %d) although no operation failed and a conforming description is loaded" % r["res"]
        # --- params access returns the device's TLParamsLocked (a host-side TLParamsLocked is not device-visible)
        if call == PARAMS and r["res"] == 0 and not hosttl and r["val"] != int(locked):
            return where + ": TLParamsLocked read as %d, the device holds %d" % (r["val"], int(locked))
        if i == faulty_call:
            any_failure = True      # end-to-end: a transaction of this call was disturbed
        # --- a close in which nothing failed drops the cached register values
        if call == CLOSE and r["res"] == 0 and not reached and i != faulty_call:
            fresh.clear()
        # --- clean close
        if call == CLOSE and good and not any_failure:
            if r["res"] != 0:
                return where + ": close failed although no operation failed"
            # the mirror register follows the description loaded at the time of each start / stop: it is demanded
            # to be 0 only when every description loaded in the session declares it (or none does)
            # likewise the register of TLParamsLocked when descriptions that keep it on the host side and descriptions that
            # keep it in the register were both loaded
            copymix = len({c == LOADC for c in loaded}) > 1
            hostmix = len({c == LOADH for c in loaded}) > 1
            dirty = f & bits & ~(F_MIRROR if copymix else 0) & ~(F_LOCKED if hostmix else 0)
            if dirty:
                return where + ": after close (no failure) state bits %d remain (1 loop, 4/8/16/2048/4096.. cache, 32/64 handles open, 128 stream enabled, 256 TLParamsLocked, 512 acquiring, 1024 mirror of TLParamsLocked)" % dirty
    return None


def parse_e2e(out, ncalls):
    """output of rust/h_u3v `cam16` -> records {res, effs (protocol-relevant device-memory writes), wire (every
    command sent during the call), val, flags}"""
    if not out or out[0] != 0:
        return None
    pos, res = 1, []
    for _ in range(ncalls):
        if pos + 2 > len(out):
            return None
        r, k = out[pos:pos + 2]
        pos += 2
        effs = [(x,) for x in out[pos:pos + k]]
        pos += k
        if pos >= len(out):
            return None
        w = out[pos]
        wire = out[pos + 1:pos + 1 + w]
        pos += 1 + w
        if pos + 2 > len(out) or len(wire) != w:
            return None
        val, flags = out[pos:pos + 2]
        pos += 2
        res.append({"res": r, "failed": 0, "nops": None, "atts": None, "effs": effs, "wire": wire, "val": val,
                    "flags": flags})
    return res if pos == len(out) else None


def with_loop_events(rs):
    """LoopStart / LoopStop are not device-memory writes: they are inferred from the streaming flag (a loop that
    appears during a call is put after the call's writes, one that disappears before them — their position
    inside the call is not observed end-to-end)."""
    out, flag = [], 0
    for r in rs:
        effs = list(r["effs"])
        if r["flags"] & F_LOOP and not flag:
            effs = effs + [(E_LSTART,)]
        if flag and not r["flags"] & F_LOOP:
            effs = [(E_LSTOP,)] + effs
        flag = r["flags"] & F_LOOP
        out.append(dict(r, effs=effs))
    return out


KIND_CLASS = {0: 1, 1: 1, 2: 1, 3: 0, 4: 2, 5: 3}     # fault kind of rust/h_u3v cam16 -> ControlError class
GENAPI_WIRE = {E_TL1, E_TL0, E_ASTART, E_ASTOP, E_READ}  # transactions issued through a GenApi node


def judge_e2e(c, rs):
    """End-to-end sessions.  Failure-free: the protocol over the device-memory writes.  With a disturbed
    transaction (call ci, transaction ti, kind) at a GenApi-driven access: the call fails with the class of
    the disturbance (Timeout for a lost command / lost acknowledge), the wire log shows ONE command for that
    access, nothing was sent after it (no later step), no loop was started by the failing call.  After a
    failure the real ControlHandle may recover on its own (enable_streaming first disables a stream left
    enabled), so the protocol replay is applied up to the failing call only."""
    calls = c.meta["calls"]
    faults = c.meta.get("faults") or []
    bits = F_LOOP | F_ENABLED | F_LOCKED
    if not faults:
        return judge(calls, [], with_loop_events(rs), bits)
    ci, ti, kind = faults[0]
    access = c.meta["access"]
    r = rs[ci]
    where = "call %d (%d), transaction %d disturbed (kind %d)" % (ci, calls[ci], ti, kind)
    wire = r["wire"]
    if len(wire) <= ti:
        return where + ": the call sent only %d commands (the failure-free run sent more)" % len(wire)
    cls = KIND_CLASS[kind]
    if r["res"] != 300 + cls:
        return where + ": the call returned %d, not the error of the disturbed access (%d)" % (r["res"], 300 + cls)
    if kind == 0:
        if wire[ti] != 39 or access in wire:
            return where + ": wire log %r: the access was sent again after the send failed" % (wire,)
    elif wire[ti] != access or wire.count(access) != 1:
        return where + ": wire log %r does not show exactly one command for the access %d" % (wire, access)
    if len(wire) != ti + 1:
        return where + ": commands were sent after the failed access (later steps performed): wire log %r" % (wire,)
    before = rs[ci - 1]["flags"] & F_LOOP if ci else 0
    if 10 <= calls[ci] <= 19 and (r["flags"] & F_LOOP) != before:
        return where + ": the failing start left a loop running"
    return judge(calls[:ci + 1], [], with_loop_events(rs[:ci + 1]), bits, faulty_call=ci)


E2E_SIRM, E2E_REGS, E2E_TAB, E2E_XML = 0x20000, 0x40000, 0x30000, 0x50000


def e2e_world_tokens():
    """A conforming U3V device for rust/shim: bootstrap registers, SIRM, a manifest with one uncompressed
    GenApi file defining TLParamsLocked / AcquisitionStart / AcquisitionStop over three registers."""
    import hashlib
    import u3vworld
    from xmlrender import HEADER

    def reg(name, addr):
        return ('<IntReg Name="%s"><Address>%d</Address><Length>4</Length><AccessMode>RW</AccessMode>'
                '<pPort>Device</pPort><Sign>Unsigned</Sign><Endianess>LittleEndian</Endianess></IntReg>' % (name, addr))
    xml = (HEADER
           + '<Integer Name="TLParamsLocked"><pValue>TLParamsLockedReg</pValue></Integer>'
           + '<Command Name="AcquisitionStart"><pValue>AcquisitionStartReg</pValue><CommandValue>1</CommandValue></Command>'
           + '<Command Name="AcquisitionStop"><pValue>AcquisitionStopReg</pValue><CommandValue>1</CommandValue></Command>'
           + reg("TLParamsLockedReg", E2E_REGS) + reg("AcquisitionStartReg", E2E_REGS + 4)
           + reg("AcquisitionStopReg", E2E_REGS + 8) + '<Port Name="Device"></Port></RegisterDescription>').encode()
    w = u3vworld.std_world(sirm=E2E_SIRM, manifest=E2E_TAB)
    w.poke(E2E_SIRM + 0x00, 4, 2 << 24)        # SI_INFO: payload size alignment 2^2
    w.poke(E2E_SIRM + 0x08, 8, 4096)           # required payload size
    w.poke(E2E_SIRM + 0x10, 4, 52)             # required leader size
    w.poke(E2E_SIRM + 0x14, 4, 32)             # required trailer size
    le = u3vworld.le
    entry = (le((1 << 24) | (0 << 16) | 0, 4) + le((1 << 24) | (1 << 16), 4) + le(E2E_XML, 8) + le(len(xml), 8)
             + hashlib.sha1(xml).digest() + bytes(20))
    w.seg(E2E_TAB, le(1, 8) + entry)
    w.seg(E2E_XML, xml + bytes(16))
    w.seg(E2E_REGS, bytes(0x100))
    return list(w.toks)


def mk_e2e(wt, calls, faults=(), access=None, mplan=()):
    """faults: (call index, transaction index, kind) for rust/h_u3v; mplan: the same failure for the model
    (call index, operation index, fault class); access: wire code of the disturbed access"""
    flat = [x for f in faults for x in f]
    toks = wt + [40, E2E_SIRM, E2E_REGS, E2E_REGS + 4, E2E_REGS + 8, len(calls)] + list(calls) + [len(faults)] + flat
    return Case("cam16", toks, {"calls": list(calls), "plan": [], "faults": [tuple(f) for f in faults], "access": access},
                term="cam_case true %s %s" % (zlist(calls), zlist([x for p in mplan for x in p])))


E2E_EFFECTS = {E_ENABLE, E_TL1, E_TL0, E_ASTART, E_ASTOP, E_DISABLE}
E2E_FLAGS = F_LOOP | F_CTXT | F_COPEN | F_ENABLED | F_LOCKED
E2E_HOST_FLAGS = F_LOOP | F_CTXT | F_COPEN


def e2e_cmp(rs, fault, from_model):
    """What is compared between the end-to-end run and the model.  Failure-free: result, protocol-relevant
    device writes, value read, streaming flag / context / opened / SI_CONTROL / TLParamsLocked.  With a fault in
    call ci: the calls before it in full; the failing call in full when the command never reached the device
    (kind 0: a failed operation has no effect, as in the model), otherwise result and host-side flags only (the
    device executed a write whose acknowledge was lost); later calls: result and host-side flags only (device
    memory and ControlHandle's own recovery are not modelled)."""
    out = [0]
    for i, r in enumerate(rs):
        effs = [e[0] for e in r["effs"] if not from_model or e[0] in E2E_EFFECTS]
        full = fault is None or i < fault[0] or (i == fault[0] and fault[2] == 0)
        if full:
            out += [r["res"], len(effs)] + effs + [r["val"], r["flags"] & E2E_FLAGS]
        else:
            out += [r["res"], -1, r["flags"] & E2E_HOST_FLAGS]
    return out


def open_while_streaming(calls):
    """Does the session call open() while a loop is running?  (Plain bookkeeping of the session; the
    description of the end-to-end device is conforming and nothing fails.)  The real StreamHandle::open
    takes the channel mutex that StreamingLoop::run holds for its whole life: the call blocks until the
    loop ends, i.e. forever from the thread that would stop it (whether it does depends on whether the
    loop thread already took the mutex).  Such sessions are left to the fakes."""
    ctxt = streaming = False
    for c in calls:
        if c == OPEN and streaming:
            return True
        if c == LOAD:
            ctxt = True
        elif 10 <= c <= 19 and not streaming and ctxt and c != 10:
            streaming = True
        elif c in (STOP, CLOSE):
            streaming = False
    return False


def e2e_sessions(depth):
    mid = [[]]
    allm = [[]]
    for _ in range(depth):
        mid = [m + [a] for m in mid for a in (LOAD, START, STOP, PARAMS, OPEN)]
        allm.extend(mid)
    out = [[OPEN] + m + [CLOSE] for m in allm]
    out += [[OPEN] + m + [CLOSE, OPEN, LOAD, START, PARAMS, CLOSE] for m in allm if len(m) <= 2]
    out += [[OPEN] + m for m in allm if len(m) == depth]          # sessions that end while streaming / open
    out += [[OPEN, LOAD, 11, STOP, CLOSE], [OPEN, LOAD, 10, CLOSE], [OPEN, LOAD, START, 10, STOP, CLOSE]]
    return [s for s in out if not open_while_streaming(s)]


def nontrivial(c, out):
    if c.kind == "cam16":
        rs = parse_e2e(out, len(c.meta["calls"])) if out else None
        return bool(rs) and any(r["flags"] & F_LOOP for r in rs)
    rs = parse(out, len(c.meta["calls"])) if out else None
    return bool(rs) and any((E_LSTART,) in r["effs"] for r in rs)


def sequences(depth):
    seqs = [[]]
    allseq = []
    for _ in range(depth):
        seqs = [s + [a] for s in seqs for a in ALPHABET]
        allseq.extend(seqs)
    return allseq


def reads(slots, lo, hi):
    """every sequence of lo..hi bank reads over the given slots"""
    seqs, out = [[]], []
    for n in range(hi + 1):
        if n >= lo:
            out.extend(seqs)
        seqs = [q + [BANK + k] for q in seqs for k in slots]
    return out


def bank_sessions(quick):
    """Cached register values across close / reopen.  open, load, the device's bank slots get values; some slots
    are read (device read, cached from then on); then one of: close + open (same context: the cache must have
    been dropped), close + open + load (new context), close while streaming, close twice, stop only / nothing
    (no close: the cached values stay valid), a description with the mirror; the device's slots CHANGE (before or
    after that step); then up to three reads in every order: after a clean close the first read of each slot must
    be a device read returning the device's new value, whichever slots were read before it."""
    slots = (0, 1, 2)
    v0 = [poke(k, 10 + k) for k in slots]
    v1 = [poke(k, 20 + 3 * k) for k in slots]
    mids = ([CLOSE, OPEN], [CLOSE, OPEN, LOAD], [START, CLOSE, OPEN], [START, STOP, CLOSE, OPEN], [CLOSE, CLOSE, OPEN],
            [STOP], [START, STOP], [], [CLOSE], [CLOSE, LOADC, OPEN])
    out = []
    for pre in reads(slots, 0, 2):
        for mi, mid in enumerate(mids):
            for post in reads(slots, 1, 3):
                if quick and mi >= 3 and len(post) == 3 and len(pre) == 2:
                    continue
                head = [OPEN, LOADC if mi == 4 else LOAD] + v0 + pre
                out.append(head + mid + v1 + post)                 # the device changes while closed / afterwards
                if mi in (0, 2, 5):
                    out.append(head + v1 + mid + post)             # the device changes before the close
    # slot 3, repeated close / open cycles, reads while streaming
    for a in range(NSLOT):
        for b in range(NSLOT):
            out.append([OPEN, LOAD, poke(a, 7), BANK + a, BANK + b, START, BANK + a, CLOSE, poke(a, 9), poke(b, 8), OPEN,
                        BANK + b, BANK + a, CLOSE, poke(a, 11), OPEN, START, BANK + a, BANK + b, STOP, BANK + a, CLOSE])
    return out


def variant_sessions(load, depth):
    """every session up to the depth over {open, load_context(the given description), start_streaming(3),
    stop_streaming, close, params access}"""
    seqs, out = [[]], []
    for _ in range(depth):
        seqs = [q + [a] for q in seqs for a in (OPEN, load, START, STOP, CLOSE, PARAMS)]
        out.extend(seqs)
    return out


def copy_sessions(depth):
    """the description with the <pValueCopy> mirror"""
    return variant_sessions(LOADC, depth)


def avail_sessions():
    """Description LOADA: AcquisitionStart / AcquisitionStop carry <pIsAvailable> backed by two device registers
    (words 4 / 5 of the device memory).  The device sets them in every combination before start_streaming and again
    between start and stop / close (e.g. the acquisition ended on its own).  Camera executes the commands without
    consulting their access mode: when no device operation fails, start, stop and close succeed and close leaves
    everything clean, whatever the registers hold."""
    out = []
    bits = (0, 1)
    for a0 in bits:
        for b0 in bits:
            for a1 in bits:
                for b1 in bits:
                    pre = [poke(AVAIL_START, a0), poke(AVAIL_STOP, b0)]
                    mid = [poke(AVAIL_START, a1), poke(AVAIL_STOP, b1)]
                    for tail in ([STOP], [CLOSE], [STOP, CLOSE], [PARAMS, CLOSE, OPEN, START, STOP, CLOSE], [STOP, START, CLOSE],
                                 [CLOSE, CLOSE]):
                        out.append([OPEN, LOADA] + pre + [START] + mid + tail)
    for a1 in bits:
        for b1 in bits:
            mid = [poke(AVAIL_START, a1), poke(AVAIL_STOP, b1)]
            out.append([OPEN, LOADA, START] + mid + [CLOSE])
            out.append([LOADA, START] + mid + [STOP, START, STOP])
            out.append([OPEN, LOAD, START, LOADA] + mid + [CLOSE])        # the description changes while streaming
    return out


def value_sessions():
    """The values AcquisitionStart / AcquisitionStop write are the CommandValues of the description, whatever else is
    written through the context: descriptions with TLParamsLocked on the host side (Camera itself writes that variable),
    with AcquisitionStop CommandValue 0 or 1, x params writes of other host-side variables (UserVar <Value>1</Value>,
    the bank selector <Value>0</Value>) before start and between start and stop."""
    acts = ([], [USER + 0], [USER + 1], [USER + 7], [BANK + 0], [BANK + 2], [BANK + 1, USER + 0], [PARAMS])
    out = []
    for load in (LOADH, LOADZ, LOAD, LOADC, LOADA):
        for pre in acts:
            for mid in acts:
                for tail in ([STOP, CLOSE], [CLOSE], [STOP, START, STOP, CLOSE]):
                    out.append([OPEN, load] + pre + [START] + mid + tail)
    # descriptions that keep TLParamsLocked in different places / have different stop values, loaded in one session
    for a in (LOAD, LOADC, LOADH, LOADZ, LOADA):
        for b in (LOAD, LOADC, LOADH, LOADZ, LOADA):
            if a != b:
                out.append([OPEN, a, START, b, STOP, CLOSE])
                out.append([OPEN, a, START, PARAMS, b, PARAMS, CLOSE, PARAMS, OPEN, START, PARAMS, a, CLOSE])
                out.append([OPEN, a, START, STOP, b, USER + 3, START, CLOSE])
    return out


def shared_sessions(quick):
    """Sessions for the camera instantiated with the SHARABLE context (SharedDefaultGenApiCtxt), the application
    taking a second handle of the context (HOLD) at some point and keeping it across the close or dropping it before:
    close must drop the cached register values whoever else holds the context.  Shapes as in bank_sessions: slots get
    values, some are read (cached), [hold], close / stop+close / close while streaming, the device's slots change,
    open, reads in every order of up to two; also the hold taken before the load (it is a handle of ANOTHER context
    then), dropped again before the close, taken twice."""
    slots = (0, 1, 2)
    v0 = [poke(k, 10 + k) for k in slots]
    v1 = [poke(k, 20 + 3 * k) for k in slots]
    out = []
    for pre in reads(slots, 0, 1 if quick else 2):
        for mid in ([CLOSE, OPEN], [START, CLOSE, OPEN], [START, STOP, CLOSE, OPEN], [CLOSE, OPEN, LOAD], [STOP]):
            for post in reads(slots, 1, 2):
                for hv in range(6):
                    head = [OPEN, LOAD] + v0
                    if hv == 0:
                        s_ = head + pre + mid
                    elif hv == 1:
                        s_ = head + [HOLD] + pre + mid                  # held across the close
                    elif hv == 2:
                        s_ = head + pre + [HOLD] + mid
                    elif hv == 3:
                        s_ = head + pre + [HOLD, DROP] + mid            # dropped before the close
                    elif hv == 4:
                        s_ = [OPEN, HOLD, LOAD] + v0 + pre + [HOLD, HOLD] + mid
                    else:
                        s_ = head + [HOLD] + pre + mid[:-1] + [DROP] + mid[-1:]     # dropped after the close
                    out.append(s_ + v1 + post)
    return out


def masked_sessions(depth):
    """TLParamsLocked declared as a <MaskedIntReg>: every session up to the depth over the six calls, the other bits of
    its register set by the device beforehand (0xA0) in every second session"""
    out = []
    for i, s_ in enumerate(variant_sessions(LOADM, depth)):
        out.append(([poke(TL_OTHER, 0xA0)] if i % 2 == 0 else []) + s_)
    return out


def extra_cases(ck):
    rng = Rng(ck.seed)
    quick = ck.tier == "quick"
    cases = []
    # documented panic start(0), cap 1, every description variant
    for v in range(28):
        for tail in ([START, PARAMS, STOP, CLOSE], [START, STOP, START, CLOSE], [START, CLOSE, PARAMS],
                     [10, STOP, CLOSE], [11, LOAD, STOP, CLOSE]):
            cases.append(mk([OPEN, 20 + v] + tail))
    for s in ([OPEN, LOAD, 10, CLOSE], [OPEN, LOAD, 10, START, STOP], [10], [LOAD, 10, 10, PARAMS], [LOAD, START, 10],
              [OPEN, LOAD, START, 47, STOP], [OPEN, LOAD, START, 21, STOP, CLOSE], [OPEN, LOAD, START, 29, CLOSE, PARAMS],
              [OPEN, LOAD, START, 38, STOP, LOAD, STOP, CLOSE], [LOAD, 11, STOP, 19, CLOSE, CLOSE],
              [47, START, CLOSE], [OPEN, START, CLOSE], [START, LOAD, START, CLOSE],
              # descriptions with and without the mirror loaded in one session (the mirror may stay set), cap 0 / 1
              [OPEN, LOADC, START, LOAD, STOP, CLOSE], [OPEN, LOADC, START, LOAD, CLOSE, LOADC, OPEN, START, CLOSE],
              [OPEN, LOAD, START, LOADC, STOP, CLOSE], [OPEN, LOADC, 10, CLOSE], [OPEN, LOADC, 11, PARAMS, STOP, CLOSE],
              [OPEN, LOADC, START, 47, STOP, CLOSE], [OPEN, LOADC, START, 21, STOP, LOADC, STOP, CLOSE],
              [USER + 2], [OPEN, USER], [OPEN, 47, USER + 9], [OPEN, LOADH, 10, CLOSE], [OPEN, LOADH, 11, PARAMS, STOP, PARAMS, CLOSE],
              [OPEN, LOADH, PARAMS, CLOSE, OPEN, PARAMS], [OPEN, LOADA, 10, CLOSE], [OPEN, LOADZ, START, 47, CLOSE],
              [HOLD], [OPEN, LOAD, HOLD, DROP, CLOSE], [poke(TL_OTHER, 0xA0), OPEN, LOADM, PARAMS, START, PARAMS, CLOSE, PARAMS],
              [poke(TL_OTHER, 0x50), OPEN, LOADM, START, LOADM, STOP, CLOSE], [OPEN, LOADM, START, LOAD, STOP, CLOSE],
              [OPEN, LOAD, START, LOADM, PARAMS, CLOSE], [OPEN, LOADM, 10, CLOSE], [OPEN, LOADM, START, poke(TL_OTHER, 0x30), CLOSE],
              [BANK], [OPEN, BANK + 1], [OPEN, 47, BANK + 2], [OPEN, 21, poke(3, 5), BANK + 3, BANK + 3, CLOSE, BANK + 3]):
        cases.append(mk(s))
    # random longer sessions over the extended alphabet with random multi-failure plans
    ext = (ALPHABET * 4 + [10, 11, 19, 21, 23, 29, 32, 38, 46, 47] + [LOADC] * 3 + [BANK + k for k in range(NSLOT)] * 2
           + [LOADA, LOADH, LOADH, LOADZ, USER, USER + 1, USER + 5, LOADM, LOADM, HOLD, DROP])
    n = 2500 if quick else 40000
    for _ in range(n):
        ln = rng.range(3, 12)
        if rng.chance(1, 2):
            calls = [rng.choice(ALPHABET) for _ in range(ln)]
        else:
            calls = [rng.choice(ext) if rng.chance(5, 6) else poke(rng.below(NMEM), rng.below(256)) for _ in range(ln)]
        if rng.chance(2, 3):
            calls = [OPEN, rng.choice([LOADC, LOADH, LOADZ, LOADA, LOADM]) if rng.chance(1, 3) else LOAD] + calls
        k = rng.choice([0, 1, 1, 2, 2, 3, 5])
        pts = sorted({(rng.below(len(calls)), rng.below(5)) for _ in range(k)})
        cases.append(mk(calls, [(a, b, rng.below(NCLASS)) for a, b in pts], shared=rng.chance(1, 4)))
    return cases


def e2e_fault_cases(wt, triples):
    """From failure-free end-to-end runs: every transaction of every call that is a GenApi-driven access
    (TLParamsLocked / AcquisitionStart / AcquisitionStop write, TLParamsLocked read) x 6 kinds of disturbance.
    The model gets the same failure as (call, index of that access in the model's own device log, class)."""
    out = []
    for c, o, m in triples:
        calls = c.meta["calls"]
        rs = parse_e2e(o, len(calls)) if o else None
        ms = parse(m, len(calls)) if m else None
        if rs is None or ms is None:
            continue
        for ci, (r, mr) in enumerate(zip(rs, ms)):
            for ti, code in enumerate(r["wire"]):
                if code in GENAPI_WIRE and code in mr["atts"]:
                    for kind in sorted(KIND_CLASS):
                        out.append(mk_e2e(wt, calls, [(ci, ti, kind)], access=code,
                                          mplan=[(ci, mr["atts"].index(code), KIND_CLASS[kind])]))
    return out


def e2e_compare(ck, cases, impl, model, family):
    """predicate on the full end-to-end output; correspondence on the comparable part (e2e_cmp)"""
    ck.compare(cases, impl, None, predicate, nontrivial, family=family)
    iv, mv = [], []
    for c, o, m in zip(cases, impl, model):
        n = len(c.meta["calls"])
        fault = (c.meta.get("faults") or [None])[0]
        rs = parse_e2e(o, n) if o else None
        ms = parse(m, n) if m else None
        iv.append(o if rs is None else e2e_cmp(rs, fault, False))
        mv.append(None if ms is None else e2e_cmp(ms, fault, True))
    n0 = ck.evaluations
    ck.compare(cases, iv, mv, None, nontrivial, family=family + " (vs model)")
    ck.evaluations = n0


RULE = ("exhaustive: every session over {open, load_context, start_streaming(3), stop_streaming, close, params access} "
        "up to depth %d, failure-free and with every single failure point (each DeviceControl / PayloadStream operation the "
        "failure-free run attempts, found by running the real code) x fault class: all 8 classes (Io, Timeout, Disconnected, "
        "Busy, NotOpened, InvalidData, InvalidDevice, BufferTooSmall / the StreamError counterparts) at every failure point of "
        "the sessions up to depth %d, one rotating class per point above%s; plus start_streaming(0) / (1), the 28 description "
        "variants (each of TLParamsLocked / AcquisitionStart / AcquisitionStop good / missing / wrong interface, unparsable "
        "text) and seeded random sessions of length 3..14 with 0..5 simultaneous failures of random classes; "
        "the description that declares TLParamsLocked with <pValue> + <pValueCopy> (mirror register): every session up to "
        "depth 4 (thorough with 8 or more workers: 5) over the six calls, failure-free and with every single failure point (all 8 fault classes at the mirror "
        "write of start / stop / close, one rotating class elsewhere); a selector-addressed register bank (<IntReg> with "
        "<pIndex Offset=4>, WriteThrough, one cache block per slot) read through the camera's params context: sessions "
        "open, load, reads of 0..2 slots, {close+open | close+open+load | start+close+open | start+stop+close+open | "
        "close+close+open | stop | start+stop | nothing | close | close+load(mirror)+open}, the device's bank memory "
        "changed by the environment before or after that step, then every order of 1..3 reads (+ close / open cycles "
        "over all 4 slots while streaming), failure-free and (a sample) with every single failure point (all classes at "
        "the bank reads); descriptions whose AcquisitionStart / AcquisitionStop carry <pIsAvailable> backed by two device "
        "registers, the device setting them in every combination before start_streaming and again before stop / close "
        "(x every single failure point); a description that keeps TLParamsLocked as a host-side variable (<Value>0</Value>) "
        "with AcquisitionStop <CommandValue>0</CommandValue> (every session up to depth 4 x every failure point), one with "
        "TLParamsLocked in its register and stop value 0, the <pIsAvailable> one (depth 3); five descriptions x params writes "
        "of host-side variables (UserVar <Value>1</Value> := 0 / 1 / 7, the bank selector <Value>0</Value>) before start and "
        "between start and stop, descriptions of different kinds loaded in one session; real "
        "Camera<FakeCtrl, FakeStrm, DefaultGenApiCtxt> vs Gallina model (vm_compute): per-call result (carrying the fault "
        "class), failed operation, device log (every operation attempted, in order), effect trace, value read, state after "
        "every call (streaming flag, context, register cache, device state); "
        "independent Python predicate = the acquisition protocol replayed over the implementation's effect trace (the "
        "mirror of TLParamsLocked is written after the <pValue> register, before AcquisitionStart / DisableStreaming) + error of "
        "the failed operation with the injected class + every access attempted once + nothing after the failed attempt + "
        "a device read of a bank slot returns the device's current value, a read served without a device access returns "
        "what a device read of that slot returned since the last close in which nothing failed (cached register values "
        "are dropped by close) + AcquisitionStart / AcquisitionStop write the CommandValue of the description loaded last "
        "(the effect code carries the value written) + when no operation failed (conforming descriptions, cap > 0) open, "
        "stop_streaming and close return Ok and start_streaming returns Ok unless it is refused as InStreaming / "
        "GenApiContextMissing; "
        "end-to-end: failure-free sessions open . {load, start, stop, params, open}^<=%d . close (and re-open tails) on the real "
        "Camera<ControlHandle, StreamHandle> over the scripted U3V device of rust/shim (real manifest / XML fetch, SIRM "
        "programming, streaming-loop thread): result classes, protocol-relevant device-memory writes, value read, streaming flag, "
        "SI_CONTROL / TLParamsLocked in device memory vs the same model; and the same sessions with ONE disturbed control "
        "transaction at every GenApi-driven access (TLParamsLocked / AcquisitionStart / AcquisitionStop write, TLParamsLocked "
        "read) x {command lost, acknowledge lost, receive error Timeout / Io / NoDevice / Busy}: the call must fail with that "
        "class, the wire log must show one command for the access and nothing after it; non-trivial = a receive loop is started")


def main():
    ck = Check("C16")
    quick = ck.tier == "quick"
    depth = 5 if quick else 6
    ck.rule = RULE % (depth, 4 if quick or vplib.NPROC < 8 else 5,
                      "" if quick else "; a seeded sample of depth-7 sessions, failure-free and with sampled failure points",
                      3 if quick else 5)
    ck.trusted += [
        "rust/h_camera: the recording fakes (FakeCtrl / FakeStrm: a planned failure of a chosen fault class has no effect; every "
        "invocation of a fake method is logged as an attempt; the loop is a flag, no thread; the bank memory is changed "
        "by environment steps of the session), the GenApi descriptions it serves (three SFNC nodes, the mirror variant, "
        "the selector-addressed bank, the availability registers, the host-side TLParamsLocked, the command values: the fake "
        "device starts / stops acquiring when the value written is the CommandValue of the description loaded last), its "
        "classification of CameleonError",
        "camera.rs + genapi/mod.rs (GenApiDevice) are exercised over the fakes (all failure plans) and over the real ControlHandle / "
        "StreamHandle on the scripted device of rust/shim (rust/h_u3v cam16: failure-free, and with one disturbed control "
        "transaction at a GenApi-driven access); the handles themselves are the subject of C06, C07, C12, C15",
    ]
    ck.prove()
    ck.phase("prove")
    binary, log = ck.cargo_build("h_camera")
    ck.phase("cargo")
    if binary is None:
        path = ck.write_replay({"kind": "build", "property": "C16", "unchecked": "correspondence via rust/h_camera",
                                "log": log[-6000:]})
        ck.violations.append((path, True, "harness rust/h_camera does not build against the repository: correspondence cannot be established"))
        ck.finish()
    if ck.replay:
        r = json.load(open(ck.replay))
        if r.get("kind") != "case":
            print(json.dumps(r, indent=1)[:4000])
            sys.exit(0)
        if r.get("ckind") == "cam16":
            wt = e2e_world_tokens()
            t = [int(x) for x in r["case"].split()[1:][len(wt) + 5:]]
            calls = t[1:1 + t[0]]
            nf = t[1 + t[0]] if len(t) > 1 + t[0] else 0
            faults = [tuple(t[2 + t[0] + 3 * i:5 + t[0] + 3 * i]) for i in range(nf)]
            ubin, ulog = ck.cargo_build("h_u3v")
            if ubin is None:
                print("rust/h_u3v does not build:\n" + ulog[-2000:])
                sys.exit(2)
            c0 = mk_e2e(wt, calls)
            o0 = ck.run_impl(ubin, [c0.line])
            m0 = ck.run_model_terms(["Camera"], [c0.term])
            cases = [c0]
            if faults:
                cases = [c for c in e2e_fault_cases(wt, [(c0, o0[0], m0[0])]) if c.meta["faults"] == faults]
            impl = ck.run_impl(ubin, [c.line for c in cases])
            model = ck.run_model_terms(["Camera"], [c.term for c in cases])
            for c, o, m in zip(cases, impl, model):
                print("calls    :", c.meta["calls"], "faults (call, transaction, kind):", c.meta["faults"])
                print("impl     :", o)
                print("model    :", m)
                print("predicate:", predicate(c, o) or "holds")
            e2e_compare(ck, cases, impl, model, "replay")
            ck.finish()
        else:
            cases = [case_from_line(r["case"])]
            impl = ck.run_impl(binary, [c.line for c in cases])
            model = ck.run_model_terms(["Camera"], [c.term for c in cases])
        print("case     :", cases[0].line[:300])
        print("calls    :", cases[0].meta["calls"], "plan:", cases[0].meta["plan"])
        print("impl     :", impl[0])
        print("model    :", model[0])
        print("predicate:", predicate(cases[0], impl[0]) or "holds")
        ck.compare(cases, impl, model, predicate, nontrivial, family="replay")
        ck.finish()
    # Sessions are kept as (calls, plan) pairs and turned into cases batch by batch: the thorough tier has
    # several 10^5 cases and must stay small in memory.
    kinds = {}
    bank_stats, copy_stats, cmd_stats = {}, {}, {}
    JOBS = min(vplib.NPROC, 16)
    # sessions up to this depth: every fault class at every failure point (thorough with fewer than 8 workers
    # stays at 4 to keep the tier under 20 minutes: 19.5 min were measured with depth 5 and VERIF_JOBS=4)
    all_depth = 4 if quick or vplib.NPROC < 8 else 5
    rng7 = Rng(ck.seed + 7)

    def split_family(flat):
        outs, cur = [], []
        for x in flat:
            if x == -9:
                outs.append(cur)
                cur = []
            else:
                cur.append(x)
        return outs

    def salt_of(calls):
        return len(calls) + sum(calls)

    def classes_for(calls, ci, oi, allc):
        return list(range(NCLASS)) if allc else [(salt_of(calls) + ci + oi) % NCLASS]

    def families(sessions, family, keep=None, focus=False, shared=False):
        """Each session failure-free and with every single failure point x fault class.  Sessions up to depth
        `all_depth` get EVERY fault class at every failure point, deeper ones one class per point (rotating with
        the session and the point).  Implementation: the failure points are the operations the failure-free run
        of the real code attempts (counted by the fakes).  Model: ONE term per session (cam_family) that
        enumerates the failure points from the model's own operation counts and the same classes; the two
        enumerations must agree (a different count is a disagreement).
        focus: every fault class at the failure points that are a write of the <pValueCopy> mirror or a bank read,
        one rotating class at the others (model: focus_classes)."""
        nfail = 0
        for i in range(0, len(sessions), 4000):
            part = sessions[i:i + 4000]
            base_cases = [mk(s, shared=shared) for s in part]
            base_out = ck.run_impl(binary, [c.line for c in base_cases], jobs=JOBS)
            per_session = []
            for calls, c0, o in zip(part, base_cases, base_out):
                cs = [c0]
                rs = parse(o, len(calls)) if o else None
                allc = len(calls) <= all_depth and not focus
                for ci, r in enumerate(rs or []):
                    for oi in range(r["nops"]):
                        if keep is not None:
                            if keep():
                                cs.append(mk(calls, [(ci, oi, rng7.below(NCLASS))], shared=shared))
                        else:
                            cs.extend(mk(calls, [(ci, oi, k)], shared=shared)
                                      for k in classes_for(calls, ci, oi, allc or (focus and r["atts"][oi] in FOCUS_OPS)))
                per_session.append(cs)
            flat_cases = [c for cs in per_session for c in cs[1:]]
            flat_impl = ck.run_impl(binary, [c.line for c in flat_cases], jobs=JOBS)
            if keep is None:
                fam = ck.run_model_terms(["Camera"], [
                    "cam_family_by true %s (focus_classes %d)" % (zlist(s), salt_of(s)) if focus else
                    "cam_family true %s %s" % (zlist(s), "all_classes" if len(s) <= all_depth else "(one_class %d)" % salt_of(s))
                    for s in part], per_eval=100, jobs=min(JOBS, len(part) // 20 + 1) if focus else None)
            cases, impl, model, k = [], [], [], 0
            for j, cs in enumerate(per_session):
                outs = [base_out[j]] + flat_impl[k:k + len(cs) - 1]
                k += len(cs) - 1
                if keep is None:
                    m = split_family(fam[j])
                    if len(m) != len(cs):       # the model attempts a different number of operations
                        m = (m + [None] * len(cs))[:len(cs)]
                else:
                    m = None
                cases += cs
                impl += outs
                model += m if m is not None else []
            if keep is not None:
                model = ck.run_model_terms(["Camera"], [c.term for c in cases], per_eval=400)
            nfail += len(cases) - len(part)
            ck.compare(cases, impl, model, predicate, nontrivial, family=family)
            count_kinds(cases, impl)
        return nfail

    def count_kinds(cases, impl):
        for c, o in zip(cases, impl):
            calls = c.meta["calls"]
            rs = parse(o, len(calls)) if o else None
            closed = False          # a clean close happened and the slot was not read since
            unread = set()
            desc, avail = None, [0, 0]
            for call, r in zip(calls, rs or []):
                kinds[r["res"]] = kinds.get(r["res"], 0) + 1
                if call >= 1000 and AVAIL_START <= (call - 1000) // 256 <= AVAIL_STOP:
                    avail[(call - 1000) // 256 - AVAIL_START] = (call - 1000) % 256
                for e in r["effs"]:
                    if e[0] in (E_ASTART, E_ASTART0, E_ASTOP, E_ASTOP0):
                        name = "AcquisitionStart" if e[0] in (E_ASTART, E_ASTART0) else "AcquisitionStop"
                        key = "%s wrote %d (description %s)" % (name, 1 if e[0] in (E_ASTART, E_ASTOP) else 0, desc)
                        if desc == LOADA:
                            key += ", availability register %s" % ("!= 0" if avail[0 if name == "AcquisitionStart" else 1] else "= 0")
                        cmd_stats[key] = cmd_stats.get(key, 0) + 1
                if 20 <= call <= LAST_LOAD and r["res"] == 0:
                    desc = call
                if call == CLOSE and r["res"] == 0 and not r["failed"]:
                    unread = set(range(NSLOT))
                if BANK <= call < BANK + NSLOT and r["res"] == 0:
                    k = call - BANK
                    what = ("device read, first read of the slot after a clean close" if k in unread and r["effs"] else
                            "device read" if r["effs"] else
                            "served from the cache, first read of the slot after a clean close" if k in unread else
                            "served from the cache")
                    bank_stats[what] = bank_stats.get(what, 0) + 1
                    unread.discard(k)
                if r["failed"] in (E_COPY1, E_COPY0):
                    key = "start" if r["failed"] == E_COPY1 else "stop / close"
                    copy_stats[key] = copy_stats.get(key, 0) + 1

    def process(specs, family, shared=False):
        """specs: (calls, plan) or (calls, plan, shared)"""
        seen = set()
        for i in range(0, len(specs), 50000):
            cases = []
            for sp in specs[i:i + 50000]:
                c = mk(sp[0], sp[1], shared=sp[2] if len(sp) > 2 else shared)
                if c.line not in seen:
                    seen.add(c.line)
                    cases.append(c)
            impl = ck.run_impl(binary, [c.line for c in cases], jobs=JOBS)
            model = ck.run_model_terms(["Camera"], [c.term for c in cases], per_eval=400)
            ck.compare(cases, impl, model, predicate, nontrivial, family=family)
            count_kinds(cases, impl)

    base = sequences(depth)
    ck.dist["exhaustive_sessions"] = len(base)
    ck.phase("generate")
    ck.dist["exhaustive_single_failure_cases"] = families(base, "exhaustive depth<=%d x single failure x fault class" % depth)
    ck.dist["every_fault_class_up_to_depth"] = all_depth
    ck.phase("exhaustive")
    # the description with the <pValueCopy> mirror: every session up to depth 4, every failure point (every fault class
    # at the mirror writes)
    cdepth = 4 if quick or vplib.NPROC < 8 else 5
    csess = copy_sessions(cdepth)
    ck.dist["copy_variant_sessions"] = len(csess)
    ck.dist["copy_variant_single_failure_cases"] = families(
        csess, "description with <pValueCopy>: exhaustive depth<=%d x single failure (every class at the mirror write)" % cdepth,
        focus=True)
    ck.phase("pValueCopy")
    # TLParamsLocked on the host side / AcquisitionStop with CommandValue 0 / commands with <pIsAvailable>
    hsess = variant_sessions(LOADH, cdepth) + variant_sessions(LOADZ, 3) + variant_sessions(LOADA, 3)
    ck.dist["host_side_TLParamsLocked_sessions"] = len(hsess)
    ck.dist["host_side_TLParamsLocked_single_failure_cases"] = families(
        hsess, "descriptions with a host-side TLParamsLocked (depth<=%d) / stop CommandValue 0 / <pIsAvailable> commands "
        "(depth<=3) x single failure" % cdepth, focus=True)
    asess = avail_sessions()
    vsess = value_sessions()
    ck.dist["availability_sessions"] = len(asess)
    ck.dist["command_value_sessions"] = len(vsess)
    ck.dist["availability_single_failure_cases"] = families(
        asess, "commands with <pIsAvailable>: the device sets the availability registers in every combination before start "
        "and before stop / close x single failure", focus=True)
    process([(s_, ()) for s_ in vsess], "command values: host-side TLParamsLocked / stop value 0 x params writes of host-side variables")
    ck.dist["command_value_single_failure_cases"] = families(
        vsess[::4 if quick else 1], "command values x single failure", focus=True)
    ck.phase("host / values / availability")
    # cached values across close / reopen, the device's memory changing behind the cache
    bsess = bank_sessions(quick)
    ck.dist["bank_sessions"] = len(bsess)
    process([(s_, ()) for s_ in bsess], "register bank read before / after close / reopen, device memory changed in between")
    bfail = bsess[::13 if quick else 5]
    ck.dist["bank_single_failure_cases"] = families(
        bfail, "register bank across close / reopen x single failure (every class at the bank reads)", focus=True)
    ck.phase("bank")
    # the camera instantiated with the sharable context, a second handle of the context alive across the close or not
    ssess = shared_sessions(quick)
    ck.dist["shared_context_sessions"] = len(ssess)
    process([(s_, ()) for s_ in ssess], "Camera<.., SharedDefaultGenApiCtxt>: bank reads across close / reopen with a second "
            "handle of the context held / dropped by the application", shared=True)
    ck.dist["shared_context_single_failure_cases"] = families(
        variant_sessions(LOAD, 3) + variant_sessions(LOADC, 3) + ssess[::29 if quick else 7],
        "Camera<.., SharedDefaultGenApiCtxt>: exhaustive depth<=3 (plain / mirror description) + bank sessions x single failure",
        focus=True, shared=True)
    ck.phase("shared context")
    # TLParamsLocked as a <MaskedIntReg>: the read-back of the register is a failure point of its own
    msess = masked_sessions(cdepth)
    ck.dist["masked_TLParamsLocked_sessions"] = len(msess)
    ck.dist["masked_TLParamsLocked_single_failure_cases"] = families(
        msess, "TLParamsLocked as <MaskedIntReg>: exhaustive depth<=%d x single failure (every class at the read-back)" % cdepth,
        focus=True)
    ck.phase("MaskedIntReg")
    other = []
    if not quick:
        rng = rng7
        d7 = sequences(7)[len(base):]
        deep = [d7[i] for i in sorted({rng.below(len(d7)) for _ in range(70000)})]
        del d7
        ck.dist["depth7_sessions_sampled"] = len(deep)
        ck.dist["depth7_failure_cases_sampled"] = families(deep, "sampled depth 7 x sampled single failure",
                                                           keep=lambda: rng.chance(1, 12))
        ck.phase("depth7")
    other += [(c.meta["calls"], tuple(c.meta["plan"]), c.meta["shared"]) for c in extra_cases(ck)]
    process(other, "deep / variants / random multi-failure")
    del other
    ck.phase("deep+random")
    # end-to-end: the same sessions (failure-free, handles opened first) on Camera<ControlHandle, StreamHandle>
    # over the scripted U3V device of rust/shim
    ubin, ulog = ck.cargo_build("h_u3v")
    if ubin is None:
        path = ck.write_replay({"kind": "build", "property": "C16", "unchecked": "end-to-end correspondence via rust/h_u3v",
                                "log": ulog[-6000:]})
        ck.violations.append((path, True, "harness rust/h_u3v does not build against the repository: end-to-end correspondence cannot be established"))
    else:
        wt = e2e_world_tokens()
        ecases = [mk_e2e(wt, s) for s in e2e_sessions(3 if quick else 5)]
        eimpl = ck.run_impl(ubin, [c.line for c in ecases], jobs=min(JOBS, 8), timeout=60 if quick else 240)
        emodel = ck.run_model_terms(["Camera"], [c.term for c in ecases], per_eval=400)
        e2e_compare(ck, ecases, eimpl, emodel, "end-to-end Camera<ControlHandle, StreamHandle> over the scripted device")
        # a disturbed transaction (lost command, lost acknowledge, receive error) at every GenApi-driven access
        fdepth = 3 if quick else 4
        fcases = e2e_fault_cases(wt, [(c, o, m) for c, o, m in zip(ecases, eimpl, emodel)
                                      if len(c.meta["calls"]) <= fdepth + 2])
        fimpl = ck.run_impl(ubin, [c.line for c in fcases], jobs=min(JOBS, 8), timeout=60 if quick else 240)
        fmodel = ck.run_model_terms(["Camera"], [c.term for c in fcases], per_eval=400)
        e2e_compare(ck, fcases, fimpl, fmodel, "end-to-end, one disturbed transaction at a GenApi-driven access")
        ck.dist["end_to_end_fault_cases"] = len(fcases)
        ck.phase("end-to-end")
    ck.dist["call_results_by_class"] = kinds
    ck.dist["bank_reads"] = bank_stats
    ck.dist["acquisition_commands"] = cmd_stats
    ck.dist["failed_mirror_writes_of_TLParamsLocked"] = copy_stats
    ck.exhaustive = False   # the theorems are for unbounded sessions; the correspondence enumerates depth <= depth only
    ck.dist["exhaustive_bound"] = "sessions over 6 calls up to depth %d x every single failure point" % depth
    ck.finish()
