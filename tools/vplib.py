"""Shared machinery of the /verif checks.

A check (tools/cXX.py) does, in this order:
  prove()        build the Coq development needed by props/Cxx.v with make (full
                 .vo build), re-run coqc on props/Cxx.v to capture Print
                 Assumptions, grep for forbidden constructs;
  run_impl()     build a Rust harness against /repo's current working tree and
                 feed it case lines;
  run_model()    evaluate the Gallina model on the same cases with coqc /
                 vm_compute (kernel VM; no extraction in the loop);
  compare()      diff the two, evaluate the property's own predicate on the
                 implementation's output, consult KNOWN_FINDINGS.json;
  finish()       write evidence/Cxx.json, print VIOLATION / KNOWN-FINDING lines,
                 exit 0 / 1 (2 = the machinery itself failed).
"""
import fcntl
import glob
import hashlib
import json
import os
import re
import subprocess
import sys
import time
from concurrent.futures import ThreadPoolExecutor

VERIF = os.path.dirname(os.path.dirname(os.path.abspath(__file__)))
REPO = os.environ.get("VERIF_REPO", "/repo")
CACHE = os.path.join(VERIF, ".cache")
COQ = os.path.join(VERIF, "coq")
TARGET = os.path.join(CACHE, "target")
NPROC = int(os.environ.get("VERIF_JOBS", "16"))

STD_AXIOMS_FLOCQ = [
    "ClassicalDedekindReals.sig_not_dec",
    "ClassicalDedekindReals.sig_forall_dec",
    "FunctionalExtensionality.functional_extensionality_dep",
    "Classical_Prop.classic",
]

FORBIDDEN = re.compile(
    r"\b(Admitted|admit|Axiom|Axioms|Parameter|Parameters|Conjecture|Conjectures|"
    r"Admit Obligations|bypass_check|Unset Guard Checking|Unset Positivity Checking|"
    r"Unset Universe Checking|type-in-type|impredicative-set)\b")

BASE_TRUSTED = [
    "Coq 8.16.1 kernel (coqc full .vo builds; vm_compute used, native_compute not used)",
    "no axioms declared by the development; Print Assumptions output is checked against a per-property allow-list on every run",
    "hand-written Gallina model of the Rust code, tied to /repo by the correspondence check of this run (same inputs to the real Rust code and to the model)",
    "model executed as OCaml extracted with ExtrOcamlBasic only (Extract Inductive bool, option, unit, list, prod, sumbool, sumor -> OCaml natives; no Extract Constant; Z/N/positive/nat stay inductive); a sample of every run is re-evaluated by coqc/vm_compute and must agree",
    "ocaml/driver.ml: conversion between decimal text and the extracted Z (zarith), token expansion",
    "case generators and canonicalisers in /verif/tools, Rust harness crates in /verif/rust",
]


def _big_stack():
    import resource
    try:
        resource.setrlimit(resource.RLIMIT_STACK, (resource.RLIM_INFINITY, resource.RLIM_INFINITY))
    except Exception:
        pass


def _limit_mem():
    import resource
    try:
        lim = int(os.environ.get("VERIF_HARNESS_MEM_GB", "2")) << 30
        resource.setrlimit(resource.RLIMIT_AS, (lim, lim))
    except Exception:
        pass


class MachineryError(Exception):
    pass


def sh(cmd, cwd=None, timeout=None, env=None, input=None):
    e = dict(os.environ)
    e.update({"CARGO_NET_OFFLINE": "true", "CARGO_TARGET_DIR": TARGET})
    if env:
        e.update(env)
    p = subprocess.run(cmd, cwd=cwd, timeout=timeout, env=e, input=input,
                       stdout=subprocess.PIPE, stderr=subprocess.STDOUT, text=True,
                       shell=isinstance(cmd, str), preexec_fn=_big_stack)
    return p.returncode, p.stdout


class Lock:
    def __init__(self, name):
        os.makedirs(CACHE, exist_ok=True)
        self.path = os.path.join(CACHE, name + ".lock")

    def __enter__(self):
        self.f = open(self.path, "w")
        fcntl.flock(self.f, fcntl.LOCK_EX)

    def __exit__(self, *a):
        fcntl.flock(self.f, fcntl.LOCK_UN)
        self.f.close()


def ensure_makefile():
    mk = os.path.join(COQ, "Makefile")
    cp = os.path.join(COQ, "_CoqProject")
    if not os.path.exists(mk) or os.path.getmtime(mk) < os.path.getmtime(cp):
        rc, out = sh(["coq_makefile", "-f", "_CoqProject", "-o", "Makefile"], cwd=COQ, timeout=120)
        if rc != 0:
            raise MachineryError("coq_makefile failed:\n" + out)


def coq_make(targets, timeout=1500):
    """Build .vo targets (paths relative to coq/) with make; returns (ok, log)."""
    with Lock("coq"):
        ensure_makefile()
        rc, out = sh(["timeout", str(timeout), "make", "-j%d" % NPROC] + targets, cwd=COQ,
                     timeout=timeout + 30)
    return rc == 0, out


def coqc_file(path, timeout=900):
    rc, out = sh(["timeout", str(timeout), "coqc", "-noglob", "-Q", "theories", "Cam",
                  "-w", "-notation-overridden,-deprecated-hint-without-locality,-deprecated-instance-without-locality",
                  path], cwd=COQ, timeout=timeout + 30)
    return rc, out


def grep_forbidden():
    bad = []
    for root, _, files in os.walk(os.path.join(COQ, "theories")):
        for f in files:
            if not f.endswith(".v"):
                continue
            p = os.path.join(root, f)
            txt = open(p).read()
            # strip comments (non-nested is enough for our sources; nested handled by loop)
            prev = None
            while prev != txt:
                prev = txt
                txt = re.sub(r"\(\*[^()]*?\*\)", "", txt, flags=re.S)
            txt = re.sub(r"\(\*.*?\*\)", "", txt, flags=re.S)
            for m in FORBIDDEN.finditer(txt):
                bad.append("%s: %s" % (os.path.relpath(p, VERIF), m.group(0)))
            # Variable / Hypothesis / Context outside a Section declare an axiom: track the section nesting
            stack = []
            for m in re.finditer(r"(?m)^\s*(Section|End|Variables?|Hypothes[ie]s|Context|Let)\b\s*([A-Za-z0-9_']*)", txt):
                kw, name = m.group(1), m.group(2)
                if kw == "Section":
                    stack.append(name)
                elif kw == "End":
                    if stack and stack[-1] == name:
                        stack.pop()
                elif kw != "Let" and not stack:
                    bad.append("%s: %s outside a Section" % (os.path.relpath(p, VERIF), kw))
    cp = open(os.path.join(COQ, "_CoqProject")).read()
    for w in ("type-in-type", "impredicative-set", "-vos", "-vok", "bypass"):
        if w in cp:
            bad.append("_CoqProject: " + w)
    return bad


def parse_assumptions(props_src, out):
    """Map theorem name -> list of axioms (empty = closed) from coqc output of a props file.
    The props file has one 'Print Assumptions X.' per theorem, in order."""
    names = re.findall(r"^Print Assumptions\s+([A-Za-z0-9_']+)\s*\.", props_src, flags=re.M)
    # Split output into blocks: each block starts with 'Closed under the global context' or 'Axioms:'
    blocks = []
    cur = None
    for line in out.splitlines():
        if line.startswith("Closed under the global context"):
            blocks.append([])
            cur = None
        elif line.startswith("Axioms:"):
            cur = []
            blocks.append(cur)
        elif cur is not None:
            m = re.match(r"^([A-Za-z_][A-Za-z0-9_'.]*)\s*(:|$)", line)
            if m and not line.startswith(" "):
                cur.append(m.group(1))
    if len(blocks) != len(names):
        raise MachineryError("Print Assumptions output count %d != %d in props file\n%s"
                             % (len(blocks), len(names), out[-3000:]))
    return dict(zip(names, blocks))


def parse_eval_output(out):
    """All '= [...] : list (list Z)' results of a cases file, concatenated."""
    res = []
    for m in re.finditer(r"=\s*(\[.*?\])\s*:\s*list \(list Z\)", out, flags=re.S):
        body = m.group(1)
        body = re.sub(r"\s+", "", body).replace(";", ",")
        res.extend(json.loads(body))
    return res


class Case:
    """One correspondence case.  kind + toks is the line the Rust harness reads; the model
    side reads '<code> toks' (extracted driver) or 'dispatch code [expanded toks]' (coqc).
    A token is a decimal integer or x<hex> (a byte string, expanded to length + bytes)."""
    __slots__ = ("kind", "toks", "meta", "term", "rline")

    def __init__(self, kind, toks, meta=None, term=None, rline=None):
        self.kind = kind
        self.toks = [str(t) for t in toks]
        self.meta = meta
        self.term = term      # optional explicit Gallina term (: list Z) for coqc-only cases
        self.rline = rline    # line for the Rust harness when it differs from kind + toks

    @property
    def line(self):
        if self.rline is not None:
            return self.rline
        return self.kind + (" " + " ".join(self.toks) if self.toks else "")

    def key(self):
        return self.line

    def expanded(self):
        out = []
        for t in self.toks:
            if t.startswith("x"):
                bs = bytes.fromhex(t[1:])
                out.append(len(bs))
                out.extend(bs)
            else:
                out.append(int(t))
        return out


def xhex(bs):
    return "x" + bytes(bs).hex()


class Check:
    def __init__(self, pid, argv=None, allowed_axioms=None):
        argv = sys.argv[1:] if argv is None else argv
        self.pid = pid
        self.replay = None
        tier = "quick"
        if argv and argv[0] == "--replay":
            self.replay = argv[1]
        elif argv:
            tier = argv[0]
        tier = os.environ.get("VERIF_TIER", tier) or tier
        if tier not in ("quick", "thorough"):
            tier = "quick"
        self.tier = tier
        self.seed = int(os.environ.get("VERIF_SEED", "1") or "1")
        self.t0 = time.time()
        self.allowed_axioms = set(allowed_axioms or [])
        self.violations = []       # (replay_path, no_failing_input: bool)
        self.known_hits = {}       # what -> count
        self.obligations = 0
        self.discharged = 0
        self.theorems = {}
        self.evaluations = 0
        self.compared = 0
        self.nontrivial_keys = set()
        self.samples = []
        self.dist = {}
        self.notes = []
        self.trusted = list(BASE_TRUSTED)
        self.rule = ""
        self.exhaustive = None
        self.checker_cmd = ("make -C coq theories/props/%s.vo && coqc theories/props/%s.v "
                            "(Print Assumptions parsed)" % (pid, pid))
        os.makedirs(os.path.join(VERIF, "replays"), exist_ok=True)
        os.makedirs(os.path.join(VERIF, "evidence"), exist_ok=True)
        self.findings = [f for f in json.load(open(os.path.join(VERIF, "KNOWN_FINDINGS.json")))["findings"]
                         if f["property"] == pid]

    # ------------------------------------------------------------- proof --
    def prove(self, extra_targets=()):
        pid = self.pid
        props = "theories/props/%s.v" % pid
        src = open(os.path.join(COQ, props)).read()
        names = re.findall(r"^(?:Theorem|Lemma)\s+([A-Za-z0-9_']+)", src, flags=re.M)
        self.obligations = len(names)
        # tables regenerated from the Rust sources before anything is checked against them
        if pid in ("C08", "C09", "C11"):
            import translate_proto
            try:
                translate_proto.regenerate(REPO)
            except (translate_proto.ShapeError, OSError) as e:
                self.proof_broken("tools/translate_proto.py: the protocol sources no longer have the table shape the "
                                  "translator accepts (%s): gen/ProtoTables.v cannot be regenerated" % e)
                return False
        if pid == "C11":
            import translate_streamparse
            try:
                translate_streamparse.regenerate(REPO)
            except (translate_streamparse.ShapeError, OSError) as e:
                self.proof_broken("tools/translate_streamparse.py: the stream leader / trailer decoders of "
                                  "device/src/u3v/protocol/stream.rs, PayloadBuilder of cameleon/src/u3v/stream_handle.rs or "
                                  "the Payload views of cameleon/src/payload.rs no longer have the shape the translator "
                                  "accepts (%s): gen/StreamParseSrc.v cannot be regenerated" % e)
                return False
        if pid == "C08":
            import translate_ackparse
            try:
                translate_ackparse.regenerate(REPO)
            except (translate_ackparse.ShapeError, OSError) as e:
                self.proof_broken("tools/translate_ackparse.py: the acknowledge / event decoders of device/src/u3v/protocol/"
                                  "{ack,event}.rs (or read_bytes_le of impl/src/bytes_io.rs) no longer have the shape the "
                                  "translator accepts (%s): gen/AckParseSrc.v cannot be regenerated" % e)
                return False
        if pid == "C09":
            import translate_serialize
            try:
                translate_serialize.regenerate(REPO)
            except (translate_serialize.ShapeError, OSError) as e:
                self.proof_broken("tools/translate_serialize.py: the command constructors / length functions / serializers of "
                                  "device/src/u3v/protocol/cmd.rs no longer have the shape the translator accepts (%s): "
                                  "gen/SerializeSrc.v cannot be regenerated" % e)
                return False
        if pid == "C10":
            import translate_chunks
            try:
                translate_chunks.regenerate(REPO)
            except (translate_chunks.ShapeError, OSError) as e:
                self.proof_broken("tools/translate_chunks.py: ReadMem::chunks / ReadMemChunks::next / maximum_read_length no "
                                  "longer have the shape the translator accepts (%s): gen/ReadChunks.v cannot be regenerated" % e)
                return False
        if pid in ("C06", "C07"):
            import translate_chunks
            import translate_control
            try:
                translate_chunks.regenerate(REPO)
                translate_control.regenerate(REPO)
            except (translate_chunks.ShapeError, translate_control.ShapeError, OSError) as e:
                self.proof_broken("tools/translate_control.py: the control transaction layer of cameleon/src/u3v/control_handle.rs "
                                  "(verify_range, assert_open, verify_ack, send_cmd, read, write, abrm, initialize_config, open, "
                                  "close; the pinned accessors of register_map.rs and From<u3v::Error> of u3v/mod.rs; the chunk "
                                  "iterators of cmd.rs) no longer has the shape the translator accepts (%s): gen/ControlSrc.v "
                                  "cannot be regenerated" % e)
                return False
        if pid == "C15":
            import translate_code
            try:
                translate_code.regenerate(REPO)
            except (translate_code.ShapeError, OSError) as e:
                self.proof_broken("tools/translate_code.py: enable_streaming / the Sirm accessors no longer have the shape "
                                  "the translator accepts (%s): gen/EnableStreaming.v cannot be regenerated" % e)
                return False
        if pid in ("C12", "C15"):
            import translate_streamparams
            try:
                translate_streamparams.regenerate(REPO)
            except (translate_streamparams.ShapeError, OSError) as e:
                self.proof_broken("tools/translate_streamparams.py: StreamParams / read_leader / read_payload / read_trailer of "
                                  "cameleon/src/u3v/stream_handle.rs (or the register_map.rs getters from_control calls) no "
                                  "longer have the shape the translator accepts (%s): gen/StreamParamsSrc.v cannot be "
                                  "regenerated" % e)
                return False
        if pid == "C01":
            import translate_codec
            try:
                translate_codec.regenerate(REPO)
            except (translate_codec.ShapeError, OSError) as e:
                self.proof_broken("tools/translate_codec.py: the value codecs of genapi/src/utils.rs no longer have the shape "
                                  "the translator accepts (%s): gen/CodecSrc.v cannot be regenerated" % e)
                return False
        if pid == "C18":
            import translate_access
            try:
                translate_access.regenerate(REPO)
            except (translate_access.ShapeError, OSError) as e:
                self.proof_broken("tools/translate_access.py: the access-restriction core (node_base.rs / register_base.rs / the "
                                  "register features) no longer has the shape the translator accepts (%s): gen/AccessSrc.v "
                                  "cannot be regenerated" % e)
                return False
        if pid == "C20":
            import translate_memprot
            try:
                translate_memprot.regenerate(REPO)
            except (translate_memprot.ShapeError, OSError) as e:
                self.proof_broken("tools/translate_memprot.py: AccessRight / MemoryProtection / the provided methods of trait "
                                  "Register in impl/src/memory.rs no longer have the shape the translator accepts (%s): "
                                  "gen/MemProtSrc.v cannot be regenerated" % e)
                return False
        if pid == "C19":
            import translate_gentl
            try:
                translate_gentl.regenerate(REPO)
            except (translate_gentl.ShapeError, OSError) as e:
                self.proof_broken("tools/translate_gentl.py: the buffer protocol of gentl/src/ffi/mod.rs (trait CopyTo and its "
                                  "implementations, impl_copy_to_for_numeric!, copy_info, the GC_ERROR table) no longer has the "
                                  "shape the translator accepts (%s): gen/GenTLSrc.v cannot be regenerated" % e)
                return False
        if pid == "C16":
            import translate_camera
            try:
                translate_camera.regenerate(REPO)
            except (translate_camera.ShapeError, OSError) as e:
                self.proof_broken("tools/translate_camera.py: Camera::{open, close, load_context, start_streaming, "
                                  "stop_streaming, params_ctxt} of cameleon/src/camera.rs (or macro_rules! expect_node, "
                                  "payload::channel) no longer have the shape the translator accepts (%s): "
                                  "gen/CameraSrc.v cannot be regenerated" % e)
                return False
        if pid == "C03":
            import translate_ivalue
            try:
                translate_ivalue.regenerate(REPO)
            except (translate_ivalue.ShapeError, OSError) as e:
                self.proof_broken("tools/translate_ivalue.py: the value-dispatch layer of the GenApi interpreter (trait IValue and "
                                  "its implementations in genapi/src/ivalue.rs, the ValueStore accessors and NodeId::as_*_kind of "
                                  "store.rs, the kind tables of interface.rs, the value paths of IntegerNode / FloatNode / "
                                  "BooleanNode / EnumerationNode / CommandNode) no longer has the shape the translator accepts "
                                  "(%s): gen/IValueSrc.v cannot be regenerated" % e)
                return False
        if pid == "C04":
            import translate_cachepath
            try:
                translate_cachepath.regenerate(REPO)
            except (translate_cachepath.ShapeError, OSError) as e:
                self.proof_broken("tools/translate_cachepath.py: the register caching path (RegisterBase::with_cache_or_read / "
                                  "read_and_cache / write_and_cache, IPort for PortNode, the ValueCtxt forwarders, CacheStore / "
                                  "CacheStoreBuilder of DefaultCacheStore and CacheSink, store_invalidators) no longer has the "
                                  "shape the translator accepts (%s): gen/CachePathSrc.v cannot be regenerated" % e)
                return False
        if pid == "C02":
            import translate_bitmask
            try:
                translate_bitmask.regenerate(REPO)
            except (translate_bitmask.ShapeError, OSError) as e:
                self.proof_broken("tools/translate_bitmask.py: `impl BitMask` of genapi/src/masked_int_reg.rs no longer has "
                                  "the shape the translator accepts (%s): gen/BitMaskSrc.v cannot be regenerated" % e)
                return False
        if pid == "C05":
            import translate_formulaops
            try:
                translate_formulaops.regenerate(REPO)
            except (translate_formulaops.ShapeError, OSError) as e:
                self.proof_broken("tools/translate_formulaops.py: the evaluator of genapi/src/formula.rs (EvaluationResult "
                                  "coercions, wrapping_pow, Expr::eval / eval_binop / eval_unop) no longer has the shape the "
                                  "translator accepts (%s): gen/FormulaOpsSrc.v cannot be regenerated" % e)
                return False
        if pid in ("C13", "C14"):
            import translate_decoders
            try:
                translate_decoders.regenerate(REPO)
            except (translate_decoders.ShapeError, OSError) as e:
                self.proof_broken("tools/translate_decoders.py: the bit-level decoders of cameleon/src/u3v/register_map.rs no "
                                  "longer have the shape the translator accepts (%s): gen/DecodersSrc.v cannot be regenerated" % e)
                return False
        if pid == "C14":
            import translate_xmlfetch
            try:
                translate_xmlfetch.regenerate(REPO)
            except (translate_xmlfetch.ShapeError, OSError) as e:
                self.proof_broken("tools/translate_xmlfetch.py: genapi / verify_xml of cameleon/src/u3v/control_handle.rs or the "
                                  "ManifestTable / ManifestEntry accessors of register_map.rs no longer have the shape the "
                                  "translator accepts (%s): gen/XmlFetchSrc.v cannot be regenerated" % e)
                return False
        if pid == "C17":
            import translate_names
            try:
                translate_names.regenerate(REPO)
            except (translate_names.ShapeError, OSError) as e:
                self.proof_broken("tools/translate_names.py: genapi/src/parser/elem_name.rs no longer has the shape the "
                                  "translator accepts (%s): gen/ElemNames.v cannot be regenerated" % e)
                return False
            import translate_parseorder
            try:
                translate_parseorder.regenerate(REPO)
            except (translate_parseorder.ShapeError, OSError) as e:
                self.proof_broken("tools/translate_parseorder.py: a covered `impl Parse for X` of genapi/src/parser/*.rs (or a "
                                  "pinned leaf impl, or a struct / enum / Default definition it relies on) no longer has the "
                                  "shape the translator accepts (%s): gen/ParseOrderSrc.v cannot be regenerated" % e)
                return False
        tr = {"C03": "tools/translate_ivalue.py (statement-level translator with dictionary passing for traits: trait IValue and every implementation of genapi/src/ivalue.rs with impl_ivalue_for_imm! / impl_ivalue_for_vid! expanded from their parsed definitions, PIndex::index, the provided methods integer_value / float_value / str_value of trait ValueStore and NodeId::as_*_kind / expect_*_kind of store.rs, the I*Kind::maybe_from tables of interface.rs, the data types of elem_type.rs, value / set_value / min / max of IntegerNode and FloatNode, value / set_value of BooleanNode, current_value / set_entry_by_value of EnumerationNode, execute / is_done of CommandNode -> gen/IValueSrc.v; the requests to other nodes through the interface kinds, the value store, `as` conversions, the EnumEntry lookup and the cache forwarders (no-ops: CacheSink) are interpreted by model/IvOps.v over the primitives of model/Graph.v; shape of NodeBase::new / id, node_base(), impl_value_data_conversion! and enum ValueData asserted)",
              "C01": "tools/translate_codec.py (macro arms and match arms of int_from_slice / bytes_from_int / float_from_slice / bytes_from_float, genapi/src/utils.rs -> gen/CodecSrc.v) and lib/RustBytes.v (from_xx_bytes / to_xx_bytes / copy_from_slice)",
              "C18": "tools/translate_access.py (NodeElementBase / RegisterBase is_readable, is_writable and the three controls, genapi/src/node_base.rs + register_base.rs -> gen/AccessSrc.v over model/AccessOps.v)",
              "C05": "tools/translate_formulaops.py (own parser / type checker / Gallina emitter for the evaluator of genapi/src/formula.rs: the From impls and coercions of EvaluationResult, wrapping_pow with its loop as a fuelled Fixpoint, every arm of Expr::eval_binop and Expr::eval_unop with the local macro_rules! expanded from their definitions, Expr::eval -> gen/FormulaOpsSrc.v), model/FormulaOps.v (the meaning of i64::overflowing_* / wrapping_* / signum, of the `as` casts and of the f64 operations as calls into the oracle record) and lib/RustInt.v",
              "C19": "tools/translate_gentl.py (statement-level translator of `impl From<&GenTlError> for GC_ERROR`, newtype_enum! INFO_DATATYPE and every `impl CopyTo for ..` of gentl/src/ffi/mod.rs with impl_copy_to_for_numeric! expanded from its parsed definition -> gen/GenTLSrc.v; the raw-pointer operations (dst.is_null(), *dst_size, *dst = x, copy_nonoverlapping, dst.add(n).write(b)) are interpreted by model/GtlOps.v over the state (NULL flag, size cell, caller's buffer); trait CopyTo, copy_info and the forwarding From impls are pinned) and lib/RustInt.v (debug-build usize arithmetic)",
              "C20": "tools/translate_memprot.py + tools/minirust.py (typed mini-Rust translator of enum AccessRight with every method of impl AccessRight, struct MemoryProtection with every method of impl MemoryProtection, and the provided methods write / read / range of trait Register, impl/src/memory.rs -> gen/MemProtSrc.v; Vec indexing, `&mut v[i]` places, slicing, copy_from_slice, vec![x; n], fold / for_each / for over an item list interpreted by model/MemProtOps.v) and lib/RustInt.v (debug-build semantics of the integer operations)",
              "C02": "tools/translate_bitmask.py (typed mini-Rust translator of `impl BitMask`, genapi/src/masked_int_reg.rs -> gen/BitMaskSrc.v) and lib/RustInt.v (debug-build semantics of the integer operations)",
              "C16": "tools/translate_camera.py (statement-level translator of Camera::{params_ctxt, open, load_context, start_streaming, stop_streaming, close}, cameleon/src/camera.rs -> gen/CameraSrc.v: every statement in source order in the monad of model/Camera.v; self.ctrl / self.strm method calls with `?`, the guards with their early returns, expect_node!(..).set_value / .execute with node name, interface and literal from the source, channel(cap, DEFAULT_BUFFER_CAP), self.ctxt = Some(Ctxt::from_xml(..)?), clear_cache are interpreted by model/CamOps.v; macro_rules! expect_node, payload::channel, the fields of struct Camera and `use tracing::info` are pinned; info! lines and #[tracing::instrument] skipped; a Result that is not propagated is a ShapeError)",
              "C04": "tools/translate_cachepath.py (statement-level translator of RegisterBase::with_cache_or_read / read_and_cache / write_and_cache, IPort::read / write of PortNode, the ValueCtxt cache forwarders, the traits CacheStore / CacheStoreBuilder with their implementations for DefaultCacheStore and CacheSink and RegisterBase::store_invalidators, genapi/src/{register_base,port,lib,store,builder}.rs + parser/register_base.rs -> gen/CachePathSrc.v; HashMap / Vec operations, the state of a path, length(..) / address(..) / expect_iport_kind / the device interpreted by model/CacheOps.v; shape of struct RegisterBase / PortNode / ValueCtxt and of enum CachingMode asserted)",
              "C08": "tools/translate_proto.py (protocol tables -> gen/ProtoTables.v) and tools/translate_ackparse.py (typed mini-Rust translator of AckPacket::parse / AckCcd::parse / Status::parse / ScdKind::parse, the five ParseScd views behind scd_as, EventPacket::parse / EventCcd::parse / EventScd::parse with its loop and read_and_seek, device/src/u3v/protocol/{ack,event}.rs -> gen/AckParseSrc.v; cursor reads, seeks and slicing interpreted by model/CurOps.v; `while` loops become fuelled Fixpoints; shape of read_bytes_le in impl/src/bytes_io.rs and of u3v::Error asserted) and lib/RustInt.v (debug-build semantics of the integer operations)", "C09": "tools/translate_proto.py (protocol tables -> gen/ProtoTables.v) and tools/translate_serialize.py (typed mini-Rust translator of the structs, the trait CommandScd and its four implementations, the constructors, the length functions and every serializer of device/src/u3v/protocol/cmd.rs -> gen/SerializeSrc.v; serializers become lists of write operations interpreted by model/SerOps.v; shape of write_bytes_le in impl/src/bytes_io.rs asserted) and lib/RustInt.v (debug-build semantics of the integer operations)",
              "C11": "tools/translate_proto.py (protocol tables -> gen/ProtoTables.v) and tools/translate_streamparse.py (typed mini-Rust translator of Leader::parse / Trailer::parse, the specific leaders and trailers, the TryFrom<u16> tables and the getters of device/src/u3v/protocol/stream.rs, of every method of PayloadBuilder in cameleon/src/u3v/stream_handle.rs and of Payload::image_info / image / payload / into_vec in cameleon/src/payload.rs -> gen/StreamParseSrc.v; cursor reads, slicing and the chunk-walk loop are interpreted by model/RdOps.v; shape of read_bytes_le in impl/src/bytes_io.rs, of `#[from] std::io::Error` and of the `use` lines asserted) and lib/RustInt.v (debug-build semantics of the integer operations)",
              "C13": "tools/translate_decoders.py + tools/minirust.py (typed mini-Rust translator of the bit-level decoders, the bit macros, register_address and ParseBytes for BusSpeed of cameleon/src/u3v/register_map.rs -> gen/DecodersSrc.v) and lib/RustInt.v (debug-build semantics of the integer operations)",
              "C14": "tools/translate_decoders.py + tools/minirust.py (typed mini-Rust translator of genicam_file_version / file_type / compression_type of cameleon/src/u3v/register_map.rs -> gen/DecodersSrc.v) and lib/RustInt.v (debug-build semantics of the integer operations); tools/translate_xmlfetch.py (statement-level translator of DeviceControl::genapi, ControlHandle::verify_xml, ManifestTable::entries and the ManifestEntry accessors -> gen/XmlFetchSrc.v over the operation vocabulary model/XfOps.v)",
              "C06": "tools/translate_control.py (statement-level translator of fn verify_range, ControlHandle::{assert_open, verify_ack, send_cmd with its retry loop, abrm, initialize_config} and <ControlHandle as DeviceControl>::{is_opened, open, close, read, write} with their chunk loops, cameleon/src/u3v/control_handle.rs -> gen/ControlSrc.v; the operations - handle fields, self.buffer with ghost contents, the control channel, serialize / AckPacket::parse / scd_as, slice chunking - are interpreted by model/CtlOps.v over the primitives of model/Control.v; unwrap_or_log!, From<u3v::Error> for ControlError and the register_map.rs accessors used by initialize_config are pinned by their text), tools/translate_chunks.py (chunk iterators -> gen/ReadChunks.v) and lib/RustInt.v (debug-build semantics of the integer operations)",
              "C07": "tools/translate_control.py (statement-level translator of fn verify_range, ControlHandle::{assert_open, verify_ack, send_cmd with its retry loop, abrm, initialize_config} and <ControlHandle as DeviceControl>::{is_opened, open, close, read, write} with their chunk loops, cameleon/src/u3v/control_handle.rs -> gen/ControlSrc.v; the operations - handle fields, self.buffer with ghost contents, the control channel, serialize / AckPacket::parse / scd_as, slice chunking - are interpreted by model/CtlOps.v over the primitives of model/Control.v; unwrap_or_log!, From<u3v::Error> for ControlError and the register_map.rs accessors used by initialize_config are pinned by their text), tools/translate_chunks.py (chunk iterators -> gen/ReadChunks.v) and lib/RustInt.v (debug-build semantics of the integer operations)",
              "C10": "tools/translate_chunks.py (symbolic executor of ReadMemChunks::next / WriteMemChunks::next etc. -> gen/ReadChunks.v) and lib/RustInt.v",
              "C15": "tools/translate_code.py (translator of enable_streaming + Sirm accessors -> gen/EnableStreaming.v), tools/translate_streamparams.py (typed mini-Rust translator, on top of tools/translate_streamparse.py, of StreamParams::{new, maximum_payload_size, payload_transfer_sizes, from_control} and read_leader / read_payload / read_trailer of cameleon/src/u3v/stream_handle.rs -> gen/StreamParamsSrc.v; iterator adaptors, the for loop, submit on a buffer range and the register_map.rs calls are interpreted by model/SpOps.v + model/RdOps.v; the Sirm / Abrm getter bodies, Abrm::new / Abrm::sbrm / Sbrm::sirm, AsyncPool::submit and From<u3v::Error> for StreamError are asserted) and lib/RustInt.v",
              "C12": "tools/translate_streamparams.py (typed mini-Rust translator, on top of tools/translate_streamparse.py, of StreamParams::{new, maximum_payload_size, payload_transfer_sizes, from_control} and read_leader / read_payload / read_trailer of cameleon/src/u3v/stream_handle.rs -> gen/StreamParamsSrc.v; iterator adaptors, the for loop, submit on a buffer range and the register_map.rs calls are interpreted by model/SpOps.v + model/RdOps.v; the Sirm / Abrm getter bodies, Abrm::new / Abrm::sbrm / Sbrm::sirm, AsyncPool::submit and From<u3v::Error> for StreamError are asserted) and lib/RustInt.v",
              "C17": "tools/translate_names.py (element names and literal tables -> gen/ElemNames.v); tools/translate_parseorder.py (own tokenizer / expression parser / type inference from the struct definitions of genapi/src/*.rs: every `impl Parse for X` of genapi/src/parser/*.rs except GroupNode and the Vec<NodeData> dispatch -> gen/ParseOrderSrc.v, the ordered schedule of cursor operations with the local and struct field each result lands in; leaf impls String / NodeId / bool / i64 / u64 / f64 / Expr, the id macros and match_text_view! pinned by token text) and model/PoOps.v (the meaning of a schedule over the cursor primitives of model/GenApiParse.v)"}.get(pid)
        if tr and tr not in self.trusted:
            self.trusted.append("re-run on /repo's sources by this run: " + tr)
        bad = grep_forbidden()
        if bad:
            self.proof_broken("forbidden constructs in the development: " + "; ".join(bad[:10]))
            return False
        ok, log = coq_make([props + "o"] + list(extra_targets))
        if not ok:
            self.proof_broken("make failed for %s:\n%s" % (props, log[-4000:]))
            return False
        rc, out = coqc_file(props)
        if rc != 0:
            self.proof_broken("coqc failed for %s:\n%s" % (props, out[-4000:]))
            return False
        assum = parse_assumptions(src, out)
        disc = 0
        for n in names:
            if n not in assum:
                self.notes.append("theorem %s has no Print Assumptions" % n)
                continue
            extra = [a for a in assum[n] if a not in self.allowed_axioms]
            if extra:
                self.notes.append("theorem %s depends on disallowed axioms %s" % (n, extra))
            else:
                disc += 1
            self.theorems[n] = assum[n]
        self.discharged = disc
        if disc != len(names):
            self.proof_broken("not all property theorems discharged: %s" % "; ".join(self.notes))
            return False
        if self.tier == "thorough" and os.environ.get("VERIF_COQCHK", "1") == "1":
            self.coqchk()
        return True

    def coqchk(self):
        rc, out = sh(["timeout", "1500", "coqchk", "-silent", "-o", "-Q", "theories", "Cam",
                      "Cam.props.%s" % self.pid], cwd=COQ, timeout=1600)
        axioms = []
        m = re.search(r"\* Axioms:\s*(.*?)(?:\n\s*\*|\Z)", out, flags=re.S)
        if m:
            axioms = [a.strip() for a in m.group(1).split("\n") if a.strip() and a.strip() != "<none>"]
        self.dist["coqchk_rc"] = rc
        self.dist["coqchk_axioms"] = axioms
        if rc != 0:
            self.proof_broken("coqchk failed:\n" + out[-3000:])

    def proof_broken(self, why):
        path = self.write_replay({"kind": "proof-obligation", "property": self.pid,
                                  "unchecked": "theories/props/%s.v" % self.pid, "why": why})
        self.violations.append((path, True, why.splitlines()[0][:200]))

    # -------------------------------------------------------- impl side --
    def cargo_build(self, crate, release=False, rustflags=None, features=None, bin_name=None):
        cdir = os.path.join(VERIF, "rust", crate)
        lock_src = os.path.join(REPO, "Cargo.lock")
        lock_dst = os.path.join(cdir, "Cargo.lock")
        if os.path.exists(lock_src) and not os.path.exists(lock_dst):
            import shutil
            shutil.copy(lock_src, lock_dst)
        cmd = ["cargo", "build", "--offline", "-q"]
        if release:
            cmd.append("--release")
        if features:
            cmd += ["--features", features]
        env = {}
        if rustflags:
            env["RUSTFLAGS"] = rustflags
        with Lock("cargo"):
            rc, out = sh(cmd, cwd=cdir, timeout=1800, env=env)
        if rc != 0:
            return None, out
        return os.path.join(TARGET, "release" if release else "debug", bin_name or crate), out

    def phase(self, name):
        now = time.time()
        self.dist.setdefault("phase_s", {})[name] = round(now - getattr(self, "_tp", self.t0), 1)
        self._tp = now

    def run_impl(self, binary, lines, jobs=None, timeout=None, env=None, big_stack=False):
        timeout = timeout or (90 if self.tier == 'quick' else 900)
        """Feed lines to the harness (sharded over processes); returns list of int lists
        (None for a case whose shard died)."""
        if not lines:
            return []
        jobs = jobs or min(NPROC, max(1, len(lines) // 2000 + 1))
        shards = [lines[i::jobs] for i in range(jobs)]

        def one(sh_lines):
            # A case that hangs ([3]) or kills the harness ([4]: abort, allocation failure under the
            # address-space limit) is marked and the harness restarted on the following lines.
            res = []
            pos = 0
            restarts = 0
            while pos < len(sh_lines):
                rest = sh_lines[pos:]
                timed_out = False
                try:
                    p = subprocess.run([binary], input=("\n".join(rest) + "\n").encode(),
                                       stdout=subprocess.PIPE, stderr=subprocess.DEVNULL, timeout=timeout,
                                       env=dict(os.environ, **(env or {})),
                                       preexec_fn=_big_stack if big_stack else _limit_mem)
                    raw = p.stdout
                except subprocess.TimeoutExpired as e:
                    raw = e.stdout or b""
                    timed_out = True
                outl = raw.decode(errors="replace").split("\n")
                if outl and not raw.endswith(b"\n"):
                    outl = outl[:-1]          # drop a partial last line
                outl = [l for l in outl[:len(rest)]]
                while outl and outl[-1] == "":
                    outl.pop()
                for l in outl:
                    try:
                        res.append([int(x) for x in l.split()])
                    except ValueError:
                        res.append(None)
                pos += len(outl)
                if pos < len(sh_lines):
                    res.append([3] if timed_out else [4])
                    pos += 1
                    restarts += 1
                    if restarts > 6:
                        res.extend([None] * (len(sh_lines) - pos))
                        break
            return res

        with ThreadPoolExecutor(jobs) as ex:
            rs = list(ex.map(one, shards))
        out = [None] * len(lines)
        for j, r in enumerate(rs):
            for k, v in enumerate(r):
                out[j + k * jobs] = v
        return out

    # ------------------------------------------------------- model side --
    def build_modelrun(self):
        """Extract the model (coqc, ExtrOcamlBasic only) and compile the OCaml driver."""
        ok, log = coq_make(["theories/extract/Extract.vo"])
        if not ok:
            raise MachineryError("extraction build failed:\n" + log[-3000:])
        od = os.path.join(VERIF, "ocaml")
        exe = os.path.join(CACHE, "modelrun")
        srcs = [os.path.join(od, f) for f in ("model.mli", "model.ml", "driver.ml")]
        with Lock("ocaml"):
            if (not os.path.exists(exe)) or any(os.path.getmtime(x) > os.path.getmtime(exe) for x in srcs):
                bd = os.path.join(CACHE, "ocamlbuild")
                os.makedirs(bd, exist_ok=True)
                for x in srcs:
                    import shutil
                    shutil.copy(x, bd)
                rc, out = sh(["ocamlfind", "ocamlopt", "-O3", "-package", "zarith", "-linkpkg", "-w", "-a",
                              "model.mli", "model.ml", "driver.ml", "-o", exe], cwd=bd, timeout=900)
                if rc != 0:
                    raise MachineryError("ocamlopt failed:\n" + out[-3000:])
        return exe

    def run_model(self, cases, codes, sample=None, jobs=None):
        """Run the extracted model on all cases and re-evaluate a sample inside Coq (vm_compute);
        the two must agree (otherwise the machinery, not the code, is broken)."""
        if not cases:
            return []
        exe = self.build_modelrun()
        lines = ["%d %s" % (codes[c.kind], " ".join(c.toks)) for c in cases]
        res = self.run_impl(exe, lines, jobs=jobs or min(NPROC, len(lines) // 500 + 1), big_stack=True)
        if any(r is None for r in res):
            k = [i for i, r in enumerate(res) if r is None][0]
            raise MachineryError("extracted model produced no result for case %r" % cases[k].line)
        if sample is None:
            sample = 120 if self.tier == "quick" else 1000
        if sample:
            step = max(1, len(cases) // sample)
            idx = list(range(0, len(cases), step))[:sample]
            idx = [i for i in idx if sum(len(t) for t in cases[i].toks) < 20000]
            terms = ["dispatch %d %s" % (codes[cases[i].kind], zlist(cases[i].expanded())) for i in idx]
            kr = self.run_model_terms(["Outcome", "Dispatch"], terms)
            for i, r in zip(idx, kr):
                if r != res[i]:
                    raise MachineryError("extracted model and vm_compute disagree on %r: %r vs %r"
                                         % (cases[i].line, res[i], r))
            self.dist["extraction_crosschecked_in_coq"] = self.dist.get("extraction_crosschecked_in_coq", 0) + len(idx)
        return res

    def run_model_terms(self, imports, terms, per_eval=200, jobs=None, prelude=""):
        """Evaluate Gallina terms (each : list Z) with coqc/vm_compute; returns list of int lists."""
        if not terms:
            return []
        jobs = jobs or min(NPROC, max(1, len(terms) // 300 + 1))
        # the imported model files must be up to date with the sources they were generated from (a regenerated
        # gen/*.v makes every dependent .vo stale: "inconsistent assumptions"); a model that no longer builds is a
        # broken correspondence, reported as such
        targets = []
        for imp in imports:
            hits = glob.glob(os.path.join(COQ, "theories", "*", imp.split(".")[-1] + ".v"))
            targets += [os.path.relpath(h, COQ) + "o" for h in hits]
        if targets:
            ok, log = coq_make(sorted(set(targets)))
            if not ok:
                self.proof_broken("the model files of the correspondence no longer build (%s):\n%s"
                                  % (" ".join(imports), log[-3000:]))
                self.finish()
        d = os.path.join(CACHE, "cases", self.pid)
        os.makedirs(d, exist_ok=True)
        shards = [terms[i::jobs] for i in range(jobs)]
        head = ("From Cam Require Import %s.\nSet Printing Width 100000000.\n"
                "Set Printing Depth 100000000.\nOpen Scope Z_scope.\n%s\n" % (" ".join(imports), prelude))

        def one(ix):
            ts = shards[ix]
            path = os.path.join(d, "cases_%d_%d.v" % (os.getpid(), ix))
            with open(path, "w") as f:
                f.write(head)
                for i in range(0, len(ts), per_eval):
                    f.write("Eval vm_compute in [\n " + ";\n ".join(ts[i:i + per_eval]) + "\n].\n")
            rc, out = coqc_file(path, timeout=3000)
            for ext in (".v", ".vo", ".vok", ".vos", ".glob"):
                try:
                    if ext != ".v" or rc == 0:
                        os.remove(path[:-2] + ext)
                except OSError:
                    pass
            if rc != 0:
                raise MachineryError("coqc failed on generated cases %s:\n%s" % (path, out[-3000:]))
            r = parse_eval_output(out)
            if len(r) != len(ts):
                raise MachineryError("model produced %d results for %d cases (%s)" % (len(r), len(ts), path))
            return r

        with ThreadPoolExecutor(jobs) as ex:
            rs = list(ex.map(one, range(jobs)))
        out = [None] * len(terms)
        for j, r in enumerate(rs):
            for k, v in enumerate(r):
                out[j + k * jobs] = v
        return out

    # --------------------------------------------------------- compare --
    def write_replay(self, obj):
        blob = json.dumps(obj, sort_keys=True, default=str)
        h = hashlib.sha1(blob.encode()).hexdigest()[:12]
        path = os.path.join(VERIF, "replays", "%s-%s.json" % (self.pid, h))
        with open(path, "w") as f:
            json.dump(obj, f, indent=1, sort_keys=True, default=str)
        return path

    def match_finding(self, matcher, case, impl_out, why):
        for f in self.findings:
            if f.get("status") != "known":
                continue
            try:
                if matcher and matcher(f, case, impl_out, why):
                    return f
            except Exception:
                continue
        return None

    def compare(self, cases, impl, model, predicate=None, nontrivial=None, matcher=None,
                correspondence="model/impl correspondence", max_report=5, family=None):
        """cases: list of Case; impl/model: list of int lists (model may be None to skip).
        predicate(case, impl_out) -> None or a string saying how the property fails."""
        assert len(cases) == len(impl)
        self.evaluations += len(cases)
        reported = {True: 0, False: 0}     # property failures and mere disagreements are capped separately,
        fam = family or "cases"              # so that a failing input is never crowded out by harmless differences
        for i, c in enumerate(cases):
            io = impl[i]
            mo = model[i] if model is not None else None
            why = None
            if predicate is not None:
                try:
                    why = predicate(c, io)
                except Exception as e:  # predicate crashed on unexpected output shape
                    why = "predicate could not interpret implementation output: %r" % (e,)
            mismatch = model is not None and io != mo
            if model is not None:
                self.compared += 1
            if nontrivial is None or nontrivial(c, mo if mo is not None else io):
                self.nontrivial_keys.add(c.key())
            if len(self.samples) < 6 and (i % max(1, len(cases) // 6) == 0):
                self.samples.append({"family": fam, "case": c.line, "impl": _clip(io), "model": _clip(mo)})
            if why is None and not mismatch:
                continue
            f = self.match_finding(matcher, c, io, why)
            if f is not None:
                self.known_hits[f["what"]] = self.known_hits.get(f["what"], 0) + 1
                continue
            if reported[why is None] < max_report:
                reported[why is None] += 1
                path = self.write_replay({
                    "kind": "case", "property": self.pid, "family": fam, "case": c.line, "ckind": c.kind, "mtoks": " ".join(c.toks),
                    "impl": io, "model": mo,
                    "predicate_failure": why,
                    "correspondence": correspondence if mismatch else None,
                })
                self.violations.append((path, why is None, why or "model and implementation disagree"))
        self.dist[fam] = self.dist.get(fam, 0) + len(cases)

    # ----------------------------------------------------------- finish --
    def finish(self):
        wall = time.time() - self.t0
        cov = {
            "obligations": self.obligations,
            "discharged": self.discharged,
            "checker_cmd": self.checker_cmd,
            "trusted_base": self.trusted,
            "evaluations": self.evaluations,
            "distinct_nontrivial": len(self.nontrivial_keys),
            "rule": self.rule,
            "samples": self.samples or [{"note": "no cases were run"}],
            "traces_validated_against_impl": self.compared,
            "theorems": self.theorems,
            "distribution": self.dist,
            "known_findings_hit": self.known_hits,
            "notes": self.notes,
        }
        if self.exhaustive is not None:
            cov["exhaustive"] = self.exhaustive
        ev = {
            "property_id": self.pid, "tier": self.tier, "seed": self.seed, "level": "proof",
            "coverage": cov,
            "assumptions": self.trusted,
            "wall_s": round(wall, 2),
            "violations": len(self.violations),
        }
        with open(os.path.join(VERIF, "evidence", self.pid + ".json"), "w") as f:
            json.dump(ev, f, indent=1, sort_keys=True, default=str)
        for what, n in self.known_hits.items():
            print("KNOWN-FINDING: property=%s %s (%d cases)" % (self.pid, what, n))
        # failing inputs first, then unexplained disagreements; at most 5 lines
        vs = sorted(self.violations, key=lambda v: v[1])
        for path, nofail, why in vs[:5]:
            print("  [%s] %s" % (self.pid, why.replace("\n", " ")[:300]))
            print("VIOLATION property=%s replay=%s%s" % (self.pid, path, " no-failing-input-found" if nofail else ""))
        if len(vs) > 5:
            print("  [%s] ... %d more violations (replays under /verif/replays)" % (self.pid, len(vs) - 5))
        print("[%s] tier=%s seed=%d theorems=%d/%d cases=%d compared=%d nontrivial=%d violations=%d wall=%.1fs"
              % (self.pid, self.tier, self.seed, self.discharged, self.obligations, self.evaluations,
                 self.compared, len(self.nontrivial_keys), len(self.violations), wall))
        sys.stdout.flush()
        sys.exit(1 if self.violations else 0)


def standard_main(pid, crate, codes, gen_cases, predicate, nontrivial=None, matcher=None, rule="",
                  make_case=None, extra=None, allowed_axioms=None, family="generated", trusted=()):
    """The usual shape of a check: prove, build the harness, generate, run both sides, compare."""
    ck = Check(pid, allowed_axioms=allowed_axioms)
    ck.rule = rule
    ck.trusted += list(trusted)
    ck.prove()
    ck.phase("prove")
    binary, log = ck.cargo_build(crate)
    ck.phase("cargo")
    if binary is None:
        path = ck.write_replay({"kind": "build", "property": pid, "unchecked": "correspondence via rust/%s" % crate,
                                "log": log[-6000:]})
        ck.violations.append((path, True, "harness rust/%s does not build against /repo: correspondence cannot be established" % crate))
        ck.finish()
    if ck.replay:
        r = json.load(open(ck.replay))
        if r.get("kind") != "case":
            print(json.dumps(r, indent=1)[:4000])
            sys.exit(0)
        t = r["case"].split()
        if r.get("mtoks") is not None and r.get("ckind"):
            c = Case(r["ckind"], r["mtoks"].split(), rline=r["case"])
            if make_case:
                try:
                    c = make_case(r["ckind"], r["mtoks"].split(), r["case"])
                except TypeError:
                    c = make_case(r["ckind"], r["mtoks"].split())
        else:
            c = make_case(t[0], t[1:]) if make_case else Case(t[0], t[1:])
        impl = ck.run_impl(binary, [c.line])
        model = ck.run_model([c], codes, sample=1) if c.kind in codes else None
        print("case     :", c.line[:2000])
        print("impl     :", _clip(impl[0], 400))
        print("model    :", _clip(model[0], 400) if model else None)
        print("predicate:", (predicate(c, impl[0]) if predicate else None) or "holds")
        ck.compare([c], impl, model, predicate, nontrivial, matcher)
        ck.finish()
    cases = gen_cases(ck)
    ck.phase("generate")
    impl = ck.run_impl(binary, [c.line for c in cases])
    ck.phase("impl")
    mcases = [c for c in cases if c.kind in codes]
    mres = ck.run_model(mcases, codes)
    ck.phase("model")
    mmap = {id(c): r for c, r in zip(mcases, mres)}
    both = [(c, i) for c, i in zip(cases, impl) if id(c) in mmap]
    only = [(c, i) for c, i in zip(cases, impl) if id(c) not in mmap]
    if both:
        ck.compare([c for c, _ in both], [i for _, i in both], [mmap[id(c)] for c, _ in both],
                   predicate, nontrivial, matcher, family=family)
    if only:
        ck.compare([c for c, _ in only], [i for _, i in only], None, predicate, nontrivial, matcher,
                   family=family + " (implementation-only predicate)")
    if extra:
        extra(ck, binary)
    ck.finish()


def _clip(x, n=40):
    if isinstance(x, list) and len(x) > n:
        return x[:n] + ["...(%d more)" % (len(x) - n)]
    return x


def run_check(main):
    try:
        main()
    except MachineryError as e:
        print("MACHINERY-ERROR: %s" % e)
        sys.exit(2)


class Rng:
    """Single deterministic PRNG (splitmix64) so every random choice derives from VERIF_SEED."""

    def __init__(self, seed):
        self.s = (seed * 0x9E3779B97F4A7C15 + 0x1234567) & 0xFFFFFFFFFFFFFFFF

    def next(self):
        self.s = (self.s + 0x9E3779B97F4A7C15) & 0xFFFFFFFFFFFFFFFF
        z = self.s
        z = ((z ^ (z >> 30)) * 0xBF58476D1CE4E5B9) & 0xFFFFFFFFFFFFFFFF
        z = ((z ^ (z >> 27)) * 0x94D049BB133111EB) & 0xFFFFFFFFFFFFFFFF
        return z ^ (z >> 31)

    def below(self, n):
        return self.next() % n if n > 0 else 0

    def range(self, lo, hi):
        return lo + self.below(hi - lo + 1)

    def choice(self, xs):
        return xs[self.below(len(xs))]

    def chance(self, num, den):
        return self.below(den) < num

    def bytes(self, n):
        return bytes(self.below(256) for _ in range(n))

    def shuffle(self, xs):
        for i in range(len(xs) - 1, 0, -1):
            j = self.below(i + 1)
            xs[i], xs[j] = xs[j], xs[i]


def zlist(xs):
    return "[" + "; ".join(zlit(x) for x in xs) + "]"


def zlit(x):
    return "(%d)" % x if x < 0 else "%d" % x


def hexs(bs):
    return bytes(bs).hex() if len(bs) else "-"
