#!/usr/bin/env python3
"""tools/translate_access.py -- CODE translator for the access-restriction core of property C18:

  genapi/src/node_base.rs      NodeElementBase::{is_readable, is_writable, is_locked, is_implemented, is_available}
  genapi/src/register_base.rs  RegisterBase::{is_readable, is_writable, access_mode}
  genapi/src/{int_reg, masked_int_reg, float_reg, string_reg}.rs   is_readable / is_writable of the four register
                               features (must delegate to register_base())

Each body is either a conjunction `Ok(c1 && c2 && ...)` whose conjuncts are, in order, `self.f(device, store, cx)?`,
`!self.f(device, store, cx)?`, `matches!(<mode>, AccessMode::A | AccessMode::B)` or its negation - Rust's `&&`
evaluates the next conjunct (and so asks the next node) only when the previous ones are Ok(true) - or
`self.p_X.map_or(Ok(default), |nid| bool_from_id(nid, device, store, cx))`.  The translation keeps the order and the
short circuit (model/Access.v `andl`, left associated as Rust parses `a && b && c`) and is emitted into

    coq/theories/gen/AccessSrc.v     src_is_implemented src_is_available src_is_locked src_base_is_readable
                                     src_base_is_writable src_reg_is_readable src_reg_is_writable

bool_from_id stays the parameter `bfi` (C18's theorems are about every behaviour of the nodes asked).  ShapeError on
anything else."""
import os, re, sys

HERE = os.path.dirname(os.path.abspath(__file__))
OUT = os.path.join(os.path.dirname(HERE), "coq", "theories", "gen", "AccessSrc.v")
ARGS = r"\(\s*device,\s*store,\s*cx\s*\)"
FIELD = {"p_is_locked": "p_lock", "p_is_implemented": "p_impl", "p_is_available": "p_avail"}


class ShapeError(Exception):
    pass


def strip_comments(s):
    s = re.sub(r"/\*.*?\*/", "", s, flags=re.S)
    return re.sub(r"//[^\n]*", "", s)


def block_after(src, start):
    i = src.index("{", start)
    depth = 0
    for j in range(i, len(src)):
        if src[j] == "{":
            depth += 1
        elif src[j] == "}":
            depth -= 1
            if depth == 0:
                return src[i + 1:j], j + 1
    raise ShapeError("unbalanced braces")


def impl_block(src, header):
    ms = [m for m in re.finditer(r"(?m)^impl %s \{" % re.escape(header), src)]
    if len(ms) != 1:
        raise ShapeError("%d `impl %s` blocks" % (len(ms), header))
    return block_after(src, ms[0].start())[0]


def method(body, name):
    m = re.search(r"fn %s<T: ValueStore, U: CacheStore>\(\s*&self,\s*device: &mut impl Device,\s*store: &impl NodeStore,\s*"
                  r"cx: &mut ValueCtxt<T, U>,?\s*\)\s*->\s*GenApiResult<bool>\s*\{" % name, body)
    if not m:
        raise ShapeError("method %s with the usual signature not found" % name)
    return re.sub(r"\s+", " ", block_after(body, m.end() - 1)[0]).strip()


def split_and(s):
    out, depth, cur, i = [], 0, "", 0
    while i < len(s):
        ch = s[i]
        if ch in "([{":
            depth += 1
        elif ch in ")]}":
            depth -= 1
        if depth == 0 and s.startswith("&&", i):
            out.append(cur.strip())
            cur = ""
            i += 2
            continue
        cur += ch
        i += 1
    out.append(cur.strip())
    return out


def modes(s):
    ms = [x.strip() for x in s.split("|")]
    for x in ms:
        if x not in ("AccessMode::RO", "AccessMode::WO", "AccessMode::RW"):
            raise ShapeError("access mode pattern %r" % x)
    # the order of the alternatives of a matches! pattern means nothing: emitted in the enum's order
    return "[%s]" % "; ".join(x for x in ("RO", "WO", "RW") if "AccessMode::" + x in ms)


def conj(text, known, mode_exprs):
    """`Ok(c1 && c2 && ..)` -> Gallina"""
    m = re.fullmatch(r"Ok\((.*)\)", text)
    if not m:
        raise ShapeError("body is not Ok(<conjunction>): %r" % text[:80])
    terms = []
    for c in split_and(m.group(1)):
        neg = False
        if c.startswith("!"):
            neg, c = True, c[1:].strip()
        cm = re.fullmatch(r"self\.((?:\w+\.)?\w+)%s\?" % ARGS, c)
        mm = re.fullmatch(r"matches!\(\s*(self\.[\w.()]+)\s*,\s*([^)]*)\)", c)
        if cm:
            if cm.group(1) not in known:
                raise ShapeError("call of %r" % cm.group(1))
            t = "%s bfi nd" % known[cm.group(1)]
            terms.append("omap negb (%s)" % t if neg else t)
        elif mm:
            if mm.group(1) not in mode_exprs:
                raise ShapeError("matches! on %r" % mm.group(1))
            t = "mode_in %s (%s nd)" % (modes(mm.group(2)), mode_exprs[mm.group(1)])
            terms.append("Ok (negb (%s))" % t if neg else "Ok (%s)" % t)
        else:
            raise ShapeError("conjunct %r" % c[:80])
    code = terms[0]
    for t in terms[1:]:
        code = "andl (%s) (%s)" % (code, t)
    return code


def translate(repo):
    g = os.path.join(repo, "genapi", "src")
    nb = strip_comments(open(os.path.join(g, "node_base.rs")).read())
    rb = strip_comments(open(os.path.join(g, "register_base.rs")).read())
    et = strip_comments(open(os.path.join(g, "elem_type.rs")).read())
    if not re.search(r"pub enum AccessMode \{\s*RO,\s*WO,\s*RW,\s*\}", et):
        raise ShapeError("enum AccessMode is not { RO, WO, RW }")
    neb = impl_block(nb, "NodeElementBase")
    defs = []
    for name, field in (("is_locked", "p_is_locked"), ("is_implemented", "p_is_implemented"), ("is_available", "p_is_available")):
        b = method(neb, name)
        m = re.fullmatch(r"self\s*\.(\w+)\s*\.map_or\(Ok\((true|false)\), \|nid\| bool_from_id\(nid, device, store, cx\)\)", b)
        if not m or m.group(1) != field:
            raise ShapeError("%s is not `self.%s.map_or(Ok(b), |nid| bool_from_id(..))`: %r" % (name, field, b[:80]))
        defs.append("Definition src_%s (bfi : nat -> outcome bool) (nd : node) : outcome bool :=\n  src_map_or (%s nd) %s bfi."
                    % (name, FIELD[field], m.group(2)))
    known = {"is_locked": "src_is_locked", "is_implemented": "src_is_implemented", "is_available": "src_is_available"}
    for name in ("is_readable", "is_writable"):
        defs.append("Definition src_base_%s (bfi : nat -> outcome bool) (nd : node) : outcome bool :=\n  %s."
                    % (name, conj(method(neb, name), known, {"self.imposed_access_mode": "imposed"})))
    rbb = impl_block(rb, "RegisterBase")
    if not re.search(r"pub fn access_mode\(&self\) -> AccessMode \{\s*self\.access_mode\s*\}", rbb):
        raise ShapeError("RegisterBase::access_mode is not the field getter")
    if not re.search(r"pub\(crate\) elem_base: NodeElementBase,", rb):
        raise ShapeError("RegisterBase has no elem_base: NodeElementBase field")
    known2 = {"elem_base.is_readable": "src_base_is_readable", "elem_base.is_writable": "src_base_is_writable"}
    for name in ("is_readable", "is_writable"):
        defs.append("Definition src_reg_%s (bfi : nat -> outcome bool) (nd : node) : outcome bool :=\n  %s."
                    % (name, conj(method(rbb, name), known2, {"self.access_mode()": "regmode"})))
    # the four register features delegate
    for f in ("int_reg", "masked_int_reg", "float_reg", "string_reg"):
        src = strip_comments(open(os.path.join(g, f + ".rs")).read())
        for name in ("is_readable", "is_writable"):
            ms = list(re.finditer(r"fn %s<T: ValueStore, U: CacheStore>\([^)]*\)\s*->\s*GenApiResult<bool>\s*\{" % name, src))
            if len(ms) != 1:
                raise ShapeError("%s.rs: %d definitions of %s" % (f, len(ms), name))
            b = re.sub(r"\s+", " ", block_after(src, ms[0].end() - 1)[0]).strip()
            if b != "self.register_base().%s(device, store, cx)" % name:
                raise ShapeError("%s.rs: %s does not delegate to register_base(): %r" % (f, name, b[:80]))
        if not re.search(r"pub fn register_base\(&self\) -> &RegisterBase \{\s*&self\.register_base\s*\}", src):
            raise ShapeError("%s.rs: register_base() is not the field getter" % f)
    return defs


def render(defs):
    return ("(* GENERATED by tools/translate_access.py from genapi/src/node_base.rs, register_base.rs and the four register\n"
            "   features - do not edit.  `a? && b? && c` keeps Rust's order and short circuit ([andl], left associated). *)\n"
            "From Cam Require Import Outcome Access AccessOps.\n\n" + "\n\n".join(defs) + "\n")


def regenerate(repo=None):
    repo = repo or os.environ.get("VERIF_REPO", "/repo")
    text = render(translate(repo))
    old = open(OUT).read() if os.path.exists(OUT) else None
    if old != text:
        with open(OUT, "w") as f:
            f.write(text)
    return text


if __name__ == "__main__":
    try:
        print(regenerate(sys.argv[1] if len(sys.argv) > 1 else None))
    except ShapeError as e:
        print("ShapeError:", e)
        sys.exit(1)
