#!/usr/bin/env python3
"""tools/keepseed.py <seed_dir> <id> <property> <caught_by> <needs...>  — copy a confirmed seeded change into /verif/seeded/<id>/."""
import json, os, shutil, sys
src, sid, prop, caught = sys.argv[1:5]
needs = " ".join(sys.argv[5:])
dst = os.path.join("/verif/seeded", sid)
os.makedirs(dst, exist_ok=True)
for f in os.listdir(src):
    if f.endswith(".log") or f.startswith("out_") or f.startswith("suite_"):
        continue
    if os.path.isdir(os.path.join(src, f)):
        continue
    shutil.copy(os.path.join(src, f), dst)
notes = open(os.path.join(src, "notes.txt")).read() if os.path.exists(os.path.join(src, "notes.txt")) else ""
meta = {"id": sid, "breaks_property": prop, "needs_to_manifest": needs,
        "origin": "independent sub-agent given only the property text and a scratch worktree",
        "confirmed": "patch applies to /repo; ./check %s quick run with the patch applied (then reverted)" % prop,
        "caught_by": caught, "agent_notes": notes[:3000]}
json.dump(meta, open(os.path.join(dst, "meta.json"), "w"), indent=1)
print("kept", dst)
