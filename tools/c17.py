"""C17 — parsing preserves every declared node, property, default and reference.

Three-way comparison on documents rendered from random node models (tools/gen_model.py):
  implementation  rust/h_parse: GenApiBuilder::build on the XML text, every public getter of every stored
                  node dumped in a canonical integer form (+ the store_invalidator calls);
  model           coq/theories/model/GenApiParse.v: `run_doc true (Elem RegisterDescription .. (map render nodes))`
                  evaluated by coqc / vm_compute (so the Gallina renderer the theorems speak about is itself
                  checked against the XML text handed to roxmltree);
  predicate       the expected dump computed in Python directly from the node model with the schema defaults
                  typed in there: every declared name / property / default / reference retrievable with the
                  declared value; StructReg = its MaskedIntReg twins, Group = its members.
Additional families: StructReg / Group documents against their desugared twin documents (implementation on both),
Converter / IntConverter / SwissKnife / IntSwissKnife (three-way like every other kind since round 4; in addition
the expression trees of their formulas are compared with hand-written expectations), documents of every kind whose element
texts (numbers, references, names, tooltips, enumeration values, formulas) are cut at random positions by 0, 1, 2,
3+ comments / processing instructions (expectation unchanged), documents mutated at tree level
(benign: comments / white space / CDATA between and inside elements; malformed: dropped, renamed, reordered
elements, junk numbers), where model and implementation must agree on the outcome class."""
import copy
import json
import os
import sys
import xml.etree.ElementTree as ET

import gen_model as gm
import vplib
from vplib import Case, Check, Rng

RULE = ("a case is nontrivial when the document builds (no panic / error) and stores at least one node; "
        "distinct = distinct document texts")

LIMITATION_KEY = "StructEntry explicit schema default"
RESERVED_KEY = "named like a literal"


# ------------------------------------------------------------------------------------------- raw trees ----
class X:
    """element of a raw tree; children: X | ('t', text) | ('cdata', text) | ('c', comment) | ('pi', target, data)"""

    def __init__(self, tag, attrs=None, children=None):
        self.tag, self.attrs, self.children = tag, list(attrs or []), list(children or [])

    def xml(self, root=False):
        a = gm.xattrs(self.attrs)
        if root:
            a += ' xmlns="http://www.genicam.org/GenApi/Version_1_0"'
        body = ""
        for c in self.children:
            if isinstance(c, X):
                body += c.xml()
            elif c[0] == "t":
                body += gm.esc(c[1])
            elif c[0] == "cdata":
                body += "<![CDATA[%s]]>" % c[1]
            elif c[0] == "pi":
                body += "<?%s%s?>" % (c[1], (" " + c[2]) if c[2] else "")
            else:
                body += "<!--%s-->" % c[1]
        return "<%s%s>%s</%s>" % (self.tag, a, body, self.tag)

    def coq(self):
        # adjacent text / CDATA pieces form one text node
        parts = []
        for c in self.children:
            if isinstance(c, X):
                parts.append(c.coq())
            elif c[0] in ("t", "cdata"):
                if c[1] == "":
                    continue
                if parts and isinstance(parts[-1], list):
                    parts[-1][0] += c[1]
                else:
                    parts.append([c[1]])
            elif c[0] == "pi":
                parts.append("(PI %s %s)" % (gm.cs(c[1]), gm.cs(c[2])))
            else:
                parts.append("(Comment %s)" % gm.cs(c[1]))
        parts = ["(Text %s)" % gm.cs(p[0]) if isinstance(p, list) else p for p in parts]
        return "(Elem %s %s %s)" % (gm.cs(self.tag), gm.cl(lambda kv: "(%s, %s)" % (gm.cs(kv[0]), gm.cs(kv[1])), self.attrs),
                                    gm.cl(lambda x: x, parts))

    def elems(self):
        out = [self]
        for c in self.children:
            if isinstance(c, X):
                out += c.elems()
        return out


def tree_of_text(text):
    def conv(e):
        tag = e.tag.split("}")[-1]
        x = X(tag, [(k.split("}")[-1], v) for k, v in e.attrib.items()])
        if e.text:
            x.children.append(("t", e.text))
        for c in e:
            x.children.append(conv(c))
            if c.tail:
                x.children.append(("t", c.tail))
        return x
    return conv(ET.fromstring(text))


# ---------------------------------------------------------------------------------------------- cases ----
def mk_case(family, xml_text, term, doc=None, twin=None, note=None, expect=None):
    line = "p x" + xml_text.encode("utf-8").hex()
    meta = {"family": family, "doc": doc, "twin": twin, "note": note, "expect": expect, "xml": xml_text}
    return Case("p", [line[2:]], meta, term=term, rline=line)


def doc_case(family, doc, **kw):
    return mk_case(family, doc.xml(), doc.term() if doc.has_model() else None, doc=doc, **kw)


def tree_case(family, root, with_model=True, **kw):
    return mk_case(family, root.xml(root=True), ("run_doc true %s" % root.coq()) if with_model else None, **kw)


def noise(rng):
    """a node that is neither element nor text: comment or processing instruction"""
    if rng.chance(1, 2):
        return ("c", rng.choice(["", "a", " note ", "x y", "<b>", "1", "]]>"]))
    return ("pi", rng.choice(["b", "pi", "proc-1", "x"]), rng.choice(["", "d", "a=\"1\"", "1 2"]))


def interrupt(rng, root, num=1, den=2, always=None):
    """split the text of text-carrying elements (numbers, references, names, tooltips, formulas, ...) at random
    positions - the very start and end and repeated positions included - by 0, 1, 2, 3+ comments / processing
    instructions; the text of the element, hence the expected dump, is unchanged.  Returns the largest number of
    text pieces produced."""
    most = 0
    for e in root.elems():
        if any(isinstance(c, X) for c in e.children):
            continue
        if len(e.children) > 1 or (e.children and e.children[0][0] != "t"):
            continue
        if always is None and not rng.chance(num, den):
            continue
        t = e.children[0][1] if e.children else ""
        n = always if always is not None else rng.choice([0, 1, 1, 2, 2, 2, 3, 3, 4, 6])
        cuts = sorted(rng.below(len(t) + 1) for _ in range(n))
        kids, prev, pieces = [], 0, 0
        for c in cuts:
            if c > prev:
                kids.append(("t", t[prev:c]))
                pieces += 1
            kids.append(noise(rng))
            prev = c
        if prev < len(t):
            kids.append(("t", t[prev:]))
            pieces += 1
        e.children = kids
        most = max(most, pieces)
    return most


def boundary_docs():
    """hand-written documents: the defects found while reading, empty / comment-only text elements, literal forms"""
    IL, Imm, PN, Eb, Attr = gm.IL, gm.Imm, gm.PN, gm.Eb, gm.Attr
    docs = []
    rb = gm.Rb(Eb(), None, [gm.Addr("addr", Imm(IL(0x100, "h")))], Imm(IL(4)), None, "Device", None, None, ["X"])
    e0 = gm.SEntry(Attr("E0"), Eb(invs=["Y"]), None, None, None, None, gm.Bitmask(bit=IL(0)), None, None, None, [])
    e1 = gm.SEntry(Attr("E1"), Eb(), None, None, None, None, gm.Bitmask(bit=IL(1)), None, None, None, [])
    docs.append(gm.Doc([gm.StructReg(rb, None, [e0, e1]), gm.Port(Attr("Device"), Eb(), None, None, None)]))
    rb2 = copy.deepcopy(rb)
    rb2.eb.errors = ["Err0"]
    e2 = gm.SEntry(Attr("E2"), Eb(errors=["Err1", "Err2"]), None, None, None, None, gm.Bitmask(lsb=IL(2), msb=IL(5)), None, None, None, [])
    e3 = gm.SEntry(Attr("E3"), Eb(), "WO", "NoCache", IL(1000), gm.BLit(True), gm.Bitmask(bit=IL(7)), "Signed", "Hz", "Linear", ["S"])
    docs.append(gm.Doc([gm.StructReg(rb2, "BigEndian", [e2, e3])]))
    for t in ("", "x"):
        docs.append(gm.Doc([gm.Integer(Attr("A"), Eb(tooltip=t, description=t, display_name=t, docu_url=t), None,
                                       gm.Vk("value", IL(1)), None, None, None, t, None, [])]))
    for v in (0, 1, -1, gm.I64_MAX, gm.I64_MIN, 255):
        for form in (("d", False, False), ("h", False, False), ("h", True, False), ("h", False, True), ("h", True, True)):
            if v < 0 and form[0] == "h":
                continue
            docs.append(gm.Doc([gm.Integer(Attr("A"), Eb(), None, gm.Vk("value", IL(v, *form)), Imm(IL(v, *form)),
                                           PN("MaxNode"), None, None, None, [])]))
    for f in (gm.FL("inf"), gm.FL("ninf"), gm.FL("text", "NaN"), gm.FL("text", "1.5"), gm.FL("text", "-2")):
        docs.append(gm.Doc([gm.Float(Attr("F"), Eb(), None, gm.Vk("value", f), Imm(f), Imm(f), Imm(f), None, None, None, None)]))
    docs.append(gm.Doc([gm.Float(Attr("F"), Eb(), None, gm.Vk("pvalue", ["C0"], "V", ["C1", "C2"]), PN("Mn"), PN("Mx"), PN("Ic"),
                                 "u", "Linear", "Fixed", IL(3))]))
    for rep in gm.IREP:
        docs.append(gm.Doc([gm.Integer(Attr("A"), Eb(), None, gm.Vk("value", IL(5)), None, None, None, None, rep, [])]))
    return docs


def pool_docs():
    """for every name of gm.POOL (legal node names a sloppy "is it a number?" test would misread): a node of that name and
    a reference to it at EVERY ImmOrPNode site of every kind (f64: Float pMin / pMax / pInc / pValueIndexed /
    pValueDefault; i64: Integer ditto, Command pValue / pCommandValue, Enumeration pValue, register pLength / pAddress;
    bool: Boolean pValue), except where the code is KNOWN to read the name as a literal (gm.code_reads)"""
    IL, Imm, PN, Eb, Attr = gm.IL, gm.Imm, gm.PN, gm.Eb, gm.Attr
    docs = []
    for nm in gm.POOL:
        ok = lambda site: gm.code_reads(nm, site) is None
        nodes = [gm.Plain(Attr(nm), Eb())]
        if ok("f"):
            nodes.append(gm.Float(Attr("F"), Eb(), None, gm.Vk("pindex", "Ix", [(IL(0), PN(nm)), (IL(1), Imm(gm.FL("text", "1.5")))], PN(nm)),
                                  PN(nm), PN(nm), PN(nm), None, None, None, None))
        if ok("i"):
            nodes.append(gm.Integer(Attr("I"), Eb(), None, gm.Vk("pindex", "Ix", [(IL(0), PN(nm)), (IL(1), Imm(IL(7)))], PN(nm)),
                                    PN(nm), PN(nm), PN(nm), None, None, []))
            nodes.append(gm.Command(Attr("C"), Eb(), PN(nm), PN(nm), None))
            nodes.append(gm.Enumeration(Attr("E"), Eb(), None, [], PN(nm), [], None))
            nodes.append(gm.IntReg(Attr("R"), gm.Rb(Eb(), None, [gm.Addr("addr", PN(nm)), gm.Addr("pindex", PN(nm), nm)], PN(nm), None,
                                                   "Device", None, None, [nm]), None, None, None, None, [nm]))
        if ok("b"):
            nodes.append(gm.Boolean(Attr("B"), Eb(), None, PN(nm), None, None, []))
        docs.append(gm.Doc(nodes))
    return docs


def reserved_docs(rng, quick):
    """KNOWN finding probes: references to nodes whose legal name is spelled like a literal of the site"""
    IL, Imm, PN, Eb, Attr = gm.IL, gm.Imm, gm.PN, gm.Eb, gm.Attr
    out = []

    def add(nodes, made):
        d = gm.Doc(nodes)
        d.reserved = made
        out.append(d)
    for nm in ("INF", "NaN") + tuple(gm.UNDERSCORE):
        x = PN(nm, gm.code_reads(nm, "f"))
        add([gm.Plain(Attr(nm), Eb()), gm.Float(Attr("F"), Eb(), None, gm.Vk("value", gm.FL("text", "1")), None, x, None, None, None, None, None)], [x])
    for nm in ("Yes", "No", "true", "false"):
        x = PN(nm, gm.code_reads(nm, "b"))
        add([gm.Plain(Attr(nm), Eb()), gm.Boolean(Attr("B"), Eb(), None, x, IL(5), IL(-5), [])], [x])
    for nm in gm.UNDERSCORE:
        x = PN(nm, gm.code_reads(nm, "i"))
        add([gm.Integer(Attr("I"), Eb(), None, gm.Vk("value", IL(1)), x, None, None, None, None, [])], [x])
    gp = gm.Gen(rng)
    gp.probe_reserved = True
    n = 0
    while n < (60 if quick else 600):
        gp.n = 0
        gp.reserved_made = []
        node = gp.node(["float", "boolean", "integer", "command", "enumeration", "intreg", "float", "boolean"])
        if gp.reserved_made:
            n += 1
            add([node], list(gp.reserved_made))
    return out


def interrupted_boundary(rng):
    """node models whose every element text is cut into k + 1 pieces by k comments / processing instructions
    (`<Value>1<!--a-->2<?b?>3</Value>` is 123, `<pMax>Gain<!--a-->Max<!--b-->Node</pMax>` refers to GainMaxNode)"""
    IL, Imm, PN, Eb, Attr = gm.IL, gm.Imm, gm.PN, gm.Eb, gm.Attr
    docs = [
        gm.Doc([gm.Integer(Attr("Gain"), Eb(tooltip="The gain of the device", description="first, second and third part",
                                            display_name="Gain (raw)", impl="GainImplemented"), None,
                           gm.Vk("value", IL(123)), Imm(IL(1000, "h")), PN("GainMaxNode"), Imm(IL(-250)), "decibel", "Linear",
                           ["GainSelector"])]),
        gm.Doc([gm.Float(Attr("Exposure"), Eb(tooltip="Exposure time"), None, gm.Vk("pvalue", ["CopyOne"], "ExposureRaw", ["CopyTwo"]),
                         Imm(gm.FL("text", "0.125")), PN("ExposureMaxNode"), Imm(gm.FL("text", "1e-3")), "microsecond", "Logarithmic",
                         "Scientific", IL(12))]),
        gm.Doc([gm.Enumeration(Attr("Mode"), Eb(), None,
                               [gm.EnumEntry(Attr("Continuous"), Eb(display_name="Continuous mode"), IL(4660, "h"), gm.FL("text", "12.75"), None)],
                               PN("ModeRegister"), ["Selected"], IL(1500)),
                gm.IntReg(Attr("ModeRegister"), gm.Rb(Eb(), None, [gm.Addr("addr", Imm(IL(65536, "h"))),
                                                                    gm.Addr("pindex", Imm(IL(128)), "IndexNode")],
                                                      Imm(IL(4)), "RW", "Device", "NoCache", IL(2500), ["Invalidator"]),
                          "Signed", "BigEndian", "counts", "HexNumber", []),
                gm.ISwiss(Attr("Knife"), Eb(), None, [("A", "ModeRegister")], [("C", IL(1024))], [("E", "A+B*2")], "(A+B)*2", None, None)]),
    ]
    out = []
    for d in docs:
        for k in (0, 1, 2, 3, 5):
            root = tree_of_text(d.xml())
            interrupt(rng, root, always=k)
            out.append(tree_case("interrupted", root, doc=d, note="every text cut by %d" % k))
    return out


def boundary_trees():
    """raw trees: comments and white space, CDATA, malformed documents"""
    rd = gm.RD_ATTRS
    T = lambda s: ("t", s)
    out = []
    integer = lambda kids, name="A": X("Integer", [("Name", name)], kids)
    val = X("Value", [], [T("1")])
    out.append(("comment-only tooltip", X("RegisterDescription", rd, [integer([X("ToolTip", [], [("c", "hello")]), val])])))
    out.append(("comment inside text", X("RegisterDescription", rd, [integer([X("ToolTip", [], [T("a"), ("c", "x"), T("b")]), val])])))
    out.append(("cdata", X("RegisterDescription", rd, [integer([X("ToolTip", [], [T("a"), ("cdata", "<b>"), T("c")]), val])])))
    out.append(("white space and comments between elements",
                X("RegisterDescription", rd, [T("\n  "), ("c", " c "), integer([T("\n"), X("ToolTip", [], [T("t")]), T(" "), ("c", "c"), val, T("\n")]), T("\n")])))
    out.append(("child element in a text element", X("RegisterDescription", rd, [integer([X("ToolTip", [], [X("b", [], [T("x")])]), val])])))
    out.append(("missing Name", X("RegisterDescription", rd, [X("Integer", [], [val])])))
    out.append(("missing Value", X("RegisterDescription", rd, [integer([])])))
    out.append(("unknown tag", X("RegisterDescription", rd, [X("Bogus", [("Name", "A")], [])])))
    out.append(("DCAM tag", X("RegisterDescription", rd, [X("ConfRom", [("Name", "A")], [])])))
    out.append(("duplicate name", X("RegisterDescription", rd, [integer([val]), integer([val])])))
    out.append(("bad number", X("RegisterDescription", rd, [integer([X("Value", [], [T("12x")])])])))
    out.append(("padded number", X("RegisterDescription", rd, [integer([X("Value", [], [T(" 5 ")])])])))
    out.append(("hex above i64", X("RegisterDescription", rd, [integer([X("Value", [], [T("0xFFFFFFFFFFFFFFFF")])])])))
    out.append(("plus sign", X("RegisterDescription", rd, [integer([X("Value", [], [T("+5")])])])))
    out.append(("negative hex", X("RegisterDescription", rd, [integer([X("Value", [], [T("0x-5")])])])))
    out.append(("empty value", X("RegisterDescription", rd, [integer([X("Value", [], [])])])))
    out.append(("out of order", X("RegisterDescription", rd, [integer([val, X("ToolTip", [], [T("late")])])])))
    out.append(("bad visibility", X("RegisterDescription", rd, [integer([X("Visibility", [], [T("Novice")]), val])])))
    out.append(("bad bool", X("RegisterDescription", rd, [integer([X("IsDeprecated", [], [T("maybe")]), val])])))
    out.append(("wrong root", X("Foo", rd, [])))
    out.append(("missing root attribute", X("RegisterDescription", rd[1:], [])))
    out.append(("nested groups", X("RegisterDescription", rd, [X("Group", [], [X("Group", [], [integer([val])]), integer([val], "B")])])))
    out.append(("pInvalidator in a register's element base",
                X("RegisterDescription", rd, [X("IntReg", [("Name", "A")], [X("pInvalidator", [], [T("I")]), X("Address", [], [T("0")]),
                                                                         X("Length", [], [T("4")]), X("pPort", [], [T("P")])])])))
    out.append(("both offsets", X("RegisterDescription", rd, [X("IntReg", [("Name", "A")], [
        X("pIndex", [("Offset", "4"), ("pOffset", "O")], [T("I")]), X("Length", [], [T("4")]), X("pPort", [], [T("P")])])])))
    out.append(("struct entry with a foreign child", X("RegisterDescription", rd, [X("StructReg", [], [
        X("Address", [], [T("0")]), X("Length", [], [T("4")]), X("pPort", [], [T("P")]), X("Bogus", [("Name", "A")], [X("Bit", [], [T("1")])])])])))
    return out


def mutate(rng, root, benign):
    """one random tree-level mutation; returns (kind, benign)"""
    els = root.elems()
    k = rng.below(2) if benign else 2 + rng.below(7)
    if k == 0:      # white space / comments between elements (benign)
        for e in els:
            if any(isinstance(c, X) for c in e.children):
                new = []
                for c in e.children:
                    if rng.chance(1, 3):
                        new.append(rng.choice([("t", "\n  "), ("c", " note "), ("t", " ")]))
                    new.append(c)
                e.children = new
        return "whitespace", True
    if k == 1:      # split a text by a comment / CDATA (benign)
        cands = [e for e in els if len(e.children) == 1 and not isinstance(e.children[0], X) and len(e.children[0][1]) >= 2
                 and "]]>" not in e.children[0][1]]
        if not cands:
            return "none", True
        e = rng.choice(cands)
        t = e.children[0][1]
        i = 1 + rng.below(len(t) - 1)
        e.children = [("t", t[:i]), ("c", "split")] + ([("cdata", t[i:])] if rng.chance(1, 2) else [("t", t[i:])])
        return "split-text", True
    cands = [e for e in els if e is not root]
    if not cands:
        return "none", True
    e = rng.choice(cands)
    parent = [p for p in els if e in p.children][0]
    if k == 2:
        parent.children.remove(e)
        return "drop", False
    if k == 3:
        parent.children.insert(parent.children.index(e), copy.deepcopy(e))
        return "duplicate", False
    if k == 4:
        i = parent.children.index(e)
        j = rng.below(len(parent.children))
        parent.children[i], parent.children[j] = parent.children[j], parent.children[i]
        return "swap", False
    if k == 5:
        e.tag = rng.choice(["Bogus", "Value", "pValue", "ToolTip", "Length", "pInvalidator", "Integer", "Group", e.tag + "x"])
        return "rename", False
    if k == 6:
        e.children = [("t", rng.choice(["", "zz", "12x", "-", "0x", "1e", "Maybe", "INF", "NaN", "99999999999999999999", " 1"]))]
        return "junk-text", False
    if k == 7:
        if e.attrs:
            e.attrs.pop(rng.below(len(e.attrs)))
            return "drop-attr", False
        return "none", True
    kv = rng.choice([("NameSpace", "Bogus"), ("MergePriority", "2"), ("ExposeStatic", "Perhaps"), ("Name", "Dup"), ("Index", "1")])
    if any(k == kv[0] for k, _ in e.attrs):
        return "none", True
    e.attrs.append(kv)
    return "add-attr", False


def gen_cases(ck):
    rng = Rng(ck.seed)
    quick = ck.tier == "quick"
    cases = []
    for d in boundary_docs():
        cases.append(doc_case("boundary", d))
    for note, t in boundary_trees():
        cases.append(tree_case("raw", t, note=note))
    for d in pool_docs():
        cases.append(doc_case("names", d))
    cases += interrupted_boundary(rng)
    n_gen = 800 if quick else 10000
    n_kind = 30 if quick else 300
    g = gm.Gen(rng)
    for k in gm.KINDS:                      # every kind on its own first
        for _ in range(n_kind):
            g.n = 0
            cases.append(doc_case("generated", gm.Doc([getattr(g, "k_" + k)()])))
    for _ in range(n_gen):
        cases.append(doc_case("generated", g.doc()))
    # StructReg / Group documents against their desugared twins
    for _ in range(120 if quick else 1500):
        g.n = 0
        nodes = [g.node(["struct", "group", "struct", "intreg", "enumeration"]) for _ in range(rng.range(1, 3))]
        for n in nodes:
            no_embedded(n)
        d = gm.Doc(nodes)
        flat = []
        for n in nodes:
            flat += desugar(n)
        cases.append(doc_case("twins", d, twin=gm.Doc(flat)))
    # formula-carrying kinds: implementation vs expectation
    for _ in range(150 if quick else 1500):
        g.n = 0
        cases.append(doc_case("formula", gm.Doc([g.k_formula() if rng.chance(2, 3) else g.k_iswiss()
                                                  for _ in range(rng.range(1, 3))])))
    # element texts interrupted by comments / processing instructions, every kind (the expectation is unchanged)
    gi = gm.Gen(rng)
    kinds_i = gm.KINDS + ["formula"]
    for j in range(450 if quick else 4000):
        gi.n = 0
        if j < 3 * len(kinds_i):
            d = gm.Doc([getattr(gi, "k_" + kinds_i[j % len(kinds_i)])()])
        else:
            d = gm.Doc([gi.node(kinds_i) for _ in range(rng.range(1, 3))])
        root = tree_of_text(d.xml())
        most = interrupt(rng, root, 2, 3)
        cases.append(tree_case("interrupted", root, with_model=d.has_model(), doc=d, note="up to %d text pieces" % most))
    # mutated documents
    for _ in range(250 if quick else 3000):
        # malformed mutations stay clear of formula texts: the model keeps them as opaque strings while the code
        # parses them on the spot (formula::parse, property C05), so a junk formula panics only in the code
        want_benign = rng.chance(2, 9)
        g.no_formula = not want_benign
        d = g.doc([k for k in gm.KINDS if want_benign or k not in ("formula", "iswiss")])
        g.no_formula = False
        root = tree_of_text(d.xml())
        kind, benign = mutate(rng, root, want_benign)
        # a malformed mutation can move a free text into a place where the parser decides "number or node name" by
        # char::is_alphabetic of its first character - modelled exactly on ASCII only (trusted base): documents whose
        # texts leave ASCII are then run on the code alone (no panic-free claim is made for malformed documents)
        in_domain = benign or all(ord(ch) < 128 for ch in root.xml(root=True))
        cases.append(tree_case("mutated", root, with_model=in_domain, note=kind, doc=d if benign else None))
    # the known limitation (only while KNOWN_FINDINGS.json lists it, or when forced)
    if ck.limitation_listed or os.environ.get("VERIF_C17_PROBE"):
        gp = gm.Gen(rng, probe_limitation=True)
        n = 0
        while n < (80 if quick else 800):
            gp.n = 0
            s = gp.k_struct()
            if s.known_limitation():
                n += 1
                cases.append(doc_case("limitation", gm.Doc([s])))
    if ck.reserved_listed or os.environ.get("VERIF_C17_PROBE"):
        for d in reserved_docs(rng, quick):
            cases.append(doc_case("reserved-names", d))
    seen = set()
    out = []
    for c in cases:
        if c.line not in seen:
            seen.add(c.line)
            out.append(c)
    return out


def desugar(n):
    """StructReg -> its MaskedIntReg twins, Group -> its members"""
    if isinstance(n, gm.StructReg):
        return n.twins()
    if isinstance(n, gm.Group):
        out = []
        for m in n.members:
            out += desugar(m)
        return out
    return [n]


def no_embedded(n):
    """twin documents declare every node once: a structure's address may not embed a swiss knife (each twin would
    declare it again)"""
    if isinstance(n, gm.StructReg):
        n.rb.addrs = [a for a in n.rb.addrs if a.a[0] != "swiss"]
    if isinstance(n, gm.Group):
        for m in n.members:
            no_embedded(m)


# ------------------------------------------------------------------------------------------ predicate ----
def describe(exp, got):
    rd_e, ch_e, inv_e = exp
    rd_g, ch_g, inv_g = got
    if rd_e != rd_g:
        return "RegisterDescription attributes differ"
    names = lambda chs: [chunk_name(c) for c in chs]
    if sorted(names(ch_e)) != sorted(names(ch_g)):
        miss = sorted(set(names(ch_e)) - set(names(ch_g)))
        extra = sorted(set(names(ch_g)) - set(names(ch_e)))
        return "stored nodes differ: not retrievable %r, unexpected %r" % (miss[:4], extra[:4])
    ge = {chunk_name(c): c for c in ch_g}
    for c in ch_e:
        g = ge[chunk_name(c)]
        if g != c:
            i = next((k for k in range(min(len(c), len(g))) if c[k] != g[k]), min(len(c), len(g)))
            return "node %r (kind %d): accessor dump differs from the declaration at position %d (declared %r, reported %r)" % (
                chunk_name(c), c[0], i, c[i:i + 6], g[i:i + 6])
    if inv_e != inv_g:
        return "invalidator registrations differ: declared %r, registered %r" % (inv_e[:6], inv_g[:6])
    return None


def chunk_name(c):
    n = c[1]
    return "".join(chr(x) for x in c[2:2 + n])


def formulas_ok(doc, forms):
    table = dict(gm.FORMULAS)
    _, _, _, exp = doc.expected()
    if set(exp) != set(forms):
        return "formula nodes differ: %r vs %r" % (sorted(exp), sorted(forms))
    for name, (exprs, fs) in exp.items():
        want = [len(exprs)]
        for e in exprs:
            want += table[e]
        want.append(len(fs))
        for f in fs:
            want += table[f]
        if forms[name] != want:
            return "node %r: expression trees differ from the formulas declared (%r)" % (name, (exprs, fs))
    return None


def predicate(c, out):
    m = c.meta
    doc = m["doc"]
    if out is None or out == [] or out[0] in (3, 4, 9):
        return "harness produced no result (%r)" % (out,)
    if doc is None:
        return None                 # malformed / raw documents: model/implementation agreement only
    if out[0] != 0:
        return "a schema-valid document rendered from a node model does not build (outcome %r)" % (out[:2],)
    rd, chunks, invs, forms = gm.split_dump(out, True)
    exp = doc.expected()
    why = describe(exp[:3], (rd, chunks, invs))
    if why:
        return why
    why = formulas_ok(doc, forms)
    if why:
        return why
    if m["twin"] is not None:
        t = m.get("twin_out")
        if t is None or t[0] != 0:
            return "the desugared twin document does not build (%r)" % (t[:2] if t else t,)
        trd, tchunks, tinvs, _ = gm.split_dump(t, True)
        why = describe((trd, tchunks, tinvs), (rd, chunks, invs))
        if why:
            return "sugared document and desugared twin differ: " + why
    return None


def matcher(f, c, out, why):
    return matcher_limitation(f, c, out, why) or matcher_reserved(f, c, out, why)


def matcher_reserved(f, c, out, why):
    """KNOWN finding: a reference at an ImmOrPNode site to a node whose legal name is spelled like a literal of that
    site (INF / NaN at float sites, Yes / No / true / false at the Boolean pValue) is read as the literal; a name starting
    with an underscore is read as a numeral and panics.  Matches only documents that contain such a reference and whose
    dump is exactly the declaration with those references replaced by the literal (resp. a panic)."""
    if RESERVED_KEY not in f.get("match", "") + f.get("what", ""):
        return False
    doc = c.meta["doc"]
    out = c.meta.get("full", out)
    made = getattr(doc, "reserved", None) if doc is not None else None
    if not made or out is None:
        return False
    if any(x.lit == "panic" for x in made):
        return out == [2]
    if out[0] != 0:
        return False
    rd, chunks, invs, _ = gm.split_dump(out, True)
    gm.CODE_VIEW = True
    try:
        exp = doc.expected()
    finally:
        gm.CODE_VIEW = False
    return describe(exp[:3], (rd, chunks, invs)) is None


def matcher_limitation(f, c, out, why):
    """KNOWN finding (design limitation): a StructEntry that spells out the schema default of Visibility /
    IsDeprecated / ImposedAccessMode / AccessMode / Cachable / Streamable cannot override a non-default value of
    the structure.  Matches only documents that contain such an entry and whose dump is exactly the declaration
    with those explicit defaults dropped."""
    if LIMITATION_KEY not in f.get("match", "") + f.get("what", ""):
        return False
    doc = c.meta["doc"]
    out = c.meta.get("full", out)          # the dump with the formula section
    if doc is None or out is None or out[0] != 0:
        return False
    structs = [n for n in doc.nodes if isinstance(n, gm.StructReg)]
    if not any(s.known_limitation() for s in structs):
        return False
    d2 = gm.Doc([n.as_code_does() if isinstance(n, gm.StructReg) else n for n in doc.nodes], doc.rd)
    rd, chunks, invs, _ = gm.split_dump(out, True)
    return describe(d2.expected()[:3], (rd, chunks, invs)) is None


def nontrivial(c, out):
    return bool(out) and out[0] == 0 and len(out) > 3


def core(out):
    """canonical core of a dump (chunks sorted), formula section removed"""
    if not out or out[0] != 0:
        return out
    rd, chunks, invs, _ = gm.split_dump(out, True)
    return gm.canon(rd, chunks, invs)


def core_model(out):
    if not out or out[0] != 0:
        return out
    rd, chunks, invs, _ = gm.split_dump(out, False)
    try:
        return gm.canon(rd, sorted(gm.resolve_floats(c) for c in chunks), invs)
    except gm.BadFloat:
        return [2]          # value.parse::<f64>().unwrap() on a text that is not a float literal


def main():
    ck = Check("C17")
    ck.rule = RULE
    ck.limitation_listed = any(f.get("status") == "known" and LIMITATION_KEY in f.get("match", "") + f.get("what", "")
                               for f in ck.findings)
    ck.reserved_listed = any(f.get("status") == "known" and RESERVED_KEY in f.get("match", "") + f.get("what", "")
                             for f in ck.findings)
    ck.trusted += [
        "roxmltree (XML text -> tree) is taken as given: the model starts from the element tree; tools/c17.py builds the tree "
        "(Gallina term) and the text from the same Python object, for rendered node models the tree is produced by the Gallina "
        "renderer `render` and the text by tools/gen_model.py",
        "string_interner (NodeId <-> name) and DefaultValueStore (value id -> value) are modelled as identities; the harness "
        "resolves every id through NodeStore::name_by_id / ValueStore::value_opt",
        "str::parse::<f64> and `i64 as f64` are Rust's: the model keeps the literal text, tools/gen_model.py converts it with "
        "Python's float(); formula::parse is property C05 (formulas are opaque texts in the model, expression trees are "
        "compared with hand-written expectations)",
        "char::is_alphabetic is modelled exactly on ASCII and as false elsewhere",
    ]
    ck.prove()
    ck.phase("prove")
    binary, log = ck.cargo_build("h_parse")
    ck.phase("cargo")
    if binary is None:
        path = ck.write_replay({"kind": "build", "property": "C17", "unchecked": "correspondence via rust/h_parse", "log": log[-6000:]})
        ck.violations.append((path, True, "harness rust/h_parse does not build against the repository: correspondence cannot be established"))
        ck.finish()
    if ck.replay:
        r = json.load(open(ck.replay))
        if r.get("kind") != "case":
            print(json.dumps(r, indent=1)[:4000])
            sys.exit(0)
        line = r["case"]
        impl = ck.run_impl(binary, [line])
        text = bytes.fromhex(line.split()[1][1:]).decode("utf-8", "replace")
        print("document :", text[:3000])
        print("impl     :", vplib._clip(impl[0], 200))
        try:
            root = tree_of_text(text)
            model = ck.run_model_terms(["GenApiParse"], ["run_doc true %s" % root.coq()])
            print("model    :", vplib._clip(model[0], 200))
            print("agree    :", core(impl[0]) == core_model(model[0]))
        except Exception as e:      # not well-formed XML for Python's parser
            print("model    : not evaluated (%r)" % (e,))
        print("stored predicate verdict:", r.get("predicate_failure") or "holds")
        sys.exit(0)
    cases = gen_cases(ck)
    ck.phase("generate")
    impl = ck.run_impl(binary, [c.line for c in cases], jobs=min(vplib.NPROC, 8))
    twins = [c for c in cases if c.meta["twin"] is not None]
    tw_out = ck.run_impl(binary, ["p x" + flat_twin(c).xml().encode().hex() for c in twins], jobs=min(vplib.NPROC, 8))
    for c, o in zip(twins, tw_out):
        c.meta["twin_out"] = o
    ck.phase("impl")
    with_model = [i for i, c in enumerate(cases) if c.term is not None]
    try:
        try:
            mres = ck.run_model_terms(["GenApiParse"], [cases[i].term for i in with_model], per_eval=40)
        except vplib.MachineryError:
            # a coqc shard can be killed on an overloaded machine: one more attempt with fewer processes
            ck.notes.append("model evaluation retried with 4 processes")
            mres = ck.run_model_terms(["GenApiParse"], [cases[i].term for i in with_model], per_eval=40, jobs=4)
    except vplib.MachineryError as e:
        path = ck.write_replay({"kind": "model", "property": "C17", "unchecked": "model/GenApiParse.v", "why": str(e)[:1500] + " ... " + str(e)[-1500:]})
        ck.violations.append((path, True, "the model cannot be evaluated on the generated documents"))
        ck.finish()
    ck.phase("model")
    model = {i: r for i, r in zip(with_model, mres)}
    fams = {}
    for i, c in enumerate(cases):
        fams.setdefault(c.meta["family"], []).append(i)
    for c, o in zip(cases, impl):
        c.meta["full"] = o
    for fam, idx in fams.items():
        cs = [cases[i] for i in idx]
        full = [impl[i] for i in idx]
        # the predicate sees the full dump; the model is compared on the canonical core
        both = [k for k, i in enumerate(idx) if i in model]
        only = [k for k, i in enumerate(idx) if i not in model]
        if both:
            def pred(c, o, _full={id(cs[k]): full[k] for k in both}):
                return predicate(c, _full[id(c)])
            ck.compare([cs[k] for k in both], [safe(core, full[k]) for k in both],
                       [safe(core_model, model[idx[k]]) for k in both], pred, nontrivial, matcher, family=fam)
        if only:
            ck.compare([cs[k] for k in only], [full[k] for k in only], None, predicate, nontrivial, matcher,
                       family=fam + " (implementation vs expectation)")
    kinds = {}
    for c in cases:
        d = c.meta["doc"]
        if d is not None:
            for n in d.nodes:
                kinds[type(n).__name__] = kinds.get(type(n).__name__, 0) + 1
    ck.dist["top_level_nodes_by_kind"] = kinds
    pieces = {}
    for c in cases:
        if c.meta["family"] == "interrupted":
            pieces[c.meta["note"]] = pieces.get(c.meta["note"], 0) + 1
    ck.dist["interrupted_texts"] = pieces
    ck.dist["outcomes"] = {"ok": sum(1 for o in impl if o and o[0] == 0), "panic": sum(1 for o in impl if o == [2]),
                           "error": sum(1 for o in impl if o and o[0] == 1)}
    ck.finish()


def safe(f, out):
    try:
        return f(out)
    except Exception as e:
        return ["unparsable dump", repr(e)]


def flat_twin(c):
    return c.meta["twin"]


if __name__ == "__main__":
    vplib.run_check(main)
