"""Shared helpers for the control-handle checks (C06, C07, C14, C15): case construction for the
h_u3v harness / model/ControlRun.v, output parsing, and a Python mirror of the scripted device."""
from vplib import Case, zlist

from u3vworld import World, std_world, pattern, le, ABRM, SBRM, SIRM, MANIFEST  # noqa: F401

OPEN, READ, WRITE, ENABLE, DISABLE, GENAPI, CLOSE, RETRY, PARAMS, WRITEPAT, DUMP = 10, 11, 12, 13, 14, 15, 16, 17, 18, 19, 20


def expand(toks):
    out = []
    for t in toks:
        if isinstance(t, str) and t.startswith("x"):
            bs = bytes.fromhex(t[1:])
            out.append(len(bs))
            out.extend(bs)
        else:
            out.append(int(t))
    return out


def ctl_case(world_toks, op_toks, meta):
    toks = list(world_toks) + list(op_toks)
    c = Case("ctl", toks, meta=meta)
    return c


def model_term(c):
    return "run_ctl %s" % zlist(c.expanded())


def hash_bytes(bs):
    h = 0
    for b in bs:
        h = (h * 31 + b) & 0xFFFFFFFF
    return h


def show_data(d):
    d = list(d)
    if len(d) <= 64:
        return [len(d)] + d
    return [len(d), hash_bytes(d), d[0], d[-1]]


def parse_output(out):
    """-> (results, events, writes) or None.  results: list of ('ok', payload) | ('err', cls) | ('panic',)"""
    if not out or out in ([-98], [-99]):
        return None
    try:
        i7 = len(out) - 1 - out[::-1].index(-7)
    except ValueError:
        return None
    # results never contain -7 at a length position; find the first -7 that ends a well-formed prefix
    res = []
    p = 0
    ok = False
    while p < len(out):
        if out[p] == -7:
            ok = True
            break
        n = out[p]
        if n <= 0 or p + 1 + n > len(out):
            return None
        body = out[p + 1:p + 1 + n]
        if body == [2]:
            res.append(("panic",))
        elif body[0] == 1 and n == 2:
            res.append(("err", body[1]))
        elif body[0] == 0:
            res.append(("ok", body[1:]))
        else:
            return None
        p += 1 + n
    if not ok:
        return None
    p += 1
    events = []
    while p < len(out) and out[p] != -8:
        k = out[p]
        if k == 1:
            events.append(("send", out[p + 1], out[p + 2], out[p + 3], out[p + 4]))
            p += 5
        elif k == 2:
            events.append(("recv", out[p + 1]))
            p += 2
        elif k in (3, 4, 5, 6):
            events.append(({3: "open", 4: "close", 5: "sethalt", 6: "clearhalt"}[k],))
            p += 1
        else:
            return None
    if p >= len(out):
        return None
    p += 1
    nw = out[p]
    p += 1
    writes = []
    for _ in range(nw):
        a = out[p]
        n = out[p + 1]
        if n <= 64:
            writes.append((a, n, out[p + 2:p + 2 + n]))
            p += 2 + n
        else:
            writes.append((a, n, out[p + 2:p + 5]))
            p += 5
    return res, events, writes
