"""C13 — bootstrap register accessors follow the U3V register tables.

Real Abrm/Sbrm/Sirm/ManifestTable/ManifestEntry accessors (rust/h_regmap, a recording in-memory
DeviceControl) vs the Gallina model model/RegMap.v (coqc / vm_compute) on the same cases, plus the
property's own predicate: an independent Python evaluation of the GenCP / USB3 Vision register tables and
field layouts typed in below (STD_*), which says for every case which device accesses and which value the
standard requires.  The register tables of device/src/u3v/register_map.rs are re-translated into
coq/theories/gen/RegTables.v on every run (tools/translate_regs.py) and the theorems are re-checked over
the regenerated tables."""
import json
import os
import sys

import translate_regs
import vplib
from vplib import Case, Check, Rng, zlit

U64 = 1 << 64
U32 = 1 << 32

# ---- the standard's tables, typed in by hand (independently of spec/U3VTables.v and of the code) ----------
STD_ABRM = {
    "GENCP_VERSION": (0x0000, 4), "MANUFACTURER_NAME": (0x0004, 64), "MODEL_NAME": (0x0044, 64),
    "FAMILY_NAME": (0x0084, 64), "DEVICE_VERSION": (0x00C4, 64), "MANUFACTURER_INFO": (0x0104, 64),
    "SERIAL_NUMBER": (0x0144, 64), "USER_DEFINED_NAME": (0x0184, 64), "DEVICE_CAPABILITY": (0x01C4, 8),
    "MAXIMUM_DEVICE_RESPONSE_TIME": (0x01CC, 4), "MANIFEST_TABLE_ADDRESS": (0x01D0, 8),
    "SBRM_ADDRESS": (0x01D8, 8), "DEVICE_CONFIGURATION": (0x01E0, 8), "HEARTBEAT_TIMEOUT": (0x01E8, 4),
    "MESSAGE_CHANNEL_ID": (0x01EC, 4), "TIMESTAMP": (0x01F0, 8), "TIMESTAMP_LATCH": (0x01F8, 4),
    "TIMESTAMP_INCREMENT": (0x01FC, 8), "ACCESS_PRIVILEGE": (0x0204, 4), "PROTOCOL_ENDIANNESS": (0x0208, 4),
    "IMPLEMENTATION_ENDIANNESS": (0x020C, 4), "DEVICE_SOFTWARE_INTERFACE_VERSION": (0x0210, 64),
}
STD_SBRM = {
    "U3V_VERSION": (0x00, 4), "U3VCP_CAPABILITY_REGISTER": (0x04, 8), "U3VCP_CONFIGURATION_REGISTER": (0x0C, 8),
    "MAXIMUM_COMMAND_TRANSFER_LENGTH": (0x14, 4), "MAXIMUM_ACKNOWLEDGE_TRANSFER_LENGTH": (0x18, 4),
    "NUMBER_OF_STREAM_CHANNELS": (0x1C, 4), "SIRM_ADDRESS": (0x20, 8), "SIRM_LENGTH": (0x28, 4),
    "EIRM_ADDRESS": (0x2C, 8), "EIRM_LENGTH": (0x34, 4), "IIDC2_ADDRESS": (0x38, 8), "CURRENT_SPEED": (0x40, 4),
}
STD_EIRM = {"EI_CONTROL": (0x00, 4), "MAXIMUM_EVENT_TRANSFER_LENGTH": (0x04, 4), "EVENT_TEST_CONTROL": (0x08, 4)}
STD_SIRM = {
    "SI_INFO": (0x00, 4), "SI_CONTROL": (0x04, 4), "REQUIRED_PAYLOAD_SIZE": (0x08, 8),
    "REQUIRED_LEADER_SIZE": (0x10, 4), "REQUIRED_TRAILER_SIZE": (0x14, 4), "MAXIMUM_LEADER_SIZE": (0x18, 4),
    "PAYLOAD_TRANSFER_SIZE": (0x1C, 4), "PAYLOAD_TRANSFER_COUNT": (0x20, 4),
    "PAYLOAD_FINAL_TRANSFER1_SIZE": (0x24, 4), "PAYLOAD_FINAL_TRANSFER2_SIZE": (0x28, 4),
    "MAXIMUM_TRAILER_SIZE": (0x2C, 4),
}
STD_MENT = {"GENICAM_FILE_VERSION": (0x00, 4), "FILE_FORMAT_INFO": (0x04, 4), "REGISTER_ADDRESS": (0x08, 8),
            "FILE_SIZE": (0x10, 8), "SHA1_HASH": (0x18, 20)}
STD_TABLES = {"abrm": STD_ABRM, "sbrm": STD_SBRM, "eirm": STD_EIRM, "sirm": STD_SIRM, "manifest_entry": STD_MENT}

A, S, I, T, E = "abrm", "sbrm", "sirm", "mtab", "ment"
# op -> (map, (offset, length), kind, capability bit gating an optional register or None)
GETTERS = {
    1: (A, STD_ABRM["GENCP_VERSION"], "ver32", None),
    2: (A, STD_ABRM["MANUFACTURER_NAME"], "str", None),
    3: (A, STD_ABRM["MODEL_NAME"], "str", None),
    4: (A, STD_ABRM["FAMILY_NAME"], "str", 8),
    5: (A, STD_ABRM["DEVICE_VERSION"], "str", None),
    6: (A, STD_ABRM["MANUFACTURER_INFO"], "str", None),
    7: (A, STD_ABRM["SERIAL_NUMBER"], "str", None),
    8: (A, STD_ABRM["USER_DEFINED_NAME"], "str", 0),
    9: (A, STD_ABRM["MANIFEST_TABLE_ADDRESS"], "uint", None),
    10: (A, STD_ABRM["SBRM_ADDRESS"], "uint", None),
    11: (A, STD_ABRM["TIMESTAMP"], "uint", None),
    12: (A, STD_ABRM["TIMESTAMP_INCREMENT"], "uint", None),
    13: (A, STD_ABRM["DEVICE_SOFTWARE_INTERFACE_VERSION"], "str", 14),
    14: (A, STD_ABRM["MAXIMUM_DEVICE_RESPONSE_TIME"], "millis", None),
    15: (A, STD_ABRM["DEVICE_CONFIGURATION"], "cfg", None),
    20: (S, STD_SBRM["U3V_VERSION"], "ver32", None),
    21: (S, STD_SBRM["MAXIMUM_COMMAND_TRANSFER_LENGTH"], "uint", None),
    22: (S, STD_SBRM["MAXIMUM_ACKNOWLEDGE_TRANSFER_LENGTH"], "uint", None),
    23: (S, STD_SBRM["NUMBER_OF_STREAM_CHANNELS"], "uint", None),
    24: (S, STD_SBRM["SIRM_ADDRESS"], "uint", 0),
    25: (S, STD_SBRM["SIRM_LENGTH"], "uint", 0),
    26: (S, STD_SBRM["EIRM_ADDRESS"], "uint", 1),
    27: (S, STD_SBRM["EIRM_LENGTH"], "uint", 1),
    28: (S, STD_SBRM["IIDC2_ADDRESS"], "uint", 2),
    29: (S, STD_SBRM["CURRENT_SPEED"], "speed", None),
    40: (I, STD_SIRM["SI_INFO"], "align", None),
    41: (I, STD_SIRM["SI_CONTROL"], "bit0", None),
    42: (I, STD_SIRM["REQUIRED_PAYLOAD_SIZE"], "uint", None),
    43: (I, STD_SIRM["REQUIRED_LEADER_SIZE"], "uint", None),
    44: (I, STD_SIRM["REQUIRED_TRAILER_SIZE"], "uint", None),
    45: (I, STD_SIRM["MAXIMUM_LEADER_SIZE"], "uint", None),
    46: (I, STD_SIRM["MAXIMUM_TRAILER_SIZE"], "uint", None),
    47: (I, STD_SIRM["PAYLOAD_TRANSFER_SIZE"], "uint", None),
    48: (I, STD_SIRM["PAYLOAD_TRANSFER_COUNT"], "uint", None),
    49: (I, STD_SIRM["PAYLOAD_FINAL_TRANSFER1_SIZE"], "uint", None),
    50: (I, STD_SIRM["PAYLOAD_FINAL_TRANSFER2_SIZE"], "uint", None),
    61: (E, STD_MENT["GENICAM_FILE_VERSION"], "filever", None),
    62: (E, STD_MENT["REGISTER_ADDRESS"], "uint", None),
    63: (E, STD_MENT["FILE_SIZE"], "uint", None),
    64: (E, STD_MENT["FILE_FORMAT_INFO"], "fileinfo", None),
    65: (E, STD_MENT["SHA1_HASH"], "hash", None),
}
# setter op -> (register, paired getter op)
SIRM_SETTERS = {
    80: (STD_SIRM["SI_CONTROL"], 41), 81: (STD_SIRM["SI_CONTROL"], 41),
    82: (STD_SIRM["MAXIMUM_LEADER_SIZE"], 45), 83: (STD_SIRM["MAXIMUM_TRAILER_SIZE"], 46),
    84: (STD_SIRM["PAYLOAD_TRANSFER_SIZE"], 47), 85: (STD_SIRM["PAYLOAD_TRANSFER_COUNT"], 48),
    86: (STD_SIRM["PAYLOAD_FINAL_TRANSFER1_SIZE"], 49), 87: (STD_SIRM["PAYLOAD_FINAL_TRANSFER2_SIZE"], 50),
}
ABRM_OPS = set(range(1, 17)) | {32, 33, 70, 71, 72}
SBRM_OPS = set(range(20, 32))


# ---- independent evaluation of the property ----------------------------------------------------------------
class DevErr(Exception):
    pass


class Refused(Exception):
    """the call must be an error (any class), with no further device access"""


class Sim:
    def __init__(self, m):
        self.seed, self.fail = m["seed"], m["fail"]
        self.cells = {}
        for a, bs in m["segs"]:
            for i, b in enumerate(bs):
                self.cells[(a + i) % U64] = b
        self.log = []
        self.count = 0

    def byte(self, a):
        return self.cells.get(a, (self.seed + 131 * a) % 256)

    def _check(self, a, n):
        k = self.count
        self.count += 1
        if k == self.fail or a + n > U64:
            raise DevErr()

    def read(self, a, n):
        self.log.append([0, a, n])
        self._check(a, n)
        return bytes(self.byte(a + i) for i in range(n))

    def write(self, a, bs):
        self.log.append([1, a, len(bs)] + list(bs))
        self._check(a, len(bs))
        for i, b in enumerate(bs):
            self.cells[a + i] = b


def le(bs):
    return int.from_bytes(bs, "little")


def addr_of(mp, base, off):
    if mp == A:
        return off
    if base + off >= U64:
        raise Refused()
    return base + off


def decode(kind, bs):
    """value required by the standard for register content bs; ('err',) = must be reported as an error"""
    w = le(bs)
    if kind == "ver32":
        return [(w >> 16) & 0xFFFF, w & 0xFFFF, 0]
    if kind == "filever":
        return [(w >> 24) & 0xFF, (w >> 16) & 0xFF, w & 0xFFFF]
    if kind == "str":
        s = bs.split(b"\0")[0]
        try:
            s.decode("utf-8")
        except UnicodeDecodeError:
            return ("err",)
        return [len(s)] + list(s)
    if kind == "uint":
        return [w]
    if kind == "millis":
        return [w, 0]
    if kind == "cfg":
        return [(w >> 1) & 1]
    if kind == "speed":
        return [{1: 0, 2: 1, 4: 2, 8: 3, 16: 4}[w]] if w in (1, 2, 4, 8, 16) else ("err",)
    if kind == "align":
        e = w >> 24
        return [1 << e] if e < 32 else ("err",)
    if kind == "bit0":
        return [w & 1]
    if kind == "fileinfo":
        ft, cf = w & 7, (w >> 10) & 63
        return ([0, ft] if ft in (0, 1) else [1, 45]) + ([0, cf] if cf in (0, 1) else [1, 45]) + \
            [(w >> 24) & 0xFF, (w >> 16) & 0xFF, 0]
    if kind == "hash":
        return [0] if not any(bs) else [1] + list(bs)
    raise KeyError(kind)


def sim_get(sim, op, base, cap):
    mp, (off, ln), kind, gate = GETTERS[op]
    if gate is not None and not (cap >> gate) & 1:
        return [0, 0]                                   # Ok(None), no access
    bs = sim.read(addr_of(mp, base, off), ln)
    v = decode(kind, bs)
    if v == ("err",):
        raise Refused()
    return [0] + ([1] if gate is not None else []) + v


def readback(sim, op, base, cap):
    """the getter after a successful setter: its own failure is reported on its own"""
    try:
        return sim_get(sim, op, base, cap)
    except (Refused, DevErr):
        return ["E"]


def sim_entries(sim, base):
    n = le(sim.read(addr_of(T, base, 0), 8))
    first = addr_of(T, base, 8)
    if n >= 1 and first + (n - 1) * 64 >= U64:
        raise Refused()
    out = [0, min(n, 1000)]
    for i in range(min(n, 3)):
        try:
            out += sim_get(sim, 63, first + 64 * i, 0)
        except Refused:
            out += ["E"]
        except DevErr:
            out += ["E"]
    return out


def simulate(m):
    """-> (expected result tokens (with 'E' = some error [1, class]), expected access log) or raises"""
    sim = Sim(m)
    op, base, args = m["op"], m["base"], m["args"]
    try:
        if op in ABRM_OPS:
            cap = le(sim.read(*STD_ABRM["DEVICE_CAPABILITY"]))
            if op == 16:
                r = [0] + [(cap >> b) & 1 for b in (0, 8, 12, 13, 14)]
            elif op == 32:
                sb = le(sim.read(*STD_ABRM["SBRM_ADDRESS"]))
                c2 = le(sim.read(addr_of(S, sb, 4), 8))
                r = [0] + [(c2 >> b) & 1 for b in (0, 1, 2)]
            elif op == 33:
                mt = le(sim.read(*STD_ABRM["MANIFEST_TABLE_ADDRESS"]))
                r = sim_entries(sim, mt)
            elif op == 70:
                name = bytes(args)
                if not cap & 1:
                    r = [0, 0, 0]                       # nothing written, None read back
                else:
                    if any(b >= 128 or b == 0 for b in name) or len(name) > 64:
                        raise Refused()
                    sim.write(STD_ABRM["USER_DEFINED_NAME"][0], name + bytes(64 - len(name)))
                    r = [0] + readback(sim, 8, 0, cap)
            elif op == 71:
                sim.write(STD_ABRM["TIMESTAMP_LATCH"][0], (1).to_bytes(4, "little"))
                r = [0]
            elif op == 72:
                w = le(sim.read(*STD_ABRM["DEVICE_CONFIGURATION"]))
                w2 = w | 2 if args[0] == 1 else w & ~2 if args[0] == 2 else w
                sim.write(STD_ABRM["DEVICE_CONFIGURATION"][0], w2.to_bytes(8, "little"))
                r = [0, (w >> 1) & 1, (w2 >> 1) & 1] + readback(sim, 15, 0, cap)
            else:
                r = sim_get(sim, op, 0, cap)
        elif op in SBRM_OPS:
            cap = le(sim.read(addr_of(S, base, STD_SBRM["U3VCP_CAPABILITY_REGISTER"][0]), 8))
            if op == 30:
                r = [0] + [(cap >> b) & 1 for b in (0, 1, 2)]
            elif op == 31:
                if not cap & 1:
                    r = [0, 0]
                else:
                    sa = le(sim.read(addr_of(S, base, 0x20), 8))
                    try:
                        r = [0, 1] + sim_get(sim, 43, sa, 0)
                    except (Refused, DevErr):
                        r = [0, 1, "E"]
            else:
                r = sim_get(sim, op, base, cap)
        elif op in SIRM_SETTERS:
            (off, ln), gop = SIRM_SETTERS[op]
            v = 1 if op == 80 else 0 if op == 81 else args[0]
            sim.write(addr_of(I, base, off), v.to_bytes(4, "little"))
            r = [0] + readback(sim, gop, base, 0)
        elif op == 60:
            r = sim_entries(sim, base)
        else:
            r = sim_get(sim, op, base, 0)
    except (Refused, DevErr):
        r = ["E"]
    return r, sim.log


def split_out(out):
    # the log marker is the first -7 followed by a consistent log; search from the left
    for k in range(len(out)):
        if out[k] != -7 or k + 1 >= len(out):
            continue
        n, p, log, ok = out[k + 1], k + 2, [], True
        for _ in range(n):
            if p + 3 > len(out):
                ok = False
                break
            if out[p] == 0:
                log.append(out[p:p + 3])
                p += 3
            elif out[p] == 1:
                ln = out[p + 2]
                log.append(out[p:p + 3 + ln])
                p += 3 + ln
            else:
                ok = False
                break
        if ok and p == len(out):
            return out[:k], log
    return None, None


def match_res(res, exp):
    """exp may contain 'E' standing for [1, <any class>]"""
    i = 0
    for t in exp:
        if t == "E":
            if i + 2 > len(res) or res[i] != 1:
                return False
            i += 2
        else:
            if i >= len(res) or res[i] != t:
                return False
            i += 1
    return i == len(res)


def predicate(c, out):
    if out is None or out in ([3], [4], [8]):
        return "harness died on the case: %r" % (out,)
    res, log = split_out(out)
    if res is None:
        return "unparsable output"
    if res == [2] or 2 in res[:1]:
        return "the accessor panicked"
    if res == [9]:
        return None
    exp, elog = simulate(c.meta)
    if log != elog:
        return "device accesses %r, the register tables require %r" % (_short(log), _short(elog))
    if not match_res(res, exp):
        return "result %r, the standard's layout requires %r" % (res[:12], exp[:12])
    return None


def _short(log):
    return [e[:3] if e[0] == 0 else e[:3] + ["data"] + e[3:11] for e in log][:6]


def nontrivial(c, out):
    if not out:
        return False
    res, log = split_out(out)
    return bool(res) and res[0] == 0 and len(log or []) >= (2 if c.meta["op"] in ABRM_OPS | SBRM_OPS else 1)


# ---- case construction ------------------------------------------------------------------------------------
def mk(op, base=0, fail=-1, seed=0, segs=(), args=()):
    segs = [(a % U64, bytes(bs)) for a, bs in segs if len(bs)]
    m = {"op": op, "base": base, "fail": fail, "seed": seed, "segs": segs, "args": list(args)}
    toks = [op, base, fail, seed, len(segs)]
    for a, bs in segs:
        toks += [a, "x" + bs.hex()]
    if op == 70:
        toks.append("x" + bytes(args).hex())
    else:
        toks += list(args)
    term = "rm_run %d %d %s %d [%s] [%s]" % (
        op, base, zlit(fail), seed,
        "; ".join("(%d, [%s])" % (a, "; ".join(str(b) for b in bs)) for a, bs in segs),
        "; ".join(str(a) for a in args))
    return Case("rm", toks, m, term=term)


def case_from_line(line):
    t = line.split()
    op, base, fail, seed, k = int(t[1]), int(t[2]), int(t[3]), int(t[4]), int(t[5])
    segs = [(int(t[6 + 2 * j]), bytes.fromhex(t[7 + 2 * j][1:])) for j in range(k)]
    rest = t[6 + 2 * k:]
    if op == 70:
        args = list(bytes.fromhex(rest[0][1:])) if rest else []
    else:
        args = [int(x) for x in rest]
    return mk(op, base, fail, seed, segs, args)


UTF8_SAMPLES = [
    b"", b"a", b"cameleon", b"A" * 63, b"A" * 64, b"\x7f\x01 ~", "é".encode(), "日本語".encode(), "😀".encode(),
    "߿ࠀ￿\U00010000\U0010ffff".encode(), b"\xc2\x80", b"\xdf\xbf", b"\xe0\xa0\x80", b"\xed\x9f\xbf",
    b"\xee\x80\x80", b"\xf0\x90\x80\x80", b"\xf4\x8f\xbf\xbf",
    # malformed
    b"\x80", b"\xbf", b"\xc0\x80", b"\xc1\xbf", b"\xc2", b"\xc2\x41", b"\xe0\x80\x80", b"\xe0\x9f\xbf", b"\xed\xa0\x80",
    b"\xed\xbf\xbf", b"\xe1\x80", b"\xe1\x80\x41", b"\xf0\x80\x80\x80", b"\xf0\x8f\xbf\xbf", b"\xf4\x90\x80\x80",
    b"\xf5\x80\x80\x80", b"\xf8\x88\x80\x80\x80", b"\xff", b"\xfe", b"\xf1\x80\x80", b"\xf1\x80\x80\x41", b"ab\xffcd",
]


def string_contents(rng, quick):
    out = []
    for s in UTF8_SAMPLES:
        s = s[:64]
        out.append(s + bytes(64 - len(s)))                                  # NUL padded
        if len(s) < 63:
            out.append(s + b"\0" + bytes(rng.bytes(63 - len(s))))            # garbage after the terminator
        if len(s) < 64:
            out.append((b"x" * (64 - len(s)) + s))                           # ends exactly at the register end
    for cut in ("é".encode(), "日".encode(), "😀".encode()):
        for k in range(1, len(cut)):
            out.append(b"y" * (64 - k) + cut[:k])                            # sequence cut by the register end
            out.append(b"y" * 5 + cut[:k] + b"\0" + cut[k:] + bytes(58 - len(cut)))   # cut by the terminator
    out.append(bytes(range(1, 65)))
    out.append(bytes([0]) + b"hidden" + bytes(57))
    for _ in range(6 if quick else 60):
        out.append(bytes(rng.bytes(64)))
        n = rng.range(0, 64)
        out.append(bytes(rng.range(1, 127) for _ in range(n)) + bytes(64 - n))
    return out


def contents_for(kind, ln, rng, quick):
    nr = 6 if quick else 60
    if kind == "str":
        return string_contents(rng, quick)
    if kind in ("ver32", "filever"):
        ws = [0, 0xFFFFFFFF, 0x00010002, 0x01000100, 0x0001FFFF, 0xFFFF0000, 0x01020304, 0x00FF00FF, 0x0100, 0x01000000,
              0x00010000, 0x80000000, 0x0101] + [rng.below(U32) for _ in range(nr)]
    elif kind == "speed":
        ws = [0, 1, 2, 4, 8, 16, 32, 3, 5, 0x11, 0x10001, 0x100, 1 << 31, U32 - 1] + [rng.below(U32) for _ in range(nr)] + \
             [1 << rng.below(32) for _ in range(4)]
    elif kind == "align":
        ws = [(e << 24) | (rng.below(1 << 24) if e % 3 else 0) for e in list(range(0, 36)) + [62, 63, 64, 65, 127, 128, 254, 255]]
    elif kind == "bit0":
        ws = [0, 1, 2, 3, U32 - 1, U32 - 2, 0x80000000, 0x80000001] + [rng.below(U32) for _ in range(nr)]
    elif kind == "fileinfo":
        ws = [(ft | (cf << 10) | (sm << 16) | (sj << 24) | junk)
              for ft in range(8) for cf in (0, 1, 2, 32, 63) for (sj, sm, junk) in ((1, 1, 0), (255, 255, 0x3F8))]
        ws += [0, U32 - 1] + [rng.below(U32) for _ in range(nr)]
    elif kind == "hash":
        hs = [bytes(20), b"\xff" * 20, bytes(19) + b"\x01", b"\x01" + bytes(19), bytes(10) + b"\x80" + bytes(9)]
        hs += [bytes(rng.bytes(20)) for _ in range(nr)]
        return hs
    elif kind == "cfg":
        ws = [0, 1, 2, 3, U64 - 1, U64 - 3, 1 << 63, 0xFFFFFFFD] + [rng.below(U64) for _ in range(nr)]
    else:   # uint, millis
        top = 1 << (8 * ln)
        ws = [0, 1, 255, 256, 0x01020304 % top, top - 1, top >> 1, (top >> 1) - 1, 0x0807060504030201 % top] + \
             [rng.below(top) for _ in range(nr)]
    return [w.to_bytes(ln, "little") for w in ws]


def bases_for(off, ln, rng, quick):
    bs = [0, 0x1000, 0x10000 + rng.below(1 << 20), rng.below(U32) & ~3, rng.below(U64), (1 << 63) + rng.below(1 << 20),
          U64 - off - ln,            # the register ends exactly at the top of the address space
          U64 - off - ln + 1,        # address fine, range leaves the address space
          U64 - off - 1,             # last byte address
          U64 - off,                 # base + offset = 2^64
          U64 - 1, U64 - 4, U64 - 8]
    if not quick:
        bs += [rng.below(U64) for _ in range(6)] + [U64 - rng.range(1, 200) for _ in range(6)]
    return [b for b in bs if 0 <= b < U64]


def cap_words(bits, rng):
    """capability words: every combination of the relevant bits, other bits zero / random / all ones"""
    out = []
    for mask in range(1 << len(bits)):
        w = sum(1 << b for i, b in enumerate(bits) if (mask >> i) & 1)
        others = ~sum(1 << b for b in bits) & (U64 - 1)
        out += [w, w | (rng.below(U64) & others), w | others]
    return out


def gen_cases(ck):
    rng = Rng(ck.seed)
    quick = ck.tier == "quick"
    cases = []
    capA, capS = STD_ABRM["DEVICE_CAPABILITY"], STD_SBRM["U3VCP_CAPABILITY_REGISTER"]
    abrm_caps = cap_words([0, 8, 12, 13, 14], rng)
    sbrm_caps = cap_words([0, 1, 2], rng)

    def seed():
        return rng.below(256)

    # -- 1. every getter: contents x capability words (ABRM/SBRM), contents x bases (SBRM/SIRM/entry)
    for op, (mp, (off, ln), kind, gate) in sorted(GETTERS.items()):
        contents = contents_for(kind, ln, rng, quick)
        if mp == A:
            for i, bs in enumerate(contents):
                cap = abrm_caps[(i * 7 + op) % len(abrm_caps)]
                if gate is not None and i % 5 != 4:
                    cap |= 1 << gate
                cases.append(mk(op, 0, -1, seed(), [(capA[0], cap.to_bytes(8, "little")), (off, bs)]))
            for cap in abrm_caps if gate is not None else abrm_caps[::6]:
                cases.append(mk(op, 0, -1, seed(), [(capA[0], cap.to_bytes(8, "little"))]))
            for fail in (0, 1):
                cases.append(mk(op, 0, fail, seed(), [(capA[0], (U64 - 1).to_bytes(8, "little"))]))
        else:
            bases = bases_for(off, ln, rng, quick)
            for i, bs in enumerate(contents):
                base = bases[i % 6] if i % 4 else bases[i % len(bases)]
                segs = [((base + off) % U64, bs)] if base + off + ln <= U64 else []
                if mp == S:
                    cap = sbrm_caps[(i * 5 + op) % len(sbrm_caps)]
                    if gate is not None and i % 5 != 4:
                        cap |= 1 << gate
                    if base + capS[0] + 8 <= U64:
                        segs = [(base + capS[0], cap.to_bytes(8, "little"))] + segs
                cases.append(mk(op, base, -1, seed(), segs))
            for base in bases:
                cases.append(mk(op, base, -1, seed(), []))
                if mp == S:
                    for cap in (sbrm_caps if gate is not None else sbrm_caps[::8]):
                        if base + capS[0] + 8 <= U64:
                            cases.append(mk(op, base, -1, seed(), [(base + capS[0], cap.to_bytes(8, "little"))]))
            for fail in (0, 1):
                cases.append(mk(op, 0x2000, fail, seed(), [(0x2000 + capS[0], (U64 - 1).to_bytes(8, "little"))]))
    # -- 2. capability observers and constructors
    for cap in abrm_caps:
        cases.append(mk(16, 0, -1, seed(), [(capA[0], cap.to_bytes(8, "little"))]))
    cases.append(mk(16, 0, 0, 0, []))
    for base in bases_for(capS[0], 8, rng, quick):
        for cap in sbrm_caps[::3]:
            segs = [(base + capS[0], cap.to_bytes(8, "little"))] if base + capS[0] + 8 <= U64 else []
            cases.append(mk(30, base, -1, seed(), segs))
    # Abrm::sbrm / Abrm::manifest_table / Sbrm::sirm with addresses taken from registers (hostile values included)
    ptrs = [0, 0x1000, 0x12345678, 1 << 32, 1 << 63, U64 - 1, U64 - 4, U64 - 5, U64 - 8, U64 - 12, U64 - 13, U64 - 16,
            U64 - 0x18, U64 - 0x14, U64 - 0x13, U64 - 64, U64 - 72, U64 - 73, 0xFFFFFFFFFFFFFFF0] + [rng.below(U64) for _ in range(8)]
    for p in ptrs:
        for cap in (7, 0, 1):
            segs = [(STD_ABRM["SBRM_ADDRESS"][0], p.to_bytes(8, "little"))]
            if p + 12 <= U64:
                segs.append((p + 4, cap.to_bytes(8, "little")))
            cases.append(mk(32, 0, -1, seed(), segs))
            segs = [(0x3000 + 4, cap.to_bytes(8, "little")), (0x3000 + 0x20, p.to_bytes(8, "little"))]
            cases.append(mk(31, 0x3000, -1, seed(), segs))
        for n in (0, 1, 2, 3, 4):
            segs = [(STD_ABRM["MANIFEST_TABLE_ADDRESS"][0], p.to_bytes(8, "little"))]
            if p + 8 <= U64:
                segs.append((p, n.to_bytes(8, "little")))
            cases.append(mk(33, 0, -1, seed(), segs))
    for fail in (0, 1, 2, 3):
        cases.append(mk(32, 0, fail, 1, [(STD_ABRM["SBRM_ADDRESS"][0], (0x4000).to_bytes(8, "little"))]))
        cases.append(mk(33, 0, fail, 1, [(STD_ABRM["MANIFEST_TABLE_ADDRESS"][0], (0x4000).to_bytes(8, "little")),
                                        (0x4000, (2).to_bytes(8, "little"))]))
        cases.append(mk(31, 0x3000, fail, 1, [(0x3004, (1).to_bytes(8, "little")), (0x3020, (0x5000).to_bytes(8, "little"))]))
    # -- 3. manifest table: entry counts x bases (tables that reach or leave the top of the address space)
    counts = [0, 1, 2, 3, 4, 5, 999, 1000, 1001, 1 << 20, 1 << 57, 1 << 58, (1 << 58) - 1, (1 << 58) + 1, 1 << 63, U64 - 1]
    for base in [0, 0x8000, rng.below(U32), rng.below(U64) & ~63, U64 - 8, U64 - 9, U64 - 16, U64 - 72, U64 - 73, U64 - 71,
                 U64 - 136, U64 - 137, U64 - 200, U64 - 64 * 1000 - 8, U64 - 64 * 1000 - 7, U64 - 1, U64 - 7]:
        for n in counts:
            segs = [(base, n.to_bytes(8, "little"))] if base + 8 <= U64 else []
            cases.append(mk(60, base, -1, seed(), segs))
        cases.append(mk(60, base, -1, seed(), []))
    for fail in (0, 1, 2):
        cases.append(mk(60, 0x8000, fail, 3, [(0x8000, (3).to_bytes(8, "little"))]))
    # -- 4. setters
    vals = [0, 1, 2, 255, 256, 65535, 65536, 0x01020304, (1 << 31) - 1, 1 << 31, U32 - 2, U32 - 1] + \
           [rng.below(U32) for _ in range(6 if quick else 40)]
    for op, ((off, ln), _g) in sorted(SIRM_SETTERS.items()):
        bases = bases_for(off, ln, rng, quick)
        for i, v in enumerate(vals if op >= 82 else [0, 1]):
            for base in ([bases[i % len(bases)], bases[(i + 3) % 6]] if op >= 82 else bases):
                prior = [((base + off) % U64, bytes(rng.bytes(4)))] if base + off + 4 <= U64 else []
                cases.append(mk(op, base, -1, seed(), prior, [v] if op >= 82 else []))
        for fail in (0, 1):
            cases.append(mk(op, 0x6000, fail, seed(), [], [7] if op >= 82 else []))
    names = [b"", b"a", b"cameleon", b"A" * 63, b"B" * 64, b"C" * 65, b"D" * 200, b"a\0b", b"\0", b"ab\0", b"\0ab", b"x" * 63 + b"\0",
             b"y" * 64 + b"\0", "é".encode(), "日本".encode(), b"\x7f", b"a\x7fb", " ~!".encode(), "naïve".encode(),
             ("z" * 62 + "é").encode(), ("z" * 63 + "é").encode(), bytes(range(1, 65)), bytes(range(1, 128))[:64],
             bytes(range(64, 128)), b"tab\there", b"\n"]
    names += [bytes(rng.range(1, 127) for _ in range(rng.range(0, 66))) for _ in range(10 if quick else 100)]
    names += [bytes(rng.range(0, 127) for _ in range(rng.range(1, 64))) for _ in range(6 if quick else 60)]
    for nm in names:
        for cap in (1, 0, U64 - 1, U64 - 2, 0x4101):
            prior = [(STD_ABRM["USER_DEFINED_NAME"][0], bytes(rng.range(1, 255) for _ in range(64)))]
            cases.append(mk(70, 0, -1, seed(), [(capA[0], cap.to_bytes(8, "little"))] + prior, list(nm)))
    for fail in (0, 1, 2):
        cases.append(mk(70, 0, fail, 0, [(capA[0], (1).to_bytes(8, "little"))], list(b"name")))
        cases.append(mk(71, 0, fail, 0, []))
        cases.append(mk(72, 0, fail, 0, [], [1]))
    for s in range(6):
        cases.append(mk(71, 0, -1, s, [(STD_ABRM["TIMESTAMP_LATCH"][0], bytes(rng.bytes(4)))]))
    for bs in contents_for("cfg", 8, rng, quick):
        for mode in (0, 1, 2):
            cases.append(mk(72, 0, -1, seed(), [(STD_ABRM["DEVICE_CONFIGURATION"][0], bs)], [mode]))
    # -- 5. random: any getter, fill memory only (random register contents everywhere), any base
    for _ in range(12000 if quick else 120000):
        op = rng.choice(sorted(GETTERS))
        mp, (off, ln), kind, gate = GETTERS[op]
        base = 0 if mp == A else rng.choice([rng.below(U64), rng.below(U32), U64 - rng.range(1, 0x60), rng.below(1 << 16)])
        segs = []
        if mp in (A, S) and rng.chance(3, 4):
            ca = capA[0] if mp == A else base + capS[0]
            if ca + 8 <= U64:
                segs.append((ca, (rng.below(U64) | (rng.below(2) << (gate or 0))).to_bytes(8, "little")))
        if rng.chance(1, 2) and base + off + ln <= U64:
            cs = contents_for(kind, ln, rng, True)
            segs.append((base + off if mp != A else off, rng.choice(cs)))
        cases.append(mk(op, base, rng.choice([-1] * 12 + [0, 1]), seed(), segs))
    return cases


RULE = ("every accessor of Abrm/Sbrm/Sirm/ManifestTable/ManifestEntry (42 getters, 2 capability observers, "
        "Abrm::sbrm / Abrm::manifest_table / Sbrm::sirm, 11 setters each followed by its paired getter) on a recording "
        "in-memory DeviceControl: per register kind a boundary set of contents (versions with 16-bit fields, all "
        "single-bit and invalid speeds, alignment exponents 0..35/62..65/127/128/254/255, all file type x format "
        "enumerants, well-formed and malformed UTF-8 incl. sequences cut by the NUL / the register end, all-zero and "
        "one-bit hashes), bases 0 / random 32- and 64-bit / register ending exactly at 2^64 / range leaving the address "
        "space / base+offset = 2^64, all combinations of the capability bits with the other bits 0 / random / 1, "
        "hostile SBRM / SIRM / manifest addresses and entry counts read from registers, names ASCII / non-ASCII / "
        "63,64,65 chars / embedded NUL, planned device failures at access 0..3, plus seeded random cases; "
        "real code vs Gallina model (vm_compute) vs independent Python predicate from the standard's tables; "
        "non-trivial = Ok result that needed the register read/write")


def _coqchk(ck):
    """coqchk on the closure of props/C13 (the library is Cam.props.C13 under -Q theories Cam)"""
    import re
    rc, out = vplib.sh(["timeout", "1500", "coqchk", "-silent", "-o", "-Q", "theories", "Cam", "Cam.props.C13"],
                       cwd=vplib.COQ, timeout=1600)
    m = re.search(r"\* Axioms:\s*(.*?)(?:\n\s*\*|\Z)", out, flags=re.S)
    axioms = [a.strip() for a in m.group(1).split("\n") if a.strip() and a.strip() != "<none>"] if m else []
    ck.dist["coqchk_rc"] = rc
    ck.dist["coqchk_axioms"] = axioms
    if rc != 0 or axioms:
        ck.proof_broken("coqchk failed or reports axioms %r:\n%s" % (axioms, out[-3000:]))


def main():
    ck = Check("C13")
    ck.coqchk = lambda: _coqchk(ck)
    ck.rule = RULE
    ck.trusted += [
        "tools/translate_regs.py (regex over `pub mod m { pub const N: (u64, u16) = (o, l); }`, shape asserted) regenerates gen/RegTables.v on every run",
        "spec/U3VTables.v and the STD_* tables of tools/c13.py: GenCP / USB3 Vision register tables and field layouts typed in by hand (twice, independently)",
        "std::str::from_utf8 is modelled by utf8_valid (Unicode table 3-7), cross-checked against Python's UTF-8 decoder in the predicate",
        "rust/h_regmap: the recording in-memory DeviceControl (sparse memory, access log, planned failures)",
    ]
    try:
        info, tables = translate_regs.regs(vplib.REPO)
        ck.dist["translator"] = info
    except (translate_regs.ShapeError, OSError) as e:
        path = ck.write_replay({"kind": "translator", "property": "C13",
                                "unchecked": "gen/RegTables.v cannot be regenerated from device/src/u3v/register_map.rs",
                                "why": str(e)})
        ck.violations.append((path, True, "register tables no longer have the translatable shape: %s" % e))
        tables = None
    if tables is not None:
        # the regenerated tables against the standard's tables typed in above (names included)
        got = {n: {r[0]: (r[1], r[2]) for r in tables[n]} for n in tables}
        if got != STD_TABLES:
            diff = [(n, k, got[n].get(k), STD_TABLES[n].get(k)) for n in STD_TABLES
                    for k in set(got.get(n, {})) | set(STD_TABLES[n]) if got.get(n, {}).get(k) != STD_TABLES[n].get(k)]
            path = ck.write_replay({"kind": "tables", "property": "C13", "differences(map, register, code, standard)": diff[:20]})
            ck.violations.append((path, False, "register table differs from the standard: %r" % (diff[:3],)))
    ck.prove()
    ck.phase("prove")
    binary, log = ck.cargo_build("h_regmap")
    ck.phase("cargo")
    if binary is None:
        path = ck.write_replay({"kind": "build", "property": "C13", "unchecked": "correspondence via rust/h_regmap",
                                "log": log[-6000:]})
        ck.violations.append((path, True, "harness rust/h_regmap does not build against the repository: correspondence cannot be established"))
        ck.finish()
    if ck.replay:
        r = json.load(open(ck.replay))
        if r.get("kind") != "case":
            print(json.dumps(r, indent=1)[:4000])
            sys.exit(0)
        cases = [case_from_line(r["case"])]
    else:
        cases = gen_cases(ck)
    seen, uniq = set(), []
    for c in cases:
        if c.line not in seen:
            seen.add(c.line)
            uniq.append(c)
    cases = uniq
    ck.phase("generate")
    impl = ck.run_impl(binary, [c.line for c in cases])
    ck.phase("impl")
    try:
        model = ck.run_model_terms(["RegMap"], [c.term for c in cases])
    except vplib.MachineryError as e:
        # the model is parametrised by the regenerated tables: if it no longer compiles the
        # correspondence cannot be established; the predicate below still decides the cases
        path = ck.write_replay({"kind": "model", "property": "C13", "unchecked": "model/RegMap.v over gen/RegTables.v",
                                "why": str(e)[-3000:]})
        ck.violations.append((path, True, "model cannot be evaluated over the regenerated tables"))
        model = None
    ck.phase("model")
    if ck.replay:
        print("case     :", cases[0].line[:2000])
        print("impl     :", impl[0])
        print("model    :", model[0] if model else None)
        print("required :", simulate(cases[0].meta))
        print("predicate:", predicate(cases[0], impl[0]) or "holds")
    ck.compare(cases, impl, model, predicate, nontrivial, family="accessors")
    ops = {}
    for c in cases:
        ops[c.meta["op"]] = ops.get(c.meta["op"], 0) + 1
    ck.dist["cases_per_op"] = ops
    ck.finish()
