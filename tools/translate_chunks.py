#!/usr/bin/env python3
"""Translator for CODE: regenerates coq/theories/gen/ReadChunks.v from device/src/u3v/protocol/cmd.rs:
`ReadMem::chunks`, `ReadMemChunks::next` (an iterator that mutates its fields) and `ReadMem::maximum_read_length`, as
Gallina functions over lib/RustInt.v (debug-build integer semantics).  proofs/P_C10s.v proves them equal to the
hand-written model (model/Chunks.v read_chunks_init / read_next / maximum_read_length) for all inputs of the types'
ranges, so the partition theorems of C10 hold of what the source says now.

`next` is executed symbolically: fields of `self` are threaded through the statements
    if COND { return None; }      if COND { BLOCK } else { BLOCK }      let N = ReadMem::new(E, E);
    self.F -= E;   self.F += E;   self.F = E;      Some(N)
with E ::= self.F | literal | E as T, COND ::= E == E | E > E.  Anything else: ShapeError (exit 3)."""
import os
import re
import sys

VERIF = os.path.dirname(os.path.dirname(os.path.abspath(__file__)))
BITS = {"u8": 8, "u16": 16, "u32": 32, "u64": 64, "usize": 64}


class ShapeError(Exception):
    pass


def strip_comments(s):
    s = re.sub(r"/\*.*?\*/", "", s, flags=re.S)
    return re.sub(r"//[^\n]*", "", s)


def block_at(src, i):
    """src[i] == '{' -> (inner text, index after the matching brace)"""
    if src[i] != "{":
        raise ShapeError("expected '{' at %r" % src[i:i + 30])
    depth = 0
    for j in range(i, len(src)):
        if src[j] == "{":
            depth += 1
        elif src[j] == "}":
            depth -= 1
            if depth == 0:
                return src[i + 1:j], j + 1
    raise ShapeError("unbalanced braces")


def fn_body(src, header_re):
    m = re.search(header_re, src)
    if not m:
        raise ShapeError("not found: %r" % header_re)
    return block_at(src, m.end() - 1)[0]


def struct_fields(src, name):
    m = re.search(r"pub struct %s\s*\{" % name, src)
    if not m:
        raise ShapeError("struct %s not found" % name)
    body = block_at(src, m.end() - 1)[0]
    fs = []
    for part in body.split(","):
        part = part.strip()
        if not part:
            continue
        mm = re.fullmatch(r"(?:pub(?:\(crate\))?\s+)?(\w+)\s*:\s*(\w+)", part)
        if not mm or mm.group(2) not in BITS:
            raise ShapeError("struct %s: field %r" % (name, part))
        fs.append((mm.group(1), mm.group(2)))
    return fs


# ---------------------------------------------------------------- statements --
def parse_block(text):
    """-> list of ('if', cond, then_block, else_block|None) | ('return', expr) | ('let', name, expr) |
                  ('assign', field, op, expr) | ('tail', expr)"""
    out, i, n = [], 0, len(text)
    while True:
        while i < n and text[i].isspace():
            i += 1
        if i >= n:
            return out
        if text.startswith("if ", i):
            j = text.index("{", i)
            cond = text[i + 3:j].strip()
            tb, k = block_at(text, j)
            eb = None
            m = re.match(r"\s*else\s*", text[k:])
            if m:
                eb, k = block_at(text, k + m.end())
            if k < n and text[k:k + 1] == ";":
                k += 1
            out.append(("if", cond, parse_block(tb), parse_block(eb) if eb is not None else None))
            i = k
            continue
        # simple statement up to ';' at depth 0, or the tail expression
        depth, j = 0, i
        while j < n and not (text[j] == ";" and depth == 0):
            if text[j] in "({[":
                depth += 1
            elif text[j] in ")}]":
                depth -= 1
            j += 1
        s = re.sub(r"\s+", " ", text[i:j]).strip()
        if j >= n:
            out.append(("tail", s))
            return out
        i = j + 1
        m = re.fullmatch(r"return (.*)", s)
        if m:
            out.append(("return", m.group(1)))
            continue
        m = re.fullmatch(r"let (\w+) = (.*)", s)
        if m:
            out.append(("let", m.group(1), m.group(2)))
            continue
        m = re.fullmatch(r"self\.(\w+) (-=|\+=|=) (.*)", s)
        if m:
            out.append(("assign", m.group(1), m.group(2), m.group(3)))
            continue
        raise ShapeError("statement %r" % s)


class Exec:
    """symbolic execution of `next`: produces a Gallina term of type outcome (option (item * state))"""

    def __init__(self, fields):
        self.fields = fields
        self.ftypes = dict(fields)
        self.fresh = 0

    def expr(self, e, env):
        """-> (pure Gallina term, type); only total expressions (casts, fields, literals, locals)"""
        e = e.strip()
        m = re.fullmatch(r"(.*) as (\w+)", e)
        if m and m.group(2) in BITS:
            c, _ = self.expr(m.group(1), env)
            return "(r_cast %d %s)" % (BITS[m.group(2)], c), m.group(2)
        m = re.fullmatch(r"self\.(\w+)", e)
        if m and m.group(1) in env["f"]:
            return env["f"][m.group(1)], self.ftypes[m.group(1)]
        if re.fullmatch(r"\d[\d_]*", e):
            return e.replace("_", ""), "lit"
        if e in env["v"]:
            return env["v"][e]
        raise ShapeError("expression %r" % e)

    def cond(self, c, env):
        m = re.fullmatch(r"(.*?) (==|>) (.*)", c.strip())
        if not m:
            raise ShapeError("condition %r" % c)
        a, ta = self.expr(m.group(1), env)
        b, tb = self.expr(m.group(3), env)
        if "lit" not in (ta, tb) and ta != tb:
            raise ShapeError("comparison of %s with %s in %r" % (ta, tb, c))
        return "(%s =? %s)" % (a, b) if m.group(2) == "==" else "(%s <? %s)" % (b, a)

    def state(self, env):
        return "(" + ", ".join(env["f"][f] for f, _ in self.fields) + ")"

    def run(self, stmts, env):
        if not stmts:
            raise ShapeError("a path of `next` falls off the end without a value")
        s, rest = stmts[0], stmts[1:]
        if s[0] == "if":
            c = self.cond(s[1], env)
            if s[3] is None:
                if not s[2] or s[2][-1][0] != "return":
                    raise ShapeError("an `if` without `else` must end in `return`")
                return "(if %s then %s else %s)" % (c, self.run(s[2], self.copy(env)), self.run(rest, env))
            if rest:
                raise ShapeError("statements after an if / else that yields the value")
            return "(if %s then %s else %s)" % (c, self.run(s[2], self.copy(env)), self.run(s[3], self.copy(env)))
        if s[0] in ("return", "tail"):
            v = s[1].strip()
            if v == "None":
                return "(Ok None)"
            m = re.fullmatch(r"Some\((\w+)\)", v)
            if m and m.group(1) in env["v"]:
                return "(Ok (Some (%s, %s)))" % (env["v"][m.group(1)][0], self.state(env))
            raise ShapeError("result %r" % v)
        if s[0] == "let":
            m = re.fullmatch(r"ReadMem::new\((.*), (.*)\)", s[2])
            if not m:
                raise ShapeError("let %s = %r" % (s[1], s[2]))
            a, ta = self.expr(m.group(1), env)
            b, tb = self.expr(m.group(2), env)
            if ta != "u64" or tb != "u16":
                raise ShapeError("ReadMem::new(%s, %s)" % (ta, tb))
            env["v"][s[1]] = ("(%s, %s)" % (a, b), "item")
            return self.run(rest, env)
        if s[0] == "assign":
            f, op, e = s[1], s[2], s[3]
            if f not in env["f"]:
                raise ShapeError("unknown field %s" % f)
            v, tv = self.expr(e, env)
            ty = self.ftypes[f]
            if tv not in ("lit", ty):
                raise ShapeError("self.%s (%s) %s %s" % (f, ty, op, tv))
            if op == "=":
                env["f"][f] = v
                return self.run(rest, env)
            self.fresh += 1
            nv = "%s_%d" % (f, self.fresh)
            code = "%s %d %s %s" % ("r_sub" if op == "-=" else "r_add", BITS[ty], env["f"][f], v)
            env["f"][f] = nv
            return "(let? %s := %s in %s)" % (nv, code, self.run(rest, env))
        raise ShapeError("statement %r" % (s,))

    @staticmethod
    def copy(env):
        return {"f": dict(env["f"]), "v": dict(env["v"])}



class WExec:
    """symbolic execution of WriteMemChunks::next with MONADIC expressions (usize additions can overflow, slices can be
    out of range, WriteMem::new(..).unwrap() can panic); `self.data` is abstracted to its length `dlen`, an item is
    (address, (lo, hi)) - the index range of the slice handed to WriteMem::new"""

    FIELDS = [("address", "u64"), ("data_idx", "usize"), ("maximum_data_len", "usize")]

    def __init__(self):
        self.n = 0

    def fresh(self, base):
        self.n += 1
        return "%s_%d" % (base, self.n)

    def mexpr(self, e, env):
        """-> (list of (name, code) bindings, term, type)"""
        e = e.strip()
        m = re.fullmatch(r"(.*) as (\w+)", e)
        if m and m.group(2) in BITS:
            b, t, _ = self.mexpr(m.group(1), env)
            return b, "(r_cast %d %s)" % (BITS[m.group(2)], t), m.group(2)
        m = re.fullmatch(r"(.*) \+ (.*)", e)
        if m:
            b1, t1, ty1 = self.mexpr(m.group(1), env)
            b2, t2, ty2 = self.mexpr(m.group(2), env)
            if ty1 != ty2:
                raise ShapeError("addition of %s and %s in %r" % (ty1, ty2, e))
            v = self.fresh("sum")
            return b1 + b2 + [(v, "r_add %d %s %s" % (BITS[ty1], t1, t2))], v, ty1
        if e == "self.data.len()":
            return [], "dlen", "usize"
        m = re.fullmatch(r"self\.(\w+)", e)
        if m and m.group(1) in env["f"]:
            return [], env["f"][m.group(1)], dict(self.FIELDS)[m.group(1)]
        raise ShapeError("expression %r" % e)

    @staticmethod
    def wrap(binds, body):
        for name, code in reversed(binds):
            body = "(let? %s := %s in %s)" % (name, code, body)
        return body

    def state(self, env):
        return "(" + ", ".join(env["f"][f] for f, _ in self.FIELDS) + ")"

    def run(self, stmts, env):
        if not stmts:
            raise ShapeError("a path of `next` falls off the end without a value")
        s, rest = stmts[0], stmts[1:]
        if s[0] == "if":
            m = re.fullmatch(r"(.*?) (==|<) (.*)", s[1].strip())
            if not m:
                raise ShapeError("condition %r" % s[1])
            b1, t1, ty1 = self.mexpr(m.group(1), env)
            b2, t2, ty2 = self.mexpr(m.group(3), env)
            if ty1 != ty2:
                raise ShapeError("comparison of %s with %s" % (ty1, ty2))
            c = "(%s %s %s)" % (t1, "=?" if m.group(2) == "==" else "<?", t2)
            if s[3] is None:
                if not s[2] or s[2][-1][0] != "return":
                    raise ShapeError("an `if` without `else` must end in `return`")
                body = "(if %s then %s else %s)" % (c, self.run(s[2], Exec.copy(env)), self.run(rest, env))
            else:
                if rest:
                    raise ShapeError("statements after an if / else that yields the value")
                body = "(if %s then %s else %s)" % (c, self.run(s[2], Exec.copy(env)), self.run(s[3], Exec.copy(env)))
            return self.wrap(b1 + b2, body)
        if s[0] in ("return", "tail"):
            v = s[1].strip()
            if v == "None":
                return "(Ok None)"
            m = re.fullmatch(r"Some\((\w+)\)", v)
            if m and m.group(1) in env["v"]:
                return "(Ok (Some (%s, %s)))" % (env["v"][m.group(1)], self.state(env))
            raise ShapeError("result %r" % v)
        if s[0] == "let":
            m = re.fullmatch(r"WriteMem::new\( ?(.*?), &self\.data\[(.*?)\.\.(.*?)\],? ?\) ?\.unwrap\(\)", s[2])
            if not m:
                raise ShapeError("let %s = %r" % (s[1], s[2]))
            ba, ta, tya = self.mexpr(m.group(1), env)
            bl, tl, tyl = self.mexpr(m.group(2), env)
            if m.group(3).strip():
                bh, th, tyh = self.mexpr(m.group(3), env)
            else:
                bh, th, tyh = [], "dlen", "usize"
            if (tya, tyl, tyh) != ("u64", "usize", "usize"):
                raise ShapeError("WriteMem::new(%s, [%s..%s])" % (tya, tyl, tyh))
            sl = self.fresh("slice")
            chk = self.fresh("new")
            env["v"][s[1]] = "(%s, %s)" % (ta, sl)
            binds = ba + bl + bh + [(sl, "r_slice dlen %s %s" % (tl, th)),
                                    (chk, "r_unwrap (src_write_mem_new (snd %s - fst %s))" % (sl, sl))]
            return self.wrap(binds, self.run(rest, env))
        if s[0] == "assign":
            f, op, e = s[1], s[2], s[3]
            if f not in env["f"]:
                raise ShapeError("unknown field %s" % f)
            b, t, ty = self.mexpr(e, env)
            fty = dict(self.FIELDS)[f]
            if ty != fty:
                raise ShapeError("self.%s (%s) %s %s" % (f, fty, op, ty))
            if op == "=":
                env["f"][f] = t
                return self.wrap(b, self.run(rest, env))
            if op != "+=":
                raise ShapeError("operator %s" % op)
            nv = self.fresh(f)
            b = b + [(nv, "r_add %d %s %s" % (BITS[fty], env["f"][f], t))]
            env["f"][f] = nv
            return self.wrap(b, self.run(rest, env))
        raise ShapeError("statement %r" % (s,))


def translate_write(src):
    m = re.search(r"pub struct WriteMemChunks<'a>\s*\{", src)
    if not m:
        raise ShapeError("struct WriteMemChunks not found")
    body = re.sub(r"\s+", " ", block_at(src, m.end() - 1)[0]).strip()
    if body != "address: u64, data: &'a [u8], data_idx: usize, maximum_data_len: usize,":
        raise ShapeError("fields of WriteMemChunks: %r" % body)
    m = re.search(r"impl<'a> std::iter::Iterator for WriteMemChunks<'a>\s*\{", src)
    if not m:
        raise ShapeError("Iterator impl of WriteMemChunks not found")
    impl = block_at(src, m.end() - 1)[0]
    nb = fn_body(impl, r"fn next\(&mut self\)\s*->\s*Option<Self::Item>\s*\{")
    ex = WExec()
    env = {"f": {f: f for f, _ in WExec.FIELDS}, "v": {}}
    next_code = ex.run(parse_block(nb), env)
    # WriteMem::new
    nb = fn_body(src, r"pub fn new\(address: u64, data: &'a \[u8\]\)\s*->\s*Result<Self>\s*\{")
    want = ("let data_len = into_scd_len(data.len())?; let len = into_scd_len(data.len() + 8)?; "
            "Ok(Self { address, data, data_len, len, })")
    if re.sub(r"\s+", "", nb) != re.sub(r"\s+", "", want):
        raise ShapeError("WriteMem::new no longer has the translated shape: %r" % re.sub(r"\s+", " ", nb)[:200])
    ib = fn_body(src, r"fn into_scd_len\(len: usize\)\s*->\s*Result<u16>\s*\{")
    if re.sub(r"\s+", "", ib) != 'len.try_into().map_err(|_|Error::InvalidPacket("scdlengthmustbelessthanu16::MAX".into()))':
        raise ShapeError("into_scd_len no longer has the translated shape: %r" % ib.strip()[:200])
    # WriteMem::chunks
    cb = fn_body(src, r"pub fn chunks\(&self, cmd_len: usize\)\s*->\s*Result<WriteMemChunks<'a>>\s*\{")
    want = ("let cmd_header_len = CommandPacket::<WriteMem>::header_len() + 8; if cmd_len <= cmd_header_len { "
            "let msg = format!( \"cmd_len must be larger than {}\", CommandPacket::<WriteMem>::header_len() + 8 ); "
            "return Err(Error::InvalidPacket(msg.into())); }; let maximum_data_len = cmd_len - cmd_header_len; "
            "Ok(WriteMemChunks { address: self.address, data: self.data, data_idx: 0, maximum_data_len, })")
    if re.sub(r"\s+", "", cb) != re.sub(r"\s+", "", want):
        raise ShapeError("WriteMem::chunks no longer has the translated shape: %r" % re.sub(r"\s+", " ", cb)[:300])
    hb = fn_body(src, r"fn header_len\(\)\s*->\s*usize\s*\{")
    if re.sub(r"\s+", "", hb) != "4+CommandCcd::len()asusize":
        raise ShapeError("header_len: %r" % hb)
    m = re.search(r"impl CommandCcd\s*\{", src)
    lb = fn_body(src[m.start():] if m else src, r"(?:const )?fn len\(\)\s*->\s*u16\s*\{")
    mm = re.fullmatch(r"\s*([\d\s+]+)\s*", lb)
    if not mm:
        raise ShapeError("CommandCcd::len: %r" % lb.strip()[:100])
    return dict(wnext=next_code, ccd_len=eval(mm.group(1).strip()))


def translate(repo):
    src = strip_comments(open(os.path.join(repo, "device/src/u3v/protocol/cmd.rs")).read().split("#[cfg(test)]")[0])
    fields = struct_fields(src, "ReadMemChunks")
    if [f for f, _ in fields] != ["address", "read_length", "maximum_read_length"]:
        raise ShapeError("fields of ReadMemChunks: %r" % fields)
    m = re.search(r"impl std::iter::Iterator for ReadMemChunks\s*\{", src)
    if not m:
        raise ShapeError("Iterator impl of ReadMemChunks not found")
    impl = block_at(src, m.end() - 1)[0]
    nb = fn_body(impl, r"fn next\(&mut self\)\s*->\s*Option<ReadMem>\s*\{")
    ex = Exec(fields)
    env = {"f": {f: f for f, _ in fields}, "v": {}}
    next_code = ex.run(parse_block(nb), env)
    # ACK_HEADER_LENGTH
    m = re.search(r"const ACK_HEADER_LENGTH\s*:\s*usize\s*=\s*([\d\s+]+);", src)
    if not m:
        raise ShapeError("ACK_HEADER_LENGTH")
    hdr = eval(m.group(1))
    # ReadMem::chunks
    cb = fn_body(src, r"pub fn chunks\(&self, ack_len: usize\)\s*->\s*Result<ReadMemChunks>\s*\{")
    want = ("let ack_header_length = CommandPacket::<ReadMem>::ACK_HEADER_LENGTH; if ack_len <= ack_header_length { "
            "let msg = format!( \"ack length must be larger than {}\", CommandPacket::<ReadMem>::ACK_HEADER_LENGTH ); "
            "return Err(Error::InvalidPacket(msg.into())); }; let maximum_read_length = ack_len - ack_header_length; "
            "Ok(ReadMemChunks { address: self.address, read_length: self.read_length, maximum_read_length, })")
    if re.sub(r"\s+", "", cb) != re.sub(r"\s+", "", want):
        raise ShapeError("ReadMem::chunks no longer has the translated shape: %r" % re.sub(r"\s+", " ", cb)[:300])
    # maximum_read_length
    mb = fn_body(src, r"pub fn maximum_read_length\(maximum_ack_len: usize\)\s*->\s*u16\s*\{")
    if re.sub(r"\s+", "", mb) != "(maximum_ack_len-CommandPacket::<ReadMem>::ACK_HEADER_LENGTH).try_into().unwrap_or(u16::MAX)":
        raise ShapeError("maximum_read_length no longer has the translated shape: %r" % mb.strip()[:200])
    t = dict(next=next_code, hdr=hdr)
    t.update(translate_write(src))
    return t


def render(t):
    return "\n".join([
        "(* GENERATED by tools/translate_chunks.py from device/src/u3v/protocol/cmd.rs (ReadMem::chunks,",
        "   ReadMemChunks::next, ReadMem::maximum_read_length) - do not edit. *)",
        "From Cam Require Import Outcome RustInt.", "",
        "Definition src_ACK_HEADER_LENGTH : Z := %d." % t["hdr"], "",
        "(* ReadMem::chunks: `ack_len <= hdr` -> InvalidPacket; `ack_len - hdr` (usize, debug) *)",
        "Definition src_read_chunks_init (address read_length ack_len : Z) : outcome (Z * Z * Z) :=",
        "  if ack_len <=? src_ACK_HEADER_LENGTH then Err E_INVALID_PACKET else",
        "  let? maximum_read_length := r_sub 64 ack_len src_ACK_HEADER_LENGTH in",
        "  Ok (address, read_length, maximum_read_length).", "",
        "(* ReadMemChunks::next, fields threaded through the statements *)",
        "Definition src_read_next (address read_length maximum_read_length : Z) : outcome (option ((Z * Z) * (Z * Z * Z))) :=",
        "  " + t["next"] + ".", "",
        "(* (maximum_ack_len - hdr).try_into().unwrap_or(u16::MAX) *)",
        "Definition src_maximum_read_length (maximum_ack_len : Z) : outcome Z :=",
        "  let? d := r_sub 64 maximum_ack_len src_ACK_HEADER_LENGTH in",
        "  Ok (match r_try_into 16 d 0 with Ok v => v | _ => 65535 end).", "",
        "(* ---- write side: `self.data` is abstracted to its length dlen, an item is (address, (lo, hi)) ---- *)",
        "Definition src_CMD_HEADER_LEN : Z := 4 + %d.   (* header_len() = 4 + CommandCcd::len() *)" % t["ccd_len"], "",
        "Definition src_into_scd_len (len : Z) : outcome Z := r_try_into 16 len E_INVALID_PACKET.", "",
        "(* WriteMem::new(address, data) for a slice of length len *)",
        "Definition src_write_mem_new (len : Z) : outcome unit :=",
        "  let? _ := src_into_scd_len len in let? l8 := r_add 64 len 8 in let? _ := src_into_scd_len l8 in Ok tt.", "",
        "Definition src_write_chunks_init (address cmd_len : Z) : outcome (Z * Z * Z) :=",
        "  let? cmd_header_len := r_add 64 src_CMD_HEADER_LEN 8 in",
        "  if cmd_len <=? cmd_header_len then Err E_INVALID_PACKET else",
        "  let? maximum_data_len := r_sub 64 cmd_len cmd_header_len in",
        "  Ok (address, 0, maximum_data_len).", "",
        "Definition src_write_next (dlen address data_idx maximum_data_len : Z)",
        "  : outcome (option ((Z * (Z * Z)) * (Z * Z * Z))) :=",
        "  " + t["wnext"] + ".", ""])


def regenerate(repo=None):
    repo = repo or os.environ.get("VERIF_REPO", "/repo")
    text = render(translate(repo))
    path = os.path.join(VERIF, "coq/theories/gen/ReadChunks.v")
    if os.path.exists(path) and open(path).read() == text:
        return False
    with open(path, "w") as f:
        f.write(text)
    return True


if __name__ == "__main__":
    try:
        print("gen/ReadChunks.v", "rewritten" if regenerate() else "unchanged")
    except (ShapeError, OSError) as e:
        print("translate_chunks: %s" % e)
        sys.exit(3)
