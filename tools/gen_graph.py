"""Generator of GenApi node graphs for C03 (also usable by C04 / C18): one Python object per graph,
rendered (a) to GenApi XML for the implementation, (b) to a Gallina term for model/Graph.v.

A graph is a list of node dicts; node i is called "N<i>" in the XML and is element i of the model's
node list.  References only point to nodes with a smaller index (acyclic by construction), except
that a small fraction points to a node of the wrong kind or to a name that is never defined
("N99", model index 99).  The port "Device" is the last node.

node fields (kind-specific):
  src  = ("imm", vid) | ("node", j)            ImmOrPNode<IntegerId / FloatId / StringId>
  isrc = ("imm", z) | ("node", j)              ImmOrPNode<i64> (z = f64 bits for a float increment)
  vk   = ("value", vid) | ("pvalue", p, before, after) | ("pindex", idx, [(i, src)], dflt)
  addr = ("addr", isrc) | ("knife", j) | ("index", off_isrc_or_None, idx)
  reg  = dict(addrs=[addr], length=isrc, acc="RO|WO|RW", port=j)
  knife= dict(vars=[(name, j)], consts=[(name, value)], exprs=[(name, tree)])   trees: tools/c05.py format
vals: list of ("i", z) | ("f", bits) | ("s", bytes)  -- the immediates, in allocation order.
"""
import struct

from vplib import Rng, xhex, zlit

BASE = 0x100
IMG = 80
STR_ZONE = 64            # string registers live at BASE+64.. (ASCII content)
DANGLING = 99
ACC = {"RO": 0, "WO": 1, "RW": 2}

BINOPS = ["+", "-", "*", "/", "%", "**", "<<", ">>", "&&", "||", "=", "<>", "<", "<=", ">", ">=", "&", "|", "^"]
BIN_CTOR = ["BAdd", "BSub", "BMul", "BDiv", "BRem", "BPow", "BShl", "BShr", "BAnd", "BOr", "BEq", "BNe", "BLt", "BLe",
            "BGt", "BGe", "BBitAnd", "BBitOr", "BXor"]
UNOPS = ["~", "ABS", "SGN", "NEG", "SIN", "COS", "TAN", "ASIN", "ACOS", "ATAN", "EXP", "LN", "LG", "SQRT", "TRUNC",
         "FLOOR", "CEIL", "ROUND"]
UN_CTOR = ["UNot", "UAbs", "USgn", "UNeg", "USin", "UCos", "UTan", "UAsin", "UAcos", "UAtan", "UExp", "ULn", "ULg",
           "USqrt", "UTrunc", "UFloor", "UCeil", "URound"]

INT_KINDS = ("integer", "intreg", "maskedintreg", "intconverter", "intswissknife")
FLT_KINDS = ("float", "floatreg", "converter", "swissknife")
REG_KINDS = ("intreg", "maskedintreg", "floatreg", "stringreg", "register")
STR_KINDS = ("string", "stringreg")


def f2b(x):
    return struct.unpack("<Q", struct.pack("<d", x))[0]


def b2f(b):
    return struct.unpack("<d", struct.pack("<Q", b))[0]


def esc(s):
    return s.replace("&", "&amp;").replace("<", "&lt;").replace(">", "&gt;")


def el(tag, text, **attrs):
    a = "".join(' %s="%s"' % (k, v) for k, v in attrs.items())
    return "<%s%s>%s</%s>" % (tag, a, text, tag)


def name(j):
    return "N%d" % j


def ftext(bits):
    x = b2f(bits)
    if x != x:
        return "NaN"
    if x in (float("inf"), float("-inf")):
        return "INF" if x > 0 else "-INF"
    return repr(x)


# ------------------------------------------------------------------ formulas --
def ftext_tokens(t):
    """fully parenthesised token list of a c05-format tree"""
    k = t[0]
    if k == "int":
        return [str(t[1])]
    if k == "flt":
        return [t[1]]
    if k == "id":
        return [t[1]]
    if k == "if":
        return ["("] + ftext_tokens(t[1]) + ["?"] + ftext_tokens(t[2]) + [":"] + ftext_tokens(t[3]) + [")"]
    if k == "un":
        if t[3] == "prefix":
            return ["(", {"~": "~", "NEG": "-"}[t[1]]] + ftext_tokens(t[2]) + [")"]
        return [t[1], "("] + ftext_tokens(t[2]) + [")"]
    return ["("] + ftext_tokens(t[2]) + [t[1]] + ftext_tokens(t[3]) + [")"]


def formula_text(t):
    return esc(" ".join(ftext_tokens(t)))


def zl(bs):
    return "[" + ";".join(str(b) for b in bs) + "]"


def gexpr(t):
    k = t[0]
    if k == "int":
        return "(EInt %s)" % zlit(t[1])
    if k == "flt":
        return "(EFloat %d)" % f2b(float(t[1]))
    if k == "id":
        return "(EIdent %s)" % zl(t[1].encode())
    if k == "if":
        return "(EIf %s %s %s)" % (gexpr(t[1]), gexpr(t[2]), gexpr(t[3]))
    if k == "un":
        return "(EUn %s %s)" % (UN_CTOR[UNOPS.index(t[1])], gexpr(t[2]))
    return "(EBin %s %s %s)" % (BIN_CTOR[BINOPS.index(t[1])], gexpr(t[2]), gexpr(t[3]))


# ------------------------------------------------------------------ rendering: XML --
def x_src(g, s, tag_imm, tag_node, is_float=False, **attrs):
    if s[0] == "imm":
        v = g["vals0"][s[1]]
        txt = ftext(v[1]) if v[0] == "f" else str(v[1]) if v[0] == "i" else v[1].decode()
        return el(tag_imm, txt, **attrs)
    return el(tag_node, name(s[1]), **attrs)


def x_isrc(s, tag_imm, tag_node, is_float=False):
    if s[0] == "imm":
        return el(tag_imm, ftext(s[1]) if is_float else str(s[1]))
    return el(tag_node, name(s[1]))


def x_vk(g, vk):
    if vk[0] == "value":
        return x_src(g, ("imm", vk[1]), "Value", "pValue")
    if vk[0] == "pvalue":
        return ("".join(el("pValueCopy", name(c)) for c in vk[2]) + el("pValue", name(vk[1]))
                + "".join(el("pValueCopy", name(c)) for c in vk[3]))
    s = el("pIndex", name(vk[1]))
    for i, e in vk[2]:
        s += x_src(g, e, "ValueIndexed", "pValueIndexed", Index=i)
    return s + x_src(g, vk[3], "ValueDefault", "pValueDefault")


def x_knife_body(k, is_float):
    s = ""
    for n, j in k["vars"]:
        s += el("pVariable", name(j), Name=n)
    for n, v in k["consts"]:
        s += el("Constant", ftext(v) if is_float else str(v), Name=n)
    for n, t in k["exprs"]:
        s += el("Expression", formula_text(t), Name=n)
    return s


def x_node(g, i, embedded=False):
    n = g["nodes"][i]
    k = n["kind"]
    if n.get("embedded") and not embedded:
        return ""
    head = ""
    if n.get("imposed", "RW") != "RW":
        head = el("ImposedAccessMode", n["imposed"])

    def reg(r):
        s = head
        for a in r["addrs"]:
            if a[0] == "addr":
                s += x_isrc(a[1], "Address", "pAddress")
            elif a[0] == "knife":
                s += x_node(g, a[1], embedded=True)
            else:
                at = {}
                if a[1] is not None:
                    at = {"Offset": a[1][1]} if a[1][0] == "imm" else {"pOffset": name(a[1][1])}
                s += el("pIndex", name(a[2]), **at)
        s += x_isrc(r["length"], "Length", "pLength")
        s += el("AccessMode", r["acc"]) + el("pPort", name(r["port"])) + el("Cachable", "NoCache")
        return s

    def tail_se(n):
        return (el("Sign", "Signed" if n["sign"] else "Unsigned")
                + el("Endianess", "BigEndian" if n["endian"] else "LittleEndian"))

    if k == "integer":
        b = head + x_vk(g, n["vk"])
        if n["mn"] is not None:
            b += x_src(g, n["mn"], "Min", "pMin")
        if n["mx"] is not None:
            b += x_src(g, n["mx"], "Max", "pMax")
        if n["inc"] is not None:
            b += x_isrc(n["inc"], "Inc", "pInc")
        tag = "Integer"
    elif k == "float":
        b = head + x_vk(g, n["vk"])
        if n["mn"] is not None:
            b += x_src(g, n["mn"], "Min", "pMin")
        if n["mx"] is not None:
            b += x_src(g, n["mx"], "Max", "pMax")
        if n["inc"] is not None:
            b += x_isrc(n["inc"], "Inc", "pInc", is_float=True)
        tag = "Float"
    elif k == "intreg":
        b, tag = reg(n["reg"]) + tail_se(n), "IntReg"
    elif k == "maskedintreg":
        bits = el("Bit", n["lsb"]) if n.get("bit") else el("LSB", n["lsb"]) + el("MSB", n["msb"])
        b, tag = reg(n["reg"]) + bits + tail_se(n), "MaskedIntReg"
    elif k == "floatreg":
        b, tag = reg(n["reg"]) + el("Endianess", "BigEndian" if n["endian"] else "LittleEndian"), "FloatReg"
    elif k == "stringreg":
        b, tag = reg(n["reg"]), "StringReg"
    elif k == "register":
        b, tag = reg(n["reg"]), "Register"
    elif k == "boolean":
        if n["v"][0] == "imm":
            b = head + el("Value", "true" if n["init"] else "false")
        else:
            b = head + el("pValue", name(n["v"][1]))
        if n["on_explicit"]:
            b += el("OnValue", n["on"])
        if n["off_explicit"]:
            b += el("OffValue", n["off"])
        tag = "Boolean"
    elif k == "command":
        b = head + x_src(g, n["v"], "Value", "pValue") + x_src(g, n["cv"], "CommandValue", "pCommandValue")
        tag = "Command"
    elif k == "enumeration":
        b = head
        for sym, val, num in n["ents"]:
            e = el("Value", val)
            if num is not None:
                e += el("NumericValue", ftext(num))
            b += el("EnumEntry", e, Name=sym)
        b += x_src(g, n["v"], "Value", "pValue")
        tag = "Enumeration"
    elif k == "string":
        b, tag = head + x_src(g, n["v"], "Value", "pValue"), "String"
    elif k in ("intswissknife", "swissknife"):
        b = head + x_knife_body(n["knife"], k == "swissknife") + el("Formula", formula_text(n["f"]))
        tag = "IntSwissKnife" if k == "intswissknife" else "SwissKnife"
    elif k in ("intconverter", "converter"):
        b = (head + x_knife_body(n["knife"], k == "converter") + el("FormulaTo", formula_text(n["fto"]))
             + el("FormulaFrom", formula_text(n["ffrom"])) + el("pValue", name(n["p"])))
        tag = "IntConverter" if k == "intconverter" else "Converter"
    elif k == "port":
        b, tag = "", "Port"
    elif k == "category":
        b, tag = "".join(el("pFeature", name(j)) for j in n["features"]), "Category"
    else:
        raise ValueError(k)
    return '<%s Name="%s">%s</%s>' % (tag, name(i), b, tag)


HEADER = ('<RegisterDescription ModelName="M" VendorName="V" StandardNameSpace="None" SchemaMajorVersion="1" '
          'SchemaMinorVersion="1" SchemaSubMinorVersion="0" MajorVersion="1" MinorVersion="2" SubMinorVersion="3" '
          'ToolTip="t" ProductGuid="01234567-0123-0123-0123-0123456789ab" '
          'VersionGuid="76543210-3210-3210-3210-ba9876543210" xmlns="http://www.genicam.org/GenApi/Version_1_0" '
          'xmlns:xsi="http://www.w3.org/2001/XMLSchema-instance" '
          'xsi:schemaLocation="http://www.genicam.org/GenApi/Version_1_0 GenApiSchema.xsd">')


def render_xml(g):
    return HEADER + "".join(x_node(g, i) for i in range(len(g["nodes"]))) + "</RegisterDescription>"


# ------------------------------------------------------------------ rendering: Gallina --
def c_nat(j):
    return "%d%%nat" % j


def c_src(s):
    return "(SImm %s)" % c_nat(s[1]) if s[0] == "imm" else "(SNode %s)" % c_nat(s[1])


def c_isrc(s):
    return "(IImm %s)" % zlit(s[1]) if s[0] == "imm" else "(INode %s)" % c_nat(s[1])


def c_vk(vk):
    if vk[0] == "value":
        return "(VValue %s)" % c_nat(vk[1])
    if vk[0] == "pvalue":
        return "(VPValue %s [%s])" % (c_nat(vk[1]), ";".join(c_nat(c) for c in vk[2] + vk[3]))
    return "(VPIndex %s [%s] %s)" % (c_nat(vk[1]), ";".join("(%s,%s)" % (zlit(i), c_src(e)) for i, e in vk[2]),
                                     c_src(vk[3]))


def c_reg(r):
    ads = []
    for a in r["addrs"]:
        if a[0] == "addr":
            ads.append("AAddr %s" % c_isrc(a[1]))
        elif a[0] == "knife":
            ads.append("AKnife %s" % c_nat(a[1]))
        else:
            ads.append("AIndex %s %s" % ("None" if a[1] is None else "(Some %s)" % c_isrc(a[1]), c_nat(a[2])))
    return "{| rb_addrs := [%s]; rb_len := %s; rb_acc := %d; rb_port := %s |}" % (
        ";".join(ads), c_isrc(r["length"]), ACC[r["acc"]], c_nat(r["port"]))


def c_knife(k, is_float):
    vs = ";".join("(%s,%s)" % (zl(n.encode()), c_nat(j)) for n, j in k["vars"])
    cs = ";".join("(%s,%s)" % (zl(n.encode()), ("(EFloat %d)" % v) if is_float else "(EInt %s)" % zlit(v))
                  for n, v in k["consts"])
    es = ";".join("(%s,%s)" % (zl(n.encode()), gexpr(t)) for n, t in k["exprs"])
    return "{| k_vars := [%s]; k_consts := [%s]; k_exprs := [%s] |}" % (vs, cs, es)


def c_node(g, i):
    n = g["nodes"][i]
    k = n["kind"]
    if k == "integer":
        b = "NInteger %s %s %s %s" % (c_vk(n["vk"]), c_src(n["mn_m"]), c_src(n["mx_m"]), c_isrc(n["inc_m"]))
    elif k == "float":
        b = "NFloat %s %s %s %s" % (c_vk(n["vk"]), c_src(n["mn_m"]), c_src(n["mx_m"]),
                                    "None" if n["inc"] is None else "(Some %s)" % c_isrc(n["inc"]))
    elif k == "intreg":
        b = "NIntReg %s %d %d" % (c_reg(n["reg"]), n["sign"], n["endian"])
    elif k == "maskedintreg":
        b = "NMaskedIntReg %s %d %d %d %d" % (c_reg(n["reg"]), n["lsb"], n["msb"], n["sign"], n["endian"])
    elif k == "floatreg":
        b = "NFloatReg %s %d" % (c_reg(n["reg"]), n["endian"])
    elif k == "stringreg":
        b = "NStringReg %s" % c_reg(n["reg"])
    elif k == "register":
        b = "NRegister %s" % c_reg(n["reg"])
    elif k == "boolean":
        b = "NBoolean %s %s %s" % (c_src(n["v"]), zlit(n["on"]), zlit(n["off"]))
    elif k == "command":
        b = "NCommand %s %s" % (c_src(n["v"]), c_src(n["cv"]))
    elif k == "enumeration":
        es = ";".join("{| ee_sym := %s; ee_val := %s; ee_num := %s |}" % (
            zl(s.encode()), zlit(v), "None" if num is None else "(Some %d)" % num) for s, v, num in n["ents"])
        b = "NEnumeration [%s] %s" % (es, c_src(n["v"]))
    elif k == "string":
        b = "NString %s" % c_src(n["v"])
    elif k == "intswissknife":
        b = "NIntSwissKnife %s %s" % (c_knife(n["knife"], False), gexpr(n["f"]))
    elif k == "swissknife":
        b = "NSwissKnife %s %s" % (c_knife(n["knife"], True), gexpr(n["f"]))
    elif k == "intconverter":
        b = "NIntConverter %s %s %s %s" % (c_knife(n["knife"], False), gexpr(n["fto"]), gexpr(n["ffrom"]), c_nat(n["p"]))
    elif k == "converter":
        b = "NConverter %s %s %s %s" % (c_knife(n["knife"], True), gexpr(n["fto"]), gexpr(n["ffrom"]), c_nat(n["p"]))
    elif k == "port":
        b = "NPort false"
    else:
        b = "NOther"
    return "{| nd_acc := %d; nd_body := %s |}" % (ACC[n.get("imposed", "RW")], b)


def c_val(v):
    if v[0] == "i":
        return "VI %s" % zlit(v[1])
    if v[0] == "f":
        return "VF %d" % v[1]
    return "VS %s" % zl(v[1])


OPQ = {"v": "QIntValue", "mn": "QIntMin", "mx": "QIntMax", "inc": "QIntInc", "fv": "QFltValue", "fmn": "QFltMin",
       "fmx": "QFltMax", "finc": "QFltInc", "bv": "QBoolValue", "cv": "QEnumValue", "ce": "QEnumEntry",
       "sv": "QStrValue", "sml": "QStrMaxLen", "ex": "QCmdExec", "dn": "QCmdDone", "ra": "QRegAddr", "rl": "QRegLen",
       "ir": "QReadable"}


def c_op(o):
    k = o[0]
    if k == "rej":
        return "OReject %d" % o[1]
    n = c_nat(o[1])
    if k in OPQ:
        return "OReq (%s %s)" % (OPQ[k], n)
    if k == "s":
        return "OReq (QIntSet %s %s)" % (n, zlit(o[2]))
    if k == "fs":
        return "OReq (QFltSet %s %d)" % (n, o[2])
    if k == "bs":
        return "OReq (QBoolSet %s %s)" % (n, "true" if o[2] else "false")
    if k == "sev":
        return "OReq (QEnumSet %s %s)" % (n, zlit(o[2]))
    if k == "ss":
        return "OReq (QStrSet %s %s)" % (n, zl(o[2]))
    if k == "rr":
        return "OReq (QRegRead %s %d)" % (n, o[2])
    if k == "rw":
        return "OReq (QRegWrite %s %s)" % (n, zl(o[2]))
    raise ValueError(k)


def r_op(o):
    k = o[0]
    if k == "rej":
        return "rej:%d" % o[1]
    nm = name(o[1])
    if k in OPQ:
        return "%s:%s" % (k, nm)
    if k in ("s", "fs", "sev", "rr"):
        return "%s:%s:%d" % (k, nm, o[2])
    if k == "bs":
        return "bs:%s:%d" % (nm, 1 if o[2] else 0)
    if k in ("ss", "rw"):
        return "%s:%s:%s" % (k, nm, bytes(o[2]).hex())
    raise ValueError(k)


def model_term(g):
    return "run_graph (flocq_ops [] []) [%s] [%s] %d %s [%s]" % (
        ";\n  ".join(c_node(g, i) for i in range(len(g["nodes"]))),
        ";".join(c_val(v) for v in g["vals0"]), g["base"], zl(g["image"]), ";".join(c_op(o) for o in g["ops"]))


def rust_line(g):
    return "g 1 %s %d %s %s" % (xhex(render_xml(g).encode()), g["base"], xhex(g["image"]),
                                " ".join(r_op(o) for o in g["ops"]))


# ------------------------------------------------------------------ generation --
class Builder:
    def __init__(self, rng, float_ok=True, bad_refs=True):
        self.rng = rng
        self.nodes = []
        self.vals = []
        self.float_ok = float_ok
        self.bad_refs = bad_refs

    # value slots
    def slot(self, v):
        self.vals.append(v)
        return len(self.vals) - 1

    def add(self, n):
        self.nodes.append(n)
        return len(self.nodes) - 1

    def of_kinds(self, kinds):
        return [i for i, n in enumerate(self.nodes) if n["kind"] in kinds]

    def pick(self, kinds):
        """an earlier node of one of the kinds; sometimes a node of any kind or a dangling reference"""
        r = self.rng
        if self.bad_refs and self.nodes and r.chance(1, 40):
            return r.below(len(self.nodes))
        if self.bad_refs and r.chance(1, 120):
            return DANGLING
        c = self.of_kinds(kinds)
        if not c:
            return None
        return r.choice(c)

    def pick_intlike(self):
        r = self.rng
        if r.chance(3, 4):
            return self.pick(INT_KINDS)
        return self.pick(INT_KINDS + FLT_KINDS + ("enumeration",))

    def small_int(self):
        r = self.rng
        return r.choice([0, 1, 2, 3, 4, 5, 7, 8, 16, 100, 255, 256, -1, -2, -128, 1000, 65535, 65536,
                         (1 << 31) - 1, 1 << 31, -(1 << 31), (1 << 32) + 5, r.range(-50, 50), r.range(0, 300)])

    def some_float(self):
        return f2b(self.rng.choice([0.0, 1.0, -1.0, 0.5, 1.5, -2.5, 2.0, 3.25, 100.0, 0.1, 7.0, 255.0, 1e6, -0.0]))

    # ---- formulas
    def tree(self, depth, leaves):
        """leaves: list of (name, type) with type 'i' | 'f'; returns (tree, type)"""
        r = self.rng
        if depth == 0 or r.chance(1, 4):
            c = r.below(10)
            if c < 5 and leaves:
                n, t = r.choice(leaves)
                return ("id", n), t
            if c < 8 or not self.float_ok:
                return ("int", r.choice([0, 1, 2, 3, 4, 5, 8, 10, 16, 255, 256, 1000, r.below(70)]), "dec"), "i"
            return ("flt", r.choice(["0.5", "1.5", "2.0", "3.25", "100.0", "0.1", "0.0"])), "f"
        c = r.below(20)
        if c < 11:
            a, ta = self.tree(depth - 1, leaves)
            b, tb = self.tree(depth - 1, leaves)
            both = ta == "i" and tb == "i"
            op = r.choice(["+", "-", "*", "+", "-", "*", "/", "%", "<<", ">>", "&", "|", "^", "=", "<>", "<", "<=", ">",
                           ">=", "&&", "||"])
            if op == "%" and not both:
                op = "+"
            if op == "/" and not self.float_ok:
                op = "-"
            if op in ("+", "-", "*", "%"):
                t = "i" if both else "f"
            elif op == "/":
                t = "f"
            else:
                t = "i"
            return ("bin", op, a, b), t
        if c < 15:
            a, ta = self.tree(depth - 1, leaves)
            op = r.choice(["NEG", "~", "ABS", "SGN", "NEG"] + (["TRUNC", "FLOOR", "CEIL", "ROUND", "SQRT"] if self.float_ok else []))
            if op in ("NEG", "~"):
                form = "prefix" if r.chance(2, 3) else "func"
                if op == "~":
                    form = "prefix"
                return ("un", op, a, form), ("i" if op == "~" else ta)
            if op in ("ABS", "SGN"):
                return ("un", op, a, "func"), ta
            return ("un", op, a, "func"), "f"
        cnd, _ = self.tree(depth - 1, leaves)
        a, ta = self.tree(depth - 1, leaves)
        b, tb = self.tree(depth - 1, leaves)
        return ("if", cnd, a, b), (ta if ta == tb else "f")

    def var_type(self, j, acc):
        if j >= len(self.nodes):
            return "i"
        k = self.nodes[j]["kind"]
        if acc.startswith(".Enum"):
            return "i"
        if k in FLT_KINDS or (k == "enumeration" and acc in ("", ".Value")):
            return "f"
        return "i"

    def knife(self, is_float, extra_leaves=()):
        r = self.rng
        vars_, leaves = [], list(extra_leaves)
        for vi in range(r.below(4)):
            j = self.pick(INT_KINDS + FLT_KINDS + ("enumeration", "boolean") if self.float_ok
                          else INT_KINDS + ("boolean",))
            if j is None:
                continue
            nm = "V" + "abcd"[vi]
            acc = ""
            c = r.below(12)
            kind = self.nodes[j]["kind"] if j < len(self.nodes) else None
            if c == 0:
                acc = ".Value"
            elif c == 1:
                acc = ".Min"
            elif c == 2:
                acc = ".Max"
            elif c == 3:
                acc = ".Inc"
            elif c == 4 and kind == "enumeration":
                acc = ".Enum." + r.choice(self.nodes[j]["ents"])[0]
            elif c == 5 and r.chance(1, 4):
                acc = r.choice([".Foo", ".Enum.Nope", ".Value.x", ".Enum"])
            if r.chance(1, 40):
                nm = r.choice(["TO", "FROM"])
            vars_.append((nm + acc, j))
            leaves = [x for x in leaves if x[0] != nm + acc]
            leaves.append((nm + acc, self.var_type(j, acc)))
        consts = []
        for ci in range(r.below(3)):
            nm = "C%d" % ci
            if r.chance(1, 10) and vars_:
                nm = vars_[0][0]                     # a constant shadowing a variable
            leaves = [x for x in leaves if x[0] != nm]          # the newer binding decides the type
            if is_float:
                consts.append((nm, self.some_float()))
                leaves.append((nm, "f"))
            else:
                consts.append((nm, r.choice([0, 1, 2, 4, 8, 10, 256, -1, 1000, BASE, BASE + 16])))
                leaves.append((nm, "i"))
        exprs = []
        for ei in range(r.below(3)):
            nm = "X%d" % ei
            lv = leaves
            if r.chance(1, 12) and consts:
                nm = consts[0][0]                    # an expression shadowing a constant (and not using the name itself)
                lv = [x for x in leaves if x[0] != nm]
            t, ty = self.tree(2, lv)
            leaves = [x for x in leaves if x[0] != nm]
            exprs.append((nm, t))
            leaves.append((nm, ty))
        if r.chance(1, 60):
            leaves.append(("Unknown", "i"))
        return dict(vars=vars_, consts=consts, exprs=exprs), leaves

    # ---- sources
    def src_int(self, p_node=2, den=5):
        r = self.rng
        if r.chance(p_node, den):
            j = self.pick_intlike()
            if j is not None:
                return ("node", j)
        return ("imm", self.slot(("i", self.small_int())))

    def src_flt(self):
        r = self.rng
        if r.chance(2, 5):
            j = self.pick(FLT_KINDS + INT_KINDS + ("enumeration",)) if r.chance(1, 3) else self.pick(FLT_KINDS)
            if j is not None:
                return ("node", j)
        return ("imm", self.slot(("f", self.some_float())))

    def isrc_small(self, lo, hi):
        """ImmOrPNode<i64> with a small value: an immediate, or an earlier Integer with such a value"""
        r = self.rng
        if r.chance(1, 3):
            c = [i for i, n in enumerate(self.nodes) if n["kind"] == "integer" and n["vk"][0] == "value"
                 and lo <= self.vals[n["vk"][1]][1] <= hi]
            if c:
                return ("node", r.choice(c))
            if r.chance(1, 2):
                j = self.pick_intlike()
                if j is not None:
                    return ("node", j)
        return ("imm", r.range(lo, hi))

    def vk(self, is_float):
        r = self.rng
        kinds_target = (FLT_KINDS if is_float else INT_KINDS)
        c = r.below(10)
        mk_src = self.src_flt if is_float else self.src_int

        def target():
            if r.chance(3, 4):
                return self.pick(kinds_target)
            return self.pick(INT_KINDS + FLT_KINDS + ("enumeration",))

        if c < 3:
            return ("value", self.slot(("f", self.some_float()) if is_float else ("i", self.small_int())))
        if c < 7:
            p = target()
            if p is not None:
                before, after = [], []
                for _ in range(r.choice([0, 0, 0, 1, 1, 2, 3])):
                    t = target()
                    if t is not None:
                        (before if r.chance(1, 3) else after).append(t)
                return ("pvalue", p, before, after)
        idx = self.pick(INT_KINDS) if r.chance(9, 10) else self.pick(FLT_KINDS + ("enumeration",))
        if idx is None:
            return ("value", self.slot(("f", self.some_float()) if is_float else ("i", self.small_int())))
        ents = []
        for _ in range(r.below(4)):
            ents.append((r.choice([0, 1, 2, 3, 5, -1, 255]), mk_src()))
        return ("pindex", idx, ents, mk_src())

    # ---- registers
    def reg(self, length_choices, zone=None, allow_dynamic=True):
        r = self.rng
        addrs = []
        L = r.choice(length_choices)
        lo, hi = (0, STR_ZONE - 8) if zone is None else zone
        static = BASE + r.range(lo, max(lo, hi))
        c = r.below(10) if allow_dynamic else 0
        if c < 5:
            addrs.append(("addr", ("imm", static)))
        elif c == 5:
            # pAddress -> an Integer holding an address
            j = self.add(dict(kind="integer", vk=("value", self.slot(("i", static))), mn=None, mx=None, inc=None))
            self.finish_integer(j)
            addrs.append(("addr", ("node", j)))
        elif c == 6:
            addrs.append(("addr", ("imm", BASE + r.range(0, 16))))
            off = None if r.chance(1, 5) else self.isrc_small(1, 16)
            idx = self.pick_intlike()
            if idx is not None:
                addrs.append(("index", off, idx))
        elif c == 7:
            kn, leaves = self.knife(False)
            if r.chance(2, 3):
                t = ("bin", "+", ("int", BASE, "dec"), ("bin", "*", self.tree(1, leaves)[0], ("int", r.choice([1, 2, 4, 8]), "dec")))
            else:
                t = self.tree(2, leaves)[0]
            j = self.add(dict(kind="intswissknife", knife=kn, f=t, embedded=True))
            addrs.append(("knife", j))
        elif c == 8:
            # several elements
            addrs.append(("addr", ("imm", BASE)))
            addrs.append(("addr", ("imm", r.range(0, 24))))
            idx = self.pick_intlike()
            if idx is not None:
                addrs.append(("index", self.isrc_small(1, 8), idx))
            if r.chance(1, 2):
                j = self.pick_intlike()
                if j is not None:
                    addrs.append(("addr", ("node", j)))
        else:
            pass                                         # no address element at all: address 0
        if r.chance(1, 6):
            r.shuffle(addrs)
        length = ("imm", L)
        if r.chance(1, 5):
            j = self.add(dict(kind="integer", vk=("value", self.slot(("i", L))), mn=None, mx=None, inc=None))
            self.finish_integer(j)
            length = ("node", j)
        elif r.chance(1, 25):
            j = self.pick_intlike()
            if j is not None:
                length = ("node", j)
        return dict(addrs=addrs, length=length, acc=r.choice(["RW", "RW", "RW", "RW", "RO", "WO"]), port=None), L

    def finish_integer(self, j):
        n = self.nodes[j]
        n["mn_m"] = n["mn"] if n["mn"] is not None else ("imm", self.slot(("i", -(1 << 63))))
        n["mx_m"] = n["mx"] if n["mx"] is not None else ("imm", self.slot(("i", (1 << 63) - 1)))
        n["inc_m"] = n["inc"] if n["inc"] is not None else ("imm", 1)

    def imposed(self, n):
        if self.rng.chance(1, 15):
            n["imposed"] = self.rng.choice(["RO", "WO"])
        return n

    # ---- one node of a kind
    def make(self, kind):
        r = self.rng
        if kind == "integer":
            vk = self.vk(False)
            n = dict(kind=kind, vk=vk,
                     mn=self.src_int(1, 4) if r.chance(1, 2) else None,
                     mx=self.src_int(1, 4) if r.chance(1, 2) else None,
                     inc=(("imm", r.choice([1, 2, 4, 8])) if r.chance(2, 3) else
                          (lambda j: ("node", j) if j is not None else None)(self.pick_intlike())) if r.chance(1, 2) else None)
            j = self.add(self.imposed(n))
            self.finish_integer(j)
            return j
        if kind == "float":
            vk = self.vk(True)
            n = dict(kind=kind, vk=vk,
                     mn=self.src_flt() if r.chance(1, 2) else None,
                     mx=self.src_flt() if r.chance(1, 2) else None,
                     inc=None)
            if r.chance(1, 2):
                if r.chance(2, 3):
                    n["inc"] = ("imm", f2b(r.choice([0.5, 1.0, 0.25])))
                else:
                    jj = self.pick(FLT_KINDS + INT_KINDS)
                    n["inc"] = ("node", jj) if jj is not None else None
            n["mn_m"] = n["mn"] if n["mn"] is not None else ("imm", self.slot(("f", 0xFFEFFFFFFFFFFFFF)))
            n["mx_m"] = n["mx"] if n["mx"] is not None else ("imm", self.slot(("f", 0x7FEFFFFFFFFFFFFF)))
            return self.add(self.imposed(n))
        if kind == "intreg":
            rg, L = self.reg([1, 2, 4, 8, 1, 2, 4, 8, 4, 4, 3, 0])
            return self.add(self.imposed(dict(kind=kind, reg=rg, sign=r.below(2), endian=r.below(2))))
        if kind == "maskedintreg":
            rg, L = self.reg([1, 2, 4, 8, 4, 2])
            nb = 8 * L
            lo = r.below(nb)
            hi = r.range(lo, nb - 1)
            if hi - lo == 63:
                hi -= 1
            en = r.below(2)
            lsb, msb = (nb - 1 - lo, nb - 1 - hi) if en else (lo, hi)
            bit = lsb == msb and r.chance(1, 2)
            return self.add(self.imposed(dict(kind=kind, reg=rg, sign=r.below(2), endian=en, lsb=lsb, msb=msb, bit=bit)))
        if kind == "floatreg":
            rg, L = self.reg([4, 8, 4, 8, 8, 2])
            return self.add(self.imposed(dict(kind=kind, reg=rg, endian=r.below(2))))
        if kind == "stringreg":
            rg, L = self.reg([4, 8, 6, 1, 16], zone=(STR_ZONE, IMG - 16), allow_dynamic=False)
            return self.add(self.imposed(dict(kind=kind, reg=rg)))
        if kind == "register":
            rg, L = self.reg([1, 2, 3, 4, 8, 5])
            return self.add(self.imposed(dict(kind=kind, reg=rg)))
        if kind == "boolean":
            on, off = 1, 0
            on_e = r.chance(1, 2)
            off_e = r.chance(1, 2)
            if on_e:
                on = r.choice([1, 2, 5, -1, 255, 0])
            if off_e:
                off = r.choice([0, 0, 1, 3, 5, -1])
            init = r.chance(1, 2)
            v = None
            if r.chance(3, 5):
                j = self.pick_intlike()
                if j is not None:
                    v = ("node", j)
            if v is None:
                v = ("imm", self.slot(("i", on if init else off)))
            return self.add(self.imposed(dict(kind=kind, v=v, on=on, off=off, on_explicit=on_e, off_explicit=off_e, init=init)))
        if kind == "command":
            return self.add(self.imposed(dict(kind=kind, v=self.src_int(3, 4), cv=self.src_int(1, 4))))
        if kind == "enumeration":
            ents = []
            syms = ["Off", "On", "Mode_A", "X.Y", "Auto", "Mono8"]
            r.shuffle(syms)
            for e in range(r.range(1, 4)):
                val = r.choice([0, 1, 2, 3, 5, 16, -1, 255, e])
                num = f2b(r.choice([0.5, 1.5, 2.0, -3.25])) if self.float_ok and r.chance(1, 3) else None
                ents.append((syms[e], val, num))
            return self.add(self.imposed(dict(kind=kind, ents=ents, v=self.src_int(3, 5))))
        if kind == "string":
            v = None
            if r.chance(1, 2):
                j = self.pick(STR_KINDS)
                if j is not None:
                    v = ("node", j)
            if v is None:
                v = ("imm", self.slot(("s", r.choice([b"abc", b"x", b"Hello World", b"A1"]))))
            return self.add(self.imposed(dict(kind=kind, v=v)))
        if kind in ("intswissknife", "swissknife"):
            kn, leaves = self.knife(kind == "swissknife")
            return self.add(self.imposed(dict(kind=kind, knife=kn, f=self.tree(3, leaves)[0])))
        if kind in ("intconverter", "converter"):
            p = (self.pick(INT_KINDS + FLT_KINDS + ("enumeration", "boolean")) if self.float_ok
                 else self.pick(INT_KINDS + ("boolean",)))
            if p is None:
                return None
            isf = kind == "converter"
            tot = self.var_type(p, "")
            kn, leaves = self.knife(isf)
            bound = {x[0] for x in leaves}                      # a variable / constant named TO or FROM wins
            fto = self.tree(2, leaves + ([("FROM", "f" if isf else "i")] * 3 if "FROM" not in bound else []))[0]
            ffrom = self.tree(2, leaves + ([("TO", tot)] * 3 if "TO" not in bound else []))[0]
            if r.chance(1, 3):
                c = r.choice([1, 2, 4, 10])
                fto = ("bin", "*", ("id", "FROM"), ("int", c, "dec"))
                ffrom = ("bin", "/", ("id", "TO"), ("int", c, "dec")) if self.float_ok else ("bin", "-", ("id", "TO"), ("int", c, "dec"))
            return self.add(self.imposed(dict(kind=kind, knife=kn, fto=fto, ffrom=ffrom, p=p)))
        if kind == "category":
            return self.add(dict(kind=kind, features=[j for j in range(len(self.nodes)) if r.chance(1, 3)
                                                        and not self.nodes[j].get("embedded")]))
        raise ValueError(kind)


CORE = ["integer", "intreg", "maskedintreg", "boolean", "enumeration", "command", "intswissknife", "intconverter"]
WIDE = CORE + ["float", "floatreg", "swissknife", "converter", "string", "stringreg", "register", "category"]


def ops_for(b, r, j):
    """a plausible op on node j"""
    n = b.nodes[j]
    k = n["kind"]
    iv = [0, 1, 2, 3, 5, -1, 255, 256, 1000, -128, 127, 128, 65535, 1 << 31, (1 << 63) - 1, -(1 << 63), r.range(-40, 300)]
    if k in INT_KINDS:
        c = r.below(10)
        if c < 4:
            return ("v", j)
        if c < 7:
            return ("s", j, r.choice(iv))
        return (r.choice(["mn", "mx", "inc"]), j)
    if k in FLT_KINDS:
        c = r.below(10)
        if c < 4:
            return ("fv", j)
        if c < 7:
            return ("fs", j, f2b(r.choice([0.0, 1.0, -1.5, 2.5, 100.25, 0.1, 1e10, -7.0, 3.0, 65536.0, 1e300, float("inf"), float("nan"), 9.3e18])))
        return (r.choice(["fmn", "fmx", "finc"]), j)
    if k == "boolean":
        return ("bv", j) if r.chance(1, 2) else ("bs", j, r.chance(1, 2))
    if k == "enumeration":
        c = r.below(6)
        if c < 2:
            return ("ce", j)
        if c < 3:
            return ("cv", j)
        return ("sev", j, r.choice([e[1] for e in n["ents"]] * 3 + [7, 0, 1]))
    if k == "command":
        return ("ex", j) if r.chance(1, 2) else ("dn", j)
    if k in STR_KINDS:
        c = r.below(5)
        if c < 2:
            return ("sv", j)
        if c < 4:
            return ("ss", j, r.choice([b"ab", b"Hello", b"0123456789abcdefXYZ", b"q", b"GenICam", b"caf\xc3\xa9"]))
        return ("sml", j)
    return (r.choice(ALL_OPS), j)


def reg_op(b, r, j):
    n = b.nodes[j]
    L = n["reg"]["length"][1] if n["reg"]["length"][0] == "imm" else 4
    c = r.below(6)
    if c < 2:
        return ("rr", j, L if r.chance(5, 6) else r.choice([0, 1, L + 1, 2]))
    if c < 4:
        ln = L if r.chance(5, 6) else r.choice([1, L + 1, 3])
        return ("rw", j, bytes(r.bytes(max(0, min(ln, 20)))))
    return (r.choice(["ra", "rl"]), j)


ALL_OPS = ["v", "mn", "mx", "inc", "fv", "fmn", "fmx", "finc", "bv", "cv", "ce", "sv", "sml", "ex", "dn", "ra", "rl"]


def gen_graph(rng, kinds=WIDE, max_nodes=13, max_ops=25, float_ok=True, bad_refs=True, readable_ops=False):
    b = Builder(rng, float_ok=float_ok, bad_refs=bad_refs)
    r = rng
    # a few leaves first so that references have targets
    lead = ["intreg", "integer"] + (["float"] if "float" in kinds and r.chance(1, 2) else [])
    for k in lead:
        b.make(k)
    target = r.range(3, max_nodes)
    guard = 0
    while len(b.nodes) < target and guard < 60:
        guard += 1
        k = r.choice(kinds)
        if len(b.nodes) + 3 > max_nodes and k in REG_KINDS:
            continue
        b.make(k)
    port = b.add(dict(kind="port"))
    for n in b.nodes:
        if "reg" in n:
            n["reg"]["port"] = port
    # device image
    image = bytearray(r.bytes(IMG))
    for i in range(STR_ZONE, IMG):
        image[i] = r.choice([0, 0, 65, 66, 67, 97, 98, 48, 49, 32, 122])
    if r.chance(1, 3):
        for i in range(0, STR_ZONE):
            if r.chance(1, 2):
                image[i] = r.choice([0, 1, 2, 3, 255, 128, 127])
    # operations
    rej = r.chance(1, 4)
    ops = []
    nops = r.range(4, max_ops)
    names = list(range(len(b.nodes)))
    while len(ops) < nops:
        c = r.below(100)
        j = r.choice(names)
        if c < 78:
            n = b.nodes[j]
            if "reg" in n and r.chance(1, 3):
                ops.append(reg_op(b, r, j))
            else:
                ops.append(ops_for(b, r, j))
        elif c < 90:
            # invalid target: an op of another interface, or a node that does not exist
            jj = j if r.chance(4, 5) else r.choice([DANGLING, len(b.nodes) + 3])
            k = r.choice(ALL_OPS + ["s", "fs", "bs", "sev", "ss", "rr", "rw"])
            if k in ALL_OPS:
                ops.append((k, jj))
            elif k == "s":
                ops.append(("s", jj, r.choice([0, 1, 5])))
            elif k == "fs":
                ops.append(("fs", jj, f2b(1.5)))
            elif k == "bs":
                ops.append(("bs", jj, True))
            elif k == "sev":
                ops.append(("sev", jj, 1))
            elif k == "ss":
                ops.append(("ss", jj, b"zz"))
            elif k == "rr":
                ops.append(("rr", jj, 4))
            else:
                ops.append(("rw", jj, bytes(r.bytes(4))))
        elif c < 92 and rej:
            ops.append(("rej", r.below(3)))
        elif readable_ops:
            ops.append(("ir", j))
    return dict(nodes=b.nodes, vals0=list(b.vals), base=BASE, image=bytes(image), ops=ops)


# ------------------------------------------------------------------ pValue chains --
def gen_chain(rng):
    """Integer ->pValue ... ->pValue terminal, every level with pValueCopy targets (value slots or registers
    over disjoint ranges); set at some level, read everywhere."""
    b = Builder(rng, float_ok=False, bad_refs=False)
    r = rng
    used = 0

    def fresh_reg(L):
        nonlocal used
        a = BASE + used
        used += L
        rg = dict(addrs=[("addr", ("imm", a))], length=("imm", L), acc="RW", port=None)
        return b.add(dict(kind="intreg", reg=rg, sign=r.below(2), endian=r.below(2)))

    def fresh_int():
        j = b.add(dict(kind="integer", vk=("value", b.slot(("i", r.range(-5, 5)))), mn=None, mx=None, inc=None))
        b.finish_integer(j)
        return j

    L = r.choice([1, 2, 4, 8])
    term = fresh_reg(L) if r.chance(3, 4) else fresh_int()
    chain = [term]
    copies_all = []
    for _ in range(r.range(1, 8)):
        before, after = [], []
        for _c in range(r.choice([0, 0, 1, 1, 2, 3])):
            if used + 8 < STR_ZONE and r.chance(1, 3):
                t = fresh_reg(r.choice([1, 2, 4, 8]))
            else:
                t = fresh_int()
            (before if r.chance(1, 3) else after).append(t)
            copies_all.append(t)
        j = b.add(dict(kind="integer", vk=("pvalue", chain[-1], before, after), mn=None, mx=None, inc=None))
        b.finish_integer(j)
        chain.append(j)
        if len(b.nodes) > 20:
            break
    extra = []
    if r.chance(1, 2):
        extra.append(b.add(dict(kind="boolean", v=("node", chain[-1]), on=1, off=0, on_explicit=False, off_explicit=False, init=False)))
    if r.chance(1, 2):
        extra.append(b.add(dict(kind="command", v=("node", chain[-1]), cv=("imm", b.slot(("i", r.choice([1, 7, 100])))))))
    port = b.add(dict(kind="port"))
    for n in b.nodes:
        if "reg" in n:
            n["reg"]["port"] = port
    tn = b.nodes[term]
    if tn["kind"] == "intreg":
        lo, hi = (-(1 << (8 * L - 1)), (1 << (8 * L - 1)) - 1) if tn["sign"] else (0, min((1 << (8 * L)) - 1, (1 << 63) - 1))
    else:
        lo, hi = -(1 << 63), (1 << 63) - 1
    ops = []
    for _ in range(r.range(1, 3)):
        v = r.choice([lo, hi, 0, 1, r.range(lo, hi), r.range(max(lo, -100), min(hi, 100))])
        if r.chance(1, 6):
            v = r.choice([hi + 1, lo - 1]) if -(1 << 63) <= lo - 1 and hi + 1 < (1 << 63) else v
        ops.append(("s", r.choice(chain[1:]), v))
        for j in chain:
            if r.chance(2, 3):
                ops.append(("v", j))
        for j in copies_all:
            if r.chance(1, 2):
                ops.append(("v", j))
        for j in extra:
            ops.append(r.choice([("bv", j), ("bs", j, True), ("dn", j), ("ex", j), ("bs", j, False)])
                       if b.nodes[j]["kind"] == "boolean" else r.choice([("ex", j), ("dn", j)]))
            ops.append(("v", chain[0]))
    return dict(nodes=b.nodes, vals0=list(b.vals), base=BASE, image=bytes(r.bytes(IMG)), ops=ops[:40])


# ------------------------------------------------------------------ boundary graphs --
def boundary_graphs():
    gs = []

    def fin(b, ops, image=None):
        port = b.add(dict(kind="port"))
        for n in b.nodes:
            if "reg" in n:
                n["reg"]["port"] = port
        gs.append(dict(nodes=b.nodes, vals0=list(b.vals), base=BASE, image=image or bytes(range(IMG)), ops=ops))

    def integer(b, vk, mn=None, mx=None, inc=None):
        j = b.add(dict(kind="integer", vk=vk, mn=mn, mx=mx, inc=inc))
        b.finish_integer(j)
        return j

    def intreg(b, addrs, L=4, sign=0, endian=0, length=None):
        return b.add(dict(kind="intreg", reg=dict(addrs=addrs, length=length or ("imm", L), acc="RW", port=None),
                          sign=sign, endian=endian))

    rng = Rng(0)
    # 1: pValue with copies before and after, chain of two levels, terminal register
    b = Builder(rng)
    t = intreg(b, [("addr", ("imm", BASE + 4))], 2, sign=1, endian=1)
    c1 = integer(b, ("value", b.slot(("i", 7))))
    c2 = intreg(b, [("addr", ("imm", BASE + 8))], 4)
    l1 = integer(b, ("pvalue", t, [c1], [c2]))
    c3 = integer(b, ("value", b.slot(("i", 0))))
    l2 = integer(b, ("pvalue", l1, [], [c3]))
    fin(b, [("v", l2), ("s", l2, -2), ("v", l2), ("v", l1), ("v", t), ("v", c1), ("v", c2), ("v", c3), ("s", l2, 40000),
            ("v", t), ("v", c2), ("s", l1, 5), ("v", c3), ("v", l2)])
    # 2: pIndex: duplicate index (first wins), node entries, default
    b = Builder(rng)
    sel = integer(b, ("value", b.slot(("i", 1))))
    a = integer(b, ("value", b.slot(("i", 100))))
    d = integer(b, ("value", b.slot(("i", 900))))
    x = integer(b, ("pindex", sel, [(0, ("imm", b.slot(("i", 10)))), (1, ("node", a)), (1, ("imm", b.slot(("i", 11)))),
                                  (-1, ("imm", b.slot(("i", 12))))], ("node", d)))
    ops = []
    for i in (1, 0, -1, 2, 1):
        ops += [("s", sel, i), ("v", x), ("s", x, 1000 + i), ("v", x), ("v", a), ("v", d)]
    fin(b, ops)
    # 3: Boolean with explicit on/off, raw value that is neither, over a register
    b = Builder(rng)
    rg = intreg(b, [("addr", ("imm", BASE))], 1)
    bo = b.add(dict(kind="boolean", v=("node", rg), on=5, off=2, on_explicit=True, off_explicit=True, init=False))
    bi = b.add(dict(kind="boolean", v=("imm", b.slot(("i", 0))), on=1, off=0, on_explicit=False, off_explicit=False, init=False))
    fin(b, [("bv", bo), ("bs", bo, True), ("bv", bo), ("v", rg), ("bs", bo, False), ("bv", bo), ("v", rg), ("s", rg, 9),
            ("bv", bo), ("bv", bi), ("bs", bi, True), ("bv", bi), ("bs", bi, False), ("bv", bi)])
    # 4: Enumeration: declared / undeclared values, duplicate values, through an Integer
    b = Builder(rng)
    rg = intreg(b, [("addr", ("imm", BASE + 16))], 2)
    en = b.add(dict(kind="enumeration", ents=[("Off", 0, None), ("On", 1, None), ("Auto", 1, f2b(2.5)), ("Hi", 300, None)],
                    v=("node", rg)))
    iv = integer(b, ("pvalue", en, [], []))
    fin(b, [("ce", en), ("cv", en), ("sev", en, 1), ("ce", en), ("sev", en, 7), ("cv", en), ("sev", en, 300), ("ce", en),
            ("v", rg), ("s", iv, 0), ("ce", en), ("s", iv, 2), ("v", iv), ("s", rg, 77), ("ce", en), ("cv", en), ("v", iv)])
    # 5: Command over value slot and register, immediate and referenced command value
    b = Builder(rng)
    rg = intreg(b, [("addr", ("imm", BASE + 20))], 4)
    cvn = integer(b, ("value", b.slot(("i", 3))))
    c1 = b.add(dict(kind="command", v=("node", rg), cv=("node", cvn)))
    c2 = b.add(dict(kind="command", v=("imm", b.slot(("i", 0))), cv=("imm", b.slot(("i", 1)))))
    fin(b, [("dn", c1), ("ex", c1), ("dn", c1), ("v", rg), ("s", rg, 0), ("dn", c1), ("s", cvn, 0), ("dn", c1), ("ex", c2),
            ("dn", c2)])
    # 6: address = Address + pAddress + pIndex*Offset + pIndex*pOffset + pIndex + embedded knife; pLength
    b = Builder(rng)
    pa = integer(b, ("value", b.slot(("i", 8))))
    ix = integer(b, ("value", b.slot(("i", 2))))
    po = integer(b, ("value", b.slot(("i", 3))))
    ln = integer(b, ("value", b.slot(("i", 2))))
    kn = b.add(dict(kind="intswissknife", embedded=True, knife=dict(vars=[("Va", ix)], consts=[("C0", 4)], exprs=[]),
                    f=("bin", "*", ("id", "Va"), ("id", "C0"))))
    rg = intreg(b, [("addr", ("imm", BASE)), ("addr", ("node", pa)), ("index", ("imm", 4), ix), ("index", ("node", po), ix),
                    ("index", None, ix), ("knife", kn)], length=("node", ln))
    fin(b, [("ra", rg), ("rl", rg), ("v", rg), ("s", ix, 1), ("ra", rg), ("v", rg), ("s", rg, 0xBEEF), ("rr", rg, 2),
            ("s", ln, 4), ("rl", rg), ("v", rg), ("s", ix, 1000), ("ra", rg), ("v", rg), ("s", ln, 3), ("v", rg), ("s", rg, 1)])
    # 7: IntConverter / IntSwissKnife with accessors, shadowing of TO by a variable, constant over variable
    b = Builder(rng)
    tg = integer(b, ("value", b.slot(("i", 10))), mn=("imm", b.slot(("i", -5))), mx=("imm", b.slot(("i", 500))), inc=("imm", 4))
    en = b.add(dict(kind="enumeration", ents=[("A", 3, None), ("B.C", 9, f2b(1.5))], v=("imm", b.slot(("i", 9)))))
    sk = b.add(dict(kind="intswissknife", knife=dict(vars=[("Va.Min", tg), ("Vb.Max", tg), ("Vc.Inc", tg), ("Vd.Enum.B.C", en),
                                                            ("Ve", en), ("Vf.Value", tg)],
                                                     consts=[("C0", 2)], exprs=[("X0", ("bin", "+", ("id", "Va.Min"), ("id", "C0")))]),
                    f=("bin", "+", ("bin", "+", ("id", "X0"), ("id", "Vb.Max")),
                       ("bin", "+", ("bin", "*", ("id", "Vc.Inc"), ("id", "Vd.Enum.B.C")), ("bin", "+", ("id", "Ve"), ("id", "Vf.Value"))))))
    cv = b.add(dict(kind="intconverter", knife=dict(vars=[("Va", tg)], consts=[("C0", 3)], exprs=[]),
                    fto=("bin", "*", ("id", "FROM"), ("id", "C0")), ffrom=("bin", "-", ("id", "TO"), ("id", "C0")), p=tg))
    sh = b.add(dict(kind="intconverter", knife=dict(vars=[("TO", en), ("FROM", tg)], consts=[("Va", 1)], exprs=[]),
                    fto=("bin", "+", ("id", "FROM"), ("int", 1, "dec")), ffrom=("bin", "+", ("id", "TO"), ("int", 0, "dec")), p=tg))
    # name resolution: Expression over Constant over (later) pVariable
    two = integer(b, ("value", b.slot(("i", 2))))
    sk2 = b.add(dict(kind="intswissknife",
                     knife=dict(vars=[("Va", tg), ("Vz", tg), ("Vz", two)], consts=[("Va", 77), ("C1", 5)],
                                exprs=[("C1", ("bin", "+", ("id", "Va"), ("int", 1, "dec")))]),
                     f=("bin", "+", ("bin", "*", ("id", "Va"), ("int", 1000, "dec")),
                        ("bin", "+", ("id", "C1"), ("bin", "*", ("id", "Vz"), ("int", 100000, "dec"))))))
    fin(b, [("v", sk), ("v", cv), ("s", cv, 7), ("v", tg), ("v", cv), ("v", sh), ("s", sh, 50), ("v", tg), ("mn", sk), ("mx", cv),
            ("inc", sk), ("s", sk, 1), ("v", sk2)])
    # 8: is_done through readability: write-only register below swiss knives / a float chain
    b = Builder(rng)
    wo = b.add(dict(kind="intreg", reg=dict(addrs=[("addr", ("imm", BASE + 2))], length=("imm", 1), acc="WO", port=None),
                    sign=0, endian=0))
    rw = intreg(b, [("addr", ("imm", BASE + 3))], 1)
    sk = b.add(dict(kind="swissknife", knife=dict(vars=[("Va", wo)], consts=[], exprs=[]), f=("bin", "+", ("id", "Va"), ("int", 0, "dec"))))
    isk = b.add(dict(kind="intswissknife", knife=dict(vars=[("Va", wo)], consts=[], exprs=[]), f=("id", "Va")))
    sk2 = b.add(dict(kind="swissknife", knife=dict(vars=[("Va", rw)], consts=[], exprs=[]), f=("bin", "+", ("id", "Va"), ("int", 0, "dec"))))
    fl = b.add(dict(kind="float", vk=("pvalue", sk, [], []), mn=None, mx=None, inc=None,
                    mn_m=("imm", b.slot(("f", 0xFFEFFFFFFFFFFFFF))), mx_m=("imm", b.slot(("f", 0x7FEFFFFFFFFFFFFF)))))
    # command values equal to the register contents: "done" can then only come from unreadability
    cmds = [b.add(dict(kind="command", v=("node", t), cv=("imm", b.slot(("i", c)))))
            for t, c in ((sk, 2), (isk, 2), (fl, 2), (sk2, 3), (wo, 2), (rw, 3))]
    fin(b, [("dn", c) for c in cmds] + [("s", rw, 3)] + [("dn", c) for c in cmds] + [("ex", cmds[5]), ("ex", cmds[4]), ("ex", cmds[0])])
    return gs


# ------------------------------------------------------------------ JSON --
def to_json(x):
    if isinstance(x, (bytes, bytearray)):
        return {"__b": bytes(x).hex()}
    if isinstance(x, tuple):
        return {"__t": [to_json(y) for y in x]}
    if isinstance(x, list):
        return [to_json(y) for y in x]
    if isinstance(x, dict):
        return {k: to_json(v) for k, v in x.items()}
    return x


def from_json(x):
    if isinstance(x, dict):
        if "__b" in x and len(x) == 1:
            return bytes.fromhex(x["__b"])
        if "__t" in x and len(x) == 1:
            return tuple(from_json(y) for y in x["__t"])
        return {k: from_json(v) for k, v in x.items()}
    if isinstance(x, list):
        return [from_json(y) for y in x]
    return x
