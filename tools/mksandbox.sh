#!/bin/sh
# usage: tools/mksandbox.sh <name>   -> /var/tmp/sb-<name>/{repo,verif}
# A private, relocated copy of /repo (HEAD, clean) and of /verif (working files incl. compiled .vo, own cargo
# target dir) for mutation experiments that must not disturb /repo.  In it run:
#   cd /var/tmp/sb-<name>/verif && VERIF_REPO=/var/tmp/sb-<name>/repo ./check Cxx quick
# Remove with: rm -rf /var/tmp/sb-<name>
set -e
N="$1"; [ -n "$N" ] || { echo "usage: $0 <name>"; exit 2; }
D=/var/tmp/sb-$N
rm -rf "$D"; mkdir -p "$D"
git clone -q /repo "$D/repo"
rsync -a --exclude .cache/target --exclude .cache/target-gentl --exclude .cache/cases --exclude .git --exclude replays /verif/ "$D/verif/" || [ $? -eq 24 ]
mkdir -p "$D/verif/replays"
find "$D/verif/rust" -name Cargo.toml -exec sed -i "s#\"/repo/#\"$D/repo/#g; s#/verif/rust/#$D/verif/rust/#g" {} +
rm -f "$D"/verif/rust/*/Cargo.lock
echo "$D"
