"""C08 — acknowledge and event packet decoding is total and faithful."""
from vplib import Case, Rng, standard_main, xhex

CODES = {"c08a": 801, "c08e": 802}
ACK_MAGIC = [0x55, 0x33, 0x56, 0x43]
EV_MAGIC = [0x55, 0x33, 0x56, 0x45]
GENCP = {0x0000: 0, 0x8001: 1, 0x8002: 2, 0x8003: 3, 0x8004: 4, 0x8005: 5, 0x8006: 6, 0x8007: 7, 0x800B: 8,
         0x800E: 9, 0x800F: 10, 0x8FFF: 11}
USB = {0xA001: 100, 0xA002: 101, 0xA003: 102, 0xA004: 103, 0xA005: 104}
KINDS = {0x0801: 0, 0x0803: 1, 0x0805: 4, 0x0807: 2, 0x0809: 3}


def le(v, n):
    return [(v >> (8 * i)) & 255 for i in range(n)]


def of_le(bs):
    return sum(b << (8 * i) for i, b in enumerate(bs))


def make_case(kind, toks):
    return Case(kind, toks, bytes.fromhex(toks[0][1:]))


def spec_status(code):
    ns = (code >> 13) & 3
    if ns == 0:
        return GENCP.get(code)
    if ns == 1:
        return USB.get(code)
    if ns == 2:
        return 200
    return None


def spec_ack(bs):
    """Independent offset decoder; None = must be rejected."""
    if len(bs) < 12 or list(bs[0:4]) != ACK_MAGIC:
        return None
    code, cid, sl, rid = of_le(bs[4:6]), of_le(bs[6:8]), of_le(bs[8:10]), of_le(bs[10:12])
    st = spec_status(code)
    if st is None or cid not in KINDS:
        return None
    return dict(code=code, st=st, fatal=code >> 15, succ=int(code == 0), kind=KINDS[cid], sl=sl, rid=rid,
                scd=list(bs[12:]))


def split_views(out):
    vs, i = [], 9
    while i < len(out):
        n = out[i]
        vs.append(out[i + 1:i + 1 + n])
        i += 1 + n
    return vs


def pred_ack(bs, out):
    if out is None or out in ([2], [3], [4]):
        return "decoder panicked / died (%r)" % (out,)
    s = spec_ack(bs)
    if out[0] == 1:
        return None if s is None else "conforming / well-formed acknowledge rejected (status 0x%04x)" % s["code"]
    if s is None:
        return "accepted a packet the layout decoder rejects"
    got = out[1:9]
    exp = [s["code"], s["st"], s["fatal"], s["succ"], s["kind"], s["sl"], s["rid"], len(s["scd"])]
    if got != exp:
        return "header fields differ from the layout: got %r expected %r" % (got, exp)
    vs = split_views(out)
    if len(vs) != 5:
        return "views missing"
    scd, sl = s["scd"], s["sl"]
    for name, v in (("ReadMem", vs[0]), ("ReadMemStacked", vs[3])):
        if v == [2]:
            return name + " view panicked"
        if len(scd) >= sl:
            if v != [0, sl] + scd[:sl]:
                return name + " view is not the first scd_len bytes of the SCD"
        elif v[0] == 0:
            return name + " view returned data beyond the buffer"
    for name, v in (("WriteMem", vs[1]), ("Pending", vs[2])):
        if v == [2]:
            return name + " view panicked"
        ok = len(scd) >= 4 and of_le(scd[0:2]) == 0
        if ok and v != [0, of_le(scd[2:4])]:
            return name + " view wrong"
        if not ok and v[0] == 0:
            return name + " view accepted a malformed SCD"
    v = vs[4]
    if v == [2]:
        return "WriteMemStacked view panicked (scd_len=%d)" % sl
    ok = sl % 4 == 0 and len(scd) >= sl and all(of_le(scd[i:i + 2]) == 0 for i in range(0, sl, 4))
    if ok and v != [0, sl // 4] + [of_le(scd[i + 2:i + 4]) for i in range(0, sl, 4)]:
        return "WriteMemStacked view wrong"
    if not ok and v[0] == 0:
        return "WriteMemStacked view accepted a malformed SCD"
    return None


def spec_event(bs):
    if len(bs) < 12 or list(bs[0:4]) != EV_MAGIC or of_le(bs[6:8]) != 0x0C00:
        return None
    sl, rid = of_le(bs[8:10]), of_le(bs[10:12])
    pos, rem, evs = 12, sl, []
    while rem > 0:
        if len(bs) < pos + 12:
            return None
        size, eid, ts = of_le(bs[pos:pos + 2]), of_le(bs[pos + 2:pos + 4]), of_le(bs[pos + 4:pos + 12])
        pos += 12
        if size == 0:
            if rem < 12:
                return None
            dl, rem = rem - 12, 0
        else:
            if size < 12 or rem < size:
                return None
            dl, rem = size - 12, rem - size
        if len(bs) < pos + dl:
            return None
        evs.append((size, eid, ts, list(bs[pos:pos + dl])))
        pos += dl
    return rid, evs


def pred_event(bs, out):
    if out is None or out in ([2], [3], [4]):
        return "event decoder panicked / died (%r)" % (out,)
    s = spec_event(bs)
    if out[0] == 1:
        return None if s is None else "well-formed event packet rejected"
    if s is None:
        return "accepted an event packet the layout decoder rejects"
    exp = [0, s[0], len(s[1])]
    for size, eid, ts, d in s[1]:
        exp += [size, eid, ts, len(d)] + d
    return None if out == exp else "event fields differ from the layout"


def predicate(c, out):
    return pred_ack(c.meta, out) if c.kind == "c08a" else pred_event(c.meta, out)


def nontrivial(c, out):
    return out is not None and out[0] == 0


def ack(code, cid, rid, scd, sl=None):
    return bytes(ACK_MAGIC + le(code, 2) + le(cid, 2) + le(len(scd) if sl is None else sl, 2) + le(rid, 2) + list(scd))


def evpkt(flag, rid, evs, sl=None, single=False, cid=0x0C00):
    scd = []
    for eid, ts, d in evs:
        scd += le(0 if single else 12 + len(d), 2) + le(eid, 2) + le(ts, 8) + list(d)
    return bytes(EV_MAGIC + le(flag, 2) + le(cid, 2) + le(len(scd) if sl is None else sl, 2) + le(rid, 2) + scd)


def gen_cases(ck):
    rng = Rng(ck.seed)
    out = []

    def A(bs):
        out.append(make_case("c08a", [xhex(bs)]))

    def E(bs):
        out.append(make_case("c08e", [xhex(bs)]))

    cids = [0x0801, 0x0803, 0x0805, 0x0807, 0x0809, 0x0800, 0x080A, 0x0C00]
    # every 16-bit status code (exhaustive) with a small ReadMem acknowledge
    for code in range(65536):
        A(ack(code, 0x0801, code & 0xFFFF, [1, 2, 3, 4]))
    interesting = sorted(set(list(GENCP) + list(USB) + [0x4000, 0x4001, 0x5FFF, 0x6000, 0x7FFF, 0xC000, 0xC001, 0xE000,
                                                        0xFFFF, 0x2000, 0x2001, 0x8000, 0xA000, 0xA006, 0x0001, 0x1FFF]))
    # status x kind x scd_len in a window around the real payload length
    for code in interesting:
        for cid in cids:
            for real in (0, 4, 8, 3):
                for d in range(-6, 7):
                    sl = real + d
                    if sl < 0:
                        continue
                    scd = [0, 0, 7, 0, 0, 0, 9, 1][:real] if cid in (0x0803, 0x0805, 0x0809) else [0xA0 + i for i in range(real)]
                    A(ack(code, cid, 0x1234, scd, sl))
    # conforming packets from field tuples
    for rid in (0, 1, 0x00FF, 0xFFFF):
        for n in (0, 1, 2, 64, 1000):
            A(ack(0, 0x0801, rid, rng.bytes(n)))
            A(ack(0, 0x0807, rid, rng.bytes(n)))
        for ln in (0, 1, 0x1234, 0xFFFF):
            A(ack(0, 0x0803, rid, [0, 0] + le(ln, 2)))
            A(ack(0, 0x0805, rid, [0, 0] + le(ln, 2)))
            A(ack(0, 0x0803, rid, [1, 0] + le(ln, 2)))
        for k in (0, 1, 2, 5, 100):
            scd = []
            for _ in range(k):
                scd += [0, 0] + le(rng.below(65536), 2)
            A(ack(0, 0x0809, rid, scd))
            for d in (1, 2, 3, 5):
                A(ack(0, 0x0809, rid, scd, 4 * k + d))
                A(ack(0, 0x0809, rid, scd + [0] * d, 4 * k + d))
    big = rng.bytes(65535)
    A(ack(0, 0x0801, 5, big))
    A(ack(0, 0x0801, 5, big[:65534], 65535))
    # truncations of valid packets at every length, and single-byte mutations
    base = [ack(0, 0x0801, 9, [1, 2, 3, 4, 5, 6]), ack(0x8006, 0x0803, 9, [0, 0, 4, 0]),
            ack(0, 0x0809, 9, [0, 0, 4, 0, 0, 0, 8, 0]), ack(0xA002, 0x0805, 3, [0, 0, 100, 0])]
    for b in base:
        for n in range(len(b) + 1):
            A(b[:n])
        for i in range(len(b)):
            for v in (0, 1, 0x80, 0xFF, b[i] ^ 1, b[i] ^ 0x40):
                m = bytearray(b)
                m[i] = v & 255
                A(bytes(m))
    # events
    evsets = [[], [(1, 2, b"")], [(0x9001, 0x0102030405060708, b"\x01\x02\x03")],
              [(1, 1, b"ab"), (2, 2, b""), (3, (1 << 64) - 1, b"xyz" * 5)],
              [(i, i * 1000, bytes(rng.bytes(i % 7))) for i in range(20)]]
    ebase = []
    for evs in evsets:
        for rid in (0, 0xFFFF):
            p = evpkt(0, rid, evs)
            E(p)
            ebase.append(p)
            for d in (-13, -12, -1, 1, 11, 12, 13):
                sl = of_le(p[8:10]) + d
                if 0 <= sl < 65536:
                    E(evpkt(0, rid, evs, sl))
            if len(evs) == 1:
                E(evpkt(0x1234, rid, evs, single=True))
                for d in (-12, -1, 1, 5):
                    sl = 12 + len(evs[0][2]) + d
                    if sl >= 0:
                        E(evpkt(0, rid, evs, sl, single=True))
            E(evpkt(0, rid, evs, cid=0x0C01))
    E(evpkt(0, 1, [(7, 7, big[:65523])]))
    E(evpkt(0, 1, [(7, 7, big[:65523])], single=True))
    E(evpkt(0, 1, [(7, 7, big[:40000]), (8, 8, big[:25000])], sl=65535))
    for sz in (1, 11, 12, 13):   # event_size field below / at the header size
        E(bytes(EV_MAGIC + le(0, 2) + le(0x0C00, 2) + le(24, 2) + le(1, 2) + le(sz, 2) + le(5, 2) + le(9, 8) + [0] * 12))
    # sized events followed by an entry whose event_size is 0 ("the rest of the SCD"): announced rest 0..26
    # bytes (below, at and above one event header), the buffer holding that many bytes or more
    for pre in ([(1, 1, b"ab")], [(1, 1, b"")], [(1, 1, b"ab"), (2, 2, b"xyz")]):
        sized = []
        for eid, ts, d in pre:
            sized += le(12 + len(d), 2) + le(eid, 2) + le(ts, 8) + list(d)
        for rest in range(0, 27):
            for extra in (0, 1, 11, 12, 13, 30):
                tail = (le(0, 2) + le(0x77, 2) + le(0x0102030405060708, 8) + [0xC0 + i for i in range(40)])[:rest + extra]
                E(bytes(EV_MAGIC + le(0, 2) + le(0x0C00, 2) + le(len(sized) + rest, 2) + le(3, 2) + sized + tail))
    for b in ebase[:6]:
        for n in range(len(b) + 1):
            E(b[:n])
        for i in range(min(len(b), 40)):
            for v in (0, 0xFF, b[i] ^ 1, b[i] ^ 0x10):
                m = bytearray(b)
                m[i] = v & 255
                E(bytes(m))
    # random strings, mostly with a valid prefix so that parsing gets somewhere
    nrand = 4000 if ck.tier == "quick" else 200000
    for _ in range(nrand):
        n = rng.choice([rng.below(40), rng.below(40), rng.below(400), rng.below(4000)])
        body = bytearray(rng.bytes(n))
        if rng.chance(4, 5):
            pre = bytearray((ACK_MAGIC if rng.chance(1, 2) else EV_MAGIC))
            if pre == bytearray(ACK_MAGIC):
                pre += bytes(le(rng.choice(interesting), 2)) + bytes(le(rng.choice(cids), 2))
            else:
                pre += bytes(le(rng.below(65536), 2)) + bytes(le(0x0C00, 2))
            if rng.chance(2, 3):
                pre += bytes(le(rng.choice([n, max(n - 1, 0), n + 1, rng.below(64), 4 * (n // 4)]), 2))
            body = pre + body
        if rng.chance(1, 2):
            A(bytes(body))
        else:
            if rng.chance(1, 2) and len(body) > 24:   # plausible first event header
                body[12:14] = bytes(le(rng.choice([0, 12, 13, 20, len(body) - 12, rng.below(64)]), 2))
            E(bytes(body))
    return out


def main():
    standard_main(
        "C08", "h_proto", CODES, gen_cases, predicate, nontrivial, make_case=make_case,
        rule="exhaustive over all 65536 status codes (one acknowledge each); interesting status codes x 8 command ids x "
             "scd_len in a window of +-6 around the real payload; conforming acknowledges/events from field tuples; every "
             "truncation and selected byte mutations of valid packets; seeded random strings with valid prefixes (up to "
             "64 KiB); real AckPacket/EventPacket::parse + all five typed views vs the extracted Gallina model; predicate = "
             "independent Python fixed-offset decoder (Ok iff accepted by the layout, fields equal, no panic); "
             "non-trivial = packet accepted")
