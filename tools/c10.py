"""C10 — chunked transfers partition the request exactly within the budget."""
from vplib import Check, Case, Rng, zlit

U64 = 1 << 64


CODES = {"c10r": 1001, "c10w": 1002, "c10m": 1003}


def read_case(a, n, b):
    return Case("c10r", [a, n, b], ("r", a, n, b))


def write_case(a, n, seed, b):
    return Case("c10w", [a, n, seed, b], ("w", a, n, seed, b))


def maxread_case(m):
    return Case("c10m", [m], ("m", m))


def predicate(c, out):
    """The property's own predicate on the implementation's output."""
    k = c.meta[0]
    if out is None:
        return "no output (harness died)"
    if k == "r":
        _, a, n, b = c.meta
        if b <= 12:
            return None if out == [1, 10] else "budget <= 12 must be an error"
        if a + n > U64:
            return None  # outside the property's quantifier (range leaves the address space)
        if out[0] != 0:
            return "read chunks: expected Ok, got %r" % out[:2]
        cs = list(zip(out[1::2], out[2::2]))
        if n == 0:
            return None if not cs else "empty request must yield no chunk"
        addr, tot = a, 0
        for i, (ca, cl) in enumerate(cs):
            if ca != addr:
                return "chunk %d not contiguous" % i
            if cl <= 0:
                return "chunk %d empty" % i
            if 12 + cl > b:
                return "chunk %d exceeds budget" % i
            if i + 1 < len(cs) and 12 + cl != b:
                return "chunk %d (not last) does not use the budget fully" % i
            addr += cl
            tot += cl
        return None if tot == n else "lengths sum to %d, requested %d" % (tot, n)
    if k == "w":
        _, a, n, seed, b = c.meta
        if n > 65527:
            return None if out == [1, 10] else "data beyond the 16-bit SCD length must be refused"
        if b <= 20:
            return None if out == [1, 10] else "budget <= 20 must be an error"
        if a + n > U64:
            return None
        if out[0] != 0:
            return "write chunks: expected Ok, got %r" % out[:2]
        cs = [out[1 + 4 * i: 5 + 4 * i] for i in range((len(out) - 1) // 4)]
        if n == 0:
            return None if not cs else "empty request must yield no chunk"
        addr, off = a, 0
        for i, (ca, dl, first, last) in enumerate(cs):
            if ca != addr:
                return "chunk %d not contiguous" % i
            if dl <= 0:
                return "chunk %d empty" % i
            if 20 + dl > b:
                return "chunk %d exceeds budget" % i
            if i + 1 < len(cs) and 20 + dl != b:
                return "chunk %d (not last) does not use the budget fully" % i
            if first != (seed + off) % 256 or last != (seed + off + dl - 1) % 256:
                return "chunk %d carries the wrong data" % i
            addr += dl
            off += dl
        return None if off == n else "data lengths sum to %d, requested %d" % (off, n)
    if k == "m":
        m = c.meta[1]
        if 12 <= m < U64:
            return None if out == [0, min(m - 12, 65535)] else "maximum_read_length wrong"
        return None
    return None


def gen_cases(ck):
    rng = Rng(ck.seed)
    cases = []
    budgets = [0, 1, 11, 12, 13, 14, 15, 16, 19, 20, 21, 22, 23, 24, 25, 28, 32, 33, 64, 100, 255, 256, 257, 511,
               512, 600, 1024, 4096, 65535, 65536, 65546, 65547, 65548, 65549, 1 << 20, (1 << 32) - 1,
               1 << 32, (1 << 32) + 12, (1 << 63), U64 - 1]
    maxchunks = 40 if ck.tier == "quick" else 400
    for hdr, mk, nmax in ((12, "r", 65535), (20, "w", 65535)):
        for b in budgets:
            p = max(b - hdr, 1)
            ns = {0, 1, 2, p - 1, p, p + 1, 2 * p - 1, 2 * p, 2 * p + 1, 3 * p, 5 * p + 1, 7 * p - 1,
                  maxchunks * p, 65527, 65528, 65535, 255, 256, 4096}
            for n in sorted(ns):
                if n < 0 or n > nmax:
                    continue
                if n // p > maxchunks and not (b <= hdr):
                    continue
                addrs = [0, 1, (1 << 32) - 1, 1 << 63, U64 - n, U64 - 1]
                if n > 0:
                    addrs += [U64 - n + 1, U64 - max(n // 2, 1)]
                if n > 8192 and mk == "w":
                    addrs = [0, U64 - n] if b in (21, 65547, 1 << 20) else [0] if b in (0, 20, 22, 600, 65546, 65548, 1 << 32) else []
                for a in addrs:
                    if a < 0 or a >= U64:
                        continue
                    if mk == "r":
                        cases.append(read_case(a, n, b))
                    else:
                        cases.append(write_case(a, n, rng.below(256), b))
    # writes whose data does not fit the SCD length field
    for n in (65528, 65535, 65536, 70000):
        for b in (0, 20, 21, 64, 70020):
            cases.append(write_case(0, n, 3, b))
    nrand = 1500 if ck.tier == "quick" else 12000
    for _ in range(nrand):
        p = rng.choice([1, 2, 3, 7, 8, 16, 52, 64, 100, 500, 1000] + ([4000, 65000] if rng.chance(1, 20) else []))
        p = max(1, p + rng.range(-1, 1))
        n = min(65535, rng.choice([rng.range(0, 4 * p + 3), rng.range(0, min(maxchunks, (2048 if ck.tier == 'quick' else 16384) // p + 2)) * p + rng.range(-1, 1)]))
        n = max(0, n)
        if n // p > maxchunks:
            n = p * rng.range(0, maxchunks)
        a = rng.choice([rng.below(U64), rng.below(1 << 32), U64 - n - rng.below(3), 0])
        a = min(max(a, 0), U64 - 1)
        if rng.chance(1, 2):
            cases.append(read_case(a, n, p + 12))
        else:
            cases.append(write_case(a, min(n, 65527 + rng.below(3)), rng.below(256), p + 20))
    for m in [12, 13, 14, 20, 100, 65546, 65547, 65548, 65549, 1 << 20, 1 << 32, U64 - 1] + \
            [rng.range(12, 70000) for _ in range(50)]:
        cases.append(maxread_case(m))
    return cases


def nontrivial(c, out):
    # non-trivial: an Ok result with at least two chunks
    k = c.meta[0]
    if out is None or out[0] != 0:
        return False
    if k == "r":
        return len(out) >= 5
    if k == "w":
        return len(out) >= 9
    return False


def main():
    ck = Check("C10")
    ck.rule = ("structured boundary set (budgets x lengths around multiples of the per-chunk payload x addresses "
               "near 0 / 2^32 / 2^63 / 2^64) + seeded random cases, each run on the real ReadMem/WriteMem::chunks "
               "and on the Gallina model (vm_compute), plus the property predicate evaluated by the harness on the "
               "exhaustive grid lengths 0..4096 x budgets 0..600 and on windows of larger budgets (around 1024, 2048, 4096; "
               "thorough: 601..1100, 1500, 8192, 16384 too) x lengths up to two full chunks (read and write); non-trivial = Ok result with >= 2 "
               "chunks, distinct by case line")
    ck.prove()
    ck.phase("prove")
    binary, log = ck.cargo_build("h_proto")
    ck.phase("cargo")
    if binary is None:
        path = ck.write_replay({"kind": "build", "property": "C10", "unchecked": "correspondence h_proto", "log": log[-4000:]})
        ck.violations.append((path, True, "harness does not build against /repo"))
        ck.finish()
    if ck.replay:
        import json
        r = json.load(open(ck.replay))
        cases = [c for c in gen_cases(ck) if c.line == r.get("case")] or []
        if not cases:
            t = r["case"].split()
            cases = [read_case(*map(int, t[1:]))] if t[0] == "c10r" else [write_case(*map(int, t[1:]))] if t[0] == "c10w" else [maxread_case(int(t[1]))]
        impl = ck.run_impl(binary, [c.line for c in cases])
        model = ck.run_model(cases, CODES)
        for c, i, m in zip(cases, impl, model):
            print("case:", c.line, "\n impl :", i, "\n model:", m, "\n predicate:", predicate(c, i) or "holds")
        ck.compare(cases, impl, model, predicate, nontrivial)
        ck.finish()
    cases = gen_cases(ck)
    impl = ck.run_impl(binary, [c.line for c in cases])
    ck.phase("impl")
    model = ck.run_model(cases, CODES)
    ck.phase("model")
    ck.compare(cases, impl, model, predicate, nontrivial, family="boundary+random")
    # exhaustive grid on the implementation (the property's own predicate, in the harness)
    grid = []
    nhi = 4096
    step = 64 if ck.tier == "quick" else 16
    for kind in ("r", "w"):
        for lo in range(0, nhi + 1, step):
            hi = min(nhi, lo + step - 1)
            for a in ([0] if ck.tier == "quick" else [0, (1 << 64) - 4096 - 1]):
                grid.append(Case("c10grid", [kind, lo, hi, 0, 600, a], (kind, lo, hi, a)))
    # budgets beyond the first grid, in windows around the powers of two a transport may treat specially
    # (packet sizes 512 / 1024, 2048, 4096, 8192) and lengths up to two full chunks of the largest of them
    windows = [(1000, 1100), (2030, 2080), (4090, 4130)] if ck.tier == "quick" else \
        [(601, 1100), (1490, 1560), (2030, 2080), (4090, 4130), (8180, 8230), (16380, 16420)]
    for kind in ("r", "w"):
        for blo, bhi in windows:
            nmax = min(2 * bhi + 100, 40000)
            stp = 512
            for lo in range(0, nmax + 1, stp):
                grid.append(Case("c10grid", [kind, lo, min(nmax, lo + stp - 1), blo, bhi, 0], (kind, lo, min(nmax, lo + stp - 1), 0)))
    gout = ck.run_impl(binary, [g.line for g in grid], jobs=16)
    total = 0
    for g, o in zip(grid, gout):
        if o is None or o[0] != 0:
            path = ck.write_replay({"kind": "grid", "case": g.line, "impl": o})
            ck.violations.append((path, True, "grid predicate run died"))
            continue
        total += o[1]
        if o[2] != 0:
            kind, n, b = g.meta[0], o[3], o[4]
            c = read_case(g.meta[3], n, b) if kind == "r" else write_case(g.meta[3], n, (n + b) % (1 << 64), b)
            io = ck.run_impl(binary, [c.line])[0]
            path = ck.write_replay({"kind": "case", "property": "C10", "case": c.line, "impl": io,
                                    "predicate_failure": predicate(c, io), "grid_failures": o[2]})
            ck.violations.append((path, False, "partition predicate fails on the exhaustive grid: %s" % predicate(c, io)))
    ck.phase("grid")
    ck.evaluations += total
    ck.dist["exhaustive_grid_cases(impl predicate only)"] = total
    ck.exhaustive = False
    ck.finish()
