#!/usr/bin/env python3
"""tools/translate_memprot.py -- CODE translator for the hand-written part of the emulated register memory (property C20):
impl/src/memory.rs -> coq/theories/gen/MemProtSrc.v, regenerated on every run.  proofs/P_C20s.v proves the translated
functions equal to the hand-written model model/Memory.v (ar_* / prot_* / reg_read / reg_write) for ALL inputs.

What is translated (typed mini-Rust parser + Gallina emitter of tools/minirust.py, extended below; DEBUG-build integer
semantics of lib/RustInt.v; Vec / slice / iterator operations of model/MemProtOps.v):

  enum AccessRight                      Inductive access_right (variants in declaration order, derive(PartialEq) checked:
                                        `==` is access_right_eqb) and EVERY method of `impl AccessRight` except as_str:
                                        src_ar_is_readable / is_writable / as_num / meet / from_num
  enum MemoryError                      the error classes E_<Variant> (40..43, the numbering of model/Memory.v)
  struct MemoryProtection               Record memory_protection {mp_inner : list Z; mp_memory_size : Z} and EVERY method of
                                        `impl MemoryProtection`: src_mp_new / set_access_right / access_right /
                                        access_right_with_range / set_access_right_with_range / verify_address /
                                        verify_address_with_range
  trait Register                        Record register (Ty) {rg_ADDRESS; rg_LENGTH; rg_ACCESS_RIGHT; rg_parse; rg_serialize}
                                        (the associated constants and the REQUIRED methods are fields) and its PROVIDED
                                        methods src_reg_range / read / write

Shapes (everything else: ShapeError - the check reports the proof obligations C20_*_from_source as broken):
  every function is `outcome T`; a Rust panic (index out of range, overflow, shift amount >= width, debug_assert!,
  unreachable!) is Panic, `Err(MemoryError::X)` is Err E_X, `e?` / a fallible call in tail position is the bind
  a `&mut self` / `memory: &mut [u8]` function returning () or MemoryResult<()> returns the NEW value of self / memory;
     mutations are only accepted as statements of the function's top-level block (or of a for / for_each body)
  let x = &mut self.f[i];               x = v_index_mut f i (the checked index);  *x  = v_load ;  *x = e  = v_store + rebind self
  self.f[i] / &m[r] / m[r].copy_from_slice(s)   v_index / v_slice / v_copy_from_slice
  a..b                                  the pair (a, b); `for i in a..b` iterates v_range a b
  it.into_iter().fold(init, |acc, i| e) / it.into_iter().for_each(|i| <mutation>) / for i in it { .. }      o_fold
  let x = <integer literal expression>; the type of x is the one its first typed use demands (as rustc infers it)
  match on an enum                      Gallina match (an if-chain over access_right_eqb when an arm has a guard)
  vec![lit; n]                          v_repeat lit n
"""
import os
import re
import sys

HERE = os.path.dirname(os.path.abspath(__file__))
sys.path.insert(0, HERE)
import minirust                                                                                  # noqa: E402
from minirust import ShapeError, Parser, Gen, strip_comments, block_after, wrap, lit_value, INT, NEVER, unify, paren, COMPOUND  # noqa: E402

OUT = os.path.join(os.path.dirname(HERE), "coq", "theories", "gen", "MemProtSrc.v")
REL = os.path.join("impl", "src", "memory.rs")

ENUM = "AccessRight"
VARIANTS = ["NA", "RO", "WO", "RW"]                 # declaration order = the numbering of model/Memory.v (ar_num)
CTOR = {v: "AR_" + v for v in VARIANTS}
ERR_ENUM = "MemoryError"
ERR_NUM = [("AddressNotReadable", 40), ("AddressNotWritable", 41), ("InvalidAddress", 42), ("InvalidRegisterData", 43)]
STRUCT = "MemoryProtection"
AR_METHODS = ["is_readable", "is_writable", "as_str", "as_num", "meet", "from_num"]      # as_str is not translated
MP_METHODS = ["new", "set_access_right", "access_right", "access_right_with_range", "set_access_right_with_range",
              "verify_address", "verify_address_with_range"]
REG_PROVIDED = ["write", "read", "range"]
REG_REQUIRED = {"parse": "fnparse(data:&[u8])->MemoryResult<Self::Ty>",
                "serialize": "fnserialize(data:Self::Ty)->MemoryResult<Vec<u8>>"}
REG_CONSTS = [("ADDRESS", "usize"), ("LENGTH", "usize"), ("ACCESS_RIGHT", ENUM)]
ALLOWED_ATTRS = {"#[must_use]", "#[doc(hidden)]", "#[inline]"}


# ------------------------------------------------------------------------------------------------ tokens --
SUFFIX = minirust.SUFFIX
TOK = re.compile(r"""\s*(
    "(?:[^"\\]|\\.)*" |
    [A-Za-z_][A-Za-z0-9_]*(?:::[A-Za-z_][A-Za-z0-9_]*)*!(?!=) |
    [A-Za-z_][A-Za-z0-9_]*(?:::[A-Za-z_][A-Za-z0-9_]*)* |
    0x[0-9a-fA-F_]+""" + SUFFIX + r"""? |
    0b[01_]+""" + SUFFIX + r"""? |
    0o[0-7_]+""" + SUFFIX + r"""? |
    \d[\d_]*""" + SUFFIX + r"""? |
    => | -> | :: | == | != | <= | >= | <<= | >>= | << | >> | \|\| | && | \.\.= | \.\. | \|= | &= | \^= | \+= | -= | \*= |
    /= | %= |
    [(){}\[\],;:.|&^!\-+*/%<>=?]
)""", re.X)


def tokenize(s):
    out, pos = [], 0
    s = s.strip()
    while pos < len(s):
        m = TOK.match(s, pos)
        if not m:
            raise ShapeError("cannot tokenize %r" % s[pos:pos + 40])
        tok = m.group(1)
        end = m.end()
        if tok[0].isdigit() and end < len(s) and (s[end].isalnum() or s[end] == "_"):
            raise ShapeError("numeric token not understood near %r" % s[pos:pos + 40])
        out.append(tok)
        pos = end
        while pos < len(s) and s[pos].isspace():
            pos += 1
    return out


# ------------------------------------------------------------------------------------------------ parser --
IDENT = r"[a-z_][a-z0-9_]*"


class P(Parser):
    """minirust.Parser + `/` `%`, indexing, `*x`, `&mut x`, `a..b`, `x = e`, `()`, closures with parameters, vec![x; n],
    struct literals of the known structs, `for x in e { .. }`, `use Enum::{..};` inside a body."""
    LEVELS = [["||"], ["&&"], ["==", "!=", "<", ">", "<=", ">="], ["|"], ["^"], ["&"], ["<<", ">>"], ["+", "-"],
              ["*", "/", "%"]]

    def __init__(self, toks, enums, structs, variants):
        Parser.__init__(self, toks, enums)
        self.structs = structs          # names that may start a struct literal (incl. "Self" inside the struct's impl)
        self.variants = variants        # {enum: [variant names]} for `use Enum::{..}`

    def expr(self):
        e = self._binary(0)
        if self.peek() == "..=":
            raise ShapeError("inclusive range")
        if self.peek() == "..":
            self.eat("..")
            if self.peek() in (")", "]", "}", ",", ";", None, "{"):
                raise ShapeError("range without an end")
            return ("range", e, self._binary(0))
        if self.peek() in COMPOUND or self.peek() in ("/=", "%="):
            op = self.eat()
            if op not in COMPOUND:
                raise ShapeError("compound assignment %s" % op)
            return ("opassign", COMPOUND[op], e, self._binary(0))
        if self.peek() == "=":
            self.eat("=")
            return ("assign", e, self.expr())
        return e

    def unary(self):
        if self.peek() == "*":
            self.eat("*")
            return ("deref", self.unary())
        if self.peek() == "&" and self.peek(1) == "mut":
            self.eat("&")
            self.eat("mut")
            return ("refmut", self.unary())
        if self.peek() == "..":
            raise ShapeError("range without a start")
        return Parser.unary(self)

    def postfix(self):
        e = self.atom()
        while self.peek() in (".", "?", "["):
            if self.peek() == "[":
                self.eat("[")
                i = self.expr()
                self.eat("]")
                e = ("index", e, i)
                continue
            if self.peek() == "?":
                self.eat("?")
                e = ("try", e)
                continue
            self.eat(".")
            name = self.eat()
            if not re.fullmatch(r"[A-Za-z_][A-Za-z0-9_]*|\d+", name):
                raise ShapeError("field / method name %r" % name)
            if self.peek() == "::":
                raise ShapeError("turbofish")
            if self.peek() == "(":
                e = ("mcall", e, name, self.args())
            else:
                e = ("field", e, name)
        return e

    def atom(self):
        tok = self.peek()
        if tok == "(" and self.peek(1) == ")":
            self.eat("(")
            self.eat(")")
            return ("unit",)
        if tok == "|":
            self.eat("|")
            names = []
            while self.peek() != "|":
                n = self.eat()
                if not re.fullmatch(IDENT, n) or n == "self":
                    raise ShapeError("closure parameter %r" % n)
                names.append(n)
                if self.peek() == ",":
                    self.eat(",")
                elif self.peek() != "|":
                    raise ShapeError("closure parameter list near %r" % self.peek())
            self.eat("|")
            if not names or len(set(names)) != len(names):
                raise ShapeError("closure parameters %r" % names)
            return ("closure", names, self.expr())
        if tok == "vec!":
            self.eat("vec!")
            self.eat("[")
            x = self.expr()
            self.eat(";")
            n = self.expr()
            self.eat("]")
            return ("vecrep", x, n)
        if tok in self.structs and self.peek(1) == "{":
            self.eat()
            self.eat("{")
            fields = []
            while self.peek() != "}":
                f = self.eat()
                if not re.fullmatch(IDENT, f):
                    raise ShapeError("struct literal field %r" % f)
                if self.peek() == ":":
                    self.eat(":")
                    v = self.expr()
                else:
                    v = ("id", f)
                fields.append((f, v))
                if self.peek() == ",":
                    self.eat(",")
                elif self.peek() != "}":
                    raise ShapeError("struct literal near %r" % self.peek())
            self.eat("}")
            return ("struct", self.structs[tok], fields)
        if tok in ("[", "::", "->", "#"):
            raise ShapeError("unexpected token %r" % tok)
        return Parser.atom(self)

    def block(self):
        stmts = []
        while self.peek() not in ("}", None):
            if self.peek() == "use":
                self.eat("use")
                en = self.eat()
                self.eat("::")
                self.eat("{")
                names = []
                while self.peek() != "}":
                    names.append(self.eat())
                    if self.peek() == ",":
                        self.eat(",")
                    elif self.peek() != "}":
                        raise ShapeError("use list near %r" % self.peek())
                self.eat("}")
                self.eat(";")
                if en not in self.variants or stmts:
                    raise ShapeError("`use %s::{..}` (only the variants of a known enum, at the start of a body)" % en)
                for n in names:
                    if n not in self.variants[en] or n in self.enums[en]:
                        raise ShapeError("`use %s::%s`" % (en, n))
                    self.enums[en][n] = self.variants[en].index(n)
                continue
            if self.peek() == "let":
                self.eat("let")
                if self.peek() == "mut":
                    raise ShapeError("`let mut`")
                pat = self.eat()
                if not re.fullmatch(IDENT, pat) or pat in ("self", "_"):
                    raise ShapeError("let pattern %r" % pat)
                if self.peek() == ":":
                    raise ShapeError("type annotation on a let")
                self.eat("=")
                e = self.expr()
                self.eat(";")
                stmts.append(("let", pat, e, None))
                continue
            if self.peek() == "for":
                self.eat("for")
                var = self.eat()
                if not re.fullmatch(IDENT, var) or var in ("self", "_"):
                    raise ShapeError("for pattern %r" % var)
                self.eat("in")
                it = self.expr()
                self.eat("{")
                body = self.block()
                self.eat("}")
                stmts.append(("for", var, it, body))
                continue
            e = self.expr()
            if self.peek() == ";":
                self.eat(";")
                if e[0] not in ("return", "assign", "macro", "try", "mcall"):
                    raise ShapeError("expression statement of kind %r" % (e[0],))
                stmts.append(("expr", e))
                continue
            if self.peek() == "}" or self.peek() is None:
                stmts.append(("tail", e))
                break
            if e[0] == "if" and e[3] is None:
                stmts.append(("expr", e))
                continue
            raise ShapeError("statement not understood near %r" % self.peek())
        return ("block", stmts)


# ----------------------------------------------------------------------------------------------- emitter --
class Undetermined(ShapeError):
    pass


class TVar:
    """the type of `let x = <integer literal expression>;` until the first use that demands one"""

    def __init__(self):
        self.ty = None


def is_int(ty):
    return isinstance(ty, str) and ty in INT


def coq_type(ty):
    if ty == "bool":
        return "bool"
    if ty == "unit":
        return "unit"
    if ty == ENUM:
        return "access_right"
    if ty == STRUCT:
        return "memory_protection"
    if ty == "Ty":
        return "Ty"
    if is_int(ty):
        return "Z"
    if isinstance(ty, tuple) and ty[0] in ("vec", "slice", "mutslice", "iter"):
        return "list Z"
    if isinstance(ty, tuple) and ty[0] == "range":
        return "(Z * Z)"
    raise ShapeError("no Gallina type for %r" % (ty,))


class G(Gen):
    """ctx: dict(methods, fields, owner, state, ienums)
         methods   {(owner type, name): sig}; sig = dict(coq, selfkind in (None,'val','ref','mut'), params [(name, type)],
                   ret, result, state (name of the parameter whose new value the function returns, or None), extra)
         fields    [(field, type)] of STRUCT
         owner     the type `Self` stands for ('Register' inside the trait)
         state     the Rust name of this function's mutable parameter ('self' / 'memory') or None
         ienums    {ENUM: {path as written: variant name}}"""

    def __init__(self, ret, result, ctx, errs, consts):
        Gen.__init__(self, ret, result, enums={}, errs=errs, consts=consts)
        self.ctx = ctx
        self.methods, self.owner, self.state = ctx["methods"], ctx["owner"], ctx["state"]
        self.ienums = ctx["ienums"]
        self.called = []

    # ---- small helpers
    def variant(self, tok):
        for en, vs in self.ienums.items():
            if tok in vs:
                return en, vs[tok]
        return None

    def is_untyped_lit(self, e):
        k = e[0]
        if k == "id":
            v = self.cur_env.get(e[1]) if self.cur_env else None
            return bool(v) and isinstance(v[1], TVar) and v[1].ty is None
        if k == "bin" and e[1] in ("/", "%"):
            return self.is_untyped_lit(e[2]) and self.is_untyped_lit(e[3])
        return Gen.is_untyped_lit(self, e)

    cur_env = None

    def lit(self, v, ty):
        if ty is None:
            raise Undetermined("the type of the literal %d cannot be determined" % v)
        return Gen.lit(self, v, ty)

    def binop(self, op, a, b, ty):
        if op in ("/", "%"):
            sg, _ = self.int_ops(ty)
            if sg != "u":
                raise ShapeError("%s at the signed type %s" % (op, ty))
            return "%s %s %s" % ("r_div" if op == "/" else "r_rem", a, b)
        return Gen.binop(self, op, a, b, ty)

    def state_term(self):
        return "self" if self.state == "self" else Gen.var(self.state)

    def container(self, e, env):
        """a Vec / slice place: (getter term, type, setter format or None).  self.<field> | a local / parameter"""
        while e[0] == "paren":
            e = e[1]
        if e[0] == "field" and e[1] == ("id", "self") and "self" in env and env["self"][1] == STRUCT:
            for f, ty in self.ctx["fields"]:
                if f == e[2] and isinstance(ty, tuple) and ty[0] == "vec":
                    setter = "mp_with_%s self %%s" % f if self.state == "self" else None
                    return "(mp_%s self)" % f, ty, setter
            raise ShapeError("self.%s is not a Vec field" % e[2])
        if e[0] == "id" and e[1] in env and isinstance(env[e[1]][1], tuple) and env[e[1]][1][0] in ("vec", "slice", "mutslice"):
            term, ty = env[e[1]]
            setter = "%s" if (ty[0] == "mutslice" and self.state == e[1]) else None
            return term, ty, setter
        raise ShapeError("indexing of something other than a Vec field of self or a slice parameter")

    def range_parts(self, e, env):
        """a Range<usize> value -> (code binding lo_, hi_ names, lo name, hi name)"""
        r = self.expr(e, env, ("range", "usize"))
        if r[1] != ("range", "usize"):
            raise ShapeError("slice index of type %r" % (r[1],))
        x = self.fresh("r")
        return "let? %s := %s in " % (x, r[0]), "(fst %s)" % x, "(snd %s)" % x

    # ---- calls of translated functions
    def call_user(self, key, recv, args, env, fallible_ok):
        sig = self.methods[key]
        if sig["result"] and not fallible_ok:
            raise ShapeError("call of the fallible function %s without `?`" % sig["coq"])
        if sig["state"]:
            raise ShapeError("call of the mutating function %s in value position" % sig["coq"])
        if len(args) != len(sig["params"]):
            raise ShapeError("arity of %s" % sig["coq"])
        parts = [] if recv is None else [recv]
        for (pn, pt), a in zip(sig["params"], args):
            want = ("slice", pt[1]) if isinstance(pt, tuple) and pt[0] == "slice" else pt
            p = self.expr(a, env, want)
            if not self.assignable(p[1], pt):
                raise ShapeError("argument %s of %s has type %r, not %r" % (pn, sig["coq"], p[1], pt))
            parts.append(p)
        names = [self.fresh() for _ in parts]
        code = " ".join([sig["coq"]] + sig.get("extra", []) + names)
        for n_, p in reversed(list(zip(names, parts))):
            code = "let? %s := %s in %s" % (n_, p[0], code)
        self.called.append(key)
        return (code, sig["ret"])

    @staticmethod
    def assignable(have, want):
        if have == want:
            return True
        # &Vec<u8> -> &[u8] (deref coercion), &mut [u8] read as &[u8]
        if isinstance(have, tuple) and isinstance(want, tuple) and want[0] == "slice" and have[0] in ("vec", "mutslice") \
                and have[1] == want[1]:
            return True
        return False

    def resolve_path(self, path):
        """Owner::name / Self::name -> key of self.methods, or None"""
        if "::" not in path:
            return None
        o, n = path.rsplit("::", 1)
        if o == "Self":
            o = self.owner
        return (o, n) if (o, n) in self.methods else None

    def call_of(self, e, env, fallible_ok):
        """e is a pcall / mcall of a translated function -> (code, type), or None when it is something else"""
        if e[0] == "pcall":
            key = self.resolve_path(e[1])
            if key is None:
                return None
            if self.methods[key]["selfkind"] is not None:
                raise ShapeError("method %s::%s called as a path" % key)
            return self.call_user(key, None, e[2], env, fallible_ok)
        if e[0] == "mcall":
            recv = e[1]
            while recv[0] == "paren":
                recv = recv[1]
            if recv[0] != "id" or recv[1] not in env:
                return None
            rty = env[recv[1]][1]
            if isinstance(rty, TVar) or not isinstance(rty, str) or (rty, e[2]) not in self.methods:
                return None
            sig = self.methods[(rty, e[2])]
            if sig["selfkind"] is None:
                raise ShapeError("associated function %s called as a method" % sig["coq"])
            return self.call_user((rty, e[2]), ("Ok %s" % env[recv[1]][0], rty), e[3], env, fallible_ok)
        return None

    # ---- expressions
    def expr(self, e, env, want=None):
        self.cur_env = env
        k = e[0]
        if k == "id":
            if e[1] in env:
                term, ty = env[e[1]]
                if isinstance(ty, TVar):
                    if ty.ty is None:
                        if not is_int(want):
                            raise Undetermined("the type of `%s` is not determined at its first use" % e[1])
                        ty.ty = want
                    return ("Ok %s" % term, ty.ty)
                if isinstance(ty, tuple) and ty[0] == "mutref":
                    raise ShapeError("a `&mut` reference used other than through `*`")
                return ("Ok %s" % term, ty)
            v = self.variant(e[1])
            if v:
                return ("Ok %s" % CTOR[v[1]], v[0])
            return Gen.expr(self, e, env, want)
        if k == "unit":
            return ("Ok tt", "unit")
        if k == "field":
            if e[1] == ("id", "self") and "self" in env and env["self"][1] == STRUCT:
                for f, ty in self.ctx["fields"]:
                    if f == e[2]:
                        return ("Ok (mp_%s self)" % f, ty)
            raise ShapeError("field access .%s" % e[2])
        if k == "deref":
            inner = e[1]
            while inner[0] == "paren":
                inner = inner[1]
            if inner[0] == "id" and inner[1] in env and isinstance(env[inner[1]][1], tuple) and env[inner[1]][1][0] == "mutref":
                term, (_, ety, getter, _) = env[inner[1]]
                return ("v_load %s %s" % (getter, term), ety)
            raise ShapeError("dereference of something other than a `&mut v[i]` local")
        if k == "index":
            getter, cty, _ = self.container(e[1], env)
            if e[2][0] == "range":
                raise ShapeError("a sub-slice place used as a value (only `&m[a..b]` and `m[a..b].copy_from_slice(s)`)")
            i = self.expr(e[2], env, "usize")
            if i[1] == ("range", "usize"):
                raise ShapeError("a sub-slice place used as a value (only `&m[r]` and `m[r].copy_from_slice(s)`)")
            if i[1] != "usize":
                raise ShapeError("index of type %r" % (i[1],))
            x = self.fresh()
            return ("let? %s := %s in v_index %s %s" % (x, i[0], getter, x), cty[1])
        if k == "un" and e[1] == "&":
            inner = e[2]
            while inner[0] == "paren":
                inner = inner[1]
            if inner[0] == "index":
                getter, cty, _ = self.container(inner[1], env)
                pre, lo, hi = self.range_parts(inner[2], env)
                return ("%sv_slice %s %s %s" % (pre, getter, lo, hi), ("slice", cty[1]))
            if inner[0] == "id" and inner[1] in env and isinstance(env[inner[1]][1], tuple) and env[inner[1]][1][0] == "vec":
                return ("Ok %s" % env[inner[1]][0], ("slice", env[inner[1]][1][1]))
            return Gen.expr(self, e, env, want)
        if k == "refmut":
            raise ShapeError("`&mut` outside `let x = &mut v[i];`")
        if k == "range":
            a = self.expr(e[1], env, "usize")
            b = self.expr(e[2], env, "usize")
            if a[1] != "usize" or b[1] != "usize":
                raise ShapeError("range of %r .. %r" % (a[1], b[1]))
            x, y = self.fresh(), self.fresh()
            return ("let? %s := %s in let? %s := %s in Ok (%s, %s)" % (x, a[0], y, b[0], x, y), ("range", "usize"))
        if k == "vecrep":
            lv = e[1]
            while lv[0] == "paren":
                lv = lv[1]
            if lv[0] != "lit":
                raise ShapeError("vec![x; n] with x not a literal")
            ety = lv[2] or (want[1] if isinstance(want, tuple) and want[0] == "vec" else None)
            n = self.expr(e[2], env, "usize")
            if n[1] != "usize":
                raise ShapeError("vec![x; n] with n of type %r" % (n[1],))
            if ety is not None:
                self.lit(lv[1], ety)
            x = self.fresh()
            return ("let? %s := %s in Ok (v_repeat %d %s)" % (x, n[0], lv[1], x), ("vec", ety if ety else ("lit", lv[1])))
        if k == "struct":
            if e[1] != STRUCT:
                raise ShapeError("struct literal of %s" % e[1])
            given = dict(e[2])
            if len(given) != len(e[2]) or sorted(given) != sorted(f for f, _ in self.ctx["fields"]):
                raise ShapeError("struct literal does not give exactly the fields of %s" % STRUCT)
            parts = []
            for f, fty in self.ctx["fields"]:
                p = self.expr(given[f], env, fty)
                pty = p[1]
                if isinstance(pty, tuple) and pty[0] == "vec" and isinstance(pty[1], tuple) and pty[1][0] == "lit" \
                        and isinstance(fty, tuple) and fty[0] == "vec":
                    self.lit(pty[1][1], fty[1])           # vec![0; n] stored in a Vec<u8>: the literal is a u8
                    pty = fty
                if pty != fty:
                    raise ShapeError("field %s is given a %r" % (f, pty))
                parts.append((f, p[0]))
            names = [self.fresh() for _ in parts]
            code = "Ok {| %s |}" % "; ".join("mp_%s := %s" % (f, n_) for (f, _), n_ in zip(parts, names))
            # fields are evaluated in the order they are WRITTEN
            order = [f for f, _ in e[2]]
            byname = {f: (n_, c) for (f, c), n_ in zip(parts, names)}
            for f in reversed(order):
                code = "let? %s := %s in %s" % (byname[f][0], byname[f][1], code)
            return (code, STRUCT)
        if k == "macro":
            if e[1] == "unreachable" and not e[2]:
                return ("Panic", NEVER)
            raise ShapeError("macro %s! in value position" % e[1])
        if k == "try":
            c = self.call_of(e[1], env, True)
            if c is None or not self.result:
                raise ShapeError("`?` on something other than a call of a translated fallible function")
            return c
        if k == "bin" and e[1] in ("==", "!="):
            if not self.is_untyped_lit(e[2]):
                a = self.expr(e[2], env, None)
                if a[1] in self.ienums:
                    b = self.expr(e[3], env, a[1])
                    if b[1] != a[1]:
                        raise ShapeError("comparison of %r with %r" % (a[1], b[1]))
                    x, y = self.fresh(), self.fresh()
                    c = "access_right_eqb %s %s" % (x, y)
                    if e[1] == "!=":
                        c = "negb (%s)" % c
                    return ("let? %s := %s in let? %s := %s in Ok (%s)" % (x, a[0], y, b[0], c), "bool")
            return Gen.expr(self, e, env, want)
        if k == "if":
            c = self.expr(e[1], env, "bool")
            if c[1] != "bool":
                raise ShapeError("condition of type %r" % (c[1],))
            if e[3] is None:
                raise ShapeError("`if` without else in expression position")
            try:
                a = self.block(e[2], env, want)
                b = self.block(e[3], env, want if a[1] in (None, NEVER) else a[1])
            except Undetermined:
                b = self.block(e[3], env, want)
                a = self.block(e[2], env, want if b[1] in (None, NEVER) else b[1])
            ty = unify(a[1], b[1])
            if ty is None:
                raise ShapeError("branches of types %r / %r" % (a[1], b[1]))
            x = self.fresh("c")
            return ("let? %s := %s in if %s then %s else %s" % (x, c[0], x, paren(a[0]), paren(b[0])), ty)
        if k == "closure":
            raise ShapeError("closure in value position")
        if k in ("assign", "for"):
            raise ShapeError("%s in value position" % k)
        if k == "pcall":
            c = self.call_of(e, env, False)
            if c is not None:
                return c
            return Gen.expr(self, e, env, want)
        return Gen.expr(self, e, env, want)

    def err(self, e, env):
        if not self.result:
            raise ShapeError("Err(..) in a function that does not return a Result")
        if e[0] == "id" and e[1] in self.errs:
            if self.errs[e[1]][1]:
                raise ShapeError("error constructor %s without its argument" % e[1])
            return "Err %s" % self.errs[e[1]][0]
        if e[0] == "pcall" and e[1] in self.errs and self.errs[e[1]][1]:
            if len(e[2]) != 1:
                raise ShapeError("error constructor with %d arguments" % len(e[2]))
            self.opaque(e[2][0], env)
            return "Err %s" % self.errs[e[1]][0]
        raise ShapeError("error constructor %r" % (e[1] if len(e) > 1 else e,))

    def mcall(self, e, env, want):
        recv, name, args = e[1], e[2], e[3]
        c = self.call_of(e, env, False)
        if c is not None:
            return c
        if name == "into_iter" and not args:
            a = self.expr(recv, env, None)
            if isinstance(a[1], tuple) and a[1][0] == "iter":
                return a
            if a[1] == ("range", "usize"):
                x = self.fresh()
                return ("let? %s := %s in Ok (v_range (fst %s) (snd %s))" % (x, a[0], x, x), ("iter", "usize"))
            raise ShapeError("into_iter() of a %r" % (a[1],))
        if name == "as_slice" and not args:
            a = self.expr(recv, env, None)
            if isinstance(a[1], tuple) and a[1][0] == "vec":
                return (a[0], ("slice", a[1][1]))
            raise ShapeError("as_slice() of a %r" % (a[1],))
        if name == "len" and not args:
            a = self.expr(recv, env, None)
            if isinstance(a[1], tuple) and a[1][0] in ("vec", "slice", "mutslice"):
                x = self.fresh()
                return ("let? %s := %s in Ok (zlen %s)" % (x, a[0], x), "usize")
            raise ShapeError("len() of a %r" % (a[1],))
        if name == "fold":
            if len(args) != 2 or args[1][0] != "closure" or len(args[1][1]) != 2:
                raise ShapeError("fold without (init, |acc, x| ..)")
            it = self.expr(recv, env, None)
            if not (isinstance(it[1], tuple) and it[1][0] == "iter"):
                raise ShapeError("fold on a %r" % (it[1],))
            init = self.expr(args[0], env, want)
            if isinstance(init[1], tuple) or init[1] in (NEVER, None):
                raise ShapeError("fold with an accumulator of type %r" % (init[1],))
            acc, x = args[1][1]
            benv = dict(env)
            benv[acc] = (Gen.var(acc), init[1])
            benv[x] = (Gen.var(x), it[1][1])
            body = self.expr(args[1][2], benv, init[1])
            if body[1] != init[1]:
                raise ShapeError("fold closure gives a %r for an accumulator %r" % (body[1], init[1]))
            a, b = self.fresh(), self.fresh()
            return ("let? %s := %s in let? %s := %s in o_fold (fun %s %s => %s) %s %s"
                    % (a, it[0], b, init[0], Gen.var(acc), Gen.var(x), body[0], a, b), init[1])
        if name in ("for_each", "copy_from_slice", "fill", "push"):
            raise ShapeError(".%s(..) in value position" % name)
        return Gen.mcall(self, e, env, want)

    def match(self, e, env, want):
        s = self.expr(e[1], env, None)
        if s[1] not in self.ienums:
            return Gen.match(self, e, env, want)
        en = s[1]
        sv = self.fresh("m")
        allv = set(VARIANTS)
        arms, ty, seen, exhaustive = [], None, set(), False
        guards = any(g is not None for _, g, _ in e[2])
        for pats, guard, body in e[2]:
            benv, vs = env, []
            for p in pats:
                if p[0] == "wild":
                    vs = None
                    break
                if p[0] == "bind":
                    if len(pats) != 1:
                        raise ShapeError("binding in an or-pattern")
                    vs = None
                    benv = dict(env)
                    benv[p[1]] = (sv, en)
                    break
                if p[0] == "enum" and p[1] == en:
                    vs.append(self.ienums[en][p[2]])
                else:
                    raise ShapeError("pattern %r in a match on %s" % (p, en))
            if vs is not None and guard is None and (set(vs) & seen):
                raise ShapeError("a variant is matched twice")
            b = self.expr(body, benv, want if ty in (None, NEVER) else ty)
            nt = b[1] if ty is None else unify(ty, b[1])
            if nt is None:
                raise ShapeError("match arms of types %r / %r" % (ty, b[1]))
            ty = nt
            g = None
            if guard is not None:
                g = self.expr(guard, benv, "bool")
                if g[1] != "bool":
                    raise ShapeError("guard of type %r" % (g[1],))
            arms.append((vs, g, b[0]))
            if g is None:
                if vs is None:
                    exhaustive = True
                    break
                seen.update(vs)
                if seen == allv:
                    exhaustive = True
                    break
        if not exhaustive:
            raise ShapeError("match is not seen to be exhaustive")
        if len(arms) != len(e[2]):
            raise ShapeError("unreachable match arms")
        if not guards:
            txt = " | ".join("%s => %s" % (" | ".join(CTOR[v] for v in vs) if vs is not None else "_", paren(b))
                             for vs, _, b in arms)
            return ("let? %s := %s in match %s with %s end" % (sv, s[0], sv, txt), ty)
        code = arms[-1][2]                       # the last arm is unconditional (checked above)
        for vs, g, b in reversed(arms[:-1]):
            cond = None if vs is None else " || ".join("access_right_eqb %s %s" % (sv, CTOR[v]) for v in vs)
            if g is not None:
                gv = self.fresh("g")
                b = "let? %s := %s in if %s then %s else %s" % (gv, g[0], gv, paren(b), paren(code))
            code = "if %s then %s else %s" % (cond, paren(b), paren(code)) if cond else b
        return ("let? %s := %s in %s" % (sv, s[0], code), ty)

    # ---- statements
    def effect(self, e, env, st, k):
        """a statement that changes the state parameter: (code, type) of `let? <state> := <new value> in <k()>`, or None"""
        new = None
        if e[0] == "assign":
            lhs = e[1]
            while lhs[0] == "paren":
                lhs = lhs[1]
            if lhs[0] != "deref":
                raise ShapeError("assignment to something other than `*r`")
            inner = lhs[1]
            while inner[0] == "paren":
                inner = inner[1]
            if not (inner[0] == "id" and inner[1] in env and isinstance(env[inner[1]][1], tuple) and env[inner[1]][1][0] == "mutref"):
                raise ShapeError("assignment through something other than a `&mut v[i]` local")
            term, (_, ety, getter, setter) = env[inner[1]]
            v = self.expr(e[2], env, ety)
            if v[1] != ety:
                raise ShapeError("assignment of a %r to a %s place" % (v[1], ety))
            x, l = self.fresh(), self.fresh()
            new = "let? %s := %s in let? %s := v_store %s %s %s in Ok (%s)" % (x, v[0], l, getter, term, x, setter % l)
        elif e[0] == "mcall" and e[2] == "copy_from_slice":
            recv = e[1]
            while recv[0] == "paren":
                recv = recv[1]
            if recv[0] != "index" or len(e[3]) != 1:
                raise ShapeError("copy_from_slice on something other than `m[range]`")
            getter, cty, setter = self.container(recv[1], env)
            if setter is None:
                raise ShapeError("copy_from_slice into something that is not this function's `&mut` parameter")
            pre, lo, hi = self.range_parts(recv[2], env)
            src = self.expr(e[3][0], env, ("slice", cty[1]))
            if not self.assignable(src[1], ("slice", cty[1])):
                raise ShapeError("copy_from_slice of a %r" % (src[1],))
            x, l = self.fresh(), self.fresh()
            new = "%slet? %s := %s in let? %s := v_copy_from_slice %s %s %s %s in Ok (%s)" \
                  % (pre, x, src[0], l, getter, lo, hi, x, setter % l)
        elif e[0] == "mcall" and e[2] == "for_each":
            if len(e[3]) != 1 or e[3][0][0] != "closure" or len(e[3][0][1]) != 1:
                raise ShapeError("for_each without |x| ..")
            it = self.expr(e[1], env, None)
            if not (isinstance(it[1], tuple) and it[1][0] == "iter"):
                raise ShapeError("for_each on a %r" % (it[1],))
            if not (st and self.state):
                raise ShapeError("for_each outside the top-level block of a `&mut` function")
            x = e[3][0][1][0]
            benv = dict(env)
            benv[x] = (Gen.var(x), it[1][1])
            body = self.loop_body(e[3][0][2], benv)
            a = self.fresh()
            new = "let? %s := %s in o_fold (fun %s %s => %s) %s %s" % (a, it[0], self.state_term(), Gen.var(x), body, a, self.state_term())
        elif e[0] == "mcall":
            recv = e[1]
            while recv[0] == "paren":
                recv = recv[1]
            if recv[0] == "id" and recv[1] in env and isinstance(env[recv[1]][1], str) and (env[recv[1]][1], e[2]) in self.methods:
                key = (env[recv[1]][1], e[2])
                sig = self.methods[key]
                if sig["state"] != "self" or sig["selfkind"] != "mut":
                    return None
                if recv[1] != self.state:
                    raise ShapeError("a `&mut self` method called on something other than this function's `&mut self`")
                if sig["result"]:
                    raise ShapeError("a fallible `&mut self` method called without `?`")
                if len(e[3]) != len(sig["params"]):
                    raise ShapeError("arity of %s" % sig["coq"])
                parts = []
                for (pn, pt), a in zip(sig["params"], e[3]):
                    p = self.expr(a, env, pt)
                    if p[1] != pt:
                        raise ShapeError("argument %s of %s has type %r" % (pn, sig["coq"], p[1]))
                    parts.append(p)
                names = [self.fresh() for _ in parts]
                new = " ".join([sig["coq"], self.state_term()] + names)
                for n_, p in reversed(list(zip(names, parts))):
                    new = "let? %s := %s in %s" % (n_, p[0], new)
                self.called.append(key)
            else:
                return None
        else:
            return None
        if not (st and self.state):
            raise ShapeError("a mutation outside the top-level block of a function with a `&mut` parameter")
        rest = k()
        return ("let? %s := %s in %s" % (self.state_term(), new, rest[0]), rest[1])

    def loop_body(self, body, env):
        """the body of a for / for_each as a term giving the next state (the state parameter, or tt)"""
        if body[0] != "block":
            body = ("block", [("tail", body)])
        r = self.block(body, env, "unit", st=True)
        if r[1] not in ("unit", NEVER):
            raise ShapeError("loop body of type %r" % (r[1],))
        return r[0]

    def end_unit(self, st):
        if st and self.state:
            return ("Ok %s" % self.state_term(), "unit")
        return ("Ok tt", "unit")

    def block(self, blk, env, want, st=False):
        assert blk[0] == "block"
        env = dict(env)
        stmts = blk[1]

        def go(i):
            if i == len(stmts):
                return self.end_unit(st)
            s = stmts[i]
            last = i == len(stmts) - 1
            if s[0] == "tail":
                e = s[1]
                eff = self.effect(e, env, st, lambda: self.end_unit(st))
                if eff is not None:
                    return eff
                if self.result and e[0] in ("pcall", "mcall"):
                    c = self.call_of(e, env, True)          # a Result handed on as this function's Result
                    if c is not None:
                        if not self.methods[self.called[-1]]["result"]:
                            raise ShapeError("a plain value where a Result is expected")
                        return c
                if st and self.state and e[0] == "ok":
                    inner = e[1]
                    while inner[0] == "paren":
                        inner = inner[1]
                    if inner[0] != "unit" or self.ret != "unit":
                        raise ShapeError("a `&mut` function with a value")
                    return self.end_unit(st)
                if st and self.state:
                    raise ShapeError("the value of a function with a `&mut` parameter is not (), Ok(()) or a mutation")
                return self.expr(e, env, want)
            if s[0] == "let":
                pat, ex = s[1], s[2]
                inner = ex
                while inner[0] == "paren":
                    inner = inner[1]
                if inner[0] == "refmut":
                    tgt = inner[1]
                    while tgt[0] == "paren":
                        tgt = tgt[1]
                    if tgt[0] != "index" or tgt[2][0] == "range":
                        raise ShapeError("`&mut` of something other than `v[i]`")
                    getter, cty, setter = self.container(tgt[1], env)
                    if setter is None or not (st and self.state):
                        raise ShapeError("`&mut v[i]` where v does not belong to this function's `&mut` parameter")
                    idx = self.expr(tgt[2], env, "usize")
                    if idx[1] != "usize":
                        raise ShapeError("index of type %r" % (idx[1],))
                    x = self.fresh()
                    env[pat] = (Gen.var(pat), ("mutref", cty[1], getter, setter))
                    rest = go(i + 1)
                    return ("let? %s := (let? %s := %s in v_index_mut %s %s) in %s"
                            % (Gen.var(pat), x, idx[0], getter, x, rest[0]), rest[1])
                self.cur_env = env
                if self.is_untyped_lit(ex):
                    tv = TVar()
                    old = env.get(pat)
                    env[pat] = (Gen.var(pat), tv)
                    rest = go(i + 1)                        # the uses decide the type ...
                    if tv.ty is None:
                        raise ShapeError("the type of `let %s = <literal expression>` is not determined by a later use" % pat)
                    if old is None:
                        del env[pat]
                    else:
                        env[pat] = old
                    v = self.expr(ex, env, tv.ty)           # ... with which the initialiser is then read
                    if v[1] != tv.ty:
                        raise ShapeError("`let %s`: initialiser of type %r used at %r" % (pat, v[1], tv.ty))
                    env[pat] = (Gen.var(pat), tv)
                    return ("let? %s := %s in %s" % (Gen.var(pat), v[0], rest[0]), rest[1])
                v = self.expr(ex, env, None)
                if v[1] == NEVER or (isinstance(v[1], tuple) and v[1][0] == "assigned"):
                    raise ShapeError("let of a value of type %r" % (v[1],))
                env[pat] = (Gen.var(pat), v[1])
                rest = go(i + 1)
                return ("let? %s := %s in %s" % (Gen.var(pat), v[0], rest[0]), rest[1])
            if s[0] == "for":
                var, it, body = s[1], s[2], s[3]
                a = self.expr(it, env, None)
                if a[1] == ("range", "usize"):
                    x = self.fresh()
                    a = ("let? %s := %s in Ok (v_range (fst %s) (snd %s))" % (x, a[0], x, x), ("iter", "usize"))
                if not (isinstance(a[1], tuple) and a[1][0] == "iter"):
                    raise ShapeError("for over a %r" % (a[1],))
                if not st:
                    raise ShapeError("a for loop inside a nested block")
                benv = dict(env)
                benv[var] = (Gen.var(var), a[1][1])
                code = self.loop_body(body, benv)
                rest = go(i + 1)
                t = self.fresh()
                if self.state:
                    return ("let? %s := (let? %s := %s in o_fold (fun %s %s => %s) %s %s) in %s"
                            % (self.state_term(), t, a[0], self.state_term(), Gen.var(var), code, t, self.state_term(), rest[0]), rest[1])
                return ("let? _ := (let? %s := %s in o_fold (fun (_ : unit) %s => %s) %s tt) in %s"
                        % (t, a[0], Gen.var(var), code, t, rest[0]), rest[1])
            if s[0] == "expr":
                ex = s[1]
                if ex[0] == "return":
                    if not last:
                        raise ShapeError("statements after a return")
                    return self.expr(ex, env, want)
                if ex[0] == "macro":
                    if ex[1] != "debug_assert" or len(ex[2]) != 1:
                        raise ShapeError("macro statement %s!" % ex[1])
                    c = self.expr(ex[2][0], env, "bool")
                    if c[1] != "bool":
                        raise ShapeError("debug_assert! of a %r" % (c[1],))
                    rest = go(i + 1)
                    x = self.fresh("c")
                    return ("let? %s := %s in if %s then %s else Panic" % (x, c[0], x, paren(rest[0])), rest[1])
                eff = self.effect(ex, env, st, lambda: go(i + 1))
                if eff is not None:
                    return eff
                if ex[0] == "try":
                    v = self.expr(ex, env, None)
                    rest = go(i + 1)
                    return ("let? _ := %s in %s" % (v[0], rest[0]), rest[1])
                if ex[0] == "if" and ex[3] is None:
                    body = ex[2][1]
                    if not (len(body) == 1 and body[0][0] in ("expr", "tail") and body[0][1][0] == "return"):
                        raise ShapeError("`if` statement whose body is not a single return")
                    c = self.expr(ex[1], env, "bool")
                    if c[1] != "bool":
                        raise ShapeError("condition of type %r" % (c[1],))
                    r = self.ret_value(body[0][1][1], env)
                    rest = go(i + 1)
                    x = self.fresh("c")
                    return ("let? %s := %s in if %s then %s else %s" % (x, c[0], x, paren(r), paren(rest[0])), rest[1])
                raise ShapeError("statement %r" % (ex[0],))
            raise ShapeError("statement kind %r" % s[0])
        return go(0)

    def ret_value(self, e, env):
        if self.state:
            if self.result and e[0] == "err":
                return self.err(e[1], env)
            raise ShapeError("return of a value from a function with a `&mut` parameter")
        return Gen.ret_value(self, e, env)


# ------------------------------------------------------------------------------------------------ source --
def one_block(src, head_re, what):
    ms = list(re.finditer(head_re, src, flags=re.M))
    if len(ms) != 1:
        raise ShapeError("%d blocks `%s`" % (len(ms), what))
    return block_after(src, ms[0].end() - 1)[0]


def items(body):
    """the `fn`s directly inside an impl / trait body: [(name, normalised header, body text or None)]; attributes checked"""
    out, pos, depth = [], 0, 0
    for a in re.findall(r"#!?\[[^\]]*\]", body):
        if re.sub(r"\s+", "", a) not in ALLOWED_ATTRS:
            raise ShapeError("attribute %s" % a)
    rx = re.compile(r"\bfn\s+(\w+)")
    while True:
        m = rx.search(body, pos)
        if not m:
            return out
        if body.count("{", 0, m.start()) != body.count("}", 0, m.start()):
            raise ShapeError("nested fn %s" % m.group(1))
        i, depth = m.end(), 0
        while i < len(body):
            c = body[i]
            if c in "(<[":
                depth += 1
            elif c in ")]":
                depth -= 1
            elif c == ">" and body[i - 1] != "-":
                depth -= 1
            elif c in "{;" and depth == 0:
                break
            i += 1
        if i == len(body):
            raise ShapeError("fn %s without a body or a `;`" % m.group(1))
        pre = body[:m.start()].rstrip()
        quals = re.search(r"((?:\b(?:pub|const|unsafe|async|extern)\b\s*)*)$", pre).group(1).split()
        if any(q not in ("pub", "const") for q in quals):
            raise ShapeError("fn %s is %s" % (m.group(1), " ".join(quals)))
        header = re.sub(r"\s+", "", body[m.start():i]).replace(",)", ")").replace(",>", ">")
        if body[i] == ";":
            out.append((m.group(1), header, None))
            pos = i + 1
        else:
            text, end = block_after(body, i)
            out.append((m.group(1), header, text))
            pos = end


def split_top(s):
    out, depth, cur = [], 0, ""
    for i, c in enumerate(s):
        if c in "(<[":
            depth += 1
        elif c in ")]" or (c == ">" and s[i - 1] != "-"):
            depth -= 1
        if c == "," and depth == 0:
            out.append(cur)
            cur = ""
        else:
            cur += c
    if cur:
        out.append(cur)
    return out


def rust_type(t, owner):
    """type as written (whitespace removed) -> internal type"""
    if t in ("u8", "u16", "u32", "u64", "usize", "bool"):
        return t
    if t == "()":
        return "unit"
    if t == "Self" and owner in (ENUM, STRUCT):
        return owner
    if t in (ENUM, STRUCT):
        return t
    if t == "Self::Ty" and owner == "Register":
        return "Ty"
    if t == "&[u8]":
        return ("slice", "u8")
    if t == "&mut[u8]":
        return ("mutslice", "u8")
    if t == "Vec<u8>":
        return ("vec", "u8")
    if t == "implIntoIterator<Item=usize>":
        return ("iter", "usize")
    if t == "std::ops::Range<usize>":
        return ("range", "usize")
    raise ShapeError("type %r" % t)


def signature(name, header, owner):
    m = re.fullmatch(r"fn%s\((.*)\)(?:->(.+))?" % re.escape(name), header)
    if not m:
        raise ShapeError("%s::%s: signature %r" % (owner, name, header))
    params, selfkind, state = [], None, None
    for i, p in enumerate(split_top(m.group(1))):
        if i == 0 and p in ("self", "&self", "&mutself"):
            selfkind = {"self": "val", "&self": "ref", "&mutself": "mut"}[p]
            if owner == "Register":
                raise ShapeError("a Register method with self")
            continue
        pm = re.fullmatch(r"(%s):(.+)" % IDENT, p)
        if not pm or pm.group(1) == "self":
            raise ShapeError("%s::%s: parameter %r" % (owner, name, p))
        params.append((pm.group(1), rust_type(pm.group(2), owner)))
    if len({n for n, _ in params}) != len(params):
        raise ShapeError("%s::%s: repeated parameter" % (owner, name))
    r = m.group(2)
    result = False
    if r is None:
        ret = "unit"
    else:
        rm = re.fullmatch(r"MemoryResult<(.+)>", r)
        if rm:
            result, ret = True, rust_type(rm.group(1), owner)
        else:
            ret = rust_type(r, owner)
    if isinstance(ret, tuple) and ret[0] in ("mutslice", "iter", "slice"):
        raise ShapeError("%s::%s returns a %r" % (owner, name, ret))
    muts = [n for n, t in params if isinstance(t, tuple) and t[0] == "mutslice"]
    if selfkind == "mut":
        if owner != STRUCT:
            raise ShapeError("&mut self on %s" % owner)
        state = "self"
    if muts:
        if state or len(muts) > 1:
            raise ShapeError("%s::%s has more than one `&mut` parameter" % (owner, name))
        state = muts[0]
    if state and ret != "unit":
        raise ShapeError("%s::%s changes %s and has a value" % (owner, name, state))
    if selfkind == "val" and owner != ENUM:
        raise ShapeError("%s::%s takes self by value" % (owner, name))
    return dict(selfkind=selfkind, params=params, ret=ret, result=result, state=state)


def translate(repo):
    path = os.path.join(repo, REL)
    src = strip_comments(open(path).read())
    # ---- declarations
    em = re.findall(r"((?:#\[[^\]]*\]\s*)*)pub enum %s \{([^}]*)\}" % ENUM, src)
    if len(em) != 1:
        raise ShapeError("%d declarations of enum %s" % (len(em), ENUM))
    found = [x.strip() for x in em[0][1].split(",") if x.strip()]
    if found != VARIANTS:
        raise ShapeError("enum %s is %s, not %s" % (ENUM, found, VARIANTS))
    dm = re.search(r"#\[derive\(([^)]*)\)\]", em[0][0])
    derives = [x.strip() for x in dm.group(1).split(",")] if dm else []
    for d in ("Clone", "Copy", "PartialEq"):
        if d not in derives:
            raise ShapeError("enum %s does not derive %s" % (ENUM, d))
    if re.search(r"\bimpl\b[^{;]*\bfor\s+(%s|%s)\b" % (ENUM, STRUCT), src):
        raise ShapeError("a trait is implemented by hand for %s / %s" % (ENUM, STRUCT))
    er = re.findall(r"pub enum %s \{(.*?)\n\}" % ERR_ENUM, src, flags=re.S)
    if len(er) != 1:
        raise ShapeError("%d declarations of enum %s" % (len(er), ERR_ENUM))
    ev = re.findall(r"^\s*(\w+)(\([^)]*\))?,\s*$", re.sub(r"#\[[^\n]*\]\n", "", er[0]), flags=re.M)
    if [v for v, _ in ev] != [v for v, _ in ERR_NUM]:
        raise ShapeError("enum %s is %s" % (ERR_ENUM, [v for v, _ in ev]))
    errs = {"%s::%s" % (ERR_ENUM, v): ("E_%s" % v, bool(arg)) for (v, arg) in ev}
    if not re.search(r"pub type MemoryResult<T> = std::result::Result<T, MemoryError>;", src):
        raise ShapeError("MemoryResult<T> is not Result<T, MemoryError>")
    sm = re.findall(r"pub struct %s \{([^}]*)\}" % STRUCT, src)
    if len(sm) != 1:
        raise ShapeError("%d declarations of struct %s" % (len(sm), STRUCT))
    fields = []
    for f in [x.strip() for x in sm[0].split(",") if x.strip()]:
        fm = re.fullmatch(r"(?:pub(?:\([a-z]+\))?\s+)?(%s)\s*:\s*(.+)" % IDENT, f)
        if not fm:
            raise ShapeError("field %r of %s" % (f, STRUCT))
        fields.append((fm.group(1), rust_type(re.sub(r"\s+", "", fm.group(2)), STRUCT)))
    if fields != [("inner", ("vec", "u8")), ("memory_size", "usize")]:
        raise ShapeError("struct %s is %r" % (STRUCT, fields))

    # ---- the three blocks and their functions
    ar = items(one_block(src, r"^impl %s \{" % ENUM, "impl " + ENUM))
    mp = items(one_block(src, r"^impl %s \{" % STRUCT, "impl " + STRUCT))
    trait = one_block(src, r"^pub trait Register \{", "pub trait Register")
    rg = items(trait)
    if sorted(n for n, _, _ in ar) != sorted(AR_METHODS):
        raise ShapeError("impl %s has the functions %s" % (ENUM, [n for n, _, _ in ar]))
    if sorted(n for n, _, _ in mp) != sorted(MP_METHODS):
        raise ShapeError("impl %s has the functions %s" % (STRUCT, [n for n, _, _ in mp]))
    if sorted(n for n, _, _ in rg) != sorted(REG_PROVIDED + list(REG_REQUIRED)):
        raise ShapeError("trait Register has the functions %s" % [n for n, _, _ in rg])
    if any(t is None for _, _, t in ar + mp):
        raise ShapeError("a function without a body in an impl")
    for n, h, t in rg:
        if n in REG_REQUIRED and (t is not None or h != REG_REQUIRED[n]):
            raise ShapeError("Register::%s is not the required method `%s`" % (n, REG_REQUIRED[n]))
        if n in REG_PROVIDED and t is None:
            raise ShapeError("Register::%s has no default body" % n)
    decl = re.sub(r"\s+", " ", re.sub(r"\{.*?\n    \}", "{}", trait, flags=re.S))
    if not re.search(r"type Ty;", decl):
        raise ShapeError("trait Register has no `type Ty;`")
    consts = re.findall(r"const (\w+): (\w+);", decl)
    if consts != REG_CONSTS:
        raise ShapeError("the associated constants of Register are %s" % consts)

    methods = {}
    bodies = {}
    for owner, lst, prefix in ((ENUM, ar, "src_ar_"), (STRUCT, mp, "src_mp_"), ("Register", rg, "src_reg_")):
        for n, h, t in lst:
            if (owner, n) == (ENUM, "as_str"):
                continue
            sig = signature(n, h, owner)
            if owner == "Register":
                sig["extra"] = ["R"]
                sig["coq"] = ("rg_" + n) if n in REG_REQUIRED else prefix + n
            else:
                sig["coq"] = prefix + n
            methods[(owner, n)] = sig
            if t is not None:
                bodies[(owner, n)] = t

    # ---- bodies
    out = {}
    for key, text in bodies.items():
        owner, n = key
        sig = methods[key]
        what = "%s::%s" % key
        ienums = {ENUM: {"%s::%s" % (ENUM, v): v for v in VARIANTS}}
        penums = {ENUM: {"%s::%s" % (ENUM, v): i for i, v in enumerate(VARIANTS)}}
        if owner == ENUM:
            for i, v in enumerate(VARIANTS):
                penums[ENUM]["Self::" + v] = i
        structs = {STRUCT: STRUCT}
        if owner == STRUCT:
            structs["Self"] = STRUCT
        try:
            p = P(tokenize(text), penums, structs, {ENUM: VARIANTS})
            blk = p.block()
            if not p.done():
                raise ShapeError("trailing tokens: %r" % p.peek())
            for path_, i in p.enums[ENUM].items():
                ienums[ENUM][path_] = VARIANTS[i]
            env = {}
            if sig["selfkind"]:
                env["self"] = ("self", owner)
            for pn, pt in sig["params"]:
                env[pn] = (Gen.var(pn), pt)
            cs = {}
            if owner == "Register":
                cs = {"Self::" + c: ("(rg_%s R)" % c, t) for c, t in REG_CONSTS}
            ctx = dict(methods=methods, fields=fields, owner=owner, state=sig["state"], ienums=ienums)
            g = G(sig["ret"], sig["result"], ctx, errs, cs)
            code, ty = g.block(blk, env, sig["ret"], st=True)
            if unify(ty, sig["ret"]) != sig["ret"]:
                raise ShapeError("body has type %r, declared %r" % (ty, sig["ret"]))
        except ShapeError as e:
            raise ShapeError("%s: %s" % (what, e))
        out[key] = (code, [k for k in g.called if k in bodies])
    # ---- order: callees first
    order, seen = [], set()

    def visit(k, stack=()):
        if k in stack:
            raise ShapeError("recursion through %s::%s" % k)
        if k in seen:
            return
        for d in out[k][1]:
            visit(d, stack + (k,))
        seen.add(k)
        order.append(k)
    for owner, lst, _ in ((ENUM, ar, 0), (STRUCT, mp, 0), ("Register", rg, 0)):
        for n, _, _ in lst:
            if (owner, n) in out:
                visit((owner, n))
    return dict(methods=methods, out=out, order=order, fields=fields)


def render(t):
    o = ["(* GENERATED by tools/translate_memprot.py from impl/src/memory.rs - do not edit.",
         "   Debug-build integer semantics of lib/RustInt.v; Vec / slice / iterator operations of model/MemProtOps.v.",
         "   enum AccessRight in declaration order; E_<Variant> = the classes of MemoryError; a `&mut self` / `&mut [u8]`",
         "   function returns the new value of self / memory; an `impl IntoIterator<Item = usize>` is the list of its items;",
         "   the constants and required methods of trait Register are the fields of [register]. *)",
         "From Cam Require Import Outcome RustInt MemProtOps.", ""]
    o.append("Inductive access_right := %s." % " | ".join(CTOR[v] for v in VARIANTS))
    o.append("Definition access_right_eqb (a b : access_right) : bool :=")
    o.append("  match a, b with %s | _, _ => false end." % " | ".join("%s, %s => true" % (CTOR[v], CTOR[v]) for v in VARIANTS))
    o.append("")
    for v, n in ERR_NUM:
        o.append("Definition E_%s : Z := %d." % (v, n))
    o.append("")
    o.append("Record memory_protection := { %s }." % "; ".join("mp_%s : %s" % (f, coq_type(ty)) for f, ty in t["fields"]))
    for f, ty in t["fields"]:
        o.append("Definition mp_with_%s (s : memory_protection) (x : %s) : memory_protection :=" % (f, coq_type(ty)))
        o.append("  {| %s |}." % "; ".join("mp_%s := %s" % (g_, "x" if g_ == f else "mp_%s s" % g_) for g_, _ in t["fields"]))
    o.append("")
    reg_done = False
    for key in t["order"]:
        owner, n = key
        sig = t["methods"][key]
        if owner == "Register" and not reg_done:
            reg_done = True
            ps, pp = t["methods"][("Register", "parse")], t["methods"][("Register", "serialize")]
            o.append("Record register (Ty : Type) := {")
            o.append("  rg_ADDRESS : Z; rg_LENGTH : Z; rg_ACCESS_RIGHT : access_right;")
            o.append("  rg_parse : %s -> outcome (%s);" % (" -> ".join(coq_type(ty) for _, ty in ps["params"]), coq_type(ps["ret"])))
            o.append("  rg_serialize : %s -> outcome (%s) }." % (" -> ".join(coq_type(ty) for _, ty in pp["params"]), coq_type(pp["ret"])))
            for f in ["ADDRESS", "LENGTH", "ACCESS_RIGHT", "parse", "serialize"]:
                o.append("Arguments rg_%s {Ty} _." % f)
            o.append("")
        binders = []
        if owner == "Register":
            binders.append("{Ty : Type} (R : register Ty)")
        if sig["selfkind"]:
            binders.append("(self : %s)" % coq_type(owner))
        for pn, pt in sig["params"]:
            binders.append("(%s : %s)" % (Gen.var(pn), coq_type(pt)))
        if sig["state"] == "self":
            rty = coq_type(STRUCT)
        elif sig["state"]:
            rty = "list Z"
        else:
            rty = coq_type(sig["ret"])
        if " " in rty and not rty.startswith("("):
            rty = "(" + rty + ")"
        o.append(wrap("Definition %s %s : outcome %s :=" % (sig["coq"], " ".join(binders), rty)))
        o.append(wrap("  " + t["out"][key][0] + "."))
        o.append("")
    return "\n".join(o)


def regenerate(repo=None, out=None):
    repo = repo or os.environ.get("VERIF_REPO", "/repo")
    t = translate(repo)
    text = render(t)
    out = out or OUT
    old = open(out).read() if os.path.exists(out) else None
    if old != text:
        with open(out, "w") as f:
            f.write(text)
    return t


if __name__ == "__main__":
    try:
        regenerate(sys.argv[1] if len(sys.argv) > 1 else None, sys.argv[2] if len(sys.argv) > 2 else None)
    except ShapeError as e:
        print("ShapeError:", e)
        sys.exit(3)
    print(open(sys.argv[2] if len(sys.argv) > 2 else OUT).read())
