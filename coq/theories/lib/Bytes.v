(* Bytes are integers in [0,256); byte strings are lists.  Little/big endian
   images of integers and their inverses, with round-trip lemmas. *)
From Cam Require Export Outcome.

Definition is_byte (b : Z) : Prop := 0 <= b < 256.
Definition is_byteb (b : Z) : bool := (0 <=? b) && (b <? 256).
Definition bytes_ok (bs : list Z) : Prop := Forall is_byte bs.

Fixpoint le_bytes (n : nat) (v : Z) : list Z :=
  match n with
  | O => []
  | S k => (v mod 256) :: le_bytes k (v / 256)
  end.

Fixpoint of_le (bs : list Z) : Z :=
  match bs with
  | [] => 0
  | b :: r => b + 256 * of_le r
  end.

Definition be_bytes (n : nat) (v : Z) : list Z := rev (le_bytes n v).
Definition of_be (bs : list Z) : Z := of_le (rev bs).

Definition take {A} (n : Z) (l : list A) : list A := firstn (Z.to_nat n) l.
Definition drop {A} (n : Z) (l : list A) : list A := skipn (Z.to_nat n) l.

Lemma le_bytes_length n v : length (le_bytes n v) = n.
Proof. revert v; induction n as [|n IH]; intros v; cbn [le_bytes length]; auto. Qed.

Lemma le_bytes_ok n v : bytes_ok (le_bytes n v).
Proof.
  revert v; induction n as [|n IH]; intros v; cbn [le_bytes]; constructor.
  - unfold is_byte. apply Z.mod_pos_bound. lia.
  - apply IH.
Qed.

Lemma of_le_bound bs : bytes_ok bs -> 0 <= of_le bs < 256 ^ Z.of_nat (length bs).
Proof.
  induction 1 as [|b r Hb Hr IH]; cbn [of_le length].
  - simpl. lia.
  - rewrite Nat2Z.inj_succ, Z.pow_succ_r by lia. unfold is_byte in Hb. lia.
Qed.

Lemma of_le_le_bytes n v :
  0 <= v < 256 ^ Z.of_nat n -> of_le (le_bytes n v) = v.
Proof.
  revert v; induction n as [|n IH]; intros v Hv; cbn [le_bytes of_le].
  - simpl in Hv. lia.
  - rewrite Nat2Z.inj_succ, Z.pow_succ_r in Hv by lia.
    rewrite IH.
    + pose proof (Z.div_mod v 256). lia.
    + split.
      * apply Z.div_pos; lia.
      * apply Z.div_lt_upper_bound; lia.
Qed.

Lemma le_bytes_of_le bs :
  bytes_ok bs -> le_bytes (length bs) (of_le bs) = bs.
Proof.
  induction 1 as [|b r Hb Hr IH]; cbn [of_le length le_bytes]; auto.
  unfold is_byte in Hb.
  replace ((b + 256 * of_le r) mod 256) with b by dlia.
  replace ((b + 256 * of_le r) / 256) with (of_le r) by dlia.
  now rewrite IH.
Qed.

Lemma le_bytes_mod n v : le_bytes n (v mod 256 ^ Z.of_nat n) = le_bytes n v.
Proof.
  revert v; induction n as [|n IH]; intros v; cbn [le_bytes]; auto.
  rewrite Nat2Z.inj_succ, Z.pow_succ_r by lia.
  set (m := 256 ^ Z.of_nat n).
  assert (Hm : 0 < m) by (apply Z.pow_pos_nonneg; lia).
  rewrite Z.rem_mul_r by lia.
  pose proof (Z.mod_pos_bound v 256 ltac:(lia)) as Hx.
  set (x := v mod 256) in *. set (y := (v / 256) mod m).
  replace ((x + 256 * y) mod 256) with x by dlia.
  replace ((x + 256 * y) / 256) with y by dlia.
  f_equal. subst y m. apply IH.
Qed.

Lemma be_bytes_length n v : length (be_bytes n v) = n.
Proof. unfold be_bytes. now rewrite rev_length, le_bytes_length. Qed.

Lemma of_be_be_bytes n v :
  0 <= v < 256 ^ Z.of_nat n -> of_be (be_bytes n v) = v.
Proof. intros; unfold of_be, be_bytes. rewrite rev_involutive. now apply of_le_le_bytes. Qed.

Lemma bytes_ok_rev bs : bytes_ok bs -> bytes_ok (rev bs).
Proof. unfold bytes_ok. intros H. apply Forall_rev. exact H. Qed.

Lemma be_bytes_of_be bs :
  bytes_ok bs -> be_bytes (length bs) (of_be bs) = bs.
Proof.
  intros H. unfold of_be, be_bytes.
  rewrite <- (rev_length bs). rewrite le_bytes_of_le by now apply bytes_ok_rev.
  apply rev_involutive.
Qed.

Lemma bytes_ok_app a b : bytes_ok a -> bytes_ok b -> bytes_ok (a ++ b).
Proof. unfold bytes_ok; intros; apply Forall_app; auto. Qed.

Lemma take_app_exact {A} (a b : list A) : take (zlen a) (a ++ b) = a.
Proof.
  unfold take, zlen. rewrite Nat2Z.id.
  rewrite firstn_app, Nat.sub_diag, firstn_all. cbn. apply app_nil_r.
Qed.

Lemma drop_app_exact {A} (a b : list A) : drop (zlen a) (a ++ b) = b.
Proof.
  unfold drop, zlen. rewrite Nat2Z.id.
  rewrite skipn_app, Nat.sub_diag, skipn_all. reflexivity.
Qed.

Lemma take_drop {A} n (l : list A) : take n l ++ drop n l = l.
Proof. apply firstn_skipn. Qed.

Lemma zlen_take {A} n (l : list A) : 0 <= n <= zlen l -> zlen (take n l) = n.
Proof. unfold take, zlen. intros. rewrite firstn_length. lia. Qed.

Lemma zlen_drop {A} n (l : list A) : 0 <= n <= zlen l -> zlen (drop n l) = zlen l - n.
Proof. unfold drop, zlen. intros. rewrite skipn_length. lia. Qed.

Lemma zlen_le_bytes n v : zlen (le_bytes n v) = Z.of_nat n.
Proof. unfold zlen. now rewrite le_bytes_length. Qed.

Lemma skipn_skipn_add {A} n m (l : list A) : skipn m (skipn n l) = skipn (n + m) l.
Proof.
  revert l; induction n as [|n IH]; intros l; cbn [skipn Nat.add]; auto.
  destruct l as [|x l]; [now rewrite !skipn_nil|]. apply IH.
Qed.

Lemma drop_drop {A} i m (l : list A) : 0 <= i -> 0 <= m -> drop m (drop i l) = drop (i + m) l.
Proof.
  intros. unfold drop. rewrite skipn_skipn_add. f_equal. lia.
Qed.

Lemma Forall_firstn {A} (P : A -> Prop) n (l : list A) : Forall P l -> Forall P (firstn n l).
Proof.
  revert l; induction n as [|n IH]; intros l H; cbn [firstn]; [constructor|].
  destruct l as [|x l]; [constructor|]. inversion H; subst. constructor; auto.
Qed.

Lemma Forall_skipn {A} (P : A -> Prop) n (l : list A) : Forall P l -> Forall P (skipn n l).
Proof.
  revert l; induction n as [|n IH]; intros l H; cbn [skipn]; [exact H|].
  destruct l as [|x l]; [constructor|]. inversion H; subst. auto.
Qed.

Lemma bytes_ok_firstn n bs : bytes_ok bs -> bytes_ok (firstn n bs).
Proof. apply Forall_firstn. Qed.
Lemma bytes_ok_skipn n bs : bytes_ok bs -> bytes_ok (skipn n bs).
Proof. apply Forall_skipn. Qed.
Lemma bytes_ok_take n bs : bytes_ok bs -> bytes_ok (take n bs).
Proof. apply Forall_firstn. Qed.
Lemma bytes_ok_drop n bs : bytes_ok bs -> bytes_ok (drop n bs).
Proof. apply Forall_skipn. Qed.
