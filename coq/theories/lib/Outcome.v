(* Outcome of a modelled Rust computation: a value, an error of some class, or
   a panic (unwrap on None/Err, slice index out of range, arithmetic overflow
   with overflow checks, debug_assert!, unreachable!).  Error classes are small
   integers named per domain. *)
From Coq Require Export List ZArith Lia Bool.
Export ListNotations.
Open Scope Z_scope.

(* lia with div/mod support *)
Ltac dlia := Z.div_mod_to_equations; lia.

Inductive outcome (A : Type) : Type :=
| Ok (a : A)
| Err (e : Z)
| Panic.
Arguments Ok {A} a.
Arguments Err {A} e.
Arguments Panic {A}.

Definition bind {A B} (x : outcome A) (f : A -> outcome B) : outcome B :=
  match x with
  | Ok a => f a
  | Err e => Err e
  | Panic => Panic
  end.

Notation "'let?' x ':=' e 'in' k" := (bind e (fun x => k))
  (at level 200, x pattern, e at level 100, k at level 200, right associativity).

Definition omap {A B} (f : A -> B) (x : outcome A) : outcome B :=
  match x with Ok a => Ok (f a) | Err e => Err e | Panic => Panic end.

Definition is_ok {A} (x : outcome A) : bool :=
  match x with Ok _ => true | _ => false end.
Definition is_err {A} (x : outcome A) : bool :=
  match x with Err _ => true | _ => false end.
Definition is_panic {A} (x : outcome A) : bool :=
  match x with Panic => true | _ => false end.

(* Canonical printing of an outcome for the correspondence: a flat list of
   integers, tag first. *)
Definition show_outcome {A} (sh : A -> list Z) (x : outcome A) : list Z :=
  match x with
  | Ok a => 0 :: sh a
  | Err e => [1; e]
  | Panic => [2]
  end.

(* error classes of cameleon_device::u3v::Error *)
Definition E_INVALID_PACKET : Z := 10.
Definition E_BUFFER_IO : Z := 11.
Definition E_LIBUSB : Z := 12.
Definition E_INVALID_DEVICE : Z := 13.

(* Fixed-width integer helpers. *)
Definition wrapu (w z : Z) : Z := z mod 2 ^ w.
Definition sw (w z : Z) : Z := (z + 2 ^ (w - 1)) mod 2 ^ w - 2 ^ (w - 1).
Definition in_u (w z : Z) : bool := (0 <=? z) && (z <? 2 ^ w).
Definition in_s (w z : Z) : bool := (- 2 ^ (w - 1) <=? z) && (z <? 2 ^ (w - 1)).

(* Checked (debug-build) arithmetic: out-of-range results panic. *)
Definition chk_u (w z : Z) : outcome Z := if in_u w z then Ok z else Panic.
Definition chk_s (w z : Z) : outcome Z := if in_s w z then Ok z else Panic.

Fixpoint mapM {A B} (f : A -> outcome B) (l : list A) : outcome (list B) :=
  match l with
  | [] => Ok []
  | x :: r => let? y := f x in let? ys := mapM f r in Ok (y :: ys)
  end.

Definition zlen {A} (l : list A) : Z := Z.of_nat (length l).

Lemma zlen_nonneg {A} (l : list A) : 0 <= zlen l.
Proof. unfold zlen; lia. Qed.
Lemma zlen_app {A} (l r : list A) : zlen (l ++ r) = zlen l + zlen r.
Proof. unfold zlen; rewrite app_length; lia. Qed.
Lemma zlen_cons {A} (x : A) l : zlen (x :: l) = 1 + zlen l.
Proof. unfold zlen; cbn [length]; lia. Qed.
Lemma zlen_nil {A} : zlen (@nil A) = 0.
Proof. reflexivity. Qed.

Lemma Ok_inj {A} (a b : A) : Ok a = Ok b -> a = b.
Proof. intros H. injection H. auto. Qed.
