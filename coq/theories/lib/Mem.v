(* In-memory recording device shared by the genapi models: memory image at [base, base+|mem|),
   access log (newest first), scripted rejections by access index. *)
From Cam Require Export Outcome Bytes.

Definition E_DEVICE : Z := 30.
Definition E_NOT_WRITABLE : Z := 31.
Definition E_INVALID_NODE : Z := 32.
Definition E_INVALID_DATA : Z := 33.
Definition E_CHUNK_MISSING : Z := 34.
Definition E_INVALID_BUFFER : Z := 35.

Inductive access := RdAcc (a n : Z) | WrAcc (a : Z) (bs : list Z).

Record dev := { d_base : Z; d_mem : list Z; d_log : list access; d_count : Z; d_rej : list Z }.

Definition mk_dev (base : Z) (mem : list Z) : dev :=
  {| d_base := base; d_mem := mem; d_log := []; d_count := 0; d_rej := [] |}.

Definition zmem (x : Z) (l : list Z) : bool := existsb (Z.eqb x) l.

Definition splice (off : Z) (bs mem : list Z) : list Z :=
  take off mem ++ bs ++ drop (off + zlen bs) mem.

(* range check of one access; consumes one access index *)
Definition dev_check (d : dev) (a n : Z) : outcome Z :=
  if zmem (d_count d) (d_rej d) then Err E_DEVICE else
  let off := a - d_base d in
  if (off <? 0) || (zlen (d_mem d) <? off + n) then Err E_DEVICE else Ok off.

Definition dev_read (d : dev) (a n : Z) : outcome (list Z) * dev :=
  let d' := {| d_base := d_base d; d_mem := d_mem d; d_log := RdAcc a n :: d_log d;
               d_count := d_count d + 1; d_rej := d_rej d |} in
  match dev_check d a n with
  | Ok off => (Ok (take n (drop off (d_mem d))), d')
  | Err e => (Err e, d')
  | Panic => (Panic, d')
  end.

Definition dev_write (d : dev) (a : Z) (bs : list Z) : outcome unit * dev :=
  match dev_check d a (zlen bs) with
  | Ok off =>
    (Ok tt, {| d_base := d_base d; d_mem := splice off bs (d_mem d); d_log := WrAcc a bs :: d_log d;
               d_count := d_count d + 1; d_rej := d_rej d |})
  | Err e =>
    (Err e, {| d_base := d_base d; d_mem := d_mem d; d_log := WrAcc a bs :: d_log d;
               d_count := d_count d + 1; d_rej := d_rej d |})
  | Panic => (Panic, d)
  end.

Definition dev_reject (d : dev) (k : Z) : dev :=
  {| d_base := d_base d; d_mem := d_mem d; d_log := d_log d; d_count := d_count d;
     d_rej := (d_count d + k) :: d_rej d |}.

Definition show_access (x : access) : list Z :=
  match x with
  | RdAcc a n => [0; a; n]
  | WrAcc a bs => 1 :: a :: zlen bs :: bs
  end.

Definition show_dev (d : dev) : list Z :=
  (-7) :: zlen (d_log d) :: flat_map show_access (rev (d_log d)) ++ (-8) :: d_mem d.

Definition writes_of (l : list access) : list access :=
  filter (fun x => match x with WrAcc _ _ => true | _ => false end) l.
