(* Conversions between integers and byte slices as tools/translate_codec.py emits them.
   [c_from_bytes w signed be bs]: `T::from_le_bytes(slice.try_into().unwrap())` (from_be_bytes when [be]) for the
   w-bit integer type T: try_into::<[u8; w/8]> fails - and unwrap panics - unless the slice has exactly w/8 bytes; the
   value is the number the bytes spell, read as two's complement when T is signed.
   [c_to_bytes w be len v]: `buf.copy_from_slice(&(v as T).to_le_bytes())` for a buffer of [len] bytes: `as` keeps the
   low w bits, copy_from_slice panics unless the two lengths agree. *)
From Cam Require Export Outcome Bytes RustInt.

Definition c_from_bytes (w : Z) (signed be : bool) (bs : list Z) : outcome Z :=
  if zlen bs =? w / 8 then
    let u := of_le (if be then rev bs else bs) in
    Ok (if signed then sw w u else u)
  else Panic.

Definition c_to_bytes (w : Z) (be : bool) (len v : Z) : outcome (list Z) :=
  if len =? w / 8 then
    let img := le_bytes (Z.to_nat (w / 8)) (v mod 2 ^ w) in
    Ok (if be then rev img else img)
  else Panic.
