(* Debug-build semantics of the Rust integer operations that tools/translate_code.py emits (unsigned types; the width
   w is the number of bits of the type).  Overflow checks are on: `-`, `+` outside the type panic; `/` and `%` by zero
   panic; `as` between unsigned types truncates; checked_add / try_into report failure as a value. *)
From Cam Require Export Outcome.

Definition r_cast (w x : Z) : Z := x mod 2 ^ w.
Definition r_sub (w a b : Z) : outcome Z := if a - b <? 0 then Panic else Ok (a - b).
Definition r_add (w a b : Z) : outcome Z := if a + b <? 2 ^ w then Ok (a + b) else Panic.
Definition r_checked_add (w a b : Z) : option Z := if a + b <? 2 ^ w then Some (a + b) else None.
Definition r_not (w a : Z) : Z := 2 ^ w - 1 - a.
Definition r_and (a b : Z) : Z := Z.land a b.
Definition r_div (a b : Z) : outcome Z := if b =? 0 then Panic else Ok (a / b).
Definition r_rem (a b : Z) : outcome Z := if b =? 0 then Panic else Ok (a mod b).
Definition r_try_into (w x e : Z) : outcome Z := if x <? 2 ^ w then Ok x else Err e.
Definition r_ok_or {A} (o : option A) (e : Z) : outcome A := match o with Some a => Ok a | None => Err e end.

(* &data[lo..hi] on a slice of length dlen: the index range, or a panic (lo > hi or hi > dlen) *)
Definition r_slice (dlen lo hi : Z) : outcome (Z * Z) :=
  if (lo <=? hi) && (hi <=? dlen) then Ok (lo, hi) else Panic.
(* Result::unwrap *)
Definition r_unwrap {A} (x : outcome A) : outcome A := match x with Err _ => Panic | o => o end.

(* ---- operations emitted by tools/translate_bitmask.py ------------------------------------------------------------
   Unsigned values are their numbers, signed values (iN) are signed integers; the bitwise operations on iN act on the
   two's complement pattern [wrapu w] and read the result back with [sw w].  Shifts panic (debug build) when the amount
   is not in 0..w-1 and otherwise drop the bits that leave the type; `>>` on iN is arithmetic. *)
Definition r_mul (w a b : Z) : outcome Z := if a * b <? 2 ^ w then Ok (a * b) else Panic.
Definition shift_ok (w s : Z) : bool := (0 <=? s) && (s <? w).
Definition r_shl (w a s : Z) : outcome Z := if shift_ok w s then Ok ((a * 2 ^ s) mod 2 ^ w) else Panic.
Definition r_shr (w a s : Z) : outcome Z := if shift_ok w s then Ok (Z.shiftr a s) else Panic.
Definition i_add (w a b : Z) : outcome Z := chk_s w (a + b).
Definition i_sub (w a b : Z) : outcome Z := chk_s w (a - b).
Definition i_mul (w a b : Z) : outcome Z := chk_s w (a * b).
Definition i_neg (w a : Z) : outcome Z := chk_s w (- a).
Definition i_shl (w a s : Z) : outcome Z := if shift_ok w s then Ok (sw w (a * 2 ^ s)) else Panic.
Definition i_shr (w a s : Z) : outcome Z := if shift_ok w s then Ok (Z.shiftr a s) else Panic.
Definition i_and (w a b : Z) : Z := sw w (Z.land (wrapu w a) (wrapu w b)).
Definition i_or (w a b : Z) : Z := sw w (Z.lor (wrapu w a) (wrapu w b)).
Definition i_xor (w a b : Z) : Z := sw w (Z.lxor (wrapu w a) (wrapu w b)).
Definition i_not (w a : Z) : Z := sw w (Z.lxor (2 ^ w - 1) (wrapu w a)).
