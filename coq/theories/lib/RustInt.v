(* Debug-build semantics of the Rust integer operations that tools/translate_code.py emits (unsigned types; the width
   w is the number of bits of the type).  Overflow checks are on: `-`, `+` outside the type panic; `/` and `%` by zero
   panic; `as` between unsigned types truncates; checked_add / try_into report failure as a value. *)
From Cam Require Export Outcome.

Definition r_cast (w x : Z) : Z := x mod 2 ^ w.
Definition r_sub (w a b : Z) : outcome Z := if a - b <? 0 then Panic else Ok (a - b).
Definition r_add (w a b : Z) : outcome Z := if a + b <? 2 ^ w then Ok (a + b) else Panic.
Definition r_checked_add (w a b : Z) : option Z := if a + b <? 2 ^ w then Some (a + b) else None.
Definition r_not (w a : Z) : Z := 2 ^ w - 1 - a.
Definition r_and (a b : Z) : Z := Z.land a b.
Definition r_div (a b : Z) : outcome Z := if b =? 0 then Panic else Ok (a / b).
Definition r_rem (a b : Z) : outcome Z := if b =? 0 then Panic else Ok (a mod b).
Definition r_try_into (w x e : Z) : outcome Z := if x <? 2 ^ w then Ok x else Err e.
Definition r_ok_or {A} (o : option A) (e : Z) : outcome A := match o with Some a => Ok a | None => Err e end.

(* &data[lo..hi] on a slice of length dlen: the index range, or a panic (lo > hi or hi > dlen) *)
Definition r_slice (dlen lo hi : Z) : outcome (Z * Z) :=
  if (lo <=? hi) && (hi <=? dlen) then Ok (lo, hi) else Panic.
(* Result::unwrap *)
Definition r_unwrap {A} (x : outcome A) : outcome A := match x with Err _ => Panic | o => o end.
