(* C04 - Register caching is observationally transparent.  Statements only; proofs in
   proofs/P_C04.v.  Model: model/Cache.v ([run on ver y base image vars rej h]: on = true is the
   context built with DefaultCacheStore, on = false the one built with .no_cache() = CacheSink;
   ver = cur is the code after the three "fix:" commits of this property, pinned the code before).
   Vocabulary: spec/CacheSpec.v ([Declared], [Inv], [Coh], [sublist]).  [Declared] is the hypothesis as the
   property text words it: a pInvalidator for every OTHER register whose bytes a register can alter; nothing is
   asked of a register with respect to its own cache keys.
   A register's length is [len_of r vars]: the immediate <Length>, or the current value of the variable
   node named by <pLength>; cache keys are (node, address, current length).
   The rejection script [rej] lists the (write-access) indices of device writes that fail
   transiently, histories add more with OpReject; accesses outside the image fail always. *)
From Cam Require Import Outcome Bytes Mem BitField RegCodec Cache CacheSpec P_C01 P_C04 CacheClient P_C04c.

(* the invariant holds initially, every operation preserves it (also operations the device
   rejects), and it implies that every cache entry equals device memory at its key *)
Theorem C04_coherence_init : forall y base image vars rej, Inv y (init base image vars rej).
Proof. exact inv_init. Qed.
Print Assumptions C04_coherence_init.

Theorem C04_coherence_inv : forall y, Declared y -> forall op s,
  Inv y s -> Inv y (snd (step true cur y op s)).
Proof. exact inv_step. Qed.
Print Assumptions C04_coherence_inv.

Theorem C04_coherence_entries : forall y s, Inv y s -> Coh s.
Proof. exact inv_coh. Qed.
Print Assumptions C04_coherence_entries.

(* for every system that declares its dependencies, every initial image, every initial value of
   the variables, every rejection script and every history of any length: same results, same
   final device image *)
Theorem C04_transparent : forall y, Declared y -> forall base image vars rej h,
  outputs (run true cur y base image vars rej h) = outputs (run false cur y base image vars rej h) /\
  final_mem (run true cur y base image vars rej h) = final_mem (run false cur y base image vars rej h).
Proof. exact transparent. Qed.
Print Assumptions C04_transparent.

(* caching never adds a device access, and never drops or changes a write *)
Theorem C04_no_extra_access : forall y, Declared y -> forall base image vars rej h,
  sublist (access_log (run true cur y base image vars rej h))
          (access_log (run false cur y base image vars rej h)) /\
  writes_of (access_log (run true cur y base image vars rej h)) =
  writes_of (access_log (run false cur y base image vars rej h)).
Proof. exact no_extra_access. Qed.
Print Assumptions C04_no_extra_access.

(* a NoCache register never has a cache entry ... *)
Theorem C04_nocache_never_served : forall y, Declared y -> forall base image vars rej h n a l bs r,
  In ((n, a, l), bs) (c_cache (snd (run true cur y base image vars rej h))) ->
  node_at y n = Some (NReg r) -> g_mode r <> NC.
Proof. exact nocache_never_served. Qed.
Print Assumptions C04_nocache_never_served.

(* ... so every value() of it reads the device *)
Theorem C04_nocache_value_reads : forall y s n r a,
  Inv y s -> node_at y n = Some (NReg r) -> cacheable r = false -> 0 <= len_of r (c_vars s) ->
  In (g_kind r) [0; 1; 2; 4] -> address r (c_vars s) = Ok a ->
  d_log (c_dev (snd (step true cur y (OpValue n) s))) = RdAcc a (len_of r (c_vars s)) :: d_log (c_dev s).
Proof. exact nocache_value_reads. Qed.
Print Assumptions C04_nocache_value_reads.

(* in every caching mode: after a successful write of [buf] through register n (every set_value
   and IRegister::write ends in write_and_cache) the bytes the next value() decodes are [buf] *)
Theorem C04_own_write_visible : forall y n r buf s s1,
  Inv y s -> node_at y n = Some (NReg r) ->
  m_write_and_cache true cur y n r buf s = (Ok tt, s1) ->
  fst (m_cached_bytes true n r s1) = Ok buf.
Proof. exact own_write_visible. Qed.
Print Assumptions C04_own_write_visible.

(* at the level of operations, for IntReg in every caching mode: set_value x; value returns the decoding
   of the image of x - hence x itself for every x the register can hold (C01's round trip) *)
Theorem C04_own_write_visible_intreg : forall y n r x s,
  Inv y s -> node_at y n = Some (NReg r) -> g_kind r = 0 ->
  supported_int_len (len_of r (c_vars s)) = true -> int_in_range (len_of r (c_vars s)) (g_sign r) x ->
  fst (step true cur y (OpSet n [x]) s) = sh_unit (Ok tt) ->
  fst (step true cur y (OpValue n) (snd (step true cur y (OpSet n [x]) s))) = sh_z (Ok x).
Proof. exact own_write_intreg_value. Qed.
Print Assumptions C04_own_write_visible_intreg.

(* the hypotheses are satisfiable by a selector-addressed bank with an aliasing register, and
   caching then really saves accesses *)
Theorem C04_hypotheses_satisfiable :
  Declared ex_bank /\
  let h := [OpValue 1; OpValue 1; OpValue 2; OpSet 0 [1]; OpValue 1; OpSet 2 [7]; OpValue 1; OpValue 2; OpValue 2] in
  let lc := access_log (run true cur ex_bank 256 wit_image [0] [] h) in
  let lu := access_log (run false cur ex_bank 256 wit_image [0] [] h) in
  (length lc < length lu)%nat.
Proof. exact hypotheses_satisfiable. Qed.
Print Assumptions C04_hypotheses_satisfiable.

(* [Declared] is decidable for systems without index and length variables *)
Theorem C04_declared_static : forall y, declared_static y = true -> Declared y.
Proof. exact declared_static_sound. Qed.
Print Assumptions C04_declared_static.

(* ADAPTIVE CLIENTS (model/CacheClient.v).  A history is a fixed operation list; a [client] chooses every next
   operation from what the previous ones printed - any evaluator of a feature graph over the register layer
   (pValue chains, pIndex tables, selectors, swiss knives, converters: property C03), any polling loop.  For every
   such client tree, every declared system, image, variable values and rejection script: the cached and the
   uncached run print the same trace, give the same answer and leave the same device memory ... *)
Theorem C04_client_transparent : forall y, Declared y -> forall base image vars rej (c : client),
  cl_trace (client_run true cur y base image vars rej c) = cl_trace (client_run false cur y base image vars rej c) /\
  cl_answer (client_run true cur y base image vars rej c) = cl_answer (client_run false cur y base image vars rej c) /\
  cl_mem (client_run true cur y base image vars rej c) = cl_mem (client_run false cur y base image vars rej c).
Proof. exact client_transparent. Qed.
Print Assumptions C04_client_transparent.

(* ... take the same branch at every step (perform the same operations) ... *)
Theorem C04_client_same_branches : forall y, Declared y -> forall base image vars rej (c : client),
  history_of true cur y c (init base image vars rej) = history_of false cur y c (init base image vars rej).
Proof. exact client_same_branches. Qed.
Print Assumptions C04_client_same_branches.

(* ... and the cached run accesses the device at most where the uncached one does, with identical writes *)
Theorem C04_client_no_extra_access : forall y, Declared y -> forall base image vars rej (c : client),
  sublist (cl_log (client_run true cur y base image vars rej c)) (cl_log (client_run false cur y base image vars rej c)) /\
  writes_of (cl_log (client_run true cur y base image vars rej c)) =
  writes_of (cl_log (client_run false cur y base image vars rej c)).
Proof. exact client_no_extra_access. Qed.
Print Assumptions C04_client_no_extra_access.

(* a client run is exactly the run of the history it performs (so the correspondence check, which replays
   histories on the code cached and uncached, covers adaptive evaluators), and a history is a client *)
Theorem C04_client_is_history : forall on v y (c : client) s,
  cl_trace (run_client on v y c s) = fst (run_ops on v y (history_of on v y c s) s) /\
  snd (run_client on v y c s) = snd (run_ops on v y (history_of on v y c s) s).
Proof. exact client_is_history. Qed.
Print Assumptions C04_client_is_history.

Theorem C04_history_is_client : forall on v y h s,
  cl_trace (run_client on v y (client_of_history h) s) = fst (run_ops on v y h s) /\
  snd (run_client on v y (client_of_history h) s) = snd (run_ops on v y h s).
Proof. exact history_is_client. Qed.
Print Assumptions C04_history_is_client.

(* non-vacuity: a client whose selector write depends on what it read *)
Theorem C04_client_example :
  Declared ex_bank /\
  let xc := client_run true cur ex_bank 256 wit_image [0] [] ex_client in
  let xu := client_run false cur ex_bank 256 wit_image [0] [] ex_client in
  cl_answer xc = cl_answer xu /\ cl_answer xc <> [] /\
  history_of true cur ex_bank ex_client (init 256 wit_image [0] []) =
    [OpValue 2; OpSet 0 [1]; OpValue 1; OpValue 1] /\
  (length (cl_log xc) < length (cl_log xu))%nat.
Proof. exact client_example. Qed.
Print Assumptions C04_client_example.

(* REGISTERS WHOSE LENGTH IS A VARIABLE (<pLength>).  They are ordinary members of the systems all theorems above
   quantify over ([g_len r = LVar slot]); [Declared] compares byte ranges under every producible length.
   Non-vacuity: a StringReg whose length shrinks (8 -> 4 -> 2) and grows again along a history and is written while
   short, with an aliasing IntReg: [Declared] holds, both runs print the same (the listed values), and the cached
   run needs 8 device accesses where the uncached one needs 14 *)
Theorem C04_plength_example :
  Declared ex_plen /\
  let xc := run true cur ex_plen 256 ex_plen_image [8] [] ex_plen_history in
  let xu := run false cur ex_plen 256 ex_plen_image [8] [] ex_plen_history in
  outputs xc = outputs xu /\ final_mem xc = final_mem xu /\
  outputs xc = [10; 0; 8; 65; 66; 67; 68; 69; 70; 71; 72;  10; 0; 8; 65; 66; 67; 68; 69; 70; 71; 72;  1; 0;
                6; 0; 4; 65; 66; 67; 68;  6; 0; 4; 65; 66; 67; 68;  1; 0;
                10; 0; 8; 65; 66; 67; 68; 69; 70; 71; 72;  1; 0;  5; 0; 3; 97; 98; 99;  1; 0;
                4; 0; 2; 97; 98;  1; 0;  5; 0; 3; 97; 98; 99;  2; 0; 99;  2; 0; 99;  1; 0;
                6; 0; 4; 97; 98; 49; 49;  1; 0;  6; 0; 4; 97; 98; 49; 49] /\
  (length (access_log xc) < length (access_log xu))%nat.
Proof. exact plength_example. Qed.
Print Assumptions C04_plength_example.

(* the cache key includes the length: in every state satisfying the invariant (every reachable state, by
   C04_coherence_init / _inv) a cache entry under length l holds exactly l bytes, a block found under the
   register's current key has exactly the register's current length, and so have the bytes with_cache_or_read
   hands to the decoder (int_from_slice, float_from_slice and the string scan take the width from them) *)
Theorem C04_key_includes_length : forall y s, Inv y s ->
  (forall n a l bs, In ((n, a, l), bs) (c_cache s) -> zlen bs = l) /\
  (forall n r a bs, address r (c_vars s) = Ok a ->
     c_find (n, a, len_of r (c_vars s)) (c_cache s) = Some bs -> zlen bs = len_of r (c_vars s)) /\
  (forall n r bs s', m_cached_bytes true n r s = (Ok bs, s') -> zlen bs = len_of r (c_vars s)).
Proof. exact key_includes_length. Qed.
Print Assumptions C04_key_includes_length.

(* the hypothesis the theorems needed before the third fix (a register whose own keys can overlap - one address
   under two lengths, two selector positions closer than the length - is its own pInvalidator) implies [Declared] *)
Theorem C04_declared_weakened : forall y, DeclaredOwnKeys y -> Declared y.
Proof. exact declared_weakened. Qed.
Print Assumptions C04_declared_weakened.

(* The code before the "fix:" commits violates the property. *)

(* (a) WriteAround: write_and_cache neither updated nor dropped the register's own entry *)
Theorem C04_transparent_refuted_writearound :
  exists y base image vars rej h, Declared y /\
    outputs (run true pinned y base image vars rej h) <> outputs (run false pinned y base image vars rej h).
Proof. exact refuted_writearound. Qed.
Print Assumptions C04_transparent_refuted_writearound.

(* (b) IRegister::write never called invalidate_cache_by: a WriteThrough-only system *)
Theorem C04_transparent_refuted_rawwrite :
  exists y base image vars rej h, Declared y /\
    outputs (run true pinned y base image vars rej h) <> outputs (run false pinned y base image vars rej h) /\
    (forall n r, node_at y n = Some (NReg r) -> g_mode r = WT).
Proof. exact refuted_rawwrite_pinned. Qed.
Print Assumptions C04_transparent_refuted_rawwrite.

Theorem C04_own_write_visible_refuted :
  exists y base image h n r buf s1,
    node_at y n = Some (NReg r) /\
    m_write_and_cache true pinned y n r buf (snd (run true pinned y base image [] [] h)) = (Ok tt, s1) /\
    fst (m_cached_bytes true n r s1) <> Ok buf.
Proof. exact own_write_refuted. Qed.
Print Assumptions C04_own_write_visible_refuted.

(* (c) write_and_cache of a WriteThrough register kept the blocks the register had cached under its other keys.
   A register with a variable length and NO pInvalidator (none is owed: [DeclaredOthers] = [Declared]): read 8
   bytes, length := 4, write, length := 8, read answered the block cached before the write - for the pinned code
   and still after the first two fixes *)
Theorem C04_transparent_refuted_ownkeys :
  exists y base image vars rej h, DeclaredOthers y /\
    outputs (run true pinned y base image vars rej h) <> outputs (run false pinned y base image vars rej h) /\
    outputs (run true before_fix_own y base image vars rej h) <> outputs (run false before_fix_own y base image vars rej h).
Proof. exact refuted_ownkeys. Qed.
Print Assumptions C04_transparent_refuted_ownkeys.

(* ... and without any variable length: a self-overlapping selector bank (read slot 1, write slot 0, read slot 1) *)
Theorem C04_transparent_refuted_ownkeys_bank :
  exists y base image vars rej h, DeclaredOthers y /\
    (forall n r, node_at y n = Some (NReg r) -> exists l, g_len r = LImm l) /\
    outputs (run true before_fix_own y base image vars rej h) <> outputs (run false before_fix_own y base image vars rej h).
Proof. exact refuted_ownkeys_bank. Qed.
Print Assumptions C04_transparent_refuted_ownkeys_bank.

(* the repaired code on the same systems and histories (instances of C04_transparent, spelled out): both are
   [Declared] without any pInvalidator, the runs agree, the last read sees the write *)
Theorem C04_ownkeys_repaired_example :
  Declared ex_plen_noself /\ Declared ex_bank_noself /\
  outputs (run true cur ex_plen_noself 256 wit_image [8] [] ownkeys_history) =
    outputs (run false cur ex_plen_noself 256 wit_image [8] [] ownkeys_history) /\
  outputs (run true cur ex_plen_noself 256 wit_image [8] [] ownkeys_history) =
    [2; 0; -1; 1; 0; 1; 0; 1; 0; 2; 0; -4278058236] /\
  outputs (run true cur ex_bank_noself 256 wit_image [0] [] bank_history) =
    outputs (run false cur ex_bank_noself 256 wit_image [0] [] bank_history) /\
  outputs (run true cur ex_bank_noself 256 wit_image [0] [] bank_history) =
    [1; 0; 2; 0; 4294967295; 1; 0; 1; 0; 1; 0; 2; 0; 4294902018].
Proof. exact ownkeys_repaired. Qed.
Print Assumptions C04_ownkeys_repaired_example.
