(* C04 - Register caching is observationally transparent.  Statements only; proofs in
   proofs/P_C04.v.  Model: model/Cache.v ([run on ver y base image vars rej h]: on = true is the
   context built with DefaultCacheStore, on = false the one built with .no_cache() = CacheSink;
   ver = cur is the code after the three "fix:" commits of this property, pinned the code before).
   Vocabulary: spec/CacheSpec.v ([Declared], [Inv], [Coh], [sublist]).  [Declared] is the hypothesis as the
   property text words it: a pInvalidator for every OTHER register whose bytes a register can alter; nothing is
   asked of a register with respect to its own cache keys.
   A register's length is [len_of r vars]: the immediate <Length>, or the current value of the variable
   node named by <pLength>; cache keys are (node, address, current length).
   The rejection script [rej] lists the (write-access) indices of device writes that fail
   transiently, histories add more with OpReject; accesses outside the image fail always. *)
From Cam Require Import Outcome Bytes Mem BitField RegCodec Cache CacheSpec P_C01 P_C04 CacheClient P_C04c.
From Cam Require Import CacheOps CachePathSrc P_C04s.

(* the invariant holds initially, every operation preserves it (also operations the device
   rejects), and it implies that every cache entry equals device memory at its key *)
Theorem C04_coherence_init : forall y base image vars rej, Inv y (init base image vars rej).
Proof. exact inv_init. Qed.
Print Assumptions C04_coherence_init.

Theorem C04_coherence_inv : forall y, Declared y -> forall op s,
  Inv y s -> Inv y (snd (step true cur y op s)).
Proof. exact inv_step. Qed.
Print Assumptions C04_coherence_inv.

Theorem C04_coherence_entries : forall y s, Inv y s -> Coh s.
Proof. exact inv_coh. Qed.
Print Assumptions C04_coherence_entries.

(* for every system that declares its dependencies, every initial image, every initial value of
   the variables, every rejection script and every history of any length: same results, same
   final device image *)
Theorem C04_transparent : forall y, Declared y -> forall base image vars rej h,
  outputs (run true cur y base image vars rej h) = outputs (run false cur y base image vars rej h) /\
  final_mem (run true cur y base image vars rej h) = final_mem (run false cur y base image vars rej h).
Proof. exact transparent. Qed.
Print Assumptions C04_transparent.

(* caching never adds a device access, and never drops or changes a write *)
Theorem C04_no_extra_access : forall y, Declared y -> forall base image vars rej h,
  sublist (access_log (run true cur y base image vars rej h))
          (access_log (run false cur y base image vars rej h)) /\
  writes_of (access_log (run true cur y base image vars rej h)) =
  writes_of (access_log (run false cur y base image vars rej h)).
Proof. exact no_extra_access. Qed.
Print Assumptions C04_no_extra_access.

(* a NoCache register never has a cache entry ... *)
Theorem C04_nocache_never_served : forall y, Declared y -> forall base image vars rej h n a l bs r,
  In ((n, a, l), bs) (c_cache (snd (run true cur y base image vars rej h))) ->
  node_at y n = Some (NReg r) -> g_mode r <> NC.
Proof. exact nocache_never_served. Qed.
Print Assumptions C04_nocache_never_served.

(* ... so every value() of it reads the device *)
Theorem C04_nocache_value_reads : forall y s n r a,
  Inv y s -> node_at y n = Some (NReg r) -> cacheable r = false -> 0 <= len_of r (c_vars s) ->
  In (g_kind r) [0; 1; 2; 4] -> address r (c_vars s) = Ok a ->
  d_log (c_dev (snd (step true cur y (OpValue n) s))) = RdAcc a (len_of r (c_vars s)) :: d_log (c_dev s).
Proof. exact nocache_value_reads. Qed.
Print Assumptions C04_nocache_value_reads.

(* in every caching mode: after a successful write of [buf] through register n (every set_value
   and IRegister::write ends in write_and_cache) the bytes the next value() decodes are [buf] *)
Theorem C04_own_write_visible : forall y n r buf s s1,
  Inv y s -> node_at y n = Some (NReg r) ->
  m_write_and_cache true cur y n r buf s = (Ok tt, s1) ->
  fst (m_cached_bytes true n r s1) = Ok buf.
Proof. exact own_write_visible. Qed.
Print Assumptions C04_own_write_visible.

(* at the level of operations, for IntReg in every caching mode: set_value x; value returns the decoding
   of the image of x - hence x itself for every x the register can hold (C01's round trip) *)
Theorem C04_own_write_visible_intreg : forall y n r x s,
  Inv y s -> node_at y n = Some (NReg r) -> g_kind r = 0 ->
  supported_int_len (len_of r (c_vars s)) = true -> int_in_range (len_of r (c_vars s)) (g_sign r) x ->
  fst (step true cur y (OpSet n [x]) s) = sh_unit (Ok tt) ->
  fst (step true cur y (OpValue n) (snd (step true cur y (OpSet n [x]) s))) = sh_z (Ok x).
Proof. exact own_write_intreg_value. Qed.
Print Assumptions C04_own_write_visible_intreg.

(* the hypotheses are satisfiable by a selector-addressed bank with an aliasing register, and
   caching then really saves accesses *)
Theorem C04_hypotheses_satisfiable :
  Declared ex_bank /\
  let h := [OpValue 1; OpValue 1; OpValue 2; OpSet 0 [1]; OpValue 1; OpSet 2 [7]; OpValue 1; OpValue 2; OpValue 2] in
  let lc := access_log (run true cur ex_bank 256 wit_image [0] [] h) in
  let lu := access_log (run false cur ex_bank 256 wit_image [0] [] h) in
  (length lc < length lu)%nat.
Proof. exact hypotheses_satisfiable. Qed.
Print Assumptions C04_hypotheses_satisfiable.

(* [Declared] is decidable for systems without index and length variables *)
Theorem C04_declared_static : forall y, declared_static y = true -> Declared y.
Proof. exact declared_static_sound. Qed.
Print Assumptions C04_declared_static.

(* ADAPTIVE CLIENTS (model/CacheClient.v).  A history is a fixed operation list; a [client] chooses every next
   operation from what the previous ones printed - any evaluator of a feature graph over the register layer
   (pValue chains, pIndex tables, selectors, swiss knives, converters: property C03), any polling loop.  For every
   such client tree, every declared system, image, variable values and rejection script: the cached and the
   uncached run print the same trace, give the same answer and leave the same device memory ... *)
Theorem C04_client_transparent : forall y, Declared y -> forall base image vars rej (c : client),
  cl_trace (client_run true cur y base image vars rej c) = cl_trace (client_run false cur y base image vars rej c) /\
  cl_answer (client_run true cur y base image vars rej c) = cl_answer (client_run false cur y base image vars rej c) /\
  cl_mem (client_run true cur y base image vars rej c) = cl_mem (client_run false cur y base image vars rej c).
Proof. exact client_transparent. Qed.
Print Assumptions C04_client_transparent.

(* ... take the same branch at every step (perform the same operations) ... *)
Theorem C04_client_same_branches : forall y, Declared y -> forall base image vars rej (c : client),
  history_of true cur y c (init base image vars rej) = history_of false cur y c (init base image vars rej).
Proof. exact client_same_branches. Qed.
Print Assumptions C04_client_same_branches.

(* ... and the cached run accesses the device at most where the uncached one does, with identical writes *)
Theorem C04_client_no_extra_access : forall y, Declared y -> forall base image vars rej (c : client),
  sublist (cl_log (client_run true cur y base image vars rej c)) (cl_log (client_run false cur y base image vars rej c)) /\
  writes_of (cl_log (client_run true cur y base image vars rej c)) =
  writes_of (cl_log (client_run false cur y base image vars rej c)).
Proof. exact client_no_extra_access. Qed.
Print Assumptions C04_client_no_extra_access.

(* a client run is exactly the run of the history it performs (so the correspondence check, which replays
   histories on the code cached and uncached, covers adaptive evaluators), and a history is a client *)
Theorem C04_client_is_history : forall on v y (c : client) s,
  cl_trace (run_client on v y c s) = fst (run_ops on v y (history_of on v y c s) s) /\
  snd (run_client on v y c s) = snd (run_ops on v y (history_of on v y c s) s).
Proof. exact client_is_history. Qed.
Print Assumptions C04_client_is_history.

Theorem C04_history_is_client : forall on v y h s,
  cl_trace (run_client on v y (client_of_history h) s) = fst (run_ops on v y h s) /\
  snd (run_client on v y (client_of_history h) s) = snd (run_ops on v y h s).
Proof. exact history_is_client. Qed.
Print Assumptions C04_history_is_client.

(* non-vacuity: a client whose selector write depends on what it read *)
Theorem C04_client_example :
  Declared ex_bank /\
  let xc := client_run true cur ex_bank 256 wit_image [0] [] ex_client in
  let xu := client_run false cur ex_bank 256 wit_image [0] [] ex_client in
  cl_answer xc = cl_answer xu /\ cl_answer xc <> [] /\
  history_of true cur ex_bank ex_client (init 256 wit_image [0] []) =
    [OpValue 2; OpSet 0 [1]; OpValue 1; OpValue 1] /\
  (length (cl_log xc) < length (cl_log xu))%nat.
Proof. exact client_example. Qed.
Print Assumptions C04_client_example.

(* REGISTERS WHOSE LENGTH IS A VARIABLE (<pLength>).  They are ordinary members of the systems all theorems above
   quantify over ([g_len r = LVar slot]); [Declared] compares byte ranges under every producible length.
   Non-vacuity: a StringReg whose length shrinks (8 -> 4 -> 2) and grows again along a history and is written while
   short, with an aliasing IntReg: [Declared] holds, both runs print the same (the listed values), and the cached
   run needs 8 device accesses where the uncached one needs 14 *)
Theorem C04_plength_example :
  Declared ex_plen /\
  let xc := run true cur ex_plen 256 ex_plen_image [8] [] ex_plen_history in
  let xu := run false cur ex_plen 256 ex_plen_image [8] [] ex_plen_history in
  outputs xc = outputs xu /\ final_mem xc = final_mem xu /\
  outputs xc = [10; 0; 8; 65; 66; 67; 68; 69; 70; 71; 72;  10; 0; 8; 65; 66; 67; 68; 69; 70; 71; 72;  1; 0;
                6; 0; 4; 65; 66; 67; 68;  6; 0; 4; 65; 66; 67; 68;  1; 0;
                10; 0; 8; 65; 66; 67; 68; 69; 70; 71; 72;  1; 0;  5; 0; 3; 97; 98; 99;  1; 0;
                4; 0; 2; 97; 98;  1; 0;  5; 0; 3; 97; 98; 99;  2; 0; 99;  2; 0; 99;  1; 0;
                6; 0; 4; 97; 98; 49; 49;  1; 0;  6; 0; 4; 97; 98; 49; 49] /\
  (length (access_log xc) < length (access_log xu))%nat.
Proof. exact plength_example. Qed.
Print Assumptions C04_plength_example.

(* the cache key includes the length: in every state satisfying the invariant (every reachable state, by
   C04_coherence_init / _inv) a cache entry under length l holds exactly l bytes, a block found under the
   register's current key has exactly the register's current length, and so have the bytes with_cache_or_read
   hands to the decoder (int_from_slice, float_from_slice and the string scan take the width from them) *)
Theorem C04_key_includes_length : forall y s, Inv y s ->
  (forall n a l bs, In ((n, a, l), bs) (c_cache s) -> zlen bs = l) /\
  (forall n r a bs, address r (c_vars s) = Ok a ->
     c_find (n, a, len_of r (c_vars s)) (c_cache s) = Some bs -> zlen bs = len_of r (c_vars s)) /\
  (forall n r bs s', m_cached_bytes true n r s = (Ok bs, s') -> zlen bs = len_of r (c_vars s)).
Proof. exact key_includes_length. Qed.
Print Assumptions C04_key_includes_length.

(* the hypothesis the theorems needed before the third fix (a register whose own keys can overlap - one address
   under two lengths, two selector positions closer than the length - is its own pInvalidator) implies [Declared] *)
Theorem C04_declared_weakened : forall y, DeclaredOwnKeys y -> Declared y.
Proof. exact declared_weakened. Qed.
Print Assumptions C04_declared_weakened.

(* The code before the "fix:" commits violates the property. *)

(* (a) WriteAround: write_and_cache neither updated nor dropped the register's own entry *)
Theorem C04_transparent_refuted_writearound :
  exists y base image vars rej h, Declared y /\
    outputs (run true pinned y base image vars rej h) <> outputs (run false pinned y base image vars rej h).
Proof. exact refuted_writearound. Qed.
Print Assumptions C04_transparent_refuted_writearound.

(* (b) IRegister::write never called invalidate_cache_by: a WriteThrough-only system *)
Theorem C04_transparent_refuted_rawwrite :
  exists y base image vars rej h, Declared y /\
    outputs (run true pinned y base image vars rej h) <> outputs (run false pinned y base image vars rej h) /\
    (forall n r, node_at y n = Some (NReg r) -> g_mode r = WT).
Proof. exact refuted_rawwrite_pinned. Qed.
Print Assumptions C04_transparent_refuted_rawwrite.

Theorem C04_own_write_visible_refuted :
  exists y base image h n r buf s1,
    node_at y n = Some (NReg r) /\
    m_write_and_cache true pinned y n r buf (snd (run true pinned y base image [] [] h)) = (Ok tt, s1) /\
    fst (m_cached_bytes true n r s1) <> Ok buf.
Proof. exact own_write_refuted. Qed.
Print Assumptions C04_own_write_visible_refuted.

(* (c) write_and_cache of a WriteThrough register kept the blocks the register had cached under its other keys.
   A register with a variable length and NO pInvalidator (none is owed: [DeclaredOthers] = [Declared]): read 8
   bytes, length := 4, write, length := 8, read answered the block cached before the write - for the pinned code
   and still after the first two fixes *)
Theorem C04_transparent_refuted_ownkeys :
  exists y base image vars rej h, DeclaredOthers y /\
    outputs (run true pinned y base image vars rej h) <> outputs (run false pinned y base image vars rej h) /\
    outputs (run true before_fix_own y base image vars rej h) <> outputs (run false before_fix_own y base image vars rej h).
Proof. exact refuted_ownkeys. Qed.
Print Assumptions C04_transparent_refuted_ownkeys.

(* ... and without any variable length: a self-overlapping selector bank (read slot 1, write slot 0, read slot 1) *)
Theorem C04_transparent_refuted_ownkeys_bank :
  exists y base image vars rej h, DeclaredOthers y /\
    (forall n r, node_at y n = Some (NReg r) -> exists l, g_len r = LImm l) /\
    outputs (run true before_fix_own y base image vars rej h) <> outputs (run false before_fix_own y base image vars rej h).
Proof. exact refuted_ownkeys_bank. Qed.
Print Assumptions C04_transparent_refuted_ownkeys_bank.

(* the repaired code on the same systems and histories (instances of C04_transparent, spelled out): both are
   [Declared] without any pInvalidator, the runs agree, the last read sees the write *)
Theorem C04_ownkeys_repaired_example :
  Declared ex_plen_noself /\ Declared ex_bank_noself /\
  outputs (run true cur ex_plen_noself 256 wit_image [8] [] ownkeys_history) =
    outputs (run false cur ex_plen_noself 256 wit_image [8] [] ownkeys_history) /\
  outputs (run true cur ex_plen_noself 256 wit_image [8] [] ownkeys_history) =
    [2; 0; -1; 1; 0; 1; 0; 1; 0; 2; 0; -4278058236] /\
  outputs (run true cur ex_bank_noself 256 wit_image [0] [] bank_history) =
    outputs (run false cur ex_bank_noself 256 wit_image [0] [] bank_history) /\
  outputs (run true cur ex_bank_noself 256 wit_image [0] [] bank_history) =
    [1; 0; 2; 0; 4294967295; 1; 0; 1; 0; 1; 0; 2; 0; 4294902018].
Proof. exact ownkeys_repaired. Qed.
Print Assumptions C04_ownkeys_repaired_example.

(* THE CACHING PATH TRANSLATED FROM THE SOURCE.  tools/translate_cachepath.py (re-run on /repo by every check) translates
   RegisterBase::{with_cache_or_read, read_and_cache, write_and_cache} (register_base.rs), IPort::{read, write} of PortNode
   (port.rs), the ValueCtxt forwarders (lib.rs), the traits CacheStore / CacheStoreBuilder and their implementations for
   DefaultCacheStore and CacheSink (store.rs, builder.rs) and RegisterBase::store_invalidators (parser/register_base.rs)
   into gen/CachePathSrc.v, over the operation vocabulary of model/CacheOps.v (HashMap = association list with hm_get /
   hm_insert / hm_upsert / hm_modify; a path = a computation over device, variables and the cache store; length(..),
   address(..), expect_iport_kind and the device are abstract there).  [model_store on y] is model/Cache.v's flat
   association list as an instance of the translated trait; [rb_of y r] a register of the model as a RegisterBase;
   [on_cst] runs a path on the model's state; [store_rel y st c]: the translated two-level store [st] answers every key
   as the model's list [c] and its invalidator table is y's pInvalidator relation; [sink_rel st c]: c = [];
   [same_run R a b]: same result / error, same device (memory, access log, write counter), same variables, stores
   related by R.  Lengths: 0 <= length < 2^63 (an i64; the model's GUARD excludes negative lengths). *)

(* write_and_cache: over the model's store the translated function IS m_write_and_cache (cached and uncached context);
   over the translated DefaultCacheStore / CacheSink it does the same from related states *)
Theorem C04_write_path_from_source : forall y n r buf,
  (forall on s, 0 <= len_of r (c_vars s) < 2 ^ 63 ->
     on_cst (src_RegisterBase_write_and_cache (model_store on y) (rb_of y r) n buf) s = m_write_and_cache on cur y n r buf s) /\
  (forall x s, st_rel (store_rel y) x s -> 0 <= len_of r (c_vars s) < 2 ^ 63 ->
     same_run (store_rel y) (src_RegisterBase_write_and_cache D_store (rb_of y r) n buf x)
                            (m_write_and_cache true cur y n r buf s)) /\
  (forall x s, st_rel sink_rel x s -> 0 <= len_of r (c_vars s) < 2 ^ 63 ->
     same_run sink_rel (src_RegisterBase_write_and_cache D_sink (rb_of y r) n buf x)
                       (m_write_and_cache false cur y n r buf s)).
Proof. exact write_path_from_source. Qed.
Print Assumptions C04_write_path_from_source.

(* with_cache_or_read (for every closure f) is m_cached_bytes followed by f; read_and_cache is m_read_and_cache when the
   buffer has the register's length and InvalidBuffer without a device access otherwise (the check m_raw_read makes) *)
Theorem C04_read_path_from_source : forall y n r,
  (forall on (A : Type) (f : list Z -> outcome A) s, 0 <= len_of r (c_vars s) < 2 ^ 63 ->
     on_cst (src_RegisterBase_with_cache_or_read (model_store on y) (rb_of y r) n f) s
     = mbind (m_cached_bytes on n r) (fun bs => mlift (f bs)) s) /\
  (forall on a l buf s, 0 <= l < 2 ^ 63 ->
     on_cst (src_RegisterBase_read_and_cache (model_store on y) (rb_of y r) n a l buf) s
     = if zlen buf =? l then m_read_and_cache on n r a l s else (Err E_INVALID_BUFFER, s)) /\
  (forall (A : Type) (f : list Z -> outcome A) x s, st_rel (store_rel y) x s -> 0 <= len_of r (c_vars s) < 2 ^ 63 ->
     same_run (store_rel y) (src_RegisterBase_with_cache_or_read D_store (rb_of y r) n f x)
                            (mbind (m_cached_bytes true n r) (fun bs => mlift (f bs)) s)) /\
  (forall (A : Type) (f : list Z -> outcome A) x s, st_rel sink_rel x s -> 0 <= len_of r (c_vars s) < 2 ^ 63 ->
     same_run sink_rel (src_RegisterBase_with_cache_or_read D_sink (rb_of y r) n f x)
                       (mbind (m_cached_bytes false n r) (fun bs => mlift (f bs)) s)) /\
  (forall a l buf x s, st_rel (store_rel y) x s -> 0 <= l < 2 ^ 63 -> zlen buf = l ->
     same_run (store_rel y) (src_RegisterBase_read_and_cache D_store (rb_of y r) n a l buf x)
                            (m_read_and_cache true n r a l s)).
Proof. exact read_path_from_source. Qed.
Print Assumptions C04_read_path_from_source.

(* the store: what the translated builder produces from a system's nodes is the empty cache with the system's
   pInvalidator table; every operation of the translated DefaultCacheStore (through the translated ValueCtxt forwarder)
   is the model's operation, for every store and key; so after ANY sequence of operations the translated store answers
   every key as the model's cache does; CacheSink never answers and the model with on = false keeps its cache empty *)
Theorem C04_store_from_source : forall y,
  store_rel y (build_store y) [] /\ sink_rel (build_sink y) [] /\
  (forall st c, store_rel y st c ->
     (forall n a l, src_ValueCtxt_get_cache D_store n a l st = c_find (n, a, l) c) /\
     (forall n a l d, store_rel y (src_ValueCtxt_cache_data D_store n a l d st) (c_put true (n, a, l) d c)) /\
     (forall n, store_rel y (src_ValueCtxt_invalidate_cache_by D_store n st) (c_inval_by y n c)) /\
     (forall n, store_rel y (src_ValueCtxt_invalidate_cache_of D_store n st) (c_inval_of n c)) /\
     store_rel y (src_ValueCtxt_clear_cache D_store st) []) /\
  (forall os n a l,
     src_ValueCtxt_get_cache D_store n a l (fold_left (fun u o => sop_src D_store o u) os (build_store y))
     = c_find (n, a, l) (fold_left (fun c o => sop_model true y o c) os [])) /\
  (forall os n a l,
     src_ValueCtxt_get_cache D_sink n a l (fold_left (fun u o => sop_src D_sink o u) os (build_sink y)) = None /\
     fold_left (fun c o => sop_model false y o c) os [] = []).
Proof. exact store_from_source. Qed.
Print Assumptions C04_store_from_source.

(* the property's clauses on the translated code alone (any RegisterBase, no model): after a successful write_and_cache
   of a WriteThrough register over the translated DefaultCacheStore the only block held for the node is the one just
   written, under (address, current length) *)
Theorem C04_write_through_of_source : forall self n buf x x',
  RegisterBase_cacheable self = CachingMode_WriteThrough ->
  src_RegisterBase_write_and_cache D_store self n buf x = (Ok tt, x') ->
  exists a, address (RegisterBase_reg self) (x_vars x) = Ok a /\
    forall a' l', src_ValueCtxt_get_cache D_store n a' l' (x_store x')
                  = if (a' =? a) && (l' =? len_of (RegisterBase_reg self) (x_vars x)) then Some buf else None.
Proof. exact write_through_of_source. Qed.
Print Assumptions C04_write_through_of_source.

(* a NoCache register never reaches cache_data, over any store: read_and_cache leaves the store as it was,
   write_and_cache only invalidates (by the register's id, then - inside Port::write - by the port's id) *)
Theorem C04_nocache_of_source : forall (U : Type) (D : src_CacheStore U) self n x,
  RegisterBase_cacheable self = CachingMode_NoCache ->
  (forall a l buf, x_store (snd (src_RegisterBase_read_and_cache D self n a l buf x)) = x_store x) /\
  (forall buf,
     let u := x_store (snd (src_RegisterBase_write_and_cache D self n buf x)) in
     u = CacheStore_invalidate_by D n (x_store x) \/
     u = CacheStore_invalidate_by D (RegisterBase_p_port self) (CacheStore_invalidate_by D n (x_store x))).
Proof. exact nocache_of_source. Qed.
Print Assumptions C04_nocache_of_source.

(* non-vacuity (vm_compute): two registers over the same bytes, each the other's pInvalidator, on the store the
   translated builder produces: write node 0; read node 0 (no device access); write node 1; read node 0 (device) *)
Theorem C04_source_example :
  fst ex_run = Ok ([9; 9; 9; 9], [7; 7; 7; 7]) /\
  d_log (x_dev (snd ex_run)) = [RdAcc 256 4; WrAcc 256 [7; 7; 7; 7]; WrAcc 256 [9; 9; 9; 9]] /\
  targets (build_store ex_sys) 0 = [1] /\ targets (build_store ex_sys) 1 = [0] /\
  src_ValueCtxt_get_cache D_store 0 256 4 (x_store (snd ex_run)) = Some [7; 7; 7; 7] /\
  src_ValueCtxt_get_cache D_store 1 256 4 (x_store (snd ex_run)) = None.
Proof. exact c04s_example. Qed.
Print Assumptions C04_source_example.
