(* C10 — Chunked transfers partition the request exactly within the budget.
   Statements only; proofs are in proofs/P_C10.v. *)
From Cam Require Import Outcome Bytes Chunks P_C10.

(* For every address, every 16-bit read length and every budget above the
   acknowledge header, ReadMem::chunks yields a finite list (no panic, no
   error) that is contiguous from [a], sums to [n], each chunk non-empty and
   within the budget, all but the last using the budget fully, [] for n = 0,
   and no address leaves the 64-bit space. *)
Theorem C10_read_partition : forall a n b,
  0 <= a -> 0 <= n < 2 ^ 16 -> a + n <= 2 ^ 64 -> ACK_HEADER_LENGTH < b ->
  exists cs, read_chunks a n b = Ok cs /\ read_partition a n b cs.
Proof. exact read_chunks_partition. Qed.
Print Assumptions C10_read_partition.

Theorem C10_write_partition : forall a data b,
  0 <= a -> zlen data <= 65527 -> a + zlen data <= 2 ^ 64 -> WRITE_HEADER_LEN < b ->
  exists cs, write_chunks a data b = Ok cs /\ write_partition a data b cs.
Proof. exact write_chunks_partition. Qed.
Print Assumptions C10_write_partition.

Theorem C10_read_budget_too_small : forall a n b,
  b <= ACK_HEADER_LENGTH -> read_chunks a n b = Err E_INVALID_PACKET.
Proof. exact read_chunks_budget_too_small. Qed.
Print Assumptions C10_read_budget_too_small.

Theorem C10_write_budget_too_small : forall a data b,
  zlen data <= 65527 -> b <= WRITE_HEADER_LEN -> write_chunks a data b = Err E_INVALID_PACKET.
Proof. exact write_chunks_budget_too_small. Qed.
Print Assumptions C10_write_budget_too_small.

(* A write whose data cannot be described by the 16-bit SCD length is refused
   at construction (before chunking), never truncated. *)
Theorem C10_write_too_long : forall a data b,
  65527 < zlen data -> write_chunks a data b = Err E_INVALID_PACKET.
Proof. exact write_chunks_too_long. Qed.
Print Assumptions C10_write_too_long.

Theorem C10_maximum_read_length : forall m,
  ACK_HEADER_LENGTH <= m < 2 ^ 64 ->
  maximum_read_length m = Ok (Z.min (m - ACK_HEADER_LENGTH) 65535).
Proof. exact maximum_read_length_spec. Qed.
Print Assumptions C10_maximum_read_length.

(* TIE TO THE SOURCE CODE.  gen/ReadChunks.v is regenerated on every run by tools/translate_chunks.py from
   ReadMem::chunks, ReadMemChunks::next (an iterator mutating its fields: executed symbolically, fields threaded through
   `-=`, `+=`, `=`, `as` casts) and ReadMem::maximum_read_length of device/src/u3v/protocol/cmd.rs, over lib/RustInt.v.
   They are the model's functions, for every value of the fields' types - so the partition theorems above are about
   what the source says now. *)
From Cam Require Import RustInt ReadChunks P_C10s.

Theorem C10_read_init_from_source : forall a l ack,
  read_chunks_init a l ack = omap rstate_of (src_read_chunks_init a l ack).
Proof. exact read_init_from_source. Qed.
Print Assumptions C10_read_init_from_source.

Theorem C10_read_next_from_source : forall a l m,
  0 <= a < 2 ^ 64 -> 0 <= l < 2 ^ 16 -> 0 <= m < 2 ^ 64 ->
  read_next {| r_addr := a; r_len := l; r_max := m |} = omap next_of (src_read_next a l m).
Proof. exact read_next_from_source. Qed.
Print Assumptions C10_read_next_from_source.

Theorem C10_maximum_read_length_from_source : forall n, 0 <= n < 2 ^ 64 ->
  maximum_read_length n = src_maximum_read_length n.
Proof. exact maximum_read_length_from_source. Qed.
Print Assumptions C10_maximum_read_length_from_source.

(* the write side: WriteMem::chunks, the field-mutating iterator WriteMemChunks::next (slices abstracted to index ranges
   of the data, `WriteMem::new(..).unwrap()`, usize additions that can overflow) and WriteMem::new / into_scd_len, as
   translated from the source, are the model's functions - for every data list, address, index within the data and
   budget (sizes below 2^64) *)
Theorem C10_write_init_from_source : forall a d cmd_len,
  write_chunks_init a d cmd_len = omap (wstate_of d) (src_write_chunks_init a cmd_len).
Proof. exact write_init_from_source. Qed.
Print Assumptions C10_write_init_from_source.

Theorem C10_write_next_from_source : forall a (d : list Z) i m,
  0 <= a < 2 ^ 64 -> 0 <= i <= zlen d -> 0 <= m -> zlen d + m + 8 < 2 ^ 64 ->
  write_next {| w_addr := a; w_data := d; w_idx := i; w_max := m |} = omap (wnext_of d) (src_write_next (zlen d) a i m).
Proof. exact write_next_from_source. Qed.
Print Assumptions C10_write_next_from_source.

Theorem C10_write_mem_new_from_source : forall a (data : list Z), zlen data + 8 < 2 ^ 64 ->
  unwrap (write_mem_new a data) = omap (fun _ => (a, data)) (r_unwrap (src_write_mem_new (zlen data))).
Proof. exact write_mem_new_from_source. Qed.
Print Assumptions C10_write_mem_new_from_source.

(* END TO END about the translated code: iterating the function translated from ReadMemChunks::next, started from the
   state translated from ReadMem::chunks, yields - for every address, 16-bit length and budget above the acknowledge
   header - a finite list that partitions the request (the same [read_partition] as C10_read_partition). *)
Theorem C10_read_partition_of_source : forall a n b,
  0 <= a < 2 ^ 64 -> 0 <= n < 2 ^ 16 -> a + n <= 2 ^ 64 -> ACK_HEADER_LENGTH < b < 2 ^ 64 ->
  exists cs, src_read_chunks a n b = Ok cs /\ read_partition a n b cs.
Proof. exact read_partition_of_source. Qed.
Print Assumptions C10_read_partition_of_source.
