(* C19 — GenTL C API keeps its state machine, buffer protocol and port safety.
   Statements only; proofs are in proofs/P_C19.v, the model of /repo/gentl in model/GenTL.v.
   [fixed] = the code that exists now, [pinned] = the code before the repairs
   13c2cdc / 50712dc / 5172323 (gentl) and 5d538ea / 4147429 (impl/macros).
   A call sequence is a list of (thread, call); [exec] returns None when a call aborts the process. *)
From Cam Require Import Outcome Bytes GenTL P_C19.
From Coq Require Import String.

(* Before GCInitLib — and again after GCCloseLib — every call that is made, in any sequence, on any
   thread, with any arguments, fails with GC_ERR_NOT_INITIALIZED (-1002), and none aborts. *)
Theorem C19_not_initialized : forall E v cs s,
  lib_init s = false -> Forall (fun tc => snd tc <> GCInitLib) cs ->
  exists s' xs, exec E v s cs = Some (s', xs) /\ lib_init s' = false /\
    Forall (fun x => x = Skipped \/ exists o, x = Made (-1002) o) xs.
Proof. exact exec_not_initialized. Qed.
Print Assumptions C19_not_initialized.

Theorem C19_not_initialized_states : forall E v s t s' o,
  lib_init (init_state E) = false /\
  (step E v s t GCCloseLib = Some (s', Made 0 o) -> lib_init s' = false).
Proof. exact not_initialized_states. Qed.
Print Assumptions C19_not_initialized_states.

(* Opening the open system module fails with RESOURCE_IN_USE and changes nothing else. *)
Theorem C19_open_in_use : forall E v s t,
  lib_init s = true -> sys_open s = true ->
  step E v s t TLOpen = Some (set_err s t EResourceInUse, Made (-1004) [-1]).
Proof. exact tlopen_in_use. Qed.
Print Assumptions C19_open_in_use.

(* After a successful TLClose the module is closed, and after any further calls that do not open
   it (nor unload the library) TLOpen succeeds again and hands out a fresh handle. *)
Theorem C19_open_close : forall E s t h s1 o cs s2 xs t',
  step E fixed s t (TLClose h) = Some (s1, Made 0 o) ->
  Forall (fun tc => snd tc <> TLOpen /\ snd tc <> GCCloseLib) cs ->
  exec E fixed s1 cs = Some (s2, xs) ->
  sys_open s1 = false /\ if_open s1 = false /\
  exists s3, step E fixed s2 t' TLOpen = Some (s3, Made 0 [zlen (handles s2)]) /\ sys_open s3 = true.
Proof. exact open_close. Qed.
Print Assumptions C19_open_close.

(* The same for the interface module: RESOURCE_IN_USE while open; after IFClose (or TLClose) and
   any calls that do not open it, TLOpenInterface on a live system handle succeeds again. *)
Theorem C19_open_close_interface : forall E v s t h i,
  lib_init s = true -> if_open s = true -> lookup s h = Some (HLive i KSys) ->
  step E v s t (TLOpenInterface h IF_ID) = Some (set_err s t EResourceInUse, Made (-1004) [-1]).
Proof. exact open_interface_in_use. Qed.
Print Assumptions C19_open_close_interface.

Theorem C19_reopen_interface : forall E s t hi s1 o cs s2 xs t' h i,
  step E fixed s t (IFClose hi) = Some (s1, Made 0 o) ->
  Forall (fun tc => (forall h id, snd tc <> TLOpenInterface h id) /\ snd tc <> GCCloseLib) cs ->
  exec E fixed s1 cs = Some (s2, xs) ->
  lookup s2 h = Some (HLive i KSys) ->
  exists s3, step E fixed s2 t' (TLOpenInterface h IF_ID) = Some (s3, Made 0 [zlen (handles s2)]) /\
             if_open s3 = true.
Proof. exact reopen_interface_after_close. Qed.
Print Assumptions C19_reopen_interface.

(* The pinned code: TLOpen; TLClose; TLOpen returns RESOURCE_IN_USE. *)
Theorem C19_open_close_refuted :
  results pinned [(0%nat, GCInitLib); (0%nat, TLOpen); (0%nat, TLClose 0); (0%nat, TLOpen)] =
  Some [Made 0 []; Made 0 [0]; Made 0 []; Made (-1004) [-1]].
Proof. exact open_close_pinned_refuted. Qed.
Print Assumptions C19_open_close_refuted.

(* After any call sequence, a thread's last error is the code of the last failing call made on that
   thread (calls on other threads and successful calls never change it) ... *)
Theorem C19_last_error : forall E v cs s s' xs,
  exec E v s cs = Some (s', xs) ->
  forall t, option_map code_of (last_error s' t) = last_fail t (option_map code_of (last_error s t)) cs xs.
Proof. exact exec_last_error. Qed.
Print Assumptions C19_last_error.

(* ... and GCGetLastError reports it (size query or a buffer that holds the text). *)
Theorem C19_get_last_error : forall E v s t d,
  lib_init s = true ->
  let text := match last_error s t with Some e => err_text e | None => zs "No Error" end in
  is_ascii text = true ->
  (d = DNull \/ exists cap, d = DBuf cap /\ zlen text < cap) ->
  step E v s t (GCGetLastError d) =
  Some (s, Made 0 [match last_error s t with Some e => code_of e | None => 0 end; 1]).
Proof. exact get_last_error. Qed.
Print Assumptions C19_get_last_error.

(* The CopyTo protocol for every value and destination: NULL reports the required size and
   writes nothing; a too small buffer yields BUFFER_TOO_SMALL and nothing is written; otherwise
   exactly the value's bytes (string + NUL) are written, with size and INFO_DATATYPE. *)
Theorem C19_buffer_protocol : forall i d,
  ascii_ok i ->
  copy_info i d =
  match d with
  | DNull => GOk ([], need i, info_type i)
  | DBuf cap => if cap <? need i then GErr EBufferTooSmall
                else GOk (info_bytes i, need i, info_type i)
  end.
Proof. exact copy_info_protocol. Qed.
Print Assumptions C19_buffer_protocol.

(* Every API query with a caller buffer answers with a value that does not depend on the buffer and
   hands it to CopyTo; what the caller observes never extends past the buffer. *)
Theorem C19_buffer_protocol_api : forall E v s t c r,
  has_dst c = true ->
  (exists q, q <> GPanic /\ forall d, body E v s t (set_dst c d) r = info_out s d q) \/
  (exists q, q <> GPanic /\ forall d, body E v s t (set_dst c d) r = str_out s d q).
Proof. exact api_buffer_protocol. Qed.
Print Assumptions C19_buffer_protocol_api.

Theorem C19_buffer_view : forall s cap i,
  ascii_ok i ->
  info_out s (DBuf cap) (GOk i) =
    (if cap <? need i then Some (s, Some EBufferTooSmall, [-77; cap] ++ repeat FILL (Z.to_nat cap) ++ [1])
     else Some (s, None, [info_type i; need i] ++ (info_bytes i ++ repeat FILL (Z.to_nat (cap - need i))) ++ [1])).
Proof. exact buffer_view. Qed.
Print Assumptions C19_buffer_view.

(* Port::read for every address and size: never a panic; Ok transfers exactly the bytes of an
   in-map range whose bytes are all readable; otherwise INVALID_ADDRESS exactly when the range
   leaves the map, ACCESS_DENIED exactly when it is inside and touches a non-readable byte. *)
Theorem C19_port_read_safe : forall L raw a n,
  0 <= a -> 0 <= n -> zlen raw < 2 ^ 64 ->
  match port_read fixed L raw a n with
  | GOk bs => a + n <= zlen raw /\ bs = slice raw a (a + n) /\ zlen bs = n /\ all_readable L a (a + n)
  | GErr e => (e = EInvalidAddress /\ zlen raw < a + n) \/
              (e = EAccessDenied /\ a + n <= zlen raw /\ ~ all_readable L a (a + n))
  | GPanic => False
  end.
Proof. exact port_read_safe. Qed.
Print Assumptions C19_port_read_safe.

(* The generated write_raw, for every address and buffer. *)
Theorem C19_port_write_safe : forall (Ev : Type) (L : layout) (obs : list (Z * Z * Ev)) raw a n bytes,
  0 <= a -> 0 <= n -> zlen raw < 2 ^ 64 ->
  match write_raw fixed L obs raw a n bytes with
  | GOk (raw', evs) => a + n <= zlen raw /\ all_writable L a (a + n) /\
                       raw' = splice raw a (bytes tt) /\ evs = notify fixed obs a (a + n)
  | GErr e => (e = EInvalidAddress /\ zlen raw < a + n) \/
              (e = EAccessDenied /\ a + n <= zlen raw /\ ~ all_writable L a (a + n))
  | GPanic => False
  end.
Proof. exact write_raw_safe_any. Qed.
Print Assumptions C19_port_write_safe.

Theorem C19_write_effect : forall raw a bs,
  0 <= a -> a + zlen bs <= zlen raw ->
  let raw' := splice raw a bs in
  zlen raw' = zlen raw /\ slice raw' a (a + zlen bs) = bs /\
  take a raw' = take a raw /\ drop (a + zlen bs) raw' = drop (a + zlen bs) raw.
Proof. exact write_effect. Qed.
Print Assumptions C19_write_effect.

(* Port::write of the modules: a refused write changes nothing; the only other failures are the
   selector's INVALID_INDEX and NOT_IMPLEMENTED of the device enumeration; a successful write to
   the interface stored exactly the caller's bytes in a writable in-map range. *)
Theorem C19_module_write : forall E s k a n b s' e,
  port_write E fixed s k a n b = (s', GErr e) ->
  In e [EInvalidAddress; EAccessDenied; ENotInitialized; EInvalidIndex; ENotImplemented] /\
  (e = EInvalidAddress \/ e = EAccessDenied \/ e = ENotInitialized -> s' = s).
Proof. exact module_write. Qed.
Print Assumptions C19_module_write.

Theorem C19_interface_write_ok : forall E s a n b s' w,
  0 <= a -> 0 <= n -> zlen (if_raw s) < 2 ^ 64 ->
  port_write E fixed s KIf a n b = (s', GOk w) ->
  w = n /\ if_open s = true /\ a + n <= zlen (if_raw s) /\ all_writable (if_layout E) a (a + n) /\
  if_raw s' = splice (if_raw s) a (b tt) /\ sys_raw s' = sys_raw s.
Proof. exact if_write_ok. Qed.
Print Assumptions C19_interface_write_ok.

(* A successful non-empty write to the system port lies in the InterfaceSelector register (the only
   writable bytes), stored exactly the caller's bytes there, kept the image's length, and the only
   other change is the event handler's refresh of the InterfaceID register (fix_id). *)
Theorem C19_system_write_ok : forall E s a n b s' w,
  0 <= a -> 0 < n -> zlen (b tt) = n -> 1100 <= zlen (sys_raw s) < 2 ^ 64 ->
  port_write E fixed s KSys a n b = (s', GOk w) ->
  let W := splice (sys_raw s) a (b tt) in
  1028 <= a /\ a + n <= 1032 /\
  (sys_raw s' = W \/ sys_raw s' = fix_id W) /\
  zlen (sys_raw s') = zlen (sys_raw s) /\ slice (sys_raw s') a (a + n) = b tt.
Proof. exact sys_write_image. Qed.
Print Assumptions C19_system_write_ok.

Theorem C19_system_write_range : forall E s a n b s' w,
  0 <= a -> 0 <= n -> zlen (sys_raw s) < 2 ^ 64 ->
  port_write E fixed s KSys a n b = (s', GOk w) ->
  w = n /\ a + n <= zlen (sys_raw s) /\ all_writable (sys_layout E) a (a + n) /\ if_raw s' = if_raw s.
Proof. exact sys_write_ok. Qed.
Print Assumptions C19_system_write_range.

(* GCReadPort / GCWritePort are exactly the module ports behind the handle. *)
Theorem C19_gc_read_port : forall E v s t h a n i k,
  lib_init s = true -> lookup s h = Some (HLive i k) ->
  step E v s t (GCReadPort h a n) =
  match port_read_k E v s k a n with
  | GOk bs => Some (s, Made 0 ([zlen bs] ++ buf_view (real_cap n) bs ++ [1]))
  | GErr e => Some (set_err s t e, Made (code_of e) ([n] ++ buf_view (real_cap n) [] ++ [1]))
  | GPanic => None
  end.
Proof. exact gc_read_port. Qed.
Print Assumptions C19_gc_read_port.

Theorem C19_gc_write_port : forall E v s t h a data i k,
  lib_init s = true -> lookup s h = Some (HLive i k) ->
  step E v s t (GCWritePort h a data 0) =
  match port_write E v s k a (zlen data) (fun _ => data) with
  | (s', GOk w) => Some (s', Made 0 [w])
  | (s', GErr e) => Some (set_err s' t e, Made (code_of e) [zlen data])
  | (_, GPanic) => None
  end.
Proof. exact gc_write_port. Qed.
Print Assumptions C19_gc_write_port.

(* No call sequence whatsoever aborts the process (all 28 modelled entry points, all arguments). *)
Theorem C19_port_safe : forall E cs s, exec E fixed s cs <> None.
Proof. exact exec_fixed_some. Qed.
Print Assumptions C19_port_safe.

(* The pinned code aborts: end address overflow, empty range beyond the map, device enumeration. *)
Theorem C19_port_safe_refuted :
  results pinned [(0%nat, GCInitLib); (0%nat, TLOpen); (0%nat, GCReadPort 0 (2 ^ 64 - 1) 4)] = None /\
  results pinned [(0%nat, GCInitLib); (0%nat, TLOpen); (0%nat, GCReadPort 0 100000 0)] = None /\
  results pinned [(0%nat, GCInitLib); (0%nat, TLOpen); (0%nat, GCWritePort 0 (2 ^ 64 - 1) [1; 2] 0)] = None.
Proof. exact port_read_pinned_refuted. Qed.
Print Assumptions C19_port_safe_refuted.

Theorem C19_enumerate_refuted :
  results pinned [(0%nat, GCInitLib); (0%nat, TLOpen); (0%nat, TLOpenInterface 0 IF_ID);
                  (0%nat, IFUpdateDeviceList 1)] = None /\
  results pinned [(0%nat, GCInitLib); (0%nat, TLOpen); (0%nat, TLOpenInterface 0 IF_ID);
                  (0%nat, GCWritePort 1 0 [1; 0; 0; 0] 0)] = None.
Proof. exact enumerate_pinned_refuted. Qed.
Print Assumptions C19_enumerate_refuted.

(* A NULL handle is answered with INVALID_HANDLE by every function that takes one. *)
Theorem C19_null_handle : forall E v s t c,
  lib_init s = true -> handle_of c = Some (-1) ->
  exists s' o, step E v s t c = Some (s', Made (-1006) o).
Proof. exact null_handle_invalid. Qed.
Print Assumptions C19_null_handle.

(* ==== TIE TO THE SOURCE CODE: the buffer protocol of gentl/src/ffi/mod.rs ====================================
   tools/translate_gentl.py re-translates on every run `impl From<&GenTlError> for GC_ERROR`, INFO_DATATYPE and EVERY
   `impl CopyTo for ..` (incl. the six expansions of impl_copy_to_for_numeric!) into gen/GenTLSrc.v; the raw-pointer
   operations get their meaning in model/GtlOps.v (state [gdst] = NULL flag of dst, the cell behind dst_size, the
   caller's buffer; a translated function also returns the state it leaves behind when it fails).
   [buf_ok s]: a non-NULL buffer has at least the *dst_size bytes it announces.  [dst_of s] is the model's view of the
   two pointers, [proto_answer s r] the state the model's answer r describes (written bytes at the start of the buffer,
   the rest untouched, the stored size; on an error NOTHING changed). *)
From Cam Require Import RustInt GtlOps GenTLSrc P_C19s.

(* &str (any byte list shorter than 2^64 - 1 bytes, ASCII or not), &[u8], and the two text enums that forward to &str:
   exactly the model's str_copy_to / copy_to, for every destination and every in-size. *)
Theorem C19_copy_str_from_source :
  (forall v s, zlen v + 1 < 2 ^ 64 -> buf_ok s ->
     src_copy_to_str v s = proto_answer s (str_copy_to v (dst_of s))) /\
  (forall v s, buf_ok s -> src_copy_to_bytes v s = proto_answer s (copy_to v (dst_of s))) /\
  (forall s, buf_ok s ->
     (forall t, src_copy_to_TlType t s = proto_answer s (str_copy_to (tl_text t) (dst_of s))) /\
     (forall t, src_copy_to_ModuleType t s = proto_answer s (str_copy_to (module_text t) (dst_of s)))).
Proof. exact copy_str_all_from_source. Qed.
Print Assumptions C19_copy_str_from_source.

(* bool8_t, the six invocations of impl_copy_to_for_numeric! and DeviceAccessStatus (its i32 discriminant): for EVERY
   integer x the little-endian bytes of x, by the model's copy_to. *)
Theorem C19_copy_numeric_from_source : forall x s, buf_ok s ->
  src_copy_to_bool8 x s = proto_answer s (copy_to (le_bytes 1 x) (dst_of s)) /\
  src_copy_to_i16 x s = proto_answer s (copy_to (le_bytes 2 x) (dst_of s)) /\
  src_copy_to_u16 x s = proto_answer s (copy_to (le_bytes 2 x) (dst_of s)) /\
  src_copy_to_i32 x s = proto_answer s (copy_to (le_bytes 4 x) (dst_of s)) /\
  src_copy_to_u32 x s = proto_answer s (copy_to (le_bytes 4 x) (dst_of s)) /\
  src_copy_to_i64 x s = proto_answer s (copy_to (le_bytes 8 x) (dst_of s)) /\
  src_copy_to_u64 x s = proto_answer s (copy_to (le_bytes 8 x) (dst_of s)) /\
  src_copy_to_DeviceAccessStatus x s = proto_answer s (copy_to (le_bytes 4 x) (dst_of s)).
Proof. exact copy_numeric_from_source. Qed.
Print Assumptions C19_copy_numeric_from_source.

(* The translated GC_ERROR table is the model's code_of (same variants, same numbers, all distinct, all within
   -1023 .. -1001; success is 0) and info_data_type() of every implementation is the model's type number. *)
Theorem C19_error_codes_from_source :
  (forall e, src_gc_error_code (ge_of e) = code_of e) /\
  (forall g, exists e, ge_of e = g) /\
  (forall g, In g src_gentl_errors) /\
  NoDup (map src_gc_error_code src_gentl_errors) /\
  (forall g, -1023 <= src_gc_error_code g <= -1001) /\
  src_gc_ok_code = 0 /\
  [src_info_type_str; src_info_type_bytes; src_info_type_bool8; src_info_type_i32; src_info_type_u32;
   src_info_type_i64; src_info_type_u64; src_info_type_TlType; src_info_type_ModuleType;
   src_info_type_DeviceAccessStatus]
  = [T_STRING; T_BUFFER; T_BOOL8; T_INT32; T_UINT32; T_INT64; T_UINT64; T_STRING; T_STRING; T_INT32].
Proof. exact error_codes_from_source. Qed.
Print Assumptions C19_error_codes_from_source.

(* The buffer protocol on the translated code alone ([protocol_of f bytes], P_C19s.v): NULL destination -> Ok, nothing
   written, *dst_size = size of the value (a string counts its NUL terminator); a buffer announced smaller than that ->
   GC_ERR_BUFFER_TOO_SMALL (-1016), nothing written and *dst_size LEFT UNCHANGED (the code does not report the needed
   size on this path); otherwise exactly the value's bytes at the start of the buffer, the rest untouched, *dst_size =
   the size.  A non-ASCII string is refused with INVALID_VALUE (-1019) before anything is touched. *)
Theorem C19_buffer_protocol_of_source :
  (forall v, zlen v + 1 < 2 ^ 64 -> s_is_ascii v = true -> protocol_of (src_copy_to_str v) (v ++ [0])) /\
  (forall v s, s_is_ascii v = false -> src_copy_to_str v s = (Err (-1019), s)) /\
  (forall v, protocol_of (src_copy_to_bytes v) v) /\
  (forall x, protocol_of (src_copy_to_bool8 x) (le_bytes 1 x) /\
             protocol_of (src_copy_to_i16 x) (le_bytes 2 x) /\ protocol_of (src_copy_to_u16 x) (le_bytes 2 x) /\
             protocol_of (src_copy_to_i32 x) (le_bytes 4 x) /\ protocol_of (src_copy_to_u32 x) (le_bytes 4 x) /\
             protocol_of (src_copy_to_i64 x) (le_bytes 8 x) /\ protocol_of (src_copy_to_u64 x) (le_bytes 8 x)).
Proof. exact buffer_protocol_of_source. Qed.
Print Assumptions C19_buffer_protocol_of_source.

(* Evaluated on the translated code (vm_compute): "U3V" into a 6 byte buffer, a size query, one byte too small, a
   non-ASCII string, -2 as an i32, a u64 into 7 bytes, and a caller that lies about its buffer (= out-of-bounds write). *)
Theorem C19_source_examples :
  src_copy_to_TlType TL_USB3Vision (st false 6 [9; 9; 9; 9; 9; 9]) = (Ok tt, st false 4 [85; 51; 86; 0; 9; 9]) /\
  src_copy_to_TlType TL_USB3Vision (st true 0 []) = (Ok tt, st true 4 []) /\
  src_copy_to_TlType TL_USB3Vision (st false 3 [9; 9; 9]) = (Err (-1016), st false 3 [9; 9; 9]) /\
  src_copy_to_str [200] (st false 8 [9; 9; 9; 9; 9; 9; 9; 9]) = (Err (-1019), st false 8 [9; 9; 9; 9; 9; 9; 9; 9]) /\
  src_copy_to_i32 (-2) (st false 5 [9; 9; 9; 9; 9]) = (Ok tt, st false 4 [254; 255; 255; 255; 9]) /\
  src_copy_to_u64 1 (st false 7 [9; 9; 9; 9; 9; 9; 9]) = (Err (-1016), st false 7 [9; 9; 9; 9; 9; 9; 9]) /\
  fst (src_copy_to_i32 7 (st false 4 [9; 9])) = Panic.
Proof. exact source_examples. Qed.
Print Assumptions C19_source_examples.
