(* C08 — Acknowledge and event packet decoding is total and faithful.
   Statements only; proofs in proofs/P_C08.v.  The model (model/Ack.v, model/Event.v)
   is the cursor-style code; the specification (spec/GenCPLayout.v) decodes by fixed
   offsets and classifies status codes by namespace bits 14..13. *)
From Cam Require Import Outcome Bytes Ack Event GenCPLayout P_C08.

(* For every byte string: no panic; Ok exactly when the offset decoder accepts, and then
   status code, status kind (namespace), command kind, SCD length, request id and raw SCD agree. *)
Theorem C08_ack_faithful : forall bs, bytes_ok bs -> agree to_sack (parse_ack bs) (spec_ack bs).
Proof. exact parse_ack_faithful. Qed.
Print Assumptions C08_ack_faithful.

(* Complete enumeration of the 16-bit status space inside Coq (bound stated): classification
   and fatal bit equal the specification for all 65536 codes. *)
Theorem C08_status_table : forall code, 0 <= code < 65536 ->
  status_kind code = match spec_status code with Some k => Ok k | None => Err E_INVALID_PACKET end
  /\ status_is_fatal code = spec_fatal code.
Proof. exact status_table. Qed.
Print Assumptions C08_status_table.

Theorem C08_kind_table : forall id, 0 <= id < 65536 ->
  scd_kind_of id = match spec_ack_kind id with Some k => Ok k | None => Err E_INVALID_PACKET end.
Proof. exact kind_table. Qed.
Print Assumptions C08_kind_table.

(* typed views: agree with the offset specification, never panic, data slices lie inside the SCD present *)
Theorem C08_view_data : forall a, agree (fun d => d) (view_data a) (spec_view_data (to_sack a)).
Proof. exact view_data_spec. Qed.
Print Assumptions C08_view_data.

Theorem C08_view_data_in_bounds : forall a d, view_data a = Ok d ->
  a_scd_len a <= zlen (a_raw_scd a) /\ d = take (a_scd_len a) (a_raw_scd a).
Proof. exact view_data_in_bounds. Qed.
Print Assumptions C08_view_data_in_bounds.

Theorem C08_view_write : forall a, agree (fun z => z) (view_write a) (spec_view_write (to_sack a)).
Proof. exact view_write_spec. Qed.
Print Assumptions C08_view_write.

Theorem C08_view_write_stacked_total : forall a, view_write_stacked a <> Panic.
Proof. exact view_write_stacked_no_panic. Qed.
Print Assumptions C08_view_write_stacked_total.

(* every acknowledge a conforming device can emit is accepted, with its fields *)
Theorem C08_accepts_conforming : forall code st id k rid scd,
  0 <= code < 65536 -> spec_status code = Some st ->
  0 <= id < 65536 -> spec_ack_kind id = Some k ->
  0 <= rid < 65536 -> zlen scd < 65536 ->
  parse_ack (enc_ack code id rid scd) =
  Ok {| a_code := code; a_status := st; a_kind := k; a_scd_len := zlen scd;
        a_request_id := rid; a_raw_scd := scd |}.
Proof. exact accepts_conforming. Qed.
Print Assumptions C08_accepts_conforming.

Theorem C08_write_stacked_conforming : forall a lens,
  Forall (fun l => 0 <= l < 65536) lens -> 4 * zlen lens < 65536 ->
  a_scd_len a = 4 * zlen lens -> a_raw_scd a = enc_write_stacked_scd lens ->
  view_write_stacked a = Ok lens.
Proof. exact view_write_stacked_conforming. Qed.
Print Assumptions C08_write_stacked_conforming.

(* events: round trip for every event list (multi-event form) and for the single-event form; total *)
Theorem C08_events_roundtrip : forall flag rid evs,
  0 <= flag < 65536 -> 0 <= rid < 65536 -> Forall sevent_ok evs -> events_size evs < 65536 ->
  parse_event (enc_event_packet flag rid evs) = Ok (rid, map to_event evs).
Proof. exact event_roundtrip. Qed.
Print Assumptions C08_events_roundtrip.

Theorem C08_single_event_roundtrip : forall flag rid e,
  0 <= flag < 65536 -> 0 <= rid < 65536 -> sevent_ok e ->
  parse_event (enc_single_event_packet flag rid e) =
  Ok (rid, [{| ev_size := 0; ev_id := se_id e; ev_timestamp := se_timestamp e; ev_data := se_data e |}]).
Proof. exact single_event_roundtrip. Qed.
Print Assumptions C08_single_event_roundtrip.

Theorem C08_event_total : forall bs, parse_event bs <> Panic.
Proof. exact parse_event_no_panic. Qed.
Print Assumptions C08_event_total.

(* The code as found at the pinned commit violates the property (witnesses replayed on the
   implementation by the check; repaired by "fix:" commits, see KNOWN_FINDINGS.json). *)
Theorem C08_status_v0_refuted :
  exists code, 0 <= code < 65536 /\ spec_status code = Some 200 /\ status_kind_v0 code = Panic.
Proof. exact status_v0_refuted. Qed.
Print Assumptions C08_status_v0_refuted.

Theorem C08_write_stacked_v0_refuted : exists a, view_write_stacked_with true a = Panic.
Proof. exact view_write_stacked_v0_refuted. Qed.
Print Assumptions C08_write_stacked_v0_refuted.

(* TIE TO THE SOURCE TABLES.  gen/ProtoTables.v is regenerated from device/src/u3v/protocol/{ack,event}.rs on every
   run (tools/translate_proto.py: the match arms of Status::parse, parse_gencp_status, parse_usb_status,
   ScdKind::parse, the magic numbers); for EVERY 16-bit or larger code the model's decision is the source table's. *)
From Cam Require Import ProtoTables P_Tables.

Theorem C08_status_table_from_source : forall code, status_kind code = src_status_kind code.
Proof. exact status_kind_src. Qed.
Print Assumptions C08_status_table_from_source.

Theorem C08_ack_kind_from_source : forall id, scd_kind_of id = table_fn src_ack_kind 0 id.
Proof. exact scd_kind_src. Qed.
Print Assumptions C08_ack_kind_from_source.

Theorem C08_magic_from_source :
  Ack.ACK_MAGIC = src_ack_magic /\ EVENT_MAGIC = src_event_magic /\ EVENT_COMMAND_ID = src_event_command_id.
Proof. exact (conj ack_magic_src event_consts_src). Qed.
Print Assumptions C08_magic_from_source.

(* TIE TO THE SOURCE CODE.  gen/AckParseSrc.v is regenerated from device/src/u3v/protocol/{ack,event}.rs on every run by
   tools/translate_ackparse.py: AckPacket::parse / AckCcd::parse / Status::parse (+ the two table functions with their
   debug_assert!s) / ScdKind::parse, the five ParseScd::parse reached through scd_as, EventPacket::parse / EventCcd::parse /
   EventScd::parse with its loop and read_and_seek, as ordered cursor reads (model/CurOps.v), bounds checks, slice
   indexing (Panic outside the slice) and debug-build integer arithmetic (lib/RustInt.v).  For EVERY byte list the
   translated decoders return what the models above return: the same fields, the same error class, a panic in the same
   cases (none).  ack_of_src / events_of_src / status_num / scd_kind_num (proofs/P_C08s.v) read the translated records
   and enums as the models' numbers. *)
From Cam Require Import CurOps AckParseSrc P_C08s.

Theorem C08_ack_parse_from_source : forall bs,
  omap ack_of_src (src_AckPacket_parse bs) = parse_ack bs /\
  (forall s, src_Status_is_fatal s = Ok (status_is_fatal (Status_code s))) /\
  (forall s, src_Status_is_success s = status_is_success (status_num (Status_kind s))).
Proof. exact (fun bs => conj (ack_parse_src bs) (conj is_fatal_src is_success_src)). Qed.
Print Assumptions C08_ack_parse_from_source.

(* the typed views through the translated AckPacket::scd_as, for every acknowledge whose SCD length is a u16 *)
Theorem C08_views_from_source : forall p, 0 <= AckCcd_scd_len (AckPacket_ccd p) < 65536 ->
  omap ReadMem_data (src_AckPacket_scd_as src_ReadMem_impl_ParseScd p) = view_data (ack_of_src p) /\
  omap WriteMem_length (src_AckPacket_scd_as src_WriteMem_impl_ParseScd p) = view_write (ack_of_src p) /\
  omap Pending_timeout (src_AckPacket_scd_as src_Pending_impl_ParseScd p) = view_pending (ack_of_src p) /\
  omap ReadMemStacked_data (src_AckPacket_scd_as src_ReadMemStacked_impl_ParseScd p) = view_data (ack_of_src p) /\
  omap WriteMemStacked_lengths (src_AckPacket_scd_as src_WriteMemStacked_impl_ParseScd p) = view_write_stacked (ack_of_src p).
Proof. exact views_src. Qed.
Print Assumptions C08_views_from_source.

(* events; 2^63: no Rust slice is longer than isize::MAX bytes (beyond 2^64 - 65535 the usize sum in read_and_seek
   would overflow, which the model does not have) *)
Theorem C08_event_parse_from_source : forall bs, bytes_ok bs -> zlen bs < 2 ^ 63 ->
  omap events_of_src (src_EventPacket_parse bs) = parse_event bs.
Proof. exact event_parse_src. Qed.
Print Assumptions C08_event_parse_from_source.

(* the property stated on the translated code itself: no byte list makes a translated decoder or view panic, and the
   fuel the translator gives the two `while` loops is never used up *)
Theorem C08_total_of_source :
  (forall bs, bytes_ok bs -> src_AckPacket_parse bs <> Panic) /\
  (forall p, 0 <= AckCcd_scd_len (AckPacket_ccd p) < 65536 ->
     src_AckPacket_scd_as src_ReadMem_impl_ParseScd p <> Panic /\
     src_AckPacket_scd_as src_WriteMem_impl_ParseScd p <> Panic /\
     src_AckPacket_scd_as src_Pending_impl_ParseScd p <> Panic /\
     src_AckPacket_scd_as src_ReadMemStacked_impl_ParseScd p <> Panic /\
     src_AckPacket_scd_as src_WriteMemStacked_impl_ParseScd p <> Panic /\
     src_AckPacket_scd_as src_WriteMemStacked_impl_ParseScd p <> Err E_FUEL) /\
  (forall bs, bytes_ok bs -> zlen bs < 2 ^ 63 ->
     src_EventPacket_parse bs <> Panic /\ src_EventPacket_parse bs <> Err E_FUEL).
Proof. exact src_total. Qed.
Print Assumptions C08_total_of_source.

(* ... and every acknowledge built by the layout of spec/GenCPLayout.v is accepted by the translated decoder with the
   fields it was built from (code, namespace, fatal bit, kind, request id, SCD length, SCD, ReadMem view) *)
Theorem C08_conforming_of_source : forall code st id k rid scd,
  0 <= code < 65536 -> spec_status code = Some st ->
  0 <= id < 65536 -> spec_ack_kind id = Some k ->
  0 <= rid < 65536 -> zlen scd < 65536 ->
  exists p, src_AckPacket_parse (enc_ack code id rid scd) = Ok p /\
    Status_code (src_AckPacket_status p) = code /\ status_num (Status_kind (src_AckPacket_status p)) = st /\
    src_Status_is_fatal (src_AckPacket_status p) = Ok (spec_fatal code) /\
    scd_kind_num (src_AckPacket_scd_kind p) = k /\ src_AckPacket_request_id p = rid /\
    AckCcd_scd_len (AckPacket_ccd p) = zlen scd /\ AckPacket_raw_scd p = scd /\
    omap ReadMem_data (src_AckPacket_scd_as src_ReadMem_impl_ParseScd p) = Ok scd.
Proof. exact src_accepts_conforming. Qed.
Print Assumptions C08_conforming_of_source.

(* the constants and match tables inside the translated functions are those tools/translate_proto.py extracts *)
Theorem C08_tables_cross_check :
  src_AckPacket_PREFIX_MAGIC = src_ack_magic /\ src_EventPacket_PREFIX_MAGIC = src_event_magic /\
  src_EventCcd_EVENT_COMMAND_ID = src_event_command_id /\
  (forall code, Z.land (Z.shiftr code 13) 3 = 0 ->
     omap (fun s => status_num (Status_kind s)) (src_Status_parse_gencp_status code) = table_fn src_gencp_status 0 code) /\
  (forall code, Z.land (Z.shiftr code 13) 3 = 1 ->
     omap (fun s => status_num (Status_kind s)) (src_Status_parse_usb_status code) = table_fn src_usb_status 100 code).
Proof. exact tables_cross. Qed.
Print Assumptions C08_tables_cross_check.
