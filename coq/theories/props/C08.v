(* C08 — Acknowledge and event packet decoding is total and faithful.
   Statements only; proofs in proofs/P_C08.v.  The model (model/Ack.v, model/Event.v)
   is the cursor-style code; the specification (spec/GenCPLayout.v) decodes by fixed
   offsets and classifies status codes by namespace bits 14..13. *)
From Cam Require Import Outcome Bytes Ack Event GenCPLayout P_C08.

(* For every byte string: no panic; Ok exactly when the offset decoder accepts, and then
   status code, status kind (namespace), command kind, SCD length, request id and raw SCD agree. *)
Theorem C08_ack_faithful : forall bs, bytes_ok bs -> agree to_sack (parse_ack bs) (spec_ack bs).
Proof. exact parse_ack_faithful. Qed.
Print Assumptions C08_ack_faithful.

(* Complete enumeration of the 16-bit status space inside Coq (bound stated): classification
   and fatal bit equal the specification for all 65536 codes. *)
Theorem C08_status_table : forall code, 0 <= code < 65536 ->
  status_kind code = match spec_status code with Some k => Ok k | None => Err E_INVALID_PACKET end
  /\ status_is_fatal code = spec_fatal code.
Proof. exact status_table. Qed.
Print Assumptions C08_status_table.

Theorem C08_kind_table : forall id, 0 <= id < 65536 ->
  scd_kind_of id = match spec_ack_kind id with Some k => Ok k | None => Err E_INVALID_PACKET end.
Proof. exact kind_table. Qed.
Print Assumptions C08_kind_table.

(* typed views: agree with the offset specification, never panic, data slices lie inside the SCD present *)
Theorem C08_view_data : forall a, agree (fun d => d) (view_data a) (spec_view_data (to_sack a)).
Proof. exact view_data_spec. Qed.
Print Assumptions C08_view_data.

Theorem C08_view_data_in_bounds : forall a d, view_data a = Ok d ->
  a_scd_len a <= zlen (a_raw_scd a) /\ d = take (a_scd_len a) (a_raw_scd a).
Proof. exact view_data_in_bounds. Qed.
Print Assumptions C08_view_data_in_bounds.

Theorem C08_view_write : forall a, agree (fun z => z) (view_write a) (spec_view_write (to_sack a)).
Proof. exact view_write_spec. Qed.
Print Assumptions C08_view_write.

Theorem C08_view_write_stacked_total : forall a, view_write_stacked a <> Panic.
Proof. exact view_write_stacked_no_panic. Qed.
Print Assumptions C08_view_write_stacked_total.

(* every acknowledge a conforming device can emit is accepted, with its fields *)
Theorem C08_accepts_conforming : forall code st id k rid scd,
  0 <= code < 65536 -> spec_status code = Some st ->
  0 <= id < 65536 -> spec_ack_kind id = Some k ->
  0 <= rid < 65536 -> zlen scd < 65536 ->
  parse_ack (enc_ack code id rid scd) =
  Ok {| a_code := code; a_status := st; a_kind := k; a_scd_len := zlen scd;
        a_request_id := rid; a_raw_scd := scd |}.
Proof. exact accepts_conforming. Qed.
Print Assumptions C08_accepts_conforming.

Theorem C08_write_stacked_conforming : forall a lens,
  Forall (fun l => 0 <= l < 65536) lens -> 4 * zlen lens < 65536 ->
  a_scd_len a = 4 * zlen lens -> a_raw_scd a = enc_write_stacked_scd lens ->
  view_write_stacked a = Ok lens.
Proof. exact view_write_stacked_conforming. Qed.
Print Assumptions C08_write_stacked_conforming.

(* events: round trip for every event list (multi-event form) and for the single-event form; total *)
Theorem C08_events_roundtrip : forall flag rid evs,
  0 <= flag < 65536 -> 0 <= rid < 65536 -> Forall sevent_ok evs -> events_size evs < 65536 ->
  parse_event (enc_event_packet flag rid evs) = Ok (rid, map to_event evs).
Proof. exact event_roundtrip. Qed.
Print Assumptions C08_events_roundtrip.

Theorem C08_single_event_roundtrip : forall flag rid e,
  0 <= flag < 65536 -> 0 <= rid < 65536 -> sevent_ok e ->
  parse_event (enc_single_event_packet flag rid e) =
  Ok (rid, [{| ev_size := 0; ev_id := se_id e; ev_timestamp := se_timestamp e; ev_data := se_data e |}]).
Proof. exact single_event_roundtrip. Qed.
Print Assumptions C08_single_event_roundtrip.

Theorem C08_event_total : forall bs, parse_event bs <> Panic.
Proof. exact parse_event_no_panic. Qed.
Print Assumptions C08_event_total.

(* The code as found at the pinned commit violates the property (witnesses replayed on the
   implementation by the check; repaired by "fix:" commits, see KNOWN_FINDINGS.json). *)
Theorem C08_status_v0_refuted :
  exists code, 0 <= code < 65536 /\ spec_status code = Some 200 /\ status_kind_v0 code = Panic.
Proof. exact status_v0_refuted. Qed.
Print Assumptions C08_status_v0_refuted.

Theorem C08_write_stacked_v0_refuted : exists a, view_write_stacked_with true a = Panic.
Proof. exact view_write_stacked_v0_refuted. Qed.
Print Assumptions C08_write_stacked_v0_refuted.

(* TIE TO THE SOURCE TABLES.  gen/ProtoTables.v is regenerated from device/src/u3v/protocol/{ack,event}.rs on every
   run (tools/translate_proto.py: the match arms of Status::parse, parse_gencp_status, parse_usb_status,
   ScdKind::parse, the magic numbers); for EVERY 16-bit or larger code the model's decision is the source table's. *)
From Cam Require Import ProtoTables P_Tables.

Theorem C08_status_table_from_source : forall code, status_kind code = src_status_kind code.
Proof. exact status_kind_src. Qed.
Print Assumptions C08_status_table_from_source.

Theorem C08_ack_kind_from_source : forall id, scd_kind_of id = table_fn src_ack_kind 0 id.
Proof. exact scd_kind_src. Qed.
Print Assumptions C08_ack_kind_from_source.

Theorem C08_magic_from_source :
  Ack.ACK_MAGIC = src_ack_magic /\ EVENT_MAGIC = src_event_magic /\ EVENT_COMMAND_ID = src_event_command_id.
Proof. exact (conj ack_magic_src event_consts_src). Qed.
Print Assumptions C08_magic_from_source.
