(* C15 — Enabling streaming programs transfer sizes that cover the device's requirements.
   Statements only; proofs are in proofs/P_C15.v.  Model: model/Control.v (compute_sizes,
   ctl_enable_streaming, stream_params) = cameleon/src/u3v/control_handle.rs enable_streaming
   after the fix commits 9f212d6, 03aec4e, 7004d0a. *)
From Cam Require Import Outcome Bytes Chunks Cmd Ack Control ControlRun StreamStart ManifestSpec P_C06 P_C14b P_C15 P_C15b P_C15c P_C15d.

(* ---- the size computation ------------------------------------------------------------ *)

(* For every alignment exponent the code accepts (k <= 31), all required leader / trailer sizes
   (no upper bound needed: what cannot be aligned within 32 bits is refused) and every u64
   required payload size: when the computation succeeds the state is untouched and the programmed
   values cover the requirements, every size is a multiple of 2^k, and every value fits its
   32-bit register ([covers], 15 clauses; in particular "as u32" never truncates final1). *)
Theorem C15_covers : forall k rl rp rt (s s' : st) p,
  0 <= k <= 31 -> 0 <= rl -> 0 <= rp < 2 ^ 64 -> 0 <= rt ->
  compute_sizes (2 ^ k) rl rp rt s = (Ok p, s') ->
  s' = s /\ covers (2 ^ k) rl rp rt p.
Proof. exact compute_sizes_covers. Qed.
Print Assumptions C15_covers.

(* The result is Ok (with the plan [plan_of]) exactly on the programmable requirements:
   payload / transfer size < 2^32 and leader, trailer = 0 or + 2^k - 1 < 2^32; otherwise
   ControlError::InvalidDevice. Never a panic. *)
Theorem C15_ok_iff_programmable : forall k rl rp rt (s : st), 0 <= k <= 31 -> 0 <= rp < 2 ^ 64 ->
  (programmable (2 ^ k) rl rp rt -> compute_sizes (2 ^ k) rl rp rt s = (Ok (plan_of (2 ^ k) rl rp rt), s)) /\
  (~ programmable (2 ^ k) rl rp rt -> compute_sizes (2 ^ k) rl rp rt s = (Err CE_INVALID_DEVICE, s)).
Proof. exact compute_sizes_ok_iff. Qed.
Print Assumptions C15_ok_iff_programmable.

Theorem C15_no_panic : forall k rl rp rt (s s' : st), 0 <= k <= 31 -> 0 <= rp < 2 ^ 64 ->
  compute_sizes (2 ^ k) rl rp rt s <> (Panic, s').
Proof. exact compute_sizes_no_panic. Qed.
Print Assumptions C15_no_panic.

(* Everything inside the property's quantifier (k <= 16, leader / trailer <= 2^32 - 2^k, payload
   < 2^48 which includes 2^40) is programmable, hence Ok and covered. *)
Theorem C15_quantifier_programmable : forall k rl rp rt, 0 <= k <= 16 ->
  0 <= rl <= 2 ^ 32 - 2 ^ k -> 0 <= rt <= 2 ^ 32 - 2 ^ k -> 0 <= rp < 2 ^ 48 ->
  programmable (2 ^ k) rl rp rt.
Proof. exact quantifier_programmable. Qed.
Print Assumptions C15_quantifier_programmable.

(* A refused leader / trailer requirement is one that NO aligned 32-bit register value covers. *)
Theorem C15_refused_size_uncoverable : forall k req m, 0 <= k <= 31 -> ~ fits32 req (2 ^ k) ->
  0 <= m < 2 ^ 32 -> m mod 2 ^ k = 0 -> req <= m -> False.
Proof. exact refused_size_uncoverable. Qed.
Print Assumptions C15_refused_size_uncoverable.

(* The payload transfer size is 64 KiB for k <= 16 and 2^k above. *)
Theorem C15_transfer_size : forall k, 0 <= k <= 31 -> pts_of (2 ^ k) = if k <=? 16 then 65536 else 2 ^ k.
Proof. exact pts_value. Qed.
Print Assumptions C15_transfer_size.

(* ---- the defects of the pinned code ------------------------------------------------------ *)

(* 9f212d6: the required trailer size was read from REQUIRED_LEADER_SIZE: leader 52 / trailer 64
   programmed a maximum trailer size of 52. *)
Theorem C15_trailer_v0_refuted : forall s : st,
  exists p, compute_sizes_v0 false 1 52 1000 64 s = (Ok p, s) /\ sp_trailer p = 52 /\ sp_trailer p < 64.
Proof. exact trailer_v0_refuted. Qed.
Print Assumptions C15_trailer_v0_refuted.

(* 03aec4e: unchecked align!: alignment 2^16, required leader 2^32 - 1 panicked (debug build). *)
Theorem C15_align_overflow_v0_refuted : forall s : st,
  compute_sizes_v0 true (2 ^ 16) (2 ^ 32 - 1) 1000 64 s = (Panic, s).
Proof. exact align_overflow_v0_refuted. Qed.
Print Assumptions C15_align_overflow_v0_refuted.

(* 7004d0a: "as u32" on the transfer count: a payload of 2^48 bytes was programmed as 0 bytes. *)
Theorem C15_count_truncation_v0_refuted : forall s : st,
  exists p, compute_sizes_v0 true (2 ^ 4) 52 (2 ^ 48) 64 s = (Ok p, s) /\
            sp_size p * sp_count p + sp_final1 p + sp_final2 p = 0.
Proof. exact count_truncation_v0_refuted. Qed.
Print Assumptions C15_count_truncation_v0_refuted.

(* ---- the program against ANY scripted device ------------------------------------------------ *)
(* [good c]: the request id is a u16 and the negotiated maximum command length is at least 24 (a
   32-bit register then travels in one WriteMem command; below 24 the code legitimately splits it).
   Nothing is assumed about the world: arbitrary memory, arbitrary per-transaction plans (send
   errors, receive errors, pending / edited / raw acknowledges), handle opened or not, SIRM
   address cached or not. *)

(* Reading never writes: every read path used here leaves the device write log untouched and
   the handle usable, whatever the device answers. *)
Theorem C15_reads_do_not_write :
  (forall a n, quiet (read_reg a n)) /\ quiet h_sirm /\ quiet stream_params /\
  (forall al rl rp rt, quiet (compute_sizes al rl rp rt)).
Proof. exact (conj read_reg_quiet (conj h_sirm_quiet (conj stream_params_quiet compute_sizes_quiet))). Qed.
Print Assumptions C15_reads_do_not_write.

(* A register write of at most 4 bytes reaches the device at most once, as exactly these bytes
   at exactly this address, and exactly once when it returns Ok. *)
Theorem C15_register_write_once : forall a d c w r c' w', 0 < zlen d <= 4 -> bytes_ok d -> good c ->
  ctl_write a d (c, w) = (r, (c', w')) ->
  good c' /\ exists l, w_writes w' = rev l ++ w_writes w /\
                       ((l = [] /\ r <> Ok tt) \/ l = [(a mod 2 ^ 64, d)]).
Proof.
  intros a d c w r c' w' Hd Hb G H. destruct (emits_ctl_write a d Hd Hb c w r c' w' G H) as [G' [l [W P]]].
  split; [exact G'|]. exists l. split; [exact W|]. destruct P as [[L N]|L]; [left|right; exact L].
  split; [exact L|]. apply N.
Qed.
Print Assumptions C15_register_write_once.

(* C15_order.  Whatever the device does, the device write log left by enable_streaming is the old
   log plus the first n of the intended writes, in order:
     [SI_CONTROL := 0 if the stream was found enabled; transfer size; transfer count; final1;
      final2; maximum leader; maximum trailer; SI_CONTROL := 1]
   and all of them when the result is Ok.  Hence the write that sets the enable bit is the last
   one, no SIRM size register is written after it, every size register write comes after the
   clearing write, and a run that stops early has not written the enable bit. *)
Theorem C15_order : forall c w r c' w', good c -> ctl_enable_streaming (c, w) = (r, (c', w')) ->
  good c' /\ exists sirm dis p n, (n <= length (intended dis p))%nat /\
    w_writes w' = rev (firstn n (map (img sirm) (intended dis p))) ++ w_writes w /\
    (r = Ok tt -> n = length (intended dis p)).
Proof. exact enable_order. Qed.
Print Assumptions C15_order.

Theorem C15_order_ok : forall c w c' w', good c -> ctl_enable_streaming (c, w) = (Ok tt, (c', w')) ->
  exists sirm dis p,
    w_writes w' = img sirm (4, 1) :: rev (map (img sirm) (six p)) ++
                  (if dis : bool then [img sirm (4, 0)] else []) ++ w_writes w.
Proof. exact enable_order_ok. Qed.
Print Assumptions C15_order_ok.

(* ---- failure ------------------------------------------------------------------------------------ *)

(* A failing step of a bindM chain ends the chain with that error and the state the step left. *)
Theorem C15_failure_generic : forall A B (m : M A) (f : A -> M B) s e s',
  m s = (Err e, s') -> bindM m f s = (Err e, s').
Proof. exact @bind_err. Qed.
Print Assumptions C15_failure_generic.

(* enable_streaming is its read prefix followed by the seven register writes as a sequence. *)
Theorem C15_enable_as_seq : forall s, ctl_enable_streaming s = enable_alt s.
Proof. exact enable_as_seq. Qed.
Print Assumptions C15_enable_as_seq.

(* C15_failure.  In the write sequence: if the steps before step i = |pre| were acknowledged and
   step i does not return Ok, the whole sequence returns that result with the state the failing
   step left (steps > i are not performed), and the device log holds the i earlier writes plus
   at most the failing one; for i < 6 the enable write (last element of plan_regs) is therefore
   not in the log. *)
Theorem C15_failure : forall sirm pre x post c w c1 w1 (r1 : outcome unit) c2 w2, good c ->
  write_seq sirm pre (c, w) = (Ok tt, (c1, w1)) -> wstep1 sirm x (c1, w1) = (r1, (c2, w2)) -> r1 <> Ok tt ->
  write_seq sirm (pre ++ x :: post) (c, w) = (r1, (c2, w2)) /\
  exists n, (length pre <= n <= length pre + 1)%nat /\
    w_writes w2 = rev (firstn n (map (img sirm) (pre ++ x :: post))) ++ w_writes w.
Proof. exact write_seq_failure. Qed.
Print Assumptions C15_failure.

(* ---- read-back (partial) ---------------------------------------------------------------------------- *)

(* C15_params_readback_partial.  Full statement (established by the correspondence check on every
   case, not by a theorem): on the world left by a successful ctl_enable_streaming against a
   conforming device, stream_params returns [sp_leader p; sp_trailer p; sp_size p; sp_count p;
   sp_final1 p; sp_final2 p] for the programmed plan p.
   Proved here: the one-register core of it.  On a conforming device (every transaction plan is
   pending acknowledges below the retry count followed by the conforming acknowledge), an opened
   handle with sane negotiated limits and a register [a, a+4) inside device memory: a 32-bit value
   written with write_register is acknowledged, is what read_register returns from that address,
   and the device memory differs from before exactly by those four bytes.  Together with
   C15_covers (every programmed value is below 2^32) and C15_reads_do_not_write. *)
Theorem C15_params_readback_partial : forall c w a v pre b m post,
  c_opened c = true -> 12 < c_max_ack c < 2 ^ 32 -> 24 <= c_max_cmd c -> 0 <= c_next c < 2 ^ 16 ->
  1 <= c_retry c -> conf (c_retry c) w ->
  range_in (w_segs w) a 4 pre b m post -> 0 <= a -> a + 4 <= 2 ^ 64 -> 0 <= v < 2 ^ 32 ->
  exists c1 w1 c2 w2,
    write_reg a 4 v (c, w) = (Ok tt, (c1, w1)) /\ read_reg a 4 (c1, w1) = (Ok v, (c2, w2)) /\
    w_segs w2 = pre ++ (b, set_at (a - b) m (le_bytes 4 v)) :: post.
Proof. exact write_then_read. Qed.
Print Assumptions C15_params_readback_partial.

(* ---- read-back (full) ---------------------------------------------------------------------------------- *)

(* C15_params_readback.  A conforming device and a usable handle:
     good_conf (c, w)  (proofs/P_C14b.v) = handle opened, 12 < max_ack < 2^32, request id in u16, ABRM
       capability cached (it is after open), 24 <= max_cmd, retry >= 1, every remaining transaction plan
       conforming (pending acknowledges below the retry count, then the conforming acknowledge), and the
       memory segments separated and inside the 64-bit address space;
   the SIRM block [sirm, sirm + 48) inside one memory segment (P_C06.range_in);
   the bootstrap registers that ControlHandle::sirm and StreamParams::from_control read hold
   (u_field segs a n v: the n-byte little-endian register at a holds v, spec/ManifestSpec.v):
     ABRM 0x1D8 = sbrm, SBRM+4 = U3V capability with bit 0 (SIRM available) set, SBRM+0x20 = sirm,
     ABRM 0x1C4 (device capability) and ABRM 0x1CC (maximum device response time) readable,
   and none of them overlaps the SIRM block (enable_streaming writes into it);
   whatever the handle has cached of the SBRM / SIRM handles agrees with the device (cache_ok);
   the SIRM registers hold SI_INFO = info (alignment exponent k = info / 2^24), SI_CONTROL = ctrl,
   REQUIRED_LEADER_SIZE = rl, REQUIRED_PAYLOAD_SIZE = rp, REQUIRED_TRAILER_SIZE = rt.
   If enable_streaming returns Ok, then k < 32, the requirement is programmable, compute_sizes yields the plan
   p = plan_of (2^k) rl rp rt (which covers the requirement, C15_covers), the device memory is the
   initial one with exactly the seven (eight when bit 0 of ctrl was set) registers replaced, SI_CONTROL
   holds 1, each of the six size registers holds the plan's value, and StreamParams::from_control on the
   resulting state returns exactly [leader; trailer; size; count; final1; final2] of the plan. *)
Theorem C15_params_readback :
  forall (pre post : list (Z * list Z)) (b sirm : Z) (m : list Z),
  range_in (pre ++ (b, m) :: post) sirm 48 pre b m post -> 0 <= sirm -> sirm + 48 <= 2 ^ 64 ->
  forall sbrm ucap devcap resp : Z,
  let segs := pre ++ (b, m) :: post in
  u_field segs 472 8 sbrm -> sbrm + 4 < 2 ^ 64 -> u_field segs (sbrm + 4) 8 ucap -> Z.odd ucap = true ->
  sbrm + 32 < 2 ^ 64 -> u_field segs (sbrm + 32) 8 sirm ->
  u_field segs 452 8 devcap -> u_field segs 460 4 resp ->
  472 + 8 <= sirm \/ sirm + 48 <= 472 -> 452 + 8 <= sirm \/ sirm + 48 <= 452 ->
  460 + 4 <= sirm \/ sirm + 48 <= 460 ->
  sbrm + 4 + 8 <= sirm \/ sirm + 48 <= sbrm + 4 -> sbrm + 32 + 8 <= sirm \/ sirm + 48 <= sbrm + 32 ->
  forall info ctrl rl rp rt : Z,
  u_field segs (sirm + 0) 4 info -> u_field segs (sirm + 4) 4 ctrl -> u_field segs (sirm + 16) 4 rl ->
  u_field segs (sirm + 8) 8 rp -> u_field segs (sirm + 20) 4 rt ->
  forall (c : ctl) (w : world) (c' : ctl) (w' : world),
  good_conf (c, w) -> w_segs w = segs ->
  (c_sirm c = None \/ c_sirm c = Some sirm) /\ (c_sbrm c = None \/ c_sbrm c = Some (sbrm, ucap)) ->
  ctl_enable_streaming (c, w) = (Ok tt, (c', w')) ->
  let k := info / 2 ^ 24 in
  let p := plan_of (2 ^ k) rl rp rt in
  k < 32 /\ programmable (2 ^ k) rl rp rt /\
  (forall s0 : st, compute_sizes (2 ^ k) rl rp rt s0 = (Ok p, s0)) /\
  covers (2 ^ k) rl rp rt p /\
  w_segs w' = pre ++ (b, puts b sirm (plan_regs p) (if Z.odd ctrl then put b sirm 4 0 m else m)) :: post /\
  u_field (w_segs w') (sirm + 4) 4 1 /\
  (forall off v, In (off, v) (plan_regs p) -> u_field (w_segs w') (sirm + off) 4 v) /\
  exists s'', stream_params (c', w') =
              (Ok [sp_leader p; sp_trailer p; sp_size p; sp_count p; sp_final1 p; sp_final2 p], s'').
Proof. exact params_readback. Qed.
Print Assumptions C15_params_readback.

(* The hypotheses of C15_params_readback are satisfiable: on the standard device image of the check
   (ABRM at 0, SBRM at 0x10000, SIRM at 0x20000; k = 3, stream enabled, leader 52, payload 1000,
   trailer 64) every premise holds (proved inside the lemma by instantiating the theorem), the run is Ok
   and from_control returns leader 56, trailer 64, size 65536, count 0, final1 1000, final2 0. *)
Theorem C15_params_readback_nonvacuous :
  exists c' w' s'', ctl_enable_streaming (ex_good_ctl, ex_world) = (Ok tt, (c', w')) /\
    stream_params (c', w') = (Ok [56; 64; 65536; 0; 1000; 0], s'').
Proof. exact readback_example. Qed.
Print Assumptions C15_params_readback_nonvacuous.

(* ---- histories: the parameters a start puts in force (restarts included) ------------------------------- *)

(* model/StreamStart.v: strm_start = StreamHandle::start_streaming_loop (self.params := from_control(ctrl),
   the loop gets a clone), strm_stop, w_poke (device memory changes behind the host's back).
   proofs/P_C15d.v: a history is a list of  HEnable | HDisable | HStart | HStop | HReconf off data  steps on one
   (ControlHandle, device, StreamHandle) triple; run_hist executes it and carries, as a ghost value, the plan
   compute_sizes yields for the SIRM contents at the latest enable_streaming that returned Ok (plan_in).
   hist_inv x last: for some image m of the segment holding the SIRM block, Env m (exactly the device
   hypotheses of C15_params_readback: block in one segment, bootstrap registers readable and outside the
   block; plus: the segment holds bytes), the state is a good conforming one over that memory with consistent
   caches, and when last = Some p the six size registers hold p.
   hop_ok: a reconfiguration writes bytes into offsets 0..23 of the SIRM only (SI_INFO, SI_CONTROL, the REQUIRED sizes). *)

(* the invariant holds before any step under the hypotheses of C15_params_readback *)
Theorem C15_history_init : forall pre post b sirm sbrm ucap devcap resp m s h,
  Env pre post b sirm sbrm ucap devcap resp m -> atg sirm sbrm ucap (blk pre post b m) s ->
  hist_inv pre post b sirm sbrm ucap devcap resp (s, h) None.
Proof. exact hist_inv_init. Qed.
Print Assumptions C15_history_init.

(* every step of every history preserves it *)
Theorem C15_history_invariant : forall pre post b sirm sbrm ucap devcap resp ops x last,
  hist_inv pre post b sirm sbrm ucap devcap resp x last -> Forall hop_ok ops ->
  hist_inv pre post b sirm sbrm ucap devcap resp (fst (run_hist sirm ops x last)) (snd (run_hist sirm ops x last)).
Proof. exact run_hist_inv. Qed.
Print Assumptions C15_history_invariant.

(* C15_restart.  For EVERY history of enable / disable / start / stop / reconfigure steps on a conforming
   device: if the latest successful enable_streaming programmed plan p, a start at that point (the first
   one or a restart, with or without a reconfiguration in between) returns Ok (or InStreaming when the loop
   is running), and the parameters the StreamHandle then holds and hands to the receive loop are exactly
   [leader; trailer; size; count; final1; final2] of p; the invariant continues to hold. *)
Theorem C15_restart : forall pre post b sirm sbrm ucap devcap resp ops x last x' p r x'',
  hist_inv pre post b sirm sbrm ucap devcap resp x last -> Forall hop_ok ops ->
  run_hist sirm ops x last = (x', Some p) -> strm_start x' = (r, x'') ->
  (r = Ok tt \/ r = Err SE_IN_STREAMING) /\ sh_running (snd x'') = true /\
  sh_params (snd x'') = [sp_leader p; sp_trailer p; sp_size p; sp_count p; sp_final1 p; sp_final2 p] /\
  hist_inv pre post b sirm sbrm ucap devcap resp x'' (Some p).
Proof. exact restart_params. Qed.
Print Assumptions C15_restart.

(* Not vacuous: on the standard device image the invariant holds initially, and the history
   enable; start; stop; disable; the camera now asks for payload 300000 and leader 100; enable
   followed by a start puts the NEW plan in force (104, 64, 65536, 4, 37856, 0), not the first run's. *)
Theorem C15_restart_nonvacuous :
  hist_inv [(0, ex_abrm); (65536, ex_sbrm)] [] 131072 131072 65536 1 0 0 ((ex_good_ctl, ex_world), sh_init) None /\
  exists x' p x'',
    run_hist 131072 [HEnable; HStart; HStop; HDisable; HReconf 8 (le_bytes 8 300000); HReconf 16 (le_bytes 4 100);
                     HEnable] ((ex_good_ctl, ex_world), sh_init) None = (x', Some p) /\
    strm_start x' = (Ok tt, x'') /\ sh_params (snd x'') = [104; 64; 65536; 4; 37856; 0].
Proof. exact (conj hist_inv_example restart_example). Qed.
Print Assumptions C15_restart_nonvacuous.

(* TIE TO THE SOURCE CODE.  gen/EnableStreaming.v is regenerated on every run by tools/translate_code.py from the BODY of
   enable_streaming (control_handle.rs: every `let` of the size computation with the align! macro expanded, the
   try_into, the `as` casts, `/` and `%`) and from the Sirm accessors it calls (register_map.rs: which register each
   getter reads and each setter writes), as a Gallina function over the debug-build semantics of Rust's integer
   operations (lib/RustInt.v).  For every alignment 2^k and all register contents the translated code never panics,
   fails exactly when the model fails (with InvalidDevice), and otherwise writes exactly the model's six
   (register, value) pairs in the model's order. *)
From Cam Require Import RustInt EnableStreaming P_C15s.

Theorem C15_sizes_from_source : forall k l p t (s : st),
  0 <= k <= 31 -> 0 <= l < 2 ^ 32 -> 0 <= p < 2 ^ 64 -> 0 <= t < 2 ^ 32 ->
  match src_enable_streaming_writes (2 ^ k) l p t with
  | Ok ws => exists plan, compute_sizes (2 ^ k) l p t s = (Ok plan, s) /\ ws = six plan
  | Err e => compute_sizes (2 ^ k) l p t s = (Err e, s) /\ e = Control.CE_INVALID_DEVICE
  | Panic => False
  end.
Proof. exact sizes_from_source. Qed.
Print Assumptions C15_sizes_from_source.

Theorem C15_requirement_reads_from_source : map fst src_es_reads = [16; 8; 20] /\ map snd src_es_reads = [4; 8; 4].
Proof. exact reads_from_source. Qed.
Print Assumptions C15_requirement_reads_from_source.

(* x & !(2^k - 1) on w bits (what align! computes) is rounding down to a multiple of 2^k (what the model computes) *)
Theorem C15_mask_is_round_down : forall y k w, 0 <= k <= w -> 0 <= y < 2 ^ w ->
  Z.land y (2 ^ w - 1 - (2 ^ k - 1)) = y - y mod 2 ^ k.
Proof. exact land_high_mask. Qed.
Print Assumptions C15_mask_is_round_down.

(* TIE TO THE SOURCE CODE of StreamParams::from_control (gen/StreamParamsSrc.v, re-translated by
   tools/translate_streamparams.py on every run from cameleon/src/u3v/stream_handle.rs; the register each Sirm / Abrm
   getter reads is taken from the getter's body in register_map.rs and emitted as the gen/RegTables.v constant; the calls
   into register_map.rs mean what model/SpOps.v says, over model/Control.v).  For EVERY state of the control handle and
   the device world the translated from_control leaves the same state as the model's stream_params and returns the same
   outcome - the six parameters in the model's order, each `as usize`; under the invariant of the control model
   (C07_every_operation_sound: register reads return u32 values) the conversions change nothing and the two are equal;
   the transfers the model's loop_submits lists are leader, the TRANSLATED payload_transfer_sizes, trailer *)
From Cam Require Import RdOps SpOps StreamParamsSrc P_C07c P_C12s.

Theorem C15_stream_params_from_source :
  (forall s, snd (src_StreamParams_from_control s) = snd (stream_params s) /\
             omap sp_list (fst (src_StreamParams_from_control s)) = omap (map (r_cast 64)) (fst (stream_params s))) /\
  (forall s, inv s ->
     stream_params s = (omap sp_list (fst (src_StreamParams_from_control s)), snd (src_StreamParams_from_control s))) /\
  (forall p, loop_submits (sp_list p) =
             StreamParams_leader_size p :: src_StreamParams_payload_transfer_sizes p ++ [StreamParams_trailer_size p]).
Proof. exact stream_params_from_source_all. Qed.
Print Assumptions C15_stream_params_from_source.

(* non-vacuity: on the device image of C15_params_readback_nonvacuous, enable_streaming followed by the translated
   from_control gives leader 56, trailer 64, size 65536, count 0, final1 1000, final2 0 *)
Theorem C15_stream_params_source_example :
  match ctl_enable_streaming (ex_good_ctl, ex_world) with
  | (Ok _, s1) => omap sp_list (fst (src_StreamParams_from_control s1))
  | _ => Err 0
  end = Ok [56; 64; 65536; 0; 1000; 0].
Proof. exact c15s_example. Qed.
Print Assumptions C15_stream_params_source_example.

(* <StreamHandle as PayloadStream>::start_streaming_loop / stop_streaming_loop as the lists of their statements in the
   source's order (gen/StreamParamsSrc.v; meaning of a statement: hs_run of model/SpOps.v), for every handle state and
   device world: the parameters are read back first (an error becomes Io and changes nothing), InStreaming is reported
   after that, the cancellation sender is stored before the thread is spawned; stop clears it only when it is there -
   exactly model/StreamStart.v's strm_start / strm_stop *)
Theorem C15_stream_start_from_source : forall x,
  hs_run 16 src_StreamHandle_start_streaming_loop x = strm_start x /\
  hs_run 16 src_StreamHandle_stop_streaming_loop x = strm_stop x.
Proof. exact stream_start_from_source. Qed.
Print Assumptions C15_stream_start_from_source.
