(* C15 — Enabling streaming programs transfer sizes that cover the device's requirements.
   Statements only; proofs are in proofs/P_C15.v.  Model: model/Control.v (compute_sizes,
   ctl_enable_streaming, stream_params) = cameleon/src/u3v/control_handle.rs enable_streaming
   after the fix commits 9f212d6, 03aec4e, 7004d0a. *)
From Cam Require Import Outcome Bytes Chunks Cmd Ack Control P_C15.

(* ---- the size computation ------------------------------------------------------------ *)

(* For every alignment exponent the code accepts (k <= 31), all required leader / trailer sizes
   (no upper bound needed: what cannot be aligned within 32 bits is refused) and every u64
   required payload size: when the computation succeeds the state is untouched and the programmed
   values cover the requirements, every size is a multiple of 2^k, and every value fits its
   32-bit register ([covers], 15 clauses; in particular "as u32" never truncates final1). *)
Theorem C15_covers : forall k rl rp rt (s s' : st) p,
  0 <= k <= 31 -> 0 <= rl -> 0 <= rp < 2 ^ 64 -> 0 <= rt ->
  compute_sizes (2 ^ k) rl rp rt s = (Ok p, s') ->
  s' = s /\ covers (2 ^ k) rl rp rt p.
Proof. exact compute_sizes_covers. Qed.
Print Assumptions C15_covers.

(* The result is Ok (with the plan [plan_of]) exactly on the programmable requirements:
   payload / transfer size < 2^32 and leader, trailer = 0 or + 2^k - 1 < 2^32; otherwise
   ControlError::InvalidDevice. Never a panic. *)
Theorem C15_ok_iff_programmable : forall k rl rp rt (s : st), 0 <= k <= 31 -> 0 <= rp < 2 ^ 64 ->
  (programmable (2 ^ k) rl rp rt -> compute_sizes (2 ^ k) rl rp rt s = (Ok (plan_of (2 ^ k) rl rp rt), s)) /\
  (~ programmable (2 ^ k) rl rp rt -> compute_sizes (2 ^ k) rl rp rt s = (Err CE_INVALID_DEVICE, s)).
Proof. exact compute_sizes_ok_iff. Qed.
Print Assumptions C15_ok_iff_programmable.

Theorem C15_no_panic : forall k rl rp rt (s s' : st), 0 <= k <= 31 -> 0 <= rp < 2 ^ 64 ->
  compute_sizes (2 ^ k) rl rp rt s <> (Panic, s').
Proof. exact compute_sizes_no_panic. Qed.
Print Assumptions C15_no_panic.

(* Everything inside the property's quantifier (k <= 16, leader / trailer <= 2^32 - 2^k, payload
   < 2^48 which includes 2^40) is programmable, hence Ok and covered. *)
Theorem C15_quantifier_programmable : forall k rl rp rt, 0 <= k <= 16 ->
  0 <= rl <= 2 ^ 32 - 2 ^ k -> 0 <= rt <= 2 ^ 32 - 2 ^ k -> 0 <= rp < 2 ^ 48 ->
  programmable (2 ^ k) rl rp rt.
Proof. exact quantifier_programmable. Qed.
Print Assumptions C15_quantifier_programmable.

(* A refused leader / trailer requirement is one that NO aligned 32-bit register value covers. *)
Theorem C15_refused_size_uncoverable : forall k req m, 0 <= k <= 31 -> ~ fits32 req (2 ^ k) ->
  0 <= m < 2 ^ 32 -> m mod 2 ^ k = 0 -> req <= m -> False.
Proof. exact refused_size_uncoverable. Qed.
Print Assumptions C15_refused_size_uncoverable.

(* The payload transfer size is 64 KiB for k <= 16 and 2^k above. *)
Theorem C15_transfer_size : forall k, 0 <= k <= 31 -> pts_of (2 ^ k) = if k <=? 16 then 65536 else 2 ^ k.
Proof. exact pts_value. Qed.
Print Assumptions C15_transfer_size.

(* ---- the defects of the pinned code ------------------------------------------------------ *)

(* 9f212d6: the required trailer size was read from REQUIRED_LEADER_SIZE: leader 52 / trailer 64
   programmed a maximum trailer size of 52. *)
Theorem C15_trailer_v0_refuted : forall s : st,
  exists p, compute_sizes_v0 false 1 52 1000 64 s = (Ok p, s) /\ sp_trailer p = 52 /\ sp_trailer p < 64.
Proof. exact trailer_v0_refuted. Qed.
Print Assumptions C15_trailer_v0_refuted.

(* 03aec4e: unchecked align!: alignment 2^16, required leader 2^32 - 1 panicked (debug build). *)
Theorem C15_align_overflow_v0_refuted : forall s : st,
  compute_sizes_v0 true (2 ^ 16) (2 ^ 32 - 1) 1000 64 s = (Panic, s).
Proof. exact align_overflow_v0_refuted. Qed.
Print Assumptions C15_align_overflow_v0_refuted.

(* 7004d0a: "as u32" on the transfer count: a payload of 2^48 bytes was programmed as 0 bytes. *)
Theorem C15_count_truncation_v0_refuted : forall s : st,
  exists p, compute_sizes_v0 true (2 ^ 4) 52 (2 ^ 48) 64 s = (Ok p, s) /\
            sp_size p * sp_count p + sp_final1 p + sp_final2 p = 0.
Proof. exact count_truncation_v0_refuted. Qed.
Print Assumptions C15_count_truncation_v0_refuted.
