(* C01 — Register features encode and decode values exactly.  Statements only; proofs in
   proofs/P_C01.v.  [in_dev d a n]: the range [a, a+n) lies inside the device image and no
   access is scripted to fail.  [same_outside d d' a n]: every byte outside [a, a+n) is
   unchanged.  Model: model/RegCodec.v (uncached register access). *)
From Cam Require Import Outcome Bytes Mem BitField RegCodec P_C01 P_C01f RustBytes CodecSrc P_C01s.

(* integers: the image written is the two's-complement image in the declared byte order, one
   write of exactly [address, address+length), read-back returns the value *)
Theorem C01_int_set_then_value : forall r n v d,
  supported_int_len (r_len r) = true -> int_in_range (r_len r) (n_sign n) v ->
  in_dev d (r_addr r) (r_len r) ->
  exists d1 d2,
    int_set_value r n v d = (Ok tt, d1) /\
    d_log d1 = WrAcc (r_addr r) (int_image v (r_len r) (r_endian r)) :: d_log d /\
    same_outside d d1 (r_addr r) (r_len r) /\
    int_value r n d1 = (Ok v, d2) /\
    d_log d2 = RdAcc (r_addr r) (r_len r) :: d_log d1 /\ d_mem d2 = d_mem d1.
Proof. exact int_set_then_value. Qed.
Print Assumptions C01_int_set_then_value.

(* every byte image held by the device decodes to the number whose image it is *)
Theorem C01_int_read_any_image : forall r n d,
  supported_int_len (r_len r) = true -> bytes_ok (d_mem d) -> in_dev d (r_addr r) (r_len r) ->
  exists z d', int_value r n d = (Ok z, d') /\ d_log d' = RdAcc (r_addr r) (r_len r) :: d_log d /\
    d_mem d' = d_mem d /\
    int_image z (r_len r) (r_endian r) = take (r_len r) (drop (r_addr r - d_base d) (d_mem d)).
Proof. exact int_value_any. Qed.
Print Assumptions C01_int_read_any_image.

Theorem C01_int_decode_any : forall bs e s, bytes_ok bs -> supported_int_len (zlen bs) = true ->
  exists z, int_from_slice bs e s = Ok z /\ int_image z (zlen bs) e = bs /\
            (if s =? 1 then int_in_range (zlen bs) 1 z
             else - 2 ^ 63 <= z < 2 ^ 63 /\ z mod 2 ^ (8 * zlen bs) = of_le (order e bs)).
Proof. exact int_decode_any. Qed.
Print Assumptions C01_int_decode_any.

Theorem C01_int_unsupported_len_no_write : forall r n v d, supported_int_len (r_len r) = false ->
  int_set_value r n v d = (Err E_INVALID_BUFFER, d).
Proof. exact int_set_unsupported. Qed.
Print Assumptions C01_int_unsupported_len_no_write.

(* 8-byte floats are bit exact for all 2^64 patterns (NaN payloads, signed zeros, subnormals) *)
Theorem C01_f64_bits_exact : forall b e, 0 <= b < 2 ^ 64 ->
  exists img, bytes_from_float b 8 e = Ok img /\ zlen img = 8 /\ float_from_slice img e = Ok b /\
              img = order e (le_bytes 8 b).
Proof. exact f64_bits_exact. Qed.
Print Assumptions C01_f64_bits_exact.

(* 4-byte floats: for every binary32 pattern that is not a NaN, narrowing its widening gives the
   pattern back, so a 4-byte float register written with an f32-representable value holds the
   binary32 image and reads back exactly that value (zeros, subnormals, normals, infinities) *)
Theorem C01_f32_roundtrip : forall b, 0 <= b < 2 ^ 32 -> is_nan32 b = false -> narrow (widen b) = b.
Proof. exact f32_roundtrip. Qed.
Print Assumptions C01_f32_roundtrip.

Theorem C01_f32_register_roundtrip : forall x e, 0 <= x < 2 ^ 32 -> is_nan32 x = false ->
  exists img, bytes_from_float (widen x) 4 e = Ok img /\ img = order e (le_bytes 4 x) /\
              float_from_slice img e = Ok (widen x).
Proof. exact f32_register_roundtrip. Qed.
Print Assumptions C01_f32_register_roundtrip.

Theorem C01_float_unsupported_len : forall bits len e, len <> 4 -> len <> 8 ->
  bytes_from_float bits len e = Err E_INVALID_BUFFER.
Proof. exact float_unsupported. Qed.
Print Assumptions C01_float_unsupported_len.

(* strings: NUL-padded ASCII image, read-back; unrepresentable strings refused with no access *)
Theorem C01_str_roundtrip : forall r s d,
  is_ascii s = true -> has_nul s = false -> zlen s <= r_len r -> in_dev d (r_addr r) (r_len r) ->
  exists d1 d2,
    string_set_value r s d = (Ok tt, d1) /\
    d_log d1 = WrAcc (r_addr r) (str_image (r_len r) s) :: d_log d /\
    same_outside d d1 (r_addr r) (r_len r) /\
    string_value r d1 = (Ok s, d2) /\ d_log d2 = RdAcc (r_addr r) (r_len r) :: d_log d1.
Proof. exact string_set_then_value. Qed.
Print Assumptions C01_str_roundtrip.

Theorem C01_str_refused : forall r s d,
  is_ascii s = false \/ has_nul s = true \/ r_len r < zlen s ->
  string_set_value r s d = (Err E_INVALID_DATA, d).
Proof. exact string_refused. Qed.
Print Assumptions C01_str_refused.

(* raw register access transfers exactly [address, address+length); other buffer lengths are
   refused with no device access *)
Theorem C01_raw_write_exact : forall r bs d, zlen bs = r_len r -> in_dev d (r_addr r) (r_len r) ->
  exists d1, reg_write r bs d = (Ok tt, d1) /\ d_log d1 = WrAcc (r_addr r) bs :: d_log d /\
             same_outside d d1 (r_addr r) (r_len r) /\
             take (r_len r) (drop (r_addr r - d_base d) (d_mem d1)) = bs.
Proof. exact raw_write_exact. Qed.
Print Assumptions C01_raw_write_exact.

Theorem C01_raw_read_exact : forall r d, in_dev d (r_addr r) (r_len r) ->
  exists d1, reg_read r (r_len r) d = (Ok (take (r_len r) (drop (r_addr r - d_base d) (d_mem d))), d1) /\
             d_log d1 = RdAcc (r_addr r) (r_len r) :: d_log d /\ d_mem d1 = d_mem d.
Proof. exact raw_read_exact. Qed.
Print Assumptions C01_raw_read_exact.

Theorem C01_raw_wrong_length : forall r d,
  (forall bs, zlen bs <> r_len r -> reg_write r bs d = (Err E_INVALID_BUFFER, d)) /\
  (forall n, n <> r_len r -> reg_read r n d = (Err E_INVALID_BUFFER, d)).
Proof. exact raw_wrong_length. Qed.
Print Assumptions C01_raw_wrong_length.

(* pinned code: a string with an embedded NUL was accepted and read back differently *)
Theorem C01_str_v0_refuted :
  exists r s d d1 d2, has_nul s = true /\ string_set_value_with true r s d = (Ok tt, d1) /\
                      string_value r d1 = (Ok [97], d2) /\ s <> [97].
Proof. exact string_v0_refuted. Qed.
Print Assumptions C01_str_v0_refuted.

(* ---- the code itself: gen/CodecSrc.v is regenerated from int_from_slice / bytes_from_int / float_from_slice /
   bytes_from_float of genapi/src/utils.rs on every run (tools/translate_codec.py: the macro arms, the invocation list
   and the match arms in the source's order, over the byte conversions of lib/RustBytes.v). *)
Theorem C01_int_decode_from_source : forall bs e s, bytes_ok bs -> flag e -> flag s ->
  src_int_from_slice bs e s = int_from_slice bs e s.
Proof. exact int_from_source. Qed.
Print Assumptions C01_int_decode_from_source.

Theorem C01_int_encode_from_source : forall v len e s, flag e -> flag s ->
  src_bytes_from_int v len e s = bytes_from_int v len e s.
Proof. exact bytes_from_int_source. Qed.
Print Assumptions C01_int_encode_from_source.

Theorem C01_float_decode_from_source : forall bs e, flag e -> src_float_from_slice bs e = float_from_slice bs e.
Proof. exact float_from_source. Qed.
Print Assumptions C01_float_decode_from_source.

Theorem C01_float_encode_from_source : forall bits len e, flag e ->
  src_bytes_from_float bits len e = bytes_from_float bits len e.
Proof. exact bytes_from_float_source. Qed.
Print Assumptions C01_float_encode_from_source.

(* the round trip, of the translated code: every in-range value of a supported length is encoded into exactly [len]
   bytes that decode to it, in both byte orders and both signednesses *)
Theorem C01_source_int_roundtrip : forall v len e s, flag e -> flag s -> supported_int_len len = true ->
  int_in_range len s v ->
  exists img, src_bytes_from_int v len e s = Ok img /\ zlen img = len /\ src_int_from_slice img e s = Ok v.
Proof. exact source_int_roundtrip. Qed.
Print Assumptions C01_source_int_roundtrip.
