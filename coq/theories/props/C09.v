(* C09 — Command packets serialize to the exact U3V wire layout.
   Statements only; proofs are in proofs/P_C09.v.  [constructed c d] says that
   [c] was obtained through a public constructor (ReadMem::new, WriteMem::new,
   ReadMemStacked::new, WriteMemStacked::new) from the abstract command [d]
   with in-type arguments (u64 addresses, u16 lengths, u8 data). *)
From Cam Require Import Outcome Bytes Chunks Cmd CmdLayout P_C09.

(* The independent layout decoder recovers exactly the command and request id. *)
Theorem C09_layout : forall c d id, constructed c d -> 0 <= id < 2 ^ 16 ->
  spec_decode (serialize_vec c id) = Some (d, id).
Proof. exact constructed_layout. Qed.
Print Assumptions C09_layout.

(* byte count = cmd_len = 12 + SCD-length field, which fits 16 bits *)
Theorem C09_lengths_agree : forall c d id, constructed c d ->
  zlen (serialize_vec c id) = cmd_len c /\ cmd_len c = 12 + scd_len c /\ 0 <= scd_len c < 2 ^ 16.
Proof. exact constructed_lengths. Qed.
Print Assumptions C09_lengths_agree.

(* maximum_ack_len bounds every conforming acknowledge, a pending one included *)
Theorem C09_ack_upper_bound : forall c d, constructed c d ->
  Forall (fun l => l <= maximum_ack_len c) (conforming_ack_lens d).
Proof. exact constructed_ack_bound. Qed.
Print Assumptions C09_ack_upper_bound.

(* an exact-size slice receives the same bytes as a growable vector *)
Theorem C09_sinks_agree : forall c d id, constructed c d ->
  fst (serialize c id (slice_sink (cmd_len c))) = Ok tt /\
  s_out (snd (serialize c id (slice_sink (cmd_len c)))) = serialize_vec c id.
Proof. exact constructed_sinks_agree. Qed.
Print Assumptions C09_sinks_agree.

(* no truncation: constructors are Ok exactly when the true lengths fit 16 bits *)
Theorem C09_write_refused : forall a d, 65527 < zlen d -> mk_write a d = Err E_INVALID_PACKET.
Proof. exact mk_write_refuses. Qed.
Print Assumptions C09_write_refused.

Theorem C09_write_accepted : forall a d, zlen d <= 65527 -> exists c, mk_write a d = Ok c.
Proof. exact mk_write_accepts. Qed.
Print Assumptions C09_write_accepted.

Theorem C09_read_stacked_no_truncation : forall es,
  Forall (fun e => 0 <= snd e) es ->
  mk_read_stacked es =
  if (12 * zlen es <? 2 ^ 16) && (sum_reads es <? 2 ^ 16)
  then Ok (CReadStacked es (12 * zlen es) (sum_reads es)) else Err E_INVALID_PACKET.
Proof. exact mk_read_stacked_spec. Qed.
Print Assumptions C09_read_stacked_no_truncation.

Theorem C09_write_stacked_no_truncation : forall raw es,
  mapM (fun p => mk_write_mem (fst p) (snd p)) raw = Ok es ->
  mk_write_stacked raw =
  if true_write_scd_len es <? 2 ^ 16
  then Ok (CWriteStacked es (true_write_scd_len es) (4 * zlen es)) else Err E_INVALID_PACKET.
Proof. exact mk_write_stacked_spec. Qed.
Print Assumptions C09_write_stacked_no_truncation.

(* TIE TO THE SOURCE TABLES (gen/ProtoTables.v, regenerated from device/src/u3v/protocol/cmd.rs and ack.rs on every
   run): magic, the four command ids, the request-ack flag; and each command's acknowledge id in the source's
   acknowledge table is its command id + 1. *)
From Cam Require Import Ack ProtoTables P_Tables.

Theorem C09_constants_from_source :
  MAGIC = src_cmd_magic /\
  lookup 0 src_cmd_id = Some ID_READ_MEM /\ lookup 1 src_cmd_id = Some ID_WRITE_MEM /\
  lookup 2 src_cmd_id = Some ID_READ_MEM_STACKED /\ lookup 3 src_cmd_id = Some ID_WRITE_MEM_STACKED /\
  lookup 0 src_cmd_flag = Some FLAG_REQUEST_ACK /\
  length src_cmd_id = 4%nat.
Proof. exact cmd_consts_src. Qed.
Print Assumptions C09_constants_from_source.

Theorem C09_ack_ids_follow_command_ids : forall k id, (0 <= k < 4) -> lookup k src_cmd_id = Some id ->
  table_fn src_ack_kind 0 (id + 1) = Ok k.
Proof. exact ack_ids_follow_cmd_ids. Qed.
Print Assumptions C09_ack_ids_follow_command_ids.
