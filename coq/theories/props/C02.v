(* C02 — Masked bit-field writes are isolated, range-checked and reversible.  Statements only;
   proofs in proofs/P_C02.v.  A field is [field_ok lsb msb]: 0 <= lsb <= msb <= 63 in normalised
   (LSB-0) numbering; the register is an i64 whose bit pattern is [p64 reg].
   Model: model/BitField.v (BitMask arithmetic after the two "fix:" commits) and the node level
   mir_value / mir_set_value of model/RegCodec.v. *)
From Cam Require Import Outcome Bytes Mem RustInt BitField RegCodec P_C01 P_C02 BitMaskSrc P_C02s.

(* min/max are exactly the field's representable range (unsigned full-width capped at i64::MAX) *)
Theorem C02_minmax_exact : forall lsb msb sign, field_ok lsb msb ->
  bm_min lsb msb sign = spec_min lsb msb sign /\ bm_max lsb msb sign = spec_max lsb msb sign.
Proof. exact minmax_exact. Qed.
Print Assumptions C02_minmax_exact.

(* reading: for every register content the value is the field's bits, sign-interpreted *)
Theorem C02_read_any : forall lsb msb sign reg, field_ok lsb msb ->
  bm_apply lsb msb sign reg = spec_get lsb msb sign reg.
Proof. exact read_any. Qed.
Print Assumptions C02_read_any.

(* an in-range write succeeds; an out-of-range one is refused *)
Theorem C02_in_range_accepted : forall lsb msb sign old v, field_ok lsb msb ->
  spec_min lsb msb sign <= v <= spec_max lsb msb sign ->
  bm_masked lsb msb sign old v = Ok (s64 (new_pat lsb msb old v)).
Proof. exact bm_masked_ok. Qed.
Print Assumptions C02_in_range_accepted.

Theorem C02_out_of_range_refused : forall lsb msb sign old v, field_ok lsb msb ->
  v < spec_min lsb msb sign \/ spec_max lsb msb sign < v ->
  bm_masked lsb msb sign old v = Err E_INVALID_DATA.
Proof. exact bm_masked_out_of_range. Qed.
Print Assumptions C02_out_of_range_refused.

(* isolation: no bit outside [lsb, msb] changes *)
Theorem C02_write_isolated : forall lsb msb sign old v nv i, field_ok lsb msb ->
  bm_masked lsb msb sign old v = Ok nv -> 0 <= i < 64 -> mbit lsb msb i = false ->
  Z.testbit (p64 nv) i = Z.testbit (p64 old) i.
Proof. exact write_isolated. Qed.
Print Assumptions C02_write_isolated.

(* read-back *)
Theorem C02_write_readback : forall lsb msb sign old v nv, field_ok lsb msb ->
  spec_min lsb msb sign <= v <= spec_max lsb msb sign ->
  bm_masked lsb msb sign old v = Ok nv -> bm_apply lsb msb sign nv = v.
Proof. exact write_readback. Qed.
Print Assumptions C02_write_readback.

(* any finite interleaving of in-range writes to pairwise disjoint sibling fields of one register:
   every field reads as the last value written to it, or as its initial reading *)
Theorem C02_siblings : forall fs, Forall f_ok fs -> pairwise_disjoint fs ->
  forall ws reg, writes_ok fs ws ->
  exists reg', run_writes fs reg ws = Ok reg' /\
    forall k f, nth_error fs k = Some f -> f_get f reg' = last_write k ws (f_get f reg).
Proof. exact siblings. Qed.
Print Assumptions C02_siblings.

(* node level: the read-modify-write through the device *)
Theorem C02_node_out_of_range_no_write : forall r n v d l m,
  supported_int_len (r_len r) = true -> bytes_ok (d_mem d) -> in_dev d (r_addr r) (r_len r) ->
  norm_field r n = Ok (l, m) -> field_ok l m ->
  v < spec_min l m (n_sign n) \/ spec_max l m (n_sign n) < v ->
  exists d', mir_set_value r n v d = (Err E_INVALID_DATA, d') /\
             writes_of (d_log d') = writes_of (d_log d) /\ d_mem d' = d_mem d.
Proof. exact node_out_of_range_no_write. Qed.
Print Assumptions C02_node_out_of_range_no_write.

Theorem C02_node_set_then_value : forall r n v d l m,
  supported_int_len (r_len r) = true -> bytes_ok (d_mem d) -> in_dev d (r_addr r) (r_len r) ->
  norm_field r n = Ok (l, m) -> field_ok l m -> m < 8 * r_len r ->
  spec_min l m (n_sign n) <= v <= spec_max l m (n_sign n) ->
  exists d1 d2 img,
    mir_set_value r n v d = (Ok tt, d1) /\
    writes_of (d_log d1) = WrAcc (r_addr r) img :: writes_of (d_log d) /\ zlen img = r_len r /\
    same_outside d d1 (r_addr r) (r_len r) /\
    mir_value r n d1 = (Ok v, d2) /\
    (forall i, 0 <= i < 8 * r_len r -> mbit l m i = false ->
       Z.testbit (of_le (order (r_endian r) img)) i =
       Z.testbit (of_le (order (r_endian r) (take (r_len r) (drop (r_addr r - d_base d) (d_mem d))))) i).
Proof. exact node_set_then_value. Qed.
Print Assumptions C02_node_set_then_value.

(* the pinned code: unsigned fields reaching bit 63 were sign-extended; 63-bit fields panicked *)
Theorem C02_apply_v0_refuted :
  exists reg, bm_apply_v0 32 63 0 reg = Ok (-1) /\ spec_get 32 63 0 reg = 4294967295.
Proof. exact apply_v0_refuted. Qed.
Print Assumptions C02_apply_v0_refuted.

Theorem C02_max_v0_refuted : bm_max_v0 0 62 0 = Panic /\ spec_max 0 62 0 = 2 ^ 63 - 1.
Proof. exact max_v0_refuted. Qed.
Print Assumptions C02_max_v0_refuted.

(* ---- the code itself: gen/BitMaskSrc.v is regenerated from `impl BitMask` of genapi/src/masked_int_reg.rs on every
   run (tools/translate_bitmask.py, debug-build semantics of lib/RustInt.v).  self = (raw_lsb, raw_msb); [norm_bit]
   is the LSB-0 position of a declared bit; the hypotheses are those under which the node level uses the field. *)
Theorem C02_positions_from_source : forall rl rm len e, raw_ok rl -> raw_ok rm -> len_ok len -> flag e ->
  src_bm_lsb rl rm len e = norm_bit len e rl /\ src_bm_msb rl rm len e = norm_bit len e rm.
Proof. intros. split; [apply lsb_from_source|apply msb_from_source]; assumption. Qed.
Print Assumptions C02_positions_from_source.

Theorem C02_mask_from_source : forall rl rm len e l m, raw_ok rl -> raw_ok rm -> len_ok len -> flag e ->
  norm_bit len e rl = Ok l -> norm_bit len e rm = Ok m -> field_ok l m ->
  src_bm_mask rl rm len e = Ok (bm_mask l m).
Proof. exact mask_from_source. Qed.
Print Assumptions C02_mask_from_source.

Theorem C02_min_from_source : forall rl rm len e sign l m, raw_ok rl -> raw_ok rm -> len_ok len -> flag e -> flag sign ->
  norm_bit len e rl = Ok l -> norm_bit len e rm = Ok m -> field_ok l m ->
  src_bm_min rl rm len e sign = Ok (bm_min l m sign).
Proof. exact min_from_source. Qed.
Print Assumptions C02_min_from_source.

Theorem C02_max_from_source : forall rl rm len e sign l m, raw_ok rl -> raw_ok rm -> len_ok len -> flag e -> flag sign ->
  norm_bit len e rl = Ok l -> norm_bit len e rm = Ok m -> field_ok l m ->
  src_bm_max rl rm len e sign = Ok (bm_max l m sign).
Proof. exact max_from_source. Qed.
Print Assumptions C02_max_from_source.

Theorem C02_apply_from_source : forall rl rm reg len e sign l m,
  raw_ok rl -> raw_ok rm -> len_ok len -> flag e -> flag sign ->
  norm_bit len e rl = Ok l -> norm_bit len e rm = Ok m -> field_ok l m ->
  src_bm_apply_mask rl rm reg len e sign = Ok (bm_apply l m sign reg).
Proof. exact apply_from_source. Qed.
Print Assumptions C02_apply_from_source.

Theorem C02_masked_value_from_source : forall rl rm old v len e sign l m,
  raw_ok rl -> raw_ok rm -> len_ok len -> flag e -> flag sign ->
  norm_bit len e rl = Ok l -> norm_bit len e rm = Ok m -> field_ok l m ->
  src_bm_masked_value rl rm old v len e sign = bm_masked l m sign old v.
Proof. exact masked_from_source. Qed.
Print Assumptions C02_masked_value_from_source.

(* declared positions that the node level rejects with a panic make the code panic too *)
Theorem C02_source_panics_with_model : forall rl rm len e, raw_ok rl -> raw_ok rm -> len_ok len -> flag e ->
  norm2 len e rl rm = Panic -> src_bm_mask rl rm len e = Panic.
Proof. exact mask_panics. Qed.
Print Assumptions C02_source_panics_with_model.

(* the clauses of the property, of the translated code: a successful write reads back and leaves every other bit alone;
   the range check is exact; reading decodes exactly the field's bits *)
Theorem C02_source_write_readback : forall rl rm len e l m sign old v nv, src_field rl rm len e l m -> flag sign ->
  src_bm_masked_value rl rm old v len e sign = Ok nv ->
  src_bm_apply_mask rl rm nv len e sign = Ok v /\
  (forall i, 0 <= i < 64 -> mbit l m i = false -> Z.testbit (p64 nv) i = Z.testbit (p64 old) i).
Proof. exact source_write_readback. Qed.
Print Assumptions C02_source_write_readback.

Theorem C02_source_range_check : forall rl rm len e l m sign old v, src_field rl rm len e l m -> flag sign ->
  (spec_min l m sign <= v <= spec_max l m sign -> exists nv, src_bm_masked_value rl rm old v len e sign = Ok nv) /\
  (v < spec_min l m sign \/ spec_max l m sign < v -> src_bm_masked_value rl rm old v len e sign = Err E_INVALID_DATA).
Proof. exact source_range_check. Qed.
Print Assumptions C02_source_range_check.

Theorem C02_source_read_any : forall rl rm len e l m sign reg, src_field rl rm len e l m -> flag sign ->
  src_bm_apply_mask rl rm reg len e sign = Ok (spec_get l m sign reg) /\
  src_bm_min rl rm len e sign = Ok (spec_min l m sign) /\ src_bm_max rl rm len e sign = Ok (spec_max l m sign).
Proof. exact source_read_any. Qed.
Print Assumptions C02_source_read_any.

Theorem C02_source_example : src_field 11 4 4 1 20 27 /\ src_bm_masked_value 11 4 (-1) (-128) 4 1 1 = Ok (-133169153)
  /\ src_bm_apply_mask 11 4 (-133169153) 4 1 1 = Ok (-128).
Proof. exact src_field_example. Qed.
Print Assumptions C02_source_example.
