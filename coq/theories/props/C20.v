(* C20 — Emulated register memory enforces access rights and typed round trips.  Statements only; proofs in
   proofs/P_C20.v.  Models: model/Memory.v (AccessRight, MemoryProtection, generated read_raw / write_raw / read /
   write / notify_all, register codecs, layout) and model/MacroBitField.v (what #[register_map] generates for
   BitField registers, as a function of bits, signedness, declared LSB/MSB and endianness), both describing the
   code after the five "fix:" commits of C20 (the fifth: compile-time len = size_of(ty) for numerical registers,
   modelled by decl_accepts); the pinned behaviour is kept as *_v0 and refuted below.
   Vocabulary (P_C20.v): prot_wf / mem_wf = packed protection vector of the right length over bytes and raw memory of
   the protected size; cells_all f p s e = every cell of [s,e) satisfies f; bf_ok bits l m = 0 <= l <= m < bits,
   bits in {8,16,32,64} (normalised LSB-0 positions; norm_pos maps the declared numbering); f_min/f_max = range of
   the field; spec_field = the field's bits of a register pattern, sign-interpreted; reg_pattern = the register
   bytes as an unsigned number in the map's byte order; width/field_raw/mbit as in P_C02. *)
From Cam Require Import P_C01 P_C02.
From Cam Require Import Outcome Bytes MacroBitField Memory P_C20.

(* ---- AccessRight is the two-bit lattice; the right of a range is the meet of its cells ---- *)
Theorem C20_meet_is_land : forall a b, ar_num (ar_meet a b) = Z.land (ar_num a) (ar_num b).
Proof. exact meet_is_land. Qed.
Print Assumptions C20_meet_is_land.

Theorem C20_meet_lattice :
  (forall a b, ar_meet a b = ar_meet b a) /\
  (forall a b c, ar_meet a (ar_meet b c) = ar_meet (ar_meet a b) c) /\
  (forall a, ar_meet a a = a) /\
  (forall a, ar_meet RW a = a /\ ar_meet a RW = a) /\
  (forall a, ar_meet NA a = NA /\ ar_meet a NA = NA) /\
  (forall a b, ar_readable (ar_meet a b) = ar_readable a && ar_readable b) /\
  (forall a b, ar_writable (ar_meet a b) = ar_writable a && ar_writable b) /\
  (forall a, ar_from_num (ar_num a) = Ok a) /\
  (forall a b, ar_readable a = ar_readable b -> ar_writable a = ar_writable b -> a = b).
Proof. exact meet_lattice. Qed.
Print Assumptions C20_meet_lattice.

Theorem C20_range_right_is_meet : forall p l acc r, prot_fold p l acc = Ok r ->
  ar_readable r = ar_readable acc && forallb (fun i => match prot_get p i with Ok a => ar_readable a | _ => false end) l /\
  ar_writable r = ar_writable acc && forallb (fun i => match prot_get p i with Ok a => ar_writable a | _ => false end) l.
Proof. exact prot_fold_spec. Qed.
Print Assumptions C20_range_right_is_meet.

(* ---- the packed protection vector is an array of independent cells ---- *)
Theorem C20_protection_cells : forall p a r, prot_wf p -> 0 <= a < p_size p ->
  exists p', prot_set p a r = Ok p' /\ prot_wf p' /\ p_size p' = p_size p /\
    prot_get p' a = Ok r /\
    forall a', 0 <= a' < p_size p -> a' <> a -> prot_get p' a' = prot_get p a'.
Proof. exact protection_cells. Qed.
Print Assumptions C20_protection_cells.

Theorem C20_protection_new : forall size, 0 <= size ->
  prot_wf (prot_new size) /\ forall a, 0 <= a < size -> prot_get (prot_new size) a = Ok NA.
Proof. exact protection_new. Qed.
Print Assumptions C20_protection_new.

(* ---- raw access: succeeds exactly when the range exists and every byte has the right; never panics ---- *)
Theorem C20_raw_read : forall m s e, mem_wf m -> 0 <= s -> 0 <= e ->
  read_raw m s e =
  if (s <=? e) && (e <=? p_size (m_prot m)) then
    if cells_all ar_readable (m_prot m) s e then Ok (take (e - s) (drop s (m_raw m))) else Err ME_NOT_READABLE
  else Err ME_INVALID_ADDRESS.
Proof. exact read_raw_spec. Qed.
Print Assumptions C20_raw_read.

Theorem C20_raw_write : forall m a buf, mem_wf m -> 0 <= a ->
  write_raw m a buf =
  let e := a + zlen buf in
  if (e <=? USIZE_MAX) && (e <=? p_size (m_prot m)) then
    if cells_all ar_writable (m_prot m) a e then
      Ok {| m_raw := splice_at a buf (m_raw m); m_prot := m_prot m; m_obs := notify_all (m_obs m) a e |}
    else Err ME_NOT_WRITABLE
  else Err ME_INVALID_ADDRESS.
Proof. exact write_raw_spec. Qed.
Print Assumptions C20_raw_write.

Theorem C20_raw_never_panics : forall m s e a buf, mem_wf m -> 0 <= s -> 0 <= e -> 0 <= a ->
  read_raw m s e <> Panic /\ write_raw m a buf <> Panic.
Proof. exact raw_never_panics. Qed.
Print Assumptions C20_raw_never_panics.

Theorem C20_raw_write_exact : forall m a buf m', mem_wf m -> 0 <= a -> write_raw m a buf = Ok m' ->
  mem_wf m' /\ m_prot m' = m_prot m /\
  take (zlen buf) (drop a (m_raw m')) = buf /\
  take a (m_raw m') = take a (m_raw m) /\
  drop (a + zlen buf) (m_raw m') = drop (a + zlen buf) (m_raw m).
Proof. exact write_raw_wf. Qed.
Print Assumptions C20_raw_write_exact.

(* ---- every reachable memory is well formed: Memory::new() establishes it, every operation keeps it ---- *)
Theorem C20_memory_new_wf : forall md m, regs_ok md -> mem_new md = Ok m ->
  mem_wf m /\ p_size (m_prot m) = mem_size md /\ m_obs m = [].
Proof. exact mem_new_wf. Qed.
Print Assumptions C20_memory_new_wf.

Theorem C20_operations_keep_wf : forall m, mem_wf m ->
  (forall r v m', 0 <= r_addr r -> 0 <= r_len r -> mem_write m r v = Ok m' -> mem_wf m' /\ m_prot m' = m_prot m) /\
  (forall r a m', 0 <= r_addr r -> r_addr r + r_len r <= p_size (m_prot m) ->
                  mem_set_access_right m r a = Ok m' -> mem_wf m' /\ p_size (m_prot m') = p_size (m_prot m)) /\
  (forall r, mem_wf (mem_observe m r)) /\
  (forall a buf m', 0 <= a -> write_raw m a buf = Ok m' -> mem_wf m' /\ m_prot m' = m_prot m).
Proof. exact ops_keep_wf. Qed.
Print Assumptions C20_operations_keep_wf.

(* ---- layout: ADDRESS = base + explicit offset, or + end of the previous register; sizes are the max end ---- *)
Theorem C20_layout_offsets : forall regs run i r, nth_error regs i = Some r ->
  nth_error (offsets regs run) i =
  Some (match rd_off r with
        | Some s => s
        | None => match i with
                  | O => run
                  | S j => match nth_error regs j, nth_error (offsets regs run) j with
                           | Some q, Some oq => oq + rd_len q
                           | _, _ => 0
                           end
                  end
        end).
Proof. exact offsets_spec. Qed.
Print Assumptions C20_layout_offsets.

Theorem C20_layout_registers : forall f i rd, nth_error (fd_regs f) i = Some rd ->
  exists o, nth_error (offsets (fd_regs f) 0) i = Some o /\
    nth_error (frag_regs f) i =
    Some {| r_addr := fd_base f + o; r_len := rd_len rd; r_acc := rd_acc rd; r_ty := rd_ty rd;
            r_endian := fd_endian f; r_init := rd_init rd |}.
Proof. exact frag_regs_nth. Qed.
Print Assumptions C20_layout_registers.

Theorem C20_layout_size : forall md,
  (forall f, In f md ->
     (forall r, In r (frag_regs f) -> reg_end r <= fd_base f + frag_size f) /\
     (frag_size f = 0 \/ exists r, In r (frag_regs f) /\ reg_end r = fd_base f + frag_size f)) /\
  0 <= mem_size md /\
  (forall f, In f md -> fd_base f + frag_size f <= mem_size md) /\
  (mem_size md = 0 \/ exists f, In f md /\ fd_base f + frag_size f = mem_size md) /\
  (forall r, In r (all_regs md) -> reg_end r <= mem_size md).
Proof. exact layout_size. Qed.
Print Assumptions C20_layout_size.

(* ---- typed round trips ---- *)
Theorem C20_typed_roundtrip_scalar : forall r bits sg v raw, is_scalar_ty (r_ty r) bits sg -> r_len r = bits / 8 ->
  t_in bits sg v = true -> 0 <= r_addr r -> r_addr r + r_len r <= zlen raw ->
  exists raw', reg_write r (VInt v) raw = Ok raw' /\ zlen raw' = zlen raw /\
    reg_read r raw' = Ok (VInt v) /\
    take (r_addr r) raw' = take (r_addr r) raw /\ drop (r_addr r + r_len r) raw' = drop (r_addr r + r_len r) raw /\
    take (r_len r) (drop (r_addr r) raw') = t_to_bytes bits (r_endian r) v.
Proof. exact scalar_roundtrip. Qed.
Print Assumptions C20_typed_roundtrip_scalar.

Theorem C20_typed_roundtrip_string : forall r s raw, r_ty r = TStr -> 0 <= r_addr r -> r_addr r + r_len r <= zlen raw ->
  (is_ascii s = true -> zlen s <= r_len r ->
   exists raw', reg_write r (VBytes s) raw = Ok raw' /\ zlen raw' = zlen raw /\
     reg_read r raw' = Ok (VBytes (m_until_nul s)) /\
     take (r_addr r) raw' = take (r_addr r) raw /\ drop (r_addr r + r_len r) raw' = drop (r_addr r + r_len r) raw) /\
  (is_ascii s = false \/ r_len r < zlen s -> reg_write r (VBytes s) raw = Err ME_INVALID_DATA).
Proof. exact string_roundtrip. Qed.
Print Assumptions C20_typed_roundtrip_string.

Theorem C20_string_without_nul : forall s, Forall (fun b => b <> 0) s -> m_until_nul s = s.
Proof. exact until_nul_no_nul. Qed.
Print Assumptions C20_string_without_nul.

Theorem C20_typed_roundtrip_bytes : forall r s raw, r_ty r = TBytes -> 0 <= r_addr r -> r_addr r + r_len r <= zlen raw ->
  (zlen s = r_len r ->
   exists raw', reg_write r (VBytes s) raw = Ok raw' /\ zlen raw' = zlen raw /\ reg_read r raw' = Ok (VBytes s) /\
     take (r_addr r) raw' = take (r_addr r) raw /\ drop (r_addr r + r_len r) raw' = drop (r_addr r + r_len r) raw) /\
  (zlen s <> r_len r -> reg_write r (VBytes s) raw = Err ME_INVALID_DATA).
Proof. exact bytes_roundtrip. Qed.
Print Assumptions C20_typed_roundtrip_bytes.

(* ---- bit fields: every type, signedness, 0 <= lsb <= msb < bits, both numberings ---- *)
(* the macro accepts exactly the well-formed declarations; min()/max() are the field's range *)
Theorem C20_bitfield_expand : forall bits sg e rl rm,
  (bf_ok bits (norm_pos bits e rl) (norm_pos bits e rm) ->
   expand_bf MACRO_W bits sg e rl rm = Some (mk_code bits sg (norm_pos bits e rl) (norm_pos bits e rm))) /\
  (rm < rl \/ bits <= rm -> expand_bf MACRO_W bits sg LE rl rm = None).
Proof. exact bitfield_expand. Qed.
Print Assumptions C20_bitfield_expand.

(* mask() has exactly the bits lsb..msb of the type set *)
Theorem C20_bitfield_mask : forall bits sg l m, bf_ok bits l m ->
  gen_mask true (mk_code bits sg l m) = Ok (mask_val bits sg l m) /\
  forall i, 0 <= i < bits -> Z.testbit (mask_val bits sg l m) i = mbit l m i.
Proof. exact bitfield_mask. Qed.
Print Assumptions C20_bitfield_mask.

(* read = the field's bits sign-interpreted, for every register content; out-of-range writes are refused;
   in-range writes read back, change only the field's bits and no other byte *)
Theorem C20_bitfield_register : forall r bits sg rl rm raw,
  r_ty r = TBitField bits sg rl rm ->
  let l := norm_pos bits (r_endian r) rl in
  let m := norm_pos bits (r_endian r) rm in
  bf_ok bits l m -> r_len r = bits / 8 -> 0 <= r_addr r -> r_addr r + r_len r <= zlen raw -> bytes_ok raw ->
  let region := take (r_len r) (drop (r_addr r) raw) in
  reg_read r raw = Ok (VInt (spec_field sg l m (reg_pattern (r_endian r) region))) /\
  (forall v, v < f_min sg l m \/ f_max sg l m < v -> reg_write r (VInt v) raw = Err ME_INVALID_DATA) /\
  (forall v, f_min sg l m <= v <= f_max sg l m ->
     exists raw', reg_write r (VInt v) raw = Ok raw' /\ zlen raw' = zlen raw /\
       reg_read r raw' = Ok (VInt v) /\
       take (r_addr r) raw' = take (r_addr r) raw /\
       drop (r_addr r + r_len r) raw' = drop (r_addr r + r_len r) raw /\
       forall i, 0 <= i < bits -> mbit l m i = false ->
         Z.testbit (reg_pattern (r_endian r) (take (r_len r) (drop (r_addr r) raw'))) i =
         Z.testbit (reg_pattern (r_endian r) region) i).
Proof. exact bitfield_register. Qed.
Print Assumptions C20_bitfield_register.

(* ---- any register, any declared length: a typed write changes nothing outside [ADDRESS, ADDRESS + LENGTH) ---- *)
Theorem C20_write_frame : forall r v raw raw', 0 <= r_addr r -> 0 <= r_len r -> reg_write r v raw = Ok raw' ->
  zlen raw' = zlen raw /\ take (r_addr r) raw' = take (r_addr r) raw /\
  drop (r_addr r + r_len r) raw' = drop (r_addr r + r_len r) raw.
Proof. exact reg_write_frame. Qed.
Print Assumptions C20_write_frame.

Theorem C20_disjoint_register_unchanged : forall r v raw raw' r2,
  0 <= r_addr r -> 0 <= r_len r -> reg_write r v raw = Ok raw' ->
  0 <= r_addr r2 -> 0 <= r_len r2 ->
  r_addr r2 + r_len r2 <= r_addr r \/ r_addr r + r_len r <= r_addr r2 ->
  region_of r2 raw' = region_of r2 raw /\ reg_read r2 raw' = reg_read r2 raw.
Proof. exact disjoint_register_unchanged. Qed.
Print Assumptions C20_disjoint_register_unchanged.

(* ---- what the expansion accepts: numerical registers must have len = size_of(ty) (decl_accepts true = the macro
   after "fix: reject numerical registers whose length differs..."; tied to the real macro by compile tests) ---- *)
Theorem C20_accepted_len : forall e rd, decl_accepts true e rd = true ->
  match ty_size (rd_ty rd) with Some n => rd_len rd = n | None => True end.
Proof. exact accepted_len. Qed.
Print Assumptions C20_accepted_len.

Theorem C20_accepted_map_registers : forall md, map_accepts true md = true ->
  forall r, In r (all_regs md) -> reg_accepts r = true.
Proof. exact map_accepts_regs. Qed.
Print Assumptions C20_accepted_map_registers.

(* every register type of an accepted declaration: a fitting value is written, reads back exactly, and no byte outside
   the register changes *)
Theorem C20_accepted_roundtrip : forall r v raw, reg_accepts r = true -> ty_vocab (r_ty r) -> value_fits r v ->
  0 <= r_addr r -> 0 <= r_len r -> r_addr r + r_len r <= zlen raw -> bytes_ok raw ->
  exists raw', reg_write r v raw = Ok raw' /\ reg_read r raw' = Ok v /\ zlen raw' = zlen raw /\
    take (r_addr r) raw' = take (r_addr r) raw /\ drop (r_addr r + r_len r) raw' = drop (r_addr r + r_len r) raw.
Proof. exact accepted_roundtrip. Qed.
Print Assumptions C20_accepted_roundtrip.

Theorem C20_accepted_never_panics : forall r v raw, reg_accepts r = true -> ty_vocab (r_ty r) -> value_typed r v ->
  0 <= r_addr r -> 0 <= r_len r -> r_addr r + r_len r <= zlen raw -> bytes_ok raw ->
  reg_write r v raw <> Panic /\ reg_read r raw <> Panic.
Proof. exact accepted_never_panics. Qed.
Print Assumptions C20_accepted_never_panics.

Theorem C20_accepted_map_access : forall md m r v, map_accepts true md = true -> regs_ok md ->
  mem_wf m -> p_size (m_prot m) = mem_size md -> bytes_ok (m_raw m) ->
  In r (all_regs md) -> ty_vocab (r_ty r) -> value_typed r v ->
  mem_write m r v <> Panic /\ mem_read m r <> Panic.
Proof. exact accepted_map_access. Qed.
Print Assumptions C20_accepted_map_access.

(* Register::parse of a String register on the register's own LENGTH bytes cuts at the first NUL (on other slices it
   is the faithful model only: a NUL beyond LENGTH extends the string, a shorter slice without NUL panics) *)
Theorem C20_string_parse_exact : forall len data, zlen data = len ->
  parse_str len data = (let s := m_until_nul data in if is_ascii s then Ok (VBytes s) else Err ME_INVALID_DATA).
Proof. exact parse_str_exact. Qed.
Print Assumptions C20_string_parse_exact.

(* every reachable raw memory is a vector of bytes: the hypothesis bytes_ok of the typed theorems always holds *)
Theorem C20_reachable_bytes : forall md,
  (forall m, inits_bytes md -> mem_new md = Ok m -> bytes_ok (m_raw m)) /\
  (forall m r v m', bytes_ok (m_raw m) -> value_bytes v -> mem_write m r v = Ok m' -> bytes_ok (m_raw m')) /\
  (forall m a buf m', bytes_ok (m_raw m) -> bytes_ok buf -> write_raw m a buf = Ok m' -> bytes_ok (m_raw m')) /\
  (forall m r a m', bytes_ok (m_raw m) -> mem_set_access_right m r a = Ok m' -> bytes_ok (m_raw m')).
Proof. exact reachable_bytes. Qed.
Print Assumptions C20_reachable_bytes.

(* typed access does not look at the access rights; registers without explicit offsets are laid out back to back *)
Theorem C20_typed_access_ignores_rights : forall raw p p' obs r v,
  mem_read {| m_raw := raw; m_prot := p; m_obs := obs |} r = mem_read {| m_raw := raw; m_prot := p'; m_obs := obs |} r /\
  omap m_raw (mem_write {| m_raw := raw; m_prot := p; m_obs := obs |} r v) =
  omap m_raw (mem_write {| m_raw := raw; m_prot := p'; m_obs := obs |} r v).
Proof. exact typed_access_ignores_rights. Qed.
Print Assumptions C20_typed_access_ignores_rights.

Theorem C20_running_offsets : forall regs run, Forall (fun r => rd_off r = None) regs ->
  forall i r o, nth_error regs i = Some r -> nth_error (offsets regs run) i = Some o ->
  o = run + fold_left Z.add (map rd_len (firstn i regs)) 0.
Proof. exact running_offsets. Qed.
Print Assumptions C20_running_offsets.

(* ---- observers fire exactly for writes that overlap their register ---- *)
Theorem C20_observers : forall m,
  (forall obs ws we, notify_all obs ws we =
     map (fun '(s, e, n) => (s, e, if (Z.max ws s <? Z.min we e) then n + 1 else n)) obs) /\
  (forall ws we s e, (Z.max ws s <? Z.min we e) = true <-> exists a, ws <= a < we /\ s <= a < e) /\
  (forall a buf m', write_raw m a buf = Ok m' -> m_obs m' = notify_all (m_obs m) a (a + zlen buf)) /\
  (forall r v m', mem_write m r v = Ok m' -> m_obs m' = notify_all (m_obs m) (r_addr r) (r_addr r + r_len r)) /\
  (forall r a m', mem_set_access_right m r a = Ok m' -> m_obs m' = m_obs m /\ m_raw m' = m_raw m).
Proof. exact observers_all. Qed.
Print Assumptions C20_observers.

(* ---- the pinned code violated the property (repaired by the four fix: commits) ---- *)
Theorem C20_raw_access_v0_refuted :
  let m := {| m_raw := [0; 0; 0; 0]; m_prot := prot_new 4; m_obs := [] |} in
  read_raw_v0 m 5 5 = Panic /\ read_raw_v0 m 3 1 = Panic /\ write_raw_v0 m 5 [] = Panic /\
  write_raw_v0 m USIZE_MAX [0] = Panic.
Proof. exact raw_access_v0_refuted. Qed.
Print Assumptions C20_raw_access_v0_refuted.

Theorem C20_signed_top_bit_v0_refuted :
  gen_mask false (mk_code 8 true 7 7) = Ok 127 /\
  gen_read false (mk_code 8 true 7 7) LE [128] = Ok 0 /\ spec_field true 7 7 128 = -1 /\
  gen_write false (mk_code 8 true 7 7) LE (-1) [0] = Ok [0].
Proof. exact signed_top_bit_v0_refuted. Qed.
Print Assumptions C20_signed_top_bit_v0_refuted.

Theorem C20_wide_fields_v0_refuted :
  expand_bf 64 64 false LE 0 63 = None /\ expand_bf 64 64 true LE 0 63 = None /\
  expand_bf 64 64 false LE 0 62 = None /\ expand_bf 64 64 false LE 1 63 = None /\
  bf_ok 64 0 63 /\ bf_ok 64 0 62 /\ bf_ok 64 1 63.
Proof. exact wide_fields_v0_refuted. Qed.
Print Assumptions C20_wide_fields_v0_refuted.

Theorem C20_observers_v0_refuted :
  notify_all_v0 [(0, 2, 0)] 1 1 = [(0, 2, 1)] /\ ~ (exists a, 1 <= a < 1 /\ 0 <= a < 2).
Proof. exact notify_v0_refuted. Qed.
Print Assumptions C20_observers_v0_refuted.

(* the pinned macro accepted a numerical register of ANY length: every typed write of an integer / float register whose
   length differs from its type panicked (also the init value inside Memory::new()), a shorter one was unreadable *)
Theorem C20_mismatched_len_v0 : forall r bits sg z raw, is_scalar_ty (r_ty r) bits sg -> r_len r <> bits / 8 ->
  0 <= r_addr r -> r_addr r + r_len r <= zlen raw ->
  decl_accepts false (r_endian r)
    {| rd_len := r_len r; rd_acc := r_acc r; rd_ty := r_ty r; rd_off := None; rd_init := r_init r |} = true /\
  reg_accepts r = false /\
  reg_write r (VInt z) raw = Panic /\
  (r_len r < bits / 8 -> reg_read r raw = Err ME_INVALID_DATA).
Proof. exact scalar_mismatch_v0. Qed.
Print Assumptions C20_mismatched_len_v0.

Theorem C20_mismatched_len_v0_refuted :
  let r := {| r_addr := 0; r_len := 4; r_acc := RW; r_ty := TInt 16 false; r_endian := BE; r_init := None |} in
  let s := {| r_addr := 0; r_len := 1; r_acc := RW; r_ty := TBitField 16 false 11 4; r_endian := BE; r_init := None |} in
  decl_accepts false BE {| rd_len := 4; rd_acc := RW; rd_ty := TInt 16 false; rd_off := None; rd_init := None |} = true /\
  reg_write r (VInt 7) [1; 2; 3; 4] = Panic /\ reg_accepts r = false /\
  reg_read s [1; 2; 3; 4] = Err ME_INVALID_DATA /\ reg_write s (VInt 1) [1; 2; 3; 4] = Err ME_INVALID_DATA /\
  reg_accepts s = false.
Proof. exact mismatched_len_v0_refuted. Qed.
Print Assumptions C20_mismatched_len_v0_refuted.

(* ---- TIE TO THE SOURCE CODE: gen/MemProtSrc.v is re-translated from impl/src/memory.rs on every run by
   tools/translate_memprot.py (debug-build integer semantics of lib/RustInt.v, Vec / slice / iterator operations of
   model/MemProtOps.v); proofs in proofs/P_C20s.v.  ar_of / ar_to read the translated enum as the model's, prot_of /
   mp_of the translated struct; usize x = 0 <= x < 2^64; an `impl IntoIterator<Item = usize>` is the list of its items
   (v_range s e = the items of s..e); reg_of r = the model's register r as an implementor of trait Register. ---- *)
From Cam Require Import RustInt MemProtOps MemProtSrc P_C20s.

(* enum AccessRight and every method of impl AccessRight: all 4 rights, all 16 pairs, every number given to from_num
   (outside the table: Panic, as the code's debug_assert! / unreachable!) *)
Theorem C20_access_right_from_source :
  (forall r, src_ar_as_num r = Ok (ar_num (ar_of r))) /\
  (forall r, src_ar_is_readable r = Ok (ar_readable (ar_of r))) /\
  (forall r, src_ar_is_writable r = Ok (ar_writable (ar_of r))) /\
  (forall a b, src_ar_meet a b = Ok (ar_to (ar_meet (ar_of a) (ar_of b)))) /\
  (forall n, src_ar_from_num n = omap ar_to (ar_from_num n)) /\
  (forall a b, access_right_eqb a b = ar_eqb (ar_of a) (ar_of b)) /\
  (forall r, ar_of (ar_to r) = r) /\ (forall r, ar_to (ar_of r) = r).
Proof. exact access_right_from_source. Qed.
Print Assumptions C20_access_right_from_source.

(* every method of impl MemoryProtection that touches the packed vector: every memory size, address, right, item list
   and EVERY vector (also ones of the wrong length: the same index panic on both sides) *)
Theorem C20_protection_from_source :
  (forall size, usize size -> src_mp_new size = Ok (mp_of (prot_new size))) /\
  (forall p a r, usize a -> src_mp_set_access_right p a r = omap mp_of (prot_set (prot_of p) a (ar_of r))) /\
  (forall p a, usize a -> src_mp_access_right p a = omap ar_to (prot_get (prot_of p) a)) /\
  (forall p l, Forall usize l -> src_mp_access_right_with_range p l = omap ar_to (prot_fold (prot_of p) l RW)) /\
  (forall p l r, Forall usize l ->
     src_mp_set_access_right_with_range p l r = omap mp_of (prot_set_list (prot_of p) l (ar_of r))) /\
  (forall p s e, 0 <= s -> e <= 2 ^ 64 ->
     src_mp_access_right_with_range p (v_range s e) = omap ar_to (prot_range_right (prot_of p) s e) /\
     forall r, src_mp_set_access_right_with_range p (v_range s e) r = omap mp_of (prot_set_range (prot_of p) s e (ar_of r))) /\
  (forall p, mp_of (prot_of p) = p) /\ (forall p, prot_of (mp_of p) = p).
Proof. exact protection_from_source. Qed.
Print Assumptions C20_protection_from_source.

(* verify_address / verify_address_with_range: no hypothesis at all; the model's fuelled loop over a Range is the
   translated loop over the range's items; an empty range is Ok *)
Theorem C20_verify_from_source :
  (forall p a, src_mp_verify_address p a = prot_verify (prot_of p) a) /\
  (forall p l, src_mp_verify_address_with_range p l =
     if existsb (fun i => mp_memory_size p <=? i) l then Err ME_INVALID_ADDRESS else Ok tt) /\
  (forall p s e, src_mp_verify_address_with_range p (v_range s e) = prot_verify_range (prot_of p) s e) /\
  (forall p, src_mp_verify_address_with_range p [] = Ok tt).
Proof. exact verify_from_source. Qed.
Print Assumptions C20_verify_from_source.

(* the provided methods of trait Register, for EVERY implementor (any ADDRESS / LENGTH >= 0, any parse / serialize) and
   every memory slice (a slice is shorter than 2^64); with the model's register as the implementor they are the model's
   region_of + parse and the default arm of reg_write (a BitField register overrides write in the macro) *)
Theorem C20_register_rw_from_source :
  (forall Ty (R : register Ty),
     src_reg_range R = if rg_ADDRESS R + rg_LENGTH R <? 2 ^ 64 then Ok (rg_ADDRESS R, rg_ADDRESS R + rg_LENGTH R) else Panic) /\
  (forall Ty (R : register Ty) raw, 0 <= rg_ADDRESS R -> 0 <= rg_LENGTH R -> zlen raw < 2 ^ 64 ->
     src_reg_read R raw =
     if zlen raw <? rg_ADDRESS R + rg_LENGTH R then Panic else rg_parse R (take (rg_LENGTH R) (drop (rg_ADDRESS R) raw))) /\
  (forall Ty (R : register Ty) v raw, 0 <= rg_ADDRESS R -> 0 <= rg_LENGTH R -> zlen raw < 2 ^ 64 ->
     src_reg_write R v raw =
     let? data := rg_serialize R v in
     if zlen raw <? rg_ADDRESS R + rg_LENGTH R then Panic
     else if zlen data =? rg_LENGTH R then Ok (splice_at (rg_ADDRESS R) data raw) else Panic) /\
  (forall r raw, 0 <= r_addr r -> 0 <= r_len r -> zlen raw < 2 ^ 64 -> src_reg_read (reg_of r) raw = reg_read r raw) /\
  (forall r v raw, 0 <= r_addr r -> 0 <= r_len r -> zlen raw < 2 ^ 64 -> is_bitfield (r_ty r) = false ->
     src_reg_write (reg_of r) v raw = reg_write r v raw).
Proof. exact register_rw_from_source. Qed.
Print Assumptions C20_register_rw_from_source.

(* ---- clauses of the property stated on the translated code alone ---- *)
(* set-then-get on the packed vector: every well-formed vector, every address below the size, every right; all other
   addresses (same byte or not) keep their right *)
Theorem C20_protection_cells_of_source : forall p a r, mp_wf p -> mp_memory_size p <= 2 ^ 64 -> 0 <= a < mp_memory_size p ->
  exists p', src_mp_set_access_right p a r = Ok p' /\ mp_wf p' /\ mp_memory_size p' = mp_memory_size p /\
    src_mp_access_right p' a = Ok r /\
    forall a', 0 <= a' < mp_memory_size p -> a' <> a -> src_mp_access_right p' a' = src_mp_access_right p a'.
Proof. exact protection_cells_of_source. Qed.
Print Assumptions C20_protection_cells_of_source.

(* MemoryProtection::new: ceil(size / 4) bytes, well formed, every address NA *)
Theorem C20_protection_new_of_source : forall size, usize size ->
  exists p, src_mp_new size = Ok p /\ mp_wf p /\ mp_memory_size p = size /\
    zlen (mp_inner p) = (if size =? 0 then 0 else (size - 1) / 4 + 1) /\
    forall a, 0 <= a < size -> src_mp_access_right p a = Ok AR_NA.
Proof. exact protection_new_of_source. Qed.
Print Assumptions C20_protection_new_of_source.

(* the right of a range is readable / writable exactly when every cell is *)
Theorem C20_range_right_of_source : forall p l, Forall usize l ->
  forall r, src_mp_access_right_with_range p l = Ok r ->
  ar_readable (ar_of r) = forallb (fun i => match src_mp_access_right p i with Ok a => ar_readable (ar_of a) | _ => false end) l /\
  ar_writable (ar_of r) = forallb (fun i => match src_mp_access_right p i with Ok a => ar_writable (ar_of a) | _ => false end) l.
Proof. exact range_right_of_source. Qed.
Print Assumptions C20_range_right_of_source.

(* an address is accepted exactly when it is below the size; a range exactly when all its items are; never a panic *)
Theorem C20_verify_of_source : forall p,
  (forall a, src_mp_verify_address p a = Ok tt <-> a < mp_memory_size p) /\
  (forall a, src_mp_verify_address p a = Err E_InvalidAddress <-> mp_memory_size p <= a) /\
  (forall l, src_mp_verify_address_with_range p l = Ok tt <-> Forall (fun i => i < mp_memory_size p) l) /\
  (forall l, src_mp_verify_address_with_range p l <> Panic).
Proof. exact verify_of_source. Qed.
Print Assumptions C20_verify_of_source.

(* non-vacuity: the source's own unit test (packed bytes [141; 1]), an error, a panic, run on the translated code *)
Theorem C20_source_examples :
  (let? p0 := src_mp_new 5 in let? p1 := src_mp_set_access_right p0 0 AR_RO in let? p2 := src_mp_set_access_right p1 1 AR_RW in
   let? p3 := src_mp_set_access_right p2 2 AR_NA in let? p4 := src_mp_set_access_right p3 3 AR_WO in
   let? p5 := src_mp_set_access_right p4 4 AR_RO in
   let? a := mapM (src_mp_access_right p5) [0; 1; 2; 3; 4] in
   let? b := mapM (fun '(s, e) => src_mp_access_right_with_range p5 (v_range s e)) [(0, 2); (2, 4); (3, 5)] in
   Ok (mp_inner p5, a, b)) = Ok ([141; 1], [AR_RO; AR_RW; AR_NA; AR_WO; AR_RO], [AR_RO; AR_NA; AR_NA]) /\
  (let? p := src_mp_new 5 in src_mp_verify_address_with_range p (v_range 2 5)) = Ok tt /\
  (let? p := src_mp_new 5 in src_mp_verify_address_with_range p (v_range 2 6)) = Err E_InvalidAddress /\
  (let? p := src_mp_new 5 in src_mp_access_right p 8) = Panic /\
  src_ar_from_num 4 = Panic /\ src_ar_meet AR_RO AR_WO = Ok AR_NA /\ src_ar_meet AR_RW AR_WO = Ok AR_WO /\
  (let? p := src_mp_new 9 in Ok (zlen (mp_inner p))) = Ok 3.
Proof. exact source_examples. Qed.
Print Assumptions C20_source_examples.
