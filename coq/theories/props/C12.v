(* C12 — statements only; proofs in proofs/P_C12.v. *)
From Cam Require Import Outcome Bytes Ack Stream Payload StreamLoop FrameSpec P_C12.
