(* C12 — Streaming delivers intact frames in order, never stalls, and stops promptly.
   Statements only; proofs in proofs/P_C12.v.  Model: model/StreamLoop.v (transition system of
   StreamingLoop::run, StreamHandle start / stop, the payload and send-back channels, the
   cancellation rendezvous, the AsyncPool ledger and a scripted bulk-in endpoint; `step true` is the
   code after the two fix: commits, `step false` the pinned code).  Frame semantics: spec/FrameSpec.v.
   All theorems are for ALL device scripts (made of bytes), ALL receivers / controllers and ALL
   interleavings: every label list accepted by `step` from the initial state. *)
From Coq Require Import Sorted.
From Cam Require Import Outcome Bytes Ack Stream Payload StreamLoop FrameSpec P_C12 AsyncPool P_C12p.

(* one iteration, for every content of the (reused) buffers: what the loop sends after all its
   transfers completed is exactly what the frame made of these transfers gives -- PayloadBuilder::build
   of model/Payload.v (C11) applied to that leader, that trailer and the bytes of that frame; it never
   panics and hands the buffers back with their sizes *)
Theorem C12_frame_assembly : forall q lbuf tbuf buf ds,
  prm_ok q = true -> zlen lbuf = q_leader q -> zlen tbuf = q_trailer q -> bufok q buf ->
  fits ds (slots q) ->
  exists f, finish true q lbuf tbuf buf ds = Some f /\
    item_view (f_item f) = frame_item q ds /\ item_view (f_item f) <> VPanic /\
    zlen (f_lbuf f) = q_leader q /\ zlen (f_tbuf f) = q_trailer q /\
    (forall b, f_keep f = Some b -> bufok q b).
Proof. exact finish_spec. Qed.
Print Assumptions C12_frame_assembly.

(* every Ok payload ever accepted by the payload channel is the frame made of nslots consecutive
   transfers of the device script, all completed, starting where its iteration began: its own
   leader, payload and trailer, never a mixture; its views do not panic *)
Theorem C12_no_mixture : forall sc cp cb ls s,
  script_ok sc -> run true (init sc cp cb) ls = Some s ->
  forall e p, In e (g_hist (st_g s)) -> a_item e = IOk p ->
  exists ds v, a_ds e = Some ds /\
    firstn (nslots (a_prm e)) (skipn (a_start e) sc) = map XData ds /\
    fits ds (slots (a_prm e)) /\
    view_of p = Ok v /\ frame_item (a_prm e) ds = VOk v.
Proof. exact no_mixture_ok. Qed.
Print Assumptions C12_no_mixture.

(* the same for every item (errors included) *)
Theorem C12_history_sound : forall sc cp cb ls s,
  script_ok sc -> run true (init sc cp cb) ls = Some s ->
  forall e, In e (g_hist (st_g s)) -> entry_ok sc e.
Proof. exact no_mixture. Qed.
Print Assumptions C12_history_sound.

(* whatever the receiver can take out of the payload channel is in that history *)
Theorem C12_received_from_history : forall sc cp cb ls s,
  script_ok sc -> run true (init sc cp cb) ls = Some s ->
  forall it, In it (st_pq s) -> exists e, In e (g_hist (st_g s)) /\ a_item e = it.
Proof. exact received_in_hist. Qed.
Print Assumptions C12_received_from_history.

(* delivered frames are in the order sent, without duplication: the script positions of the
   delivered complete frames strictly increase *)
Theorem C12_order_no_dup : forall sc cp cb ls s,
  script_ok sc -> run true (init sc cp cb) ls = Some s ->
  StronglySorted lt (map a_start (filter complete (g_hist (st_g s)))).
Proof. exact order_no_dup. Qed.
Print Assumptions C12_order_no_dup.

(* all are delivered when there is room: every iteration whose transfers all completed ends in a
   try_send of the item of its frame (or is about to), and when no try_send found the channel full or
   closed everything the loop tried to send is in the channel's history *)
Theorem C12_every_frame_attempted : forall sc cp cb ls s,
  script_ok sc -> run true (init sc cp cb) ls = Some s ->
  forall q i ds, In (q, i, ds) (g_done (st_g s)) ->
  (exists e, In e (g_att (st_g s)) /\ a_prm e = q /\ a_start e = i /\ a_ds e = Some ds /\
             item_view (a_item e) = frame_item q ds) \/
  (exists it keep, st_pos s = LSend it keep /\ st_prm s = q /\ g_istart (st_g s) = i /\
             g_cur (st_g s) = Some ds /\ item_view it = frame_item q ds).
Proof. exact all_attempted. Qed.
Print Assumptions C12_every_frame_attempted.

Theorem C12_all_delivered_if_room : forall sc cp cb ls s,
  script_ok sc -> run true (init sc cp cb) ls = Some s ->
  g_fail (st_g s) = 0%nat -> g_hist (st_g s) = g_att (st_g s).
Proof. exact delivered_if_room. Qed.
Print Assumptions C12_all_delivered_if_room.

(* a running loop always has an enabled step of its own, whatever the receiver, the controller
   and the device do or do not do: it uses try_ operations only *)
Theorem C12_loop_never_blocks : forall sc cp cb ls s,
  script_ok sc -> run true (init sc cp cb) ls = Some s ->
  loop_active s = true -> exists l s', is_loop_label l = true /\ step true s l = Some s'.
Proof. exact never_blocks_reach. Qed.
Print Assumptions C12_loop_never_blocks.

(* malformed frames and transfer errors never terminate the loop by a panic *)
Theorem C12_loop_never_panics : forall sc cp cb ls s,
  script_ok sc -> run true (init sc cp cb) ls = Some s -> st_pos s <> LPanic.
Proof. exact no_loop_panic. Qed.
Print Assumptions C12_loop_never_panics.

(* a stop request that has registered is taken within 2 * (transfers per frame) + 4 steps of the
   loop (a bound on the loop's own steps, whatever else happens in between); the check leaves no
   loop, an empty transfer ledger and the message taken *)
Theorem C12_stop_bounded : forall sc cp cb ls0 s,
  script_ok sc -> run true (init sc cp cb) ls0 = Some s ->
  st_cancel s = CWaiting ->
  forall ls s', run true s ls = Some s' -> (2 * nslots (st_prm s) + 4 < nloop ls)%nat ->
  exists ls1 ls2 s0 s1, ls = ls1 ++ LCancel 1 :: ls2 /\ (nloop ls1 <= 2 * nslots (st_prm s) + 4)%nat /\
    run true s ls1 = Some s0 /\ step true s0 (LCancel 1) = Some s1 /\
    st_pos s1 = LIdle /\ st_pending s1 = [] /\ st_cancel s1 = CTaken.
Proof. exact stop_bounded_reach. Qed.
Print Assumptions C12_stop_bounded.

(* once the message is taken the controller's send returns *)
Theorem C12_stop_returns : forall sc cp cb ls s,
  script_ok sc -> run true (init sc cp cb) ls = Some s -> st_cancel s = CTaken ->
  exists s', step true s KStopRet = Some s' /\ st_ctl s' = KIdle /\ st_cancel s' = CNone /\ st_pos s' = LIdle.
Proof. exact stop_returns_reach. Qed.
Print Assumptions C12_stop_returns.

(* after the loop has left, nothing is submitted, polled or sent, nothing more is delivered and
   the ledger does not change, until a start *)
Theorem C12_stopped_quiet : forall s l s', st_pos s = LIdle -> step true s l = Some s' ->
  is_loop_label l = false /\ st_pending s' = st_pending s /\ g_hist (st_g s') = g_hist (st_g s) /\
  (st_pos s' = LIdle \/ exists q, l = KStart q).
Proof. exact stopped_quiet. Qed.
Print Assumptions C12_stopped_quiet.

Theorem C12_no_transfer_outstanding : forall sc cp cb ls s,
  script_ok sc -> run true (init sc cp cb) ls = Some s ->
  (st_pos s = LIdle \/ st_pos s = LHead) -> st_pending s = [].
Proof. exact ledger_empty_when_idle. Qed.
Print Assumptions C12_no_transfer_outstanding.

(* a stopped handle can be started again: fresh buffers, nothing in flight; the resulting state is
   again reachable from the initial one, so every theorem above holds for the new run *)
Theorem C12_restart : forall sc cp cb ls s q,
  script_ok sc -> run true (init sc cp cb) ls = Some s ->
  st_ctl s = KIdle -> st_cancel s = CNone -> prm_ok q = true ->
  exists s', run true (init sc cp cb) (ls ++ [KStart q]) = Some s' /\ st_pos s' = LHead /\ st_prm s' = q /\
    st_pending s' = [] /\ st_pbo s' = None /\ st_lbuf s' = zeros (q_leader q) /\
    st_tbuf s' = zeros (q_trailer q) /\ st_cancel s' = CNone.
Proof. exact restart_reach. Qed.
Print Assumptions C12_restart.

(* the pinned code (step false) hands over mixtures: an empty trailer transfer, an empty leader
   transfer, a hole in the payload (witnesses by computation, replayed on the real code) *)
Theorem C12_no_mixture_v0_refuted_trailer : mixture_in wit_trailer_script wit_trailer_labels.
Proof. exact no_mixture_v0_refuted_trailer. Qed.
Print Assumptions C12_no_mixture_v0_refuted_trailer.

Theorem C12_no_mixture_v0_refuted_leader : mixture_in wit_leader_script wit_leader_labels.
Proof. exact no_mixture_v0_refuted_leader. Qed.
Print Assumptions C12_no_mixture_v0_refuted_leader.

Theorem C12_no_mixture_v0_refuted_hole : mixture_in wit_hole_script wit_hole_labels.
Proof. exact no_mixture_v0_refuted_hole. Qed.
Print Assumptions C12_no_mixture_v0_refuted_hole.

(* non-vacuity: the same three executions are executions of the repaired code, which reports the
   second frame as an error *)
Theorem C12_fixed_rejects_witnesses :
  forall sc ls, In (sc, ls) [(wit_trailer_script, wit_trailer_labels); (wit_leader_script, wit_leader_labels);
                             (wit_hole_script, wit_hole_labels)] ->
  exists s, run true (init sc 4 4) ls = Some s /\ map a_item (skipn 1 (g_hist (st_g s))) = [IErr C_INVALID_PAYLOAD].
Proof. exact fixed_rejects_witnesses. Qed.
Print Assumptions C12_fixed_rejects_witnesses.

(* buffers handed back through send_back: whatever length the returned buffer has (shorter, equal
   or longer than the current maximum_payload_size, e.g. kept from a run with another payload
   geometry), the loop goes on with a buffer of exactly maximum_payload_size bytes ... *)
Theorem C12_returned_buffers_resized : forall sc cp cb ls s p bq',
  script_ok sc -> run true (init sc cp cb) ls = Some s ->
  st_pos s = LBuf -> st_bq s = p :: bq' ->
  exists s' b, step true s (LBackRecv 0) = Some s' /\ st_pos s' = LNew b /\
    zlen b = max_payload (st_prm s') /\ st_prm s' = st_prm s /\ bytes_ok b.
Proof. exact returned_buffers_resized. Qed.
Print Assumptions C12_returned_buffers_resized.

Theorem C12_resize_any_length : forall n b, 0 <= n -> zlen (resize n b) = n.
Proof. exact resize_any_length. Qed.
Print Assumptions C12_resize_any_length.

(* ... and every slice the loop hands to submit lies inside its buffer: the model's submit steps
   are only enabled when the slice is in range (slicing past the end of a Vec panics before
   anything is submitted), and in every reachable state it is, in particular
   payload_buf[cursor .. cursor + size] for every payload transfer *)
Theorem C12_submitted_slices_inside : forall sc cp cb ls s buf k,
  script_ok sc -> run true (init sc cp cb) ls = Some s ->
  st_pos s = LSubmit buf k ->
  zlen buf = max_payload (st_prm s) /\
  exists sz, nth_error (slots (st_prm s)) k = Some sz /\
    slice_in (st_prm s) (st_lbuf s) (st_tbuf s) buf k sz = true /\
    ((0 < k)%nat -> S k <> nslots (st_prm s) ->
     0 <= zsum (firstn (k - 1) (psizes (st_prm s))) /\
     zsum (firstn (k - 1) (psizes (st_prm s))) + sz <= zlen buf).
Proof. exact submitted_slices_inside. Qed.
Print Assumptions C12_submitted_slices_inside.

(* the per-frame transfer bookkeeping (first_buf_len / last_buf_len / payload_len / contiguity = the
   list ds of data polled so far) never outlives its frame: the poll loop is entered with nothing,
   every poll error or time-out leaves it for a position that carries nothing of the frame, and while
   polling ds is exactly what the script delivered since this iteration began *)
Theorem C12_poll_starts_fresh : forall s len s' buf ds, step true s (LSubmitOk len) = Some s' ->
  st_pos s' = LPoll buf ds -> ds = [].
Proof. exact poll_starts_fresh. Qed.
Print Assumptions C12_poll_starts_fresh.

Theorem C12_poll_error_abandons : forall s l s', step true s l = Some s' ->
  (l = LPollTimeout \/ exists c, l = LPollErr c) ->
  exists c, st_pos s' = LSend (IErr c) None /\ g_cur (st_g s') = None.
Proof. exact poll_error_abandons. Qed.
Print Assumptions C12_poll_error_abandons.

Theorem C12_bookkeeping_per_frame : forall sc cp cb ls s buf ds,
  script_ok sc -> run true (init sc cp cb) ls = Some s -> st_pos s = LPoll buf ds ->
  g_consumed (st_g s) = (g_istart (st_g s) + length ds)%nat /\
  firstn (length ds) (skipn (g_istart (st_g s)) sc) = map XData ds.
Proof. exact bookkeeping_per_frame. Qed.
Print Assumptions C12_bookkeeping_per_frame.

(* what payload() shows of a delivered payload is a prefix of the payload bytes received in the
   transfers of THAT frame (valid payload size <= bytes received for this frame), whatever faults
   hit the frames before it *)
Theorem C12_valid_le_received : forall sc cp cb ls s,
  script_ok sc -> run true (init sc cp cb) ls = Some s ->
  forall e p ds, In e (g_hist (st_g s)) -> a_item e = IOk p -> a_ds e = Some ds ->
  let data := contig (psizes (a_prm e)) (removelast (tl ds)) in
  exists pl, view_payload p = Ok pl /\ zlen pl <= zlen data /\ pl = take (zlen pl) data.
Proof. exact valid_le_received. Qed.
Print Assumptions C12_valid_le_received.

(* ---- the AsyncPool of device/src/u3v/async_read.rs (model/AsyncPool.v, proofs/P_C12p.v) -------------
   For ALL device scripts - which libusb_submit_transfer calls are refused, how and when accepted
   transfers complete, how many further event-handling rounds a cancellation takes, which
   libusb_handle_events_locked calls fail and how (any finite list of return codes) -, ALL lock plans -
   what the other threads of the process do with libusb's events lock in each round of poll_completed
   (nothing: this thread handles the events; another thread handles them and this thread waits for it,
   for any time; the lock is taken but its holder has left when this thread asks) - and ALL sequences
   of submit / poll / pending / cancel_all / drop / new operations (and of further event-handling
   results and lock-plan entries scripted in between).  `pool_run ... = Some (s, out, false)`: the
   operations ran without hitting an unreachable!() (C12_pool_documented_codes_no_panic: none is hit
   when statuses and error codes are ones libusb documents). *)

(* every transfer in `pending` was accepted by libusb *)
Theorem C12_pool_pending_accepted : forall pl evs lks ops s out,
  pool_run false (pinit pl evs lks) ops = Some (s, out, false) ->
  forall q, p_pool s = Some q -> Forall accepted_by_libusb q.
Proof. exact pool_pending_accepted. Qed.
Print Assumptions C12_pool_pending_accepted.

(* poll returns completions in submission order: what has been returned so far, followed by what
   is pending, is exactly the accepted transfers 0, 1, ..., k-1 in order *)
Theorem C12_pool_poll_fifo : forall pl evs lks ops s out,
  pool_run false (pinit pl evs lks) ops = Some (s, out, false) ->
  exists k, p_accepted s = Z.of_nat k /\ p_reaped s ++ map sl_no (pending_of s) = nums k.
Proof. exact pool_poll_fifo. Qed.
Print Assumptions C12_pool_poll_fifo.

(* a refused submit reports the error and leaves the pool unchanged *)
Theorem C12_pool_refused_submit_unchanged : forall s q len code rest,
  p_plan s = PRefuse code :: rest ->
  let '(s', out) := submit false s q len in
  p_pool s' = Some q /\ p_accepted s' = p_accepted s /\ p_reaped s' = p_reaped s /\
  p_completed s' = p_completed s /\ p_refused s' = p_refused s + 1 /\ p_freed s' = p_freed s /\
  out = match err_class code with Some c => [1; c] | None => [2] end.
Proof. exact pool_refused_submit_unchanged. Qed.
Print Assumptions C12_pool_refused_submit_unchanged.

(* a poll that does not return a completion - it timed out (also: a wait for another event handler
   timed out), event handling failed (INTERRUPTED, ...), even the unreachable!() on an unknown code -
   pops nothing: `pending` keeps its transfers, their order and its length, nothing is returned,
   nothing is freed *)
Theorem C12_pool_failed_poll_keeps_pending : forall pl evs lks ops s out q ms s' r,
  pool_run false (pinit pl evs lks) ops = Some (s, out, false) -> p_pool s = Some q ->
  poll true ms s q = (s', r) -> (forall o, r <> PReap o) ->
  exists q', p_pool s' = Some q' /\ map sl_no q' = map sl_no q /\ length q' = length q /\
             Forall accepted_by_libusb q' /\ p_reaped s' = p_reaped s /\ p_freed s' = p_freed s.
Proof. exact pool_failed_poll_keeps_pending. Qed.
Print Assumptions C12_pool_failed_poll_keeps_pending.

(* dropping the pool, in any reachable state: the clean-up loop `while !is_empty() { poll(1 s).ok(); }`
   ends (DHang = the fuel of the model's loop is used up), however many of its polls fail or time out
   and whatever the other threads do with the events lock meanwhile; and once it has returned every
   transfer that was pending has been reaped, in submission order - no accepted transfer is left in
   flight - and none was freed while libusb still had it *)
Theorem C12_pool_drop_terminates : forall pl evs lks ops s out q,
  pool_run false (pinit pl evs lks) ops = Some (s, out, false) -> p_pool s = Some q ->
  pool_drop s q <> DHang /\
  (forall s', pool_drop s q = DRet s' ->
     p_pool s' = None /\ p_reaped s' = p_reaped s ++ map sl_no q /\ p_accepted s' = p_accepted s /\ p_freed s' = 0).
Proof. exact pool_drop_terminates. Qed.
Print Assumptions C12_pool_drop_terminates.

(* the bound: the loop of Drop runs at most (transfers pending) + (cancellation latencies of the
   pending transfers, in event-handling rounds) + (failing event-handling calls still in the script)
   + (rounds still in the lock plan in which this thread waits for another event handler: such a wait
   can time out with nothing handled; rounds in which the holder of the lock has left add nothing)
   times - with any fuel above that the model's loop gives the result of pool_drop, which is not DHang *)
Theorem C12_pool_drop_rounds_bound : forall pl evs lks ops s out q fuel,
  pool_run false (pinit pl evs lks) ops = Some (s, out, false) -> p_pool s = Some q ->
  let q' := fst (cancel_all q) in
  let s0 := add_notfound (set_pool s (Some q')) (snd (cancel_all q)) in
  (length q + lat_sum q + failures (p_evs s) + actives (lk_plan (p_lk s)) < fuel)%nat -> drain fuel s0 q' = pool_drop s q.
Proof. exact pool_drop_rounds_bound. Qed.
Print Assumptions C12_pool_drop_rounds_bound.

(* inside one poll the wait loop of poll_completed goes round at most (transfers in flight) + (rounds
   still in the lock plan in which another thread holds the events lock) + 1 times: the fuel the model
   gives it is never used up *)
Theorem C12_pool_poll_wait_fuel : forall fuel fuel' s q rem,
  (nfl q + contended (lk_plan (p_lk s)) < fuel)%nat -> (nfl q + contended (lk_plan (p_lk s)) < fuel')%nat ->
  poll_wait true fuel s q rem = poll_wait true fuel' s q rem.
Proof. exact poll_wait_fuel. Qed.
Print Assumptions C12_pool_poll_wait_fuel.

(* no operation sequence wedges (None = an operation that never returns) *)
Theorem C12_pool_ops_terminate : forall pl evs lks ops, pool_run false (pinit pl evs lks) ops <> None.
Proof. exact pool_ops_terminate. Qed.
Print Assumptions C12_pool_ops_terminate.

(* at no point of any operation sequence has a transfer been freed while libusb had it in flight *)
Theorem C12_pool_never_frees_in_flight : forall pl evs lks ops s out,
  pool_run false (pinit pl evs lks) ops = Some (s, out, false) -> p_freed s = 0.
Proof. exact pool_never_frees_in_flight. Qed.
Print Assumptions C12_pool_never_frees_in_flight.

(* with transfer statuses and error codes libusb documents no unreachable!() is hit, by no operation
   and not by the final drop, which returns with nothing freed in flight *)
Theorem C12_pool_documented_codes_no_panic : forall pl evs lks ops s out b,
  Forall plan_ok pl -> Forall ev_ok evs -> Forall op_ok ops ->
  pool_run false (pinit pl evs lks) ops = Some (s, out, b) ->
  b = false /\ forall q, p_pool s = Some q -> exists s', pool_drop s q = DRet s' /\ p_freed s' = 0.
Proof. exact pool_documented_codes_no_panic. Qed.
Print Assumptions C12_pool_documented_codes_no_panic.

(* what these exclude: with the transfer pushed onto `pending` before libusb accepted it, one
   refused submission and the drop of the pool never returns *)
Theorem C12_pool_push_first_wedges : pool_run true (pinit [PRefuse (-11)] [] []) [(1, 16); (5, 0)] = None.
Proof. exact pool_push_first_wedges. Qed.
Print Assumptions C12_pool_push_first_wedges.

(* and: a clean-up that polls once per pending transfer (`for _ in 0..pending()`) instead of until
   the pool is empty frees a transfer in flight after ONE interrupted event handling, where the
   code's loop reaps it and frees nothing in flight *)
Theorem C12_pool_rounds_variant_interrupted :
  exists s q s1 s2, pool_run false (pinit [PAccept 0 8 1000000 0] [-10] []) [(1, 16)] = Some (s, [0], false) /\
    p_pool s = Some q /\ pool_drop_rounds s q = DRet s1 /\ p_freed s1 = 1 /\
    pool_drop s q = DRet s2 /\ p_freed s2 = 0 /\ p_reaped s2 = [0].
Proof. exact pool_rounds_variant_interrupted. Qed.
Print Assumptions C12_pool_rounds_variant_interrupted.

(* the same with cancellations that take two further event-handling rounds (each poll times out
   once more than the variant waits for) *)
Theorem C12_pool_rounds_variant_slow_cancel :
  exists s q s1 s2, pool_run false (pinit [PAccept 0 8 1000000 2; PAccept 0 8 1000000 2] [] []) [(1, 16); (1, 16)] = Some (s, [0; 0], false) /\
    p_pool s = Some q /\ pool_drop_rounds s q = DRet s1 /\ p_freed s1 = 2 /\
    pool_drop s q = DRet s2 /\ p_freed s2 = 0 /\ p_reaped s2 = [0; 1].
Proof. exact pool_rounds_variant_slow_cancel. Qed.
Print Assumptions C12_pool_rounds_variant_slow_cancel.

(* ---- poll_completed and the other threads of the process (libusb's events lock) ----------------------

   the call log of the lock protocol (newest call first), after any operation sequence - also one
   that ended in an unreachable!() -: libusb_wait_for_event was never called while no event handler
   was active (the count of such waits is 0, no such call is in the log), and every wait in the log
   directly follows a libusb_event_handler_active call that answered 1: the re-check under the waiters
   lock that libusb's protocol for several threads prescribes *)
Theorem C12_pool_waits_only_for_active_handler : forall pl evs lks ops s out b,
  pool_run false (pinit pl evs lks) ops = Some (s, out, b) ->
  lk_idle (p_lk s) = 0 /\ ~ In (CWait false) (lk_log (p_lk s)) /\
  (forall l1 a l2, lk_log (p_lk s) = l1 ++ CWait a :: l2 -> a = true /\ exists l3, l2 = CActive true :: l3).
Proof. exact pool_waits_only_for_active_handler. Qed.
Print Assumptions C12_pool_waits_only_for_active_handler.

(* a transfer that arrived in time is returned, not a time-out: in ANY state, if the front transfer of
   `pending` is due (it completes at the next event handling: the device has delivered it, or its
   cancellation has run its course, or its callback has already run) and the rounds of the poll allow
   one event handling before the time-out has gone by - `handles`: rounds in which the holder of the
   events lock has left are skipped, they take no time; the first other round is this thread's own and
   its event handling succeeds, or another thread handles events within the time left -, then poll pops
   exactly that transfer and returns its completion (for a transfer that was not cancelled: its planned
   status and length) *)
Theorem C12_pool_due_transfer_returned : forall ms s sl r,
  due_at (p_epoch s) sl -> handles (lk_plan (p_lk s)) (p_evs s) (ms * 1000) = true ->
  exists s' out r', poll true ms s (sl :: r) = (s', PReap out) /\ p_pool s' = Some r' /\ map sl_no r' = map sl_no r /\
    p_reaped s' = p_reaped s ++ [sl_no sl] /\
    (forall st ln due clat, sl_st sl = LFlight st ln due clat false -> out = done_out st (if st =? 0 then ln else 0)).
Proof. exact pool_due_transfer_returned. Qed.
Print Assumptions C12_pool_due_transfer_returned.

(* in particular any number of rounds in which the lock was taken and its holder gone never turns a due
   transfer into a time-out: they do not count *)
Theorem C12_pool_held_gone_costs_nothing : forall k lks evs rem,
  handles (repeat LkGone k ++ lks) evs rem = handles lks evs rem.
Proof. exact handles_gone. Qed.
Print Assumptions C12_pool_held_gone_costs_nothing.

(* what these exclude: the wait without the re-check (`poll false`: libusb_wait_for_event is called in
   the contended branch without asking libusb_event_handler_active).  One transfer, delivered at once;
   in the one round of the poll the events lock is taken at the moment of libusb_try_lock_events and its
   holder has left before this thread looks.  The code goes round again and returns the 8 bytes, no wait,
   no time gone by; the variant waits for an event handler that does not exist - the whole 10 ms -
   and returns Timeout (class 6) with the transfer still pending *)
Theorem C12_pool_norecheck_variant_times_out :
  exists s q s1 s2 q2, pool_run false (pinit [PAccept 0 8 0 0] [] [LkGone]) [(1, 16)] = Some (s, [0], false) /\
    p_pool s = Some q /\
    poll true 10 (next_epoch s) q = (s1, PReap [0; 8; 1]) /\ p_pool s1 = Some [] /\
      lk_waits (p_lk s1) = 0 /\ lk_clock (p_lk s1) = 0 /\
    poll false 10 (next_epoch s) q = (s2, PFail [1; 6]) /\ p_pool s2 = Some q2 /\ length q2 = 1%nat /\
      lk_idle (p_lk s2) = 1 /\ lk_clock (p_lk s2) = 10001 /\ In (CWait false) (lk_log (p_lk s2)).
Proof. exact pool_norecheck_variant_times_out. Qed.
Print Assumptions C12_pool_norecheck_variant_times_out.

(* TIE TO THE SOURCE CODE (gen/StreamParamsSrc.v, re-translated by tools/translate_streamparams.py on every run from
   cameleon/src/u3v/stream_handle.rs: StreamParams::{new, maximum_payload_size, payload_transfer_sizes} and the free
   functions read_leader / read_payload / read_trailer; operations of model/RdOps.v + model/SpOps.v, integer
   arithmetic of lib/RustInt.v).  src_X are the TRANSLATED functions; to_params / of_params (proofs/P_C12s.v) rename the
   fields of the translated struct to those of model/StreamLoop.v's params.  A buffer is its length; the pool is the list
   of ranges submitted so far; `res k` is the result of the k-th submission. *)
From Cam Require Import RustInt RdOps SpOps StreamParamsSrc P_C12s.

(* payload_transfer_sizes (repeat .. take .. chain(Some(final).filter(!= 0))) is psizes, for every parameter record:
   list equality, any count *)
Theorem C12_transfer_sizes_from_source :
  (forall p, src_StreamParams_payload_transfer_sizes p = psizes (to_params p)) /\
  (forall q tmo, src_StreamParams_payload_transfer_sizes (of_params q tmo) = psizes q) /\
  (forall a b c d e f t, to_params (src_StreamParams_new a b c d e f t) =
     {| q_leader := a; q_trailer := b; q_psize := c; q_pcount := d; q_f1 := e; q_f2 := f |}).
Proof. exact transfer_sizes_from_source_all. Qed.
Print Assumptions C12_transfer_sizes_from_source.

(* maximum_payload_size is max_payload; the usize arithmetic (`*`, `+`, `+`, each overflow-checked in a debug build)
   panics exactly when the sum does not fit 64 bits *)
Theorem C12_max_payload_from_source :
  (forall p, sizes_nonneg (to_params p) ->
     src_StreamParams_maximum_payload_size p =
     if max_payload (to_params p) <? 2 ^ 64 then Ok (max_payload (to_params p)) else Panic) /\
  (forall q tmo, prm_ok q = true -> max_payload q < 2 ^ 64 ->
     src_StreamParams_maximum_payload_size (of_params q tmo) = Ok (max_payload q)).
Proof. exact max_payload_from_source_all. Qed.
Print Assumptions C12_max_payload_from_source.

(* read_leader / read_payload / read_trailer: for EVERY result of the submissions, read_payload submits from offset 0
   on one slice per element of payload_transfer_sizes (submit_all: slice, then submit, `?`); a zero final transfer is
   skipped; leader and trailer are one slice [0, size).  With every submission succeeding the frame's submissions are
   the model's slots - leader range, consecutive payload ranges, trailer range - and the helpers panic exactly when
   one of the model's slice_in checks fails *)
Theorem C12_read_helpers_from_source :
  (forall res p prm blen, src_fn_read_leader res p prm blen =
     omap (fun p' => (tt, p')) (submit_all res blen 0 [q_leader (to_params prm)] p)) /\
  (forall res p prm blen, sizes_nonneg (to_params prm) -> blen < 2 ^ 64 ->
     src_fn_read_payload res p prm blen =
     omap (fun p' => (tt, p')) (submit_all res blen 0 (src_StreamParams_payload_transfer_sizes prm) p)) /\
  (forall res p prm blen, src_fn_read_trailer res p prm blen =
     omap (fun p' => (tt, p')) (submit_all res blen 0 [q_trailer (to_params prm)] p)) /\
  (forall q tmo lbuf buf tbuf, prm_ok q = true -> zlen buf < 2 ^ 64 ->
     submit_frame all_ok (of_params q tmo) (zlen lbuf) (zlen buf) (zlen tbuf) =
     if forallb (fun k => slice_in q lbuf tbuf buf k (nth k (slots q) 0)) (seq 0 (nslots q))
     then Ok ((0, q_leader q) :: ranges 0 (psizes q) ++ [(0, q_trailer q)]) else Panic).
Proof. exact read_helpers_from_source_all. Qed.
Print Assumptions C12_read_helpers_from_source.

(* on the translated code alone: when maximum_payload_size returns m, the translated transfer sizes sum to m, and in a
   buffer of m bytes read_payload submits the consecutive ranges of those sizes, each inside [0, m]; in any shorter
   buffer it panics before submitting the slice that does not fit *)
Theorem C12_transfer_layout_of_source : forall p m, sizes_nonneg (to_params p) ->
  src_StreamParams_maximum_payload_size p = Ok m ->
  zsum (src_StreamParams_payload_transfer_sizes p) = m /\ 0 <= m < 2 ^ 64 /\
  src_fn_read_payload all_ok [] p m = Ok (tt, ranges 0 (src_StreamParams_payload_transfer_sizes p)) /\
  Forall (fun r => 0 <= fst r /\ fst r <= snd r /\ snd r <= m) (ranges 0 (src_StreamParams_payload_transfer_sizes p)) /\
  (forall blen, 0 <= blen < m -> src_fn_read_payload all_ok [] p blen = Panic).
Proof. exact layout_of_source. Qed.
Print Assumptions C12_transfer_layout_of_source.

(* non-vacuity: sizes 3 x 1024 + 512 (final2 = 0 skipped), the six ranges of a frame, the panic in a buffer one byte
   short, a failing third submission, the overflow panic of maximum_payload_size, a lone final2 transfer *)
Theorem C12_source_examples :
  src_StreamParams_payload_transfer_sizes ex_prm = [1024; 1024; 1024; 512] /\
  src_StreamParams_maximum_payload_size ex_prm = Ok 3584 /\
  submit_frame all_ok ex_prm 52 3584 32 =
    Ok [(0, 52); (0, 1024); (1024, 2048); (2048, 3072); (3072, 3584); (0, 32)] /\
  submit_frame all_ok ex_prm 52 3583 32 = Panic /\
  submit_frame (fun k => if k =? 2 then Some 5 else None) ex_prm 52 3584 32 = Err 5 /\
  src_StreamParams_maximum_payload_size (src_StreamParams_new 0 0 (2 ^ 63) 2 0 0 0) = Panic /\
  src_StreamParams_payload_transfer_sizes (src_StreamParams_new 8 8 16 0 0 24 0) = [24].
Proof. exact c12s_examples. Qed.
Print Assumptions C12_source_examples.
