(* C06 — Device memory transfers are exact for any size under any negotiated limits.
   Statements only; proofs in proofs/P_C06.v.  Model: model/Control.v (ControlHandle after the
   "fix:" commits) against the conforming device (decode with the typed U3V layout decoder
   spec/CmdLayout.v, apply to memory, answer per GenCP), any number of pending acknowledges
   below the retry limit before each answer ([conf R w]).
   [range_in segs a n pre b m post]: device memory [a, a+n) lies in the segment (b, m) and no
   earlier segment touches it.  [wire_txs bound id cmds evs]: the events added to the wire log are
   exactly the commands [cmds], in order, the k-th one serialized with request id (id + k) mod
   2^16, each answered by acknowledges of at most [bound cmd] bytes. *)
From Cam Require Import Outcome Bytes Chunks Cmd Ack CmdLayout GenCPLayout Control P_C09 P_C08 P_C06 ManifestSpec P_C14b P_C06b.

(* a read of n bytes at a returns exactly device memory [a, a+n); memory is not modified *)
Theorem C06_read_exact : forall c w a n pre b m post,
  c_opened c = true -> 12 < c_max_ack c < 2 ^ 32 -> 24 <= c_max_cmd c -> 0 <= c_next c < 2 ^ 16 ->
  1 <= c_retry c -> conf (c_retry c) w ->
  range_in (w_segs w) a n pre b m post -> 0 <= a -> a + n <= 2 ^ 64 ->
  exists c' w',
    ctl_read a n (c, w) = (Ok (take n (drop (a - b) m)), (c', w')) /\
    w_segs w' = w_segs w /\ w_writes w' = w_writes w /\ w_open_err w' = w_open_err w /\
    conf (c_retry c) w' /\
    ctl_steps (zlen (read_cmds (S (Z.to_nat n)) a n (read_chunk (c_max_ack c)))) c c' /\
    exists evs, w_log w' = evs ++ w_log w /\
                wire_txs read_bound (c_next c) (read_cmds (S (Z.to_nat n)) a n (read_chunk (c_max_ack c))) evs.
Proof. exact ctl_read_exact. Qed.
Print Assumptions C06_read_exact.

(* a write makes exactly [a, a+|data|) equal to the data: the segment becomes set_at (a-b) m data,
   every other segment is unchanged; any size (blocks of 65527 bytes, chunks of max_cmd - 20) *)
Theorem C06_write_exact : forall c w a data pre b m post,
  c_opened c = true -> 20 < c_max_cmd c -> 0 <= c_next c < 2 ^ 16 -> 1 <= c_retry c -> conf (c_retry c) w ->
  bytes_ok data -> range_in (w_segs w) a (zlen data) pre b m post -> 0 <= a -> a + zlen data <= 2 ^ 64 ->
  exists c' w',
    ctl_write a data (c, w) = (Ok tt, (c', w')) /\
    w_segs w' = pre ++ (b, set_at (a - b) m data) :: post /\
    w_open_err w' = w_open_err w /\ conf (c_retry c) w' /\
    ctl_steps (zlen (block_cmds (S (length data)) a data (c_max_cmd c - 20))) c c' /\
    exists evs, w_log w' = evs ++ w_log w /\
                wire_txs write_bound (c_next c) (block_cmds (S (length data)) a data (c_max_cmd c - 20)) evs.
Proof. exact ctl_write_exact. Qed.
Print Assumptions C06_write_exact.

(* The same two statements over WHOLE device memories: any number of segments inside the 64 bit
   address space separated by unmapped bytes ([good_conf]: open handle, 12 < max_ack < 2^32,
   max_cmd >= 24, request id in u16, retry >= 1, conforming plans).  [mem_read segs a n] is the device
   memory [a, a+n) (None when some byte is unmapped or the range leaves the address space). *)
Theorem C06_read_memory : forall c w a n d, good_conf (c, w) -> mem_read (w_segs w) a n = Some d ->
  exists c' w', ctl_read a n (c, w) = (Ok d, (c', w')) /\ w_segs w' = w_segs w /\ good_conf (c', w').
Proof. exact read_memory. Qed.
Print Assumptions C06_read_memory.

Theorem C06_write_memory : forall c w a data old, good_conf (c, w) -> 0 < zlen data -> bytes_ok data ->
  mem_read (w_segs w) a (zlen data) = Some old ->
  exists c' w', ctl_write a data (c, w) = (Ok tt, (c', w')) /\ seg_write (w_segs w) a data = Some (w_segs w') /\
                mem_read (w_segs w') a (zlen data) = Some data.
Proof. exact write_memory. Qed.
Print Assumptions C06_write_memory.

(* one transaction: any number of pending acknowledges below the retry limit is awaited *)
Theorem C06_pending_awaited : forall mss fuel retry ek c w a,
  Forall ms_ok mss -> zlen mss < retry -> (length mss < fuel)%nat ->
  w_replies w = map RPending mss ++ [RConform []] ->
  w_cur_rid w = c_next c -> 0 <= c_next c < 65536 ->
  16 <= c_buflen c -> zlen (w_cur_ack w) <= c_buflen c ->
  parse_ack (w_cur_ack w) = Ok a -> a_status a = 0 -> a_request_id a = c_next c -> a_kind a = ek -> ek <> 4 ->
  exists w', recv_loop fuel retry ek (c, w) = (Ok a, (c_set_next c (wrapu 16 (c_next c + 1)), w')) /\
     w_segs w' = w_segs w /\ w_plans w' = w_plans w /\ w_writes w' = w_writes w /\
     w_open_err w' = w_open_err w /\
     exists evs, w_log w' = evs ++ w_log w /\ Forall (recv_ev (Z.max 16 (zlen (w_cur_ack w)))) evs.
Proof. exact recv_conforming. Qed.
Print Assumptions C06_pending_awaited.

(* request ids: the commands are sent in order, the k-th with id (id + k) mod 2^16 *)
Theorem C06_request_ids : forall bound id cms evs, wire_txs bound id cms evs ->
  sends evs = expected_sends id cms.
Proof. exact wire_txs_sends. Qed.
Print Assumptions C06_request_ids.

(* wire limits: read commands are 24 bytes and their acknowledges at most max(16, 12 + chunk) bytes with
   chunk = min(max_ack - 12, 65535); write commands are at most 20 + (max_cmd - 20) bytes, acknowledged by 16 *)
Theorem C06_read_wire_limits : forall chunk fuel addr remaining, 1 <= chunk ->
  Forall (fun cm => cmd_len cm = 24 /\ read_bound cm <= Z.max 16 (12 + chunk)) (read_cmds fuel addr remaining chunk).
Proof. exact read_cmds_spec. Qed.
Print Assumptions C06_read_wire_limits.

Theorem C06_write_wire_limits : forall mx fuel addr data, 1 <= mx ->
  Forall (fun cm => cmd_len cm <= 20 + mx /\ write_bound cm = 16) (block_cmds fuel addr data mx).
Proof. exact block_cmds_spec. Qed.
Print Assumptions C06_write_wire_limits.

Theorem C06_ack_sizes : forall bound id cms evs, wire_txs bound id cms evs ->
  forall B, Forall (fun cm => bound cm <= B) cms ->
  Forall (fun e => match e with WRecv n => n <= B | WSend _ => True | _ => False end) evs.
Proof. exact wire_txs_recvs. Qed.
Print Assumptions C06_ack_sizes.

(* the hypotheses are satisfiable *)
Theorem C06_example :
  conf 3 ex_world /\ range_in (w_segs ex_world) 4098 7 [(0, repeat 0 16)] 4096 [1; 2; 3; 4; 5; 6; 7; 8; 9; 10] [].
Proof. exact ex_hypotheses. Qed.
Print Assumptions C06_example.

(* pinned code: a write of more than 65527 bytes was refused *)
Theorem C06_big_write_v0_refuted : forall c w a data, c_opened c = true -> 65527 < zlen data ->
  fst (ctl_write_v0 a data (c, w)) = Err CE_IO.
Proof. exact big_write_v0_refuted. Qed.
Print Assumptions C06_big_write_v0_refuted.

(* ---- the session around the transfers (proofs/P_C06b.v) ---------------------------------------------- *)

(* "any negotiated limits": open on a conforming device whose ABRM / SBRM hold the registers
   (ABRM 0x1C4 capability = cap, 0x1D8 SBRM address = sb, 0x1CC response time; SBRM +4 U3VCP
   capability, +20 maximum command length = mc, +24 maximum acknowledge length = ma) negotiates
   exactly mc and ma, performs open / set_halt / clear_halt in that order before the first
   transaction, leaves the memory alone and ends in a state to which C06_read_memory /
   C06_write_memory apply *)
Theorem C06_open_negotiates : forall c w cap sb ucap rtime mc ma,
  let segs := w_segs w in
  u_field segs 452 8 cap -> u_field segs 472 8 sb -> sb + 24 < 2 ^ 64 -> u_field segs (sb + 4) 8 ucap ->
  u_field segs 460 4 rtime -> u_field segs (sb + 20) 4 mc -> u_field segs (sb + 24) 4 ma ->
  c_opened c = false -> 12 < c_max_ack c < 2 ^ 32 -> 24 <= c_max_cmd c -> 0 <= c_next c < 2 ^ 16 ->
  1 <= c_retry c -> conf (c_retry c) w -> segs_sep segs -> w_open_err w = None ->
  12 < ma < 2 ^ 32 -> 24 <= mc ->
  exists c' w',
    ctl_open (c, w) = (Ok tt, (c', w')) /\
    c_opened c' = true /\ c_max_cmd c' = mc /\ c_max_ack c' = ma /\ c_retry c' = c_retry c /\
    c_abrm c' = abrm_after cap c /\ c_sbrm c' = c_sbrm c /\ c_sirm c' = c_sirm c /\
    w_segs w' = segs /\ good_conf (c', w') /\
    exists evs, w_log w' = evs ++ [WClearHalt; WSetHalt; WOpen] ++ w_log w.
Proof. exact open_negotiates. Qed.
Print Assumptions C06_open_negotiates.

(* open, then a read anywhere inside the device memory: the memory, unchanged *)
Theorem C06_session_read : forall c w cap sb ucap rtime mc ma a n d,
  let segs := w_segs w in
  u_field segs 452 8 cap -> u_field segs 472 8 sb -> sb + 24 < 2 ^ 64 -> u_field segs (sb + 4) 8 ucap ->
  u_field segs 460 4 rtime -> u_field segs (sb + 20) 4 mc -> u_field segs (sb + 24) 4 ma ->
  c_opened c = false -> 12 < c_max_ack c < 2 ^ 32 -> 24 <= c_max_cmd c -> 0 <= c_next c < 2 ^ 16 ->
  1 <= c_retry c -> conf (c_retry c) w -> segs_sep segs -> w_open_err w = None ->
  12 < ma < 2 ^ 32 -> 24 <= mc ->
  mem_read segs a n = Some d ->
  exists s1 s2, ctl_open (c, w) = (Ok tt, s1) /\ ctl_read a n s1 = (Ok d, s2) /\ w_segs (snd s2) = segs.
Proof. exact session_read. Qed.
Print Assumptions C06_session_read.

(* the freshly created handle (ctl_init) on a concrete two-segment device: limits 1024 / 512 *)
Theorem C06_open_example :
  exists c' w', ctl_open (ctl_init, ex_open_world) = (Ok tt, (c', w')) /\ c_max_cmd c' = 1024 /\ c_max_ack c' = 512 /\
                good_conf (c', w').
Proof. exact open_example. Qed.
Print Assumptions C06_open_example.

(* what is refused is refused before anything is put on the wire: a failing open, a closed handle,
   a negotiated command limit below the 24 bytes of a ReadMem command *)
Theorem C06_open_fails : forall c w e, c_opened c = false -> w_open_err w = Some e ->
  ctl_open (c, w) = (Err (ce_of_usb e), (c, w_logev w WOpen)).
Proof. exact open_fails. Qed.
Print Assumptions C06_open_fails.

Theorem C06_closed_handle : forall c w a n d, c_opened c = false ->
  ctl_read a n (c, w) = (Err CE_NOT_OPENED, (c, w)) /\ ctl_write a d (c, w) = (Err CE_NOT_OPENED, (c, w)).
Proof. intros c w a n d H. exact (conj (closed_read c w a n H) (closed_write c w a d H)). Qed.
Print Assumptions C06_closed_handle.

Theorem C06_small_limit_refused : forall c w a n, c_opened c = true -> 12 < c_max_ack c < 2 ^ 32 -> c_max_cmd c < 24 ->
  0 <= a -> a + n <= 2 ^ 64 -> 0 < n ->
  ctl_read a n (c, w) = (Err CE_INVALID_DEVICE, (c, w)).
Proof. exact small_limit_read. Qed.
Print Assumptions C06_small_limit_refused.

(* ================================================================================================================
   USB layer: ControlChannel / ReceiveChannel of device/src/u3v/channel.rs (open / close / is_opened / send / recv /
   set_halt / clear_halt, Drop) and Device::{control,event,stream}_channel, over the rusb calls they make and an
   abstract libusb (any plan of scripted answers, any history of operations).  Model: model/UsbChannel.v;
   proofs: proofs/P_C06u.v.  [answer w]: the scripted answer the next libusb call gets; [after u w]: the world
   after the call [u] was logged and answered.
   ================================================================================================================ *)
From Cam Require Import UsbEnum UsbDescLayout UsbChannel P_C07u P_C06u.

(* send: exactly ONE libusb_bulk_transfer, on the interface's bulk-out endpoint, with the caller's bytes, their
   length and the timeout in milliseconds (as u32); its result is libusb's answer through rusb's three-way match;
   the channel itself is not touched *)
Theorem C06_chan_send_exact : forall c data tmo w, Z.land (c_out c) 0x80 = 0 ->
  ch_send c data tmo w =
  (match answer w with Some r => bulk_result (r_code r) (r_n r) | None => Ok (zlen data) end,
   after (UBulk (c_out c) (zlen data) (tmo mod 2 ^ 32) (Some data)) w).
Proof. exact send_exact. Qed.
Print Assumptions C06_chan_send_exact.

(* recv: exactly ONE bulk transfer on the bulk-in endpoint with the caller's buffer length and timeout; Ok carries
   libusb's count and the buffer holds the device's bytes at the front, the rest untouched *)
Theorem C06_chan_recv_exact : forall c len tmo w, Z.land (c_in c) 0x80 = 0x80 ->
  ch_recv c len tmo w =
  (match answer w with
   | Some r => let? n := bulk_result (r_code r) (r_n r) in Ok (n, filled len (r_data r))
   | None => Ok (len, filled len (pattern len))
   end,
   after (UBulk (c_in c) len (tmo mod 2 ^ 32) None) w).
Proof. exact recv_exact. Qed.
Print Assumptions C06_chan_recv_exact.

Theorem C06_chan_buffer : forall len data,
  (0 <= len -> zlen (filled len data) = len) /\
  (zlen data <= len -> firstn (length data) (filled len data) = data).
Proof. exact buffer_spec. Qed.
Print Assumptions C06_chan_buffer.

(* libusb's count or error comes back unchanged: code 0 -> Ok count; TIMEOUT / INTERRUPTED with a positive count ->
   Ok count (rusb), without -> that error; every other code -> its error kind *)
Theorem C06_chan_count_or_error : forall code n,
  (code = 0 -> bulk_result code n = Ok n) /\
  (code <> 0 -> code <> -7 -> code <> -10 -> bulk_result code n = Err (usb_kind code)) /\
  ((code = -7 \/ code = -10) -> 0 < n -> bulk_result code n = Ok n) /\
  ((code = -7 \/ code = -10) -> n <= 0 -> bulk_result code n = Err (usb_kind code)).
Proof. exact bulk_result_spec. Qed.
Print Assumptions C06_chan_count_or_error.

(* an endpoint of the wrong direction never reaches libusb (rusb's guard): InvalidParam, nothing logged *)
Theorem C06_chan_wrong_direction : forall c data len tmo w,
  (Z.land (c_out c) 0x80 <> 0 -> ch_send c data tmo w = (Err UE_INVALID_PARAM, w)) /\
  (Z.land (c_in c) 0x80 <> 0x80 -> ch_recv c len tmo w = (Err UE_INVALID_PARAM, w)).
Proof. exact wrong_direction. Qed.
Print Assumptions C06_chan_wrong_direction.

(* open: idempotent -- on an open channel nothing is called; otherwise exactly one claim of exactly the interface
   number: success opens, an error leaves the channel as it was *)
Theorem C06_chan_open : forall c w,
  ch_open c w =
  if c_opened c then (Ok tt, (c, w))
  else if code_of (answer w) =? 0
       then (Ok tt, (set_state c true true, after (UClaim (c_iface c)) w))
       else (Err (usb_kind (code_of (answer w))), (c, after (UClaim (c_iface c)) w)).
Proof. exact open_spec. Qed.
Print Assumptions C06_chan_open.

(* close: on a closed channel nothing is called; otherwise exactly one release of the interface: success closes,
   an error leaves the channel open (both channel types) *)
Theorem C06_chan_close : forall c w,
  ch_close c w =
  if c_opened c then
    if code_of (answer w) =? 0
    then (Ok tt, (set_state c false false, after (URelease (c_iface c)) w))
    else (Err (usb_kind (code_of (answer w))), (c, after (URelease (c_iface c)) w))
  else (Ok tt, (c, w)).
Proof. exact close_spec. Qed.
Print Assumptions C06_chan_close.

(* the guard, stated: there is none -- send, recv, set_halt and clear_halt do not look at is_opened *)
Theorem C06_chan_no_open_guard : forall c o cl,
  (forall data tmo w, ch_send (set_state c o cl) data tmo w = ch_send c data tmo w) /\
  (forall len tmo w, ch_recv (set_state c o cl) len tmo w = ch_recv c len tmo w) /\
  (forall tmo w, ch_set_halt (set_state c o cl) tmo w = ch_set_halt c tmo w) /\
  (forall w, ch_clear_halt (set_state c o cl) w = ch_clear_halt c w).
Proof. exact no_open_guard. Qed.
Print Assumptions C06_chan_no_open_guard.

(* set_halt: SET_FEATURE(ENDPOINT_HALT) control transfers (type 0x02, request 0x03, value 0, no data) to the IN
   endpoint, then -- control channel only, and only when the first succeeded -- to the OUT endpoint; clear_halt likewise *)
Theorem C06_chan_halt : forall c tmo w,
  w_log (snd (ch_set_halt c tmo w)) =
    w_log w ++ [halt_call (c_in c) tmo] ++
    match c_kind c with
    | KControl => if control_res (answer w) <? 0 then [] else [halt_call (c_out c) tmo]
    | KReceive => []
    end /\
  w_log (snd (ch_clear_halt c w)) =
    w_log w ++ [UClearHalt (c_in c)] ++
    match c_kind c with
    | KControl => if code_of (answer w) =? 0 then [UClearHalt (c_out c)] else []
    | KReceive => []
    end.
Proof. exact halt_logs. Qed.
Print Assumptions C06_chan_halt.

(* dropping a channel releases the interface when (and only when) it is held, then closes the handle *)
Theorem C06_chan_drop : forall c w,
  w_log (ch_drop c w) = w_log w ++ (if c_claimed c then [URelease (c_iface c); UClose] else [UClose]).
Proof. exact drop_log. Qed.
Print Assumptions C06_chan_drop.

(* after an error the channel is unchanged, for every operation; only open / close / re-creation ever change it *)
Theorem C06_chan_error_keeps_state : forall cd o c w e rest, o <> ORecreate ->
  fst (step cd o (Some c, w)) = 1 :: e :: rest -> fst (snd (step cd o (Some c, w))) = Some c.
Proof. exact step_error_keeps. Qed.
Print Assumptions C06_chan_error_keeps_state.

Theorem C06_chan_only_open_close_change : forall cd o c w,
  match o with OOpen | OClose | ORecreate => True | _ => fst (snd (step cd o (Some c, w))) = Some c end.
Proof. exact step_keeps_channel. Qed.
Print Assumptions C06_chan_only_open_close_change.

(* for EVERY history of operations and EVERY plan of libusb answers: the channel keeps the interface description it
   was made from and is_opened agrees with what is claimed through its handle ... *)
Theorem C06_chan_history_invariant : forall cd plan os,
  chan_inv cd (fst (snd (steps cd os (snd (create cd (mkWorld plan [])))))).
Proof. exact history_inv. Qed.
Print Assumptions C06_chan_history_invariant.

(* ... and every libusb call of the history (the final drop included) names exactly the channel's own interface
   number / endpoints: claims and releases the interface, IN transfers on bulk-in, OUT transfers on bulk-out
   (control channel only), halts on its own endpoints *)
Theorem C06_chan_history_calls : forall cd plan os,
  let s := snd (steps cd os (snd (create cd (mkWorld plan [])))) in
  log_ok cd (drop_opt (fst s) (snd s)).
Proof. exact history_calls_ok. Qed.
Print Assumptions C06_chan_history_calls.

(* no operation panics *)
Theorem C06_chan_total : forall c w, fst (ch_open c w) <> Panic /\ fst (ch_close c w) <> Panic.
Proof. exact open_close_total. Qed.
Print Assumptions C06_chan_total.

(* the channels of an ENUMERATED camera (props/C07.v: accept_spec): the control channel is made from the control
   interface's number and endpoints, whose directions pass rusb's guards, so send and recv always reach libusb on
   exactly these endpoints; receive channels are made from the event / stream interface *)
Theorem C06_chan_enumerated_control : forall d r cd c data len tmo w, accept_spec d = Some r -> cdesc_of r 0 = Some cd ->
  c_in c = cd_in cd -> c_out c = cd_out cd ->
  (cd_kind cd = KControl /\ (cd_iface cd, cd_in cd, cd_out cd) = r_ctrl r) /\
  w_log (snd (ch_send c data tmo w)) = w_log w ++ [UBulk (cd_out cd) (zlen data) (tmo mod 2 ^ 32) (Some data)] /\
  w_log (snd (ch_recv c len tmo w)) = w_log w ++ [UBulk (cd_in cd) len (tmo mod 2 ^ 32) None].
Proof. exact enumerated_control. Qed.
Print Assumptions C06_chan_enumerated_control.

Theorem C06_chan_enumerated_receive : forall d r which cd, accept_spec d = Some r -> which <> 0 -> cdesc_of r which = Some cd ->
  cd_kind cd = KReceive /\ Some (cd_iface cd, cd_in cd) = (if which =? 1 then r_event r else r_stream r) /\
  Z.land (cd_in cd) 0x80 <> 0.
Proof. exact enumerated_receive_channel. Qed.
Print Assumptions C06_chan_enumerated_receive.

(* non-vacuity: a history with a failing claim, an idempotent open, a send, a timed-out and a short receive with a
   timeout beyond 32 bits, a failing release and the final drop, evaluated in the kernel *)
Theorem C06_chan_example :
  run_history ex_cd
    [mkResp 0 0 []; mkResp (-6) 0 []; mkResp 0 0 []; mkResp 0 3 []; mkResp (-7) 0 []; mkResp 0 2 [170; 187]; mkResp (-4) 0 []]
    [OOpen; OIsOpened; OOpen; OSend [1; 2; 3] 500; ORecv 4 (2 ^ 32 + 5); ORecv 4 100; OClose; OIsOpened] =
  [0] ++ [1; 5] ++ [0] ++ [0] ++ [0; 3] ++ [1; 6] ++ [0; 2; 4; 170; 187; 205; 205] ++ [1; 3] ++ [1] ++ [-8; 1; -7] ++
  [3; 0] ++ [8; 0; 0] ++ [8; 0; 0] ++ [11; 0; 1; 3; 500; 3; 1; 2; 3] ++ [11; 0; 129; 4; 5] ++ [11; 0; 129; 4; 100] ++
  [9; 0; 0] ++ [9; 0; 0] ++ [7; 0].
Proof. exact example_history. Qed.
Print Assumptions C06_chan_example.

(* ================================================================================================================
   TIE TO THE SOURCE CODE: cameleon/src/u3v/control_handle.rs translated on every run by tools/translate_control.py into
   gen/ControlSrc.v (operations: model/CtlOps.v; proofs: proofs/P_C06s.v).  The translated code runs on the model's
   state (handle, scripted device) and a ghost part (the CONTENTS of self.buffer, the log of sleeps).
   [same_as_model mx m Q] (C06_same_as_model_def spells it out): from every handle whose fields are in the ranges of
   their types (hinv: limits u32, request id u16), every device that holds and sends bytes (wbytes) and every ghost
   buffer of the recorded length, the translated [mx] and the model's [m] return the same value / error class / panic,
   leave the same handle and the same device (memory, script, wire log, device writes), and the invariants hold again.
   ================================================================================================================ *)
From Cam Require Import RustInt CurOps ReadChunks RegTables CtlOps ControlSrc P_C07c P_C10s P_C06s.

Theorem C06_same_as_model_def : forall A (mx : X A) (m : Control.M A) (Q : A -> Prop),
  same_as_model mx m Q <->
  (forall (c : Control.ctl) (w : Control.world) g, hinv c -> wbytes w -> zlen (g_buf g) = Control.c_buflen c ->
     let r := mx ((c, w), g) in
     (fst r, fst (snd r)) = m (c, w) /\
     hinv (fst (fst (snd r))) /\ wbytes (snd (fst (snd r))) /\
     zlen (g_buf (snd (snd r))) = Control.c_buflen (fst (fst (snd r))) /\
     (forall a, fst r = Ok a -> Q a)).
Proof. exact same_as_model_def. Qed.
Print Assumptions C06_same_as_model_def.

(* fn verify_range: the u128 comparison of the source is the model's test, for every u64 address and usize length; the
   state is not touched; the range is refused exactly when it leaves the 64 bit address space *)
Theorem C06_verify_range_from_source : forall a n (s : xst), 0 <= a < 2 ^ 64 -> 0 <= n < 2 ^ 64 ->
  src_verify_range a n s = (fst (Control.verify_range a n (fst s)), s) /\
  Control.verify_range a n (fst s) = ((if 2 ^ 64 <? a + n then Err CE_INVALID_DATA else Ok tt), fst s).
Proof. exact verify_range_explicit. Qed.
Print Assumptions C06_verify_range_from_source.

Theorem C06_assert_open_from_source : forall s : xst,
  src_assert_open s = (fst (Control.assert_open (fst s)), s) /\
  Control.assert_open (fst s) = ((if Control.c_opened (fst (fst s)) then Ok tt else Err CE_NOT_OPENED), fst s).
Proof. exact assert_open_explicit. Qed.
Print Assumptions C06_assert_open_from_source.

(* DeviceControl::read, any u64 address, any buffer a usize can index (no bound on the size: induction over the chunk
   list): assert_open, verify_range, the ReadMem::chunks check, the loop over buf.chunks_mut(maximum_read_length): per
   chunk one send_cmd of ReadMem(address, chunk length), the length check of the returned data, copy_from_slice, the
   address advanced by the chunk length *)
Theorem C06_read_from_source : forall a buf, 0 <= a < 2 ^ 64 -> zlen buf < 2 ^ 64 ->
  same_as_model (src_read a buf) (Control.ctl_read a (zlen buf)) bytes_ok.
Proof. exact read_explicit. Qed.
Print Assumptions C06_read_from_source.

(* DeviceControl::write, any u64 address, any byte slice: blocks of at most u16::MAX - 8 bytes, WriteMem::new per block,
   the translated WriteMemChunks iterator per block, per chunk one send_cmd and the written-length check, the address
   advanced by the block length *)
Theorem C06_write_from_source : forall a data, 0 <= a < 2 ^ 64 -> zlen data < 2 ^ 64 -> bytes_ok data ->
  same_as_model (src_write a data) (Control.ctl_write a data) (fun _ => True).
Proof. exact write_explicit. Qed.
Print Assumptions C06_write_from_source.

(* "any negotiated limits": ControlHandle::abrm (cache or one read of DEVICE_CAPABILITY), initialize_config (ABRM, SBRM
   address + capability, response time, maximum command / acknowledge length, in this order, then the assignments),
   DeviceControl::open (inner.open, set_halt, clear_halt, initialize_config) and close *)
Theorem C06_session_from_source :
  same_as_model src_abrm Control.h_abrm is_u64 /\
  same_as_model src_initialize_config Control.initialize_config (fun _ => True) /\
  same_as_model src_open Control.ctl_open (fun _ => True) /\
  same_as_model src_close Control.ctl_close (fun _ => True).
Proof. exact session_explicit. Qed.
Print Assumptions C06_session_from_source.

(* the property on the translated code alone (composition with C06_read_memory / C06_write_memory): against a conforming
   device a read of any size through the TRANSLATED read returns exactly the device memory and leaves it unchanged, a
   write makes the memory equal to the data *)
Theorem C06_read_of_source : forall (c : Control.ctl) (w : Control.world) g a buf d,
  hinv c -> wbytes w -> zlen (g_buf g) = Control.c_buflen c -> good_conf (c, w) ->
  0 <= a < 2 ^ 64 -> zlen buf < 2 ^ 64 -> mem_read (Control.w_segs w) a (zlen buf) = Some d ->
  exists c' w' g', src_read a buf ((c, w), g) = (Ok d, ((c', w'), g')) /\ Control.w_segs w' = Control.w_segs w /\
                   good_conf (c', w').
Proof. exact read_of_source. Qed.
Print Assumptions C06_read_of_source.

Theorem C06_write_of_source : forall (c : Control.ctl) (w : Control.world) g a data old,
  hinv c -> wbytes w -> zlen (g_buf g) = Control.c_buflen c -> good_conf (c, w) ->
  0 <= a < 2 ^ 64 -> 0 < zlen data < 2 ^ 64 -> bytes_ok data -> mem_read (Control.w_segs w) a (zlen data) = Some old ->
  exists c' w' g', src_write a data ((c, w), g) = (Ok tt, ((c', w'), g')) /\
                   seg_write (Control.w_segs w) a data = Some (Control.w_segs w') /\
                   mem_read (Control.w_segs w') a (zlen data) = Some data.
Proof. exact write_of_source. Qed.
Print Assumptions C06_write_of_source.

(* non-vacuity, evaluated in the kernel: the translated read on the device of C06_example (two chunks, a pending
   acknowledge of 1 ms that is slept, request id wrapping from 65535, buffer grown to 24 bytes), a write, verify_range at
   the end of the address space, open on the device of C06_open_example *)
Theorem C06_source_examples :
  (let r := src_read 4098 (repeat 0 7) ((ex_ctl, ex_world), g0) in
   fst r = Ok [3; 4; 5; 6; 7; 8; 9] /\ (fst r, fst (snd r)) = Control.ctl_read 4098 7 (ex_ctl, ex_world) /\
   Control.c_next (fst (fst (snd r))) = 1 /\ g_slept (snd (snd r)) = [1] /\ zlen (g_buf (snd (snd r))) = 24) /\
  (let r := src_write 4100 [171; 205; 239] ((ex_ctl, ex_world), g0) in
   fst r = Ok tt /\ (fst r, fst (snd r)) = Control.ctl_write 4100 [171; 205; 239] (ex_ctl, ex_world) /\
   Control.w_writes (snd (fst (snd r))) = [(4100, [171; 205; 239])]) /\
  (fst (src_verify_range (2 ^ 64 - 4) 4 ((ex_ctl, ex_world), g0)) = Ok tt /\
   fst (src_verify_range (2 ^ 64 - 4) 5 ((ex_ctl, ex_world), g0)) = Err CE_INVALID_DATA) /\
  (let r := src_open ((ctl_init, ex_open_world), g0) in
   fst r = Ok tt /\ (fst r, fst (snd r)) = Control.ctl_open (ctl_init, ex_open_world) /\
   Control.c_max_cmd (fst (fst (snd r))) = 1024 /\ Control.c_max_ack (fst (fst (snd r))) = 512).
Proof. exact source_examples_c06. Qed.
Print Assumptions C06_source_examples.
