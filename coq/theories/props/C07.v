(* C07 — Faulty or hostile device responses yield errors, never panics or made-up data.
   Statements only; proofs in proofs/P_C07.v.  The device is ARBITRARY here: every theorem
   quantifies over all worlds [w] (any plan list: raw byte strings of any content and length,
   edited acknowledges, any number of pending acknowledges, libusb error codes on send / receive,
   any memory) and all handle states [c].  Model: model/Control.v. *)
From Cam Require Import Outcome Bytes Chunks Cmd Ack CmdLayout GenCPLayout Control P_C09 P_C08 P_C06 P_C07 ManifestSpec P_C14b P_C07b P_C07c.

(* decoding is total on arbitrary input *)
Theorem C07_decode_total : forall bs, parse_ack bs <> Panic.
Proof. exact parse_ack_total. Qed.
Print Assumptions C07_decode_total.

(* one transaction: never panics; Ok comes from a received byte string that parses to a successful
   acknowledge carrying the current request id and the kind matching the command; after an error
   the handle is unchanged (same request id, limits, cached maps, still open) *)
Theorem C07_transaction : forall cm c w,
  exists x c' w', send_cmd cm (c, w) = (x, (c', w')) /\ x <> Panic /\
    match x with
    | Ok a => a_status a = 0 /\ a_request_id a = c_next c /\ a_kind a = expected_ack_kind cm /\
              (exists n bytes, w_log w' = WRecv n :: tl (w_log w') /\ parse_ack bytes = Ok a /\ zlen bytes = n) /\
              ctl_step c c'
    | _ => ctl_kept c c'
    end.
Proof. exact send_cmd_spec. Qed.
Print Assumptions C07_transaction.

(* pending acknowledges are retried at most the configured number of times: the receive loop
   performs at most [retry] receives, whatever the device sends *)
Theorem C07_retry_bounded : forall fuel retry ek c w,
  exists x c' w', recv_loop fuel retry ek (c, w) = (x, (c', w')) /\ x <> Panic /\
    (exists evs, w_log w' = evs ++ w_log w /\ Forall recv_event evs /\ zlen evs <= Z.max 0 retry) /\
    w_segs w' = w_segs w /\ w_writes w' = w_writes w /\
    match x with
    | Ok a => a_status a = 0 /\ a_request_id a = c_next c /\ a_kind a = ek /\ a_kind a <> 4 /\
              (exists n bytes, w_log w' = WRecv n :: tl (w_log w') /\ parse_ack bytes = Ok a /\ zlen bytes = n) /\
              ctl_step c c'
    | _ => ctl_kept c c'
    end.
Proof. exact recv_loop_spec. Qed.
Print Assumptions C07_retry_bounded.

(* read: never panics for any device and any limits (degenerate ones included); Ok data has
   exactly the requested size *)
Theorem C07_read_total : forall c w a n, c_max_ack c - 12 < 2 ^ 64 ->
  exists x s', ctl_read a n (c, w) = (x, s') /\ x <> Panic /\ (forall d, x = Ok d -> 0 <= n -> zlen d = n).
Proof. exact ctl_read_total. Qed.
Print Assumptions C07_read_total.

(* write: never panics for any device, any data and any limits *)
Theorem C07_write_total : forall c w a data, 0 <= a ->
  exists x s', ctl_write a data (c, w) = (x, s') /\ x <> Panic.
Proof. exact ctl_write_total. Qed.
Print Assumptions C07_write_total.

(* recovery: whatever the device did during a read or a write (ANY world w, any outcome x), the handle keeps
   its configuration, and once the device behaves again (conforming plans from there on, well-formed memory)
   the next read of mapped memory returns exactly that memory *)
Theorem C07_handle_intact_after_read : forall a n c w x c' w', 0 <= c_next c < 2 ^ 16 ->
  ctl_read a n (c, w) = (x, (c', w')) -> ctl_cfg c c'.
Proof. exact ctl_read_cfg. Qed.
Print Assumptions C07_handle_intact_after_read.

Theorem C07_handle_intact_after_write : forall a data c w x c' w', 0 <= c_next c < 2 ^ 16 ->
  ctl_write a data (c, w) = (x, (c', w')) -> ctl_cfg c c'.
Proof. exact ctl_write_cfg. Qed.
Print Assumptions C07_handle_intact_after_write.

Theorem C07_recovers_after_read : forall a n c w x c' w' a2 n2 d,
  c_opened c = true -> 12 < c_max_ack c < 2 ^ 32 -> 24 <= c_max_cmd c -> 1 <= c_retry c -> 0 <= c_next c < 2 ^ 16 ->
  c_abrm c <> None ->
  ctl_read a n (c, w) = (x, (c', w')) ->
  conf (c_retry c) w' -> segs_sep (w_segs w') -> mem_read (w_segs w') a2 n2 = Some d ->
  exists s'', ctl_read a2 n2 (c', w') = (Ok d, s'').
Proof. exact recovers_after_read. Qed.
Print Assumptions C07_recovers_after_read.

Theorem C07_recovers_after_write : forall a data c w x c' w' a2 n2 d,
  c_opened c = true -> 12 < c_max_ack c < 2 ^ 32 -> 24 <= c_max_cmd c -> 1 <= c_retry c -> 0 <= c_next c < 2 ^ 16 ->
  c_abrm c <> None ->
  ctl_write a data (c, w) = (x, (c', w')) ->
  conf (c_retry c) w' -> segs_sep (w_segs w') -> mem_read (w_segs w') a2 n2 = Some d ->
  exists s'', ctl_read a2 n2 (c', w') = (Ok d, s'').
Proof. exact recovers_after_write. Qed.
Print Assumptions C07_recovers_after_write.

(* an acknowledge of another kind is refused (the pinned code accepted it) *)
Theorem C07_kind_checked : forall a c w w1 bytes ek,
  on_recv w (c_buflen c) = (Ok bytes, w1) -> parse_ack bytes = Ok a -> a_status a = 0 ->
  a_request_id a = c_next c -> a_kind a <> 4 -> a_kind a <> ek ->
  fst (recv_loop 1 1 ek (c, w)) = Err CE_IO.
Proof. exact kind_checked. Qed.
Print Assumptions C07_kind_checked.

(* pinned code: a payload shorter than requested reached copy_from_slice and panicked *)
Theorem C07_short_payload_v0_refuted : exists n data, read_step_v0 n data = Panic.
Proof. exact short_payload_v0_refuted. Qed.
Print Assumptions C07_short_payload_v0_refuted.

(* ---- every operation, every sequence, a hostile device (proofs/P_C07c.v) ------------------------------

   The ONLY assumption on the device is [wbytes w]: what it holds and sends consists of bytes (its memory
   segments, the current acknowledge, raw replies, the bytes that edits put into an acknowledge); the plans
   are arbitrary.  [hinv c]: limits below 2^32, request id below 2^16, cached register values below 2^64.
   [sound true m Q]: from any state with hinv and wbytes, m does not panic, ends in such a state again, and
   an Ok value satisfies Q. *)

(* the device side keeps the world made of bytes; the handle sends bytes and decodes sub-slices *)
Theorem C07_device_side_bytes :
  (forall w cmd, wbytes w -> bytes_ok cmd ->
     bytes_ok (fst (conform w cmd)) /\ wbytes (snd (conform w cmd))) /\
  (forall w cmd, wbytes w -> bytes_ok cmd -> wbytes (snd (on_send w cmd))) /\
  (forall w n, wbytes w ->
     wbytes (snd (on_recv w n)) /\ (forall bs, fst (on_recv w n) = Ok bs -> bytes_ok bs)) /\
  (forall cm id, cmd_bytes cm -> bytes_ok (serialize_vec cm id)) /\
  (forall a d cm, bytes_ok d -> mk_write a d = Ok cm -> cmd_bytes cm) /\
  (forall bs a, bytes_ok bs -> parse_ack bs = Ok a -> bytes_ok (a_raw_scd a)) /\
  (forall a d, bytes_ok (a_raw_scd a) -> view_data a = Ok d -> bytes_ok d).
Proof. exact device_side_bytes. Qed.
Print Assumptions C07_device_side_bytes.

(* C07_read_total without its side condition: the handle invariant supplies it *)
Theorem C07_read_total_inv : forall c w a n, hinv c ->
  exists x s', ctl_read a n (c, w) = (x, s') /\ x <> Panic /\ (forall d, x = Ok d -> 0 <= n -> zlen d = n).
Proof. exact ctl_read_total_inv. Qed.
Print Assumptions C07_read_total_inv.

(* every operation of the model, with what its Ok result is known to be: read data are bytes of the
   requested length, a 4 / 8 byte register is below 2^32 / 2^64 (so the limits adopted in open are) *)
Theorem C07_every_operation_sound :
  sound true ctl_open (fun _ => True) /\
  sound true ctl_close (fun _ => True) /\
  (forall a n, sound true (ctl_read a n) (fun d => bytes_ok d /\ (0 <= n -> zlen d = n))) /\
  (forall a data, bytes_ok data -> sound true (ctl_write a data) (fun _ => True)) /\
  (forall a, sound true (read_reg a 4) is_u32) /\
  (forall a, sound true (read_reg a 8) is_u64) /\
  sound true h_abrm is_u64 /\
  sound true h_sbrm (fun s => is_u64 (fst s) /\ is_u64 (snd s)) /\
  sound true h_sirm is_u64 /\
  sound true ctl_enable_streaming (fun _ => True) /\
  sound true ctl_disable_streaming (fun _ => True) /\
  sound true stream_params (fun l => Forall is_u32 l).
Proof. exact every_operation_sound. Qed.
Print Assumptions C07_every_operation_sound.

(* (a) no operation panics ... *)
Theorem C07_every_operation_total : forall o c w, op_ok o -> hinv c -> wbytes w ->
  fst (run_op o (c, w)) <> KPanic.
Proof. exact op_no_panic. Qed.
Print Assumptions C07_every_operation_total.

(* ... (b) and it ends in a state satisfying the invariant and byte-well-formedness again *)
Theorem C07_invariant_kept : forall o c w, op_ok o -> hinv c -> wbytes w ->
  hinv (fst (snd (run_op o (c, w)))) /\ wbytes (snd (snd (run_op o (c, w)))).
Proof. exact op_invariant_kept. Qed.
Print Assumptions C07_invariant_kept.

(* any sequence of operations on a fresh handle: no operation panics, the invariant holds at the end *)
Theorem C07_sequences_total : forall os w, wbytes w -> Forall op_ok os ->
  Forall (fun k => k <> KPanic) (fst (run_ops os (ctl_init, w))) /\
  hinv (fst (snd (run_ops os (ctl_init, w)))) /\ wbytes (snd (snd (run_ops os (ctl_init, w)))).
Proof. exact sequences_total. Qed.
Print Assumptions C07_sequences_total.

(* ... and after each operation of the sequence (run_ops of a prefix is the state reached by the long run) *)
Theorem C07_sequences_invariant_after_each : forall os k w, wbytes w -> Forall op_ok os ->
  hinv (fst (snd (run_ops (firstn k os) (ctl_init, w)))) /\
  wbytes (snd (snd (run_ops (firstn k os) (ctl_init, w)))).
Proof. exact sequences_invariant_after_each. Qed.
Print Assumptions C07_sequences_invariant_after_each.

Theorem C07_run_ops_app : forall os1 os2 s,
  run_ops (os1 ++ os2) s =
  (fst (run_ops os1 s) ++ fst (run_ops os2 (snd (run_ops os1 s))), snd (run_ops os2 (snd (run_ops os1 s)))).
Proof. exact run_ops_app. Qed.
Print Assumptions C07_run_ops_app.

(* non-vacuity: a device whose SBRM holds limits of 0xFFFFFFFF and that answers with raw garbage, libusb
   errors on send and on receive, pending acknowledges for ever, a truncated header, a wrong request id and
   an overstated payload length: it satisfies the hypotheses, the handle adopts its limits, every attack
   ends in an error of the expected class, and the handle keeps working in between *)
Theorem C07_hostile_example :
  wbytes hostile /\ Forall op_ok hostile_ops /\
  fst (run_ops hostile_ops (ctl_init, hostile)) =
    [KErr CE_NOT_OPENED; KOk; KErr CE_IO; KErr CE_DISCONNECTED; KErr CE_TIMEOUT; KErr CE_IO; KErr CE_IO;
     KErr CE_IO; KErr CE_IO; KOk; KErr CE_IO; KOk; KErr CE_NOT_OPENED] /\
  c_max_ack (fst (snd (run_ops hostile_ops (ctl_init, hostile)))) = 4294967295 /\
  c_max_cmd (fst (snd (run_ops hostile_ops (ctl_init, hostile)))) = 4294967295.
Proof. exact hostile_example. Qed.
Print Assumptions C07_hostile_example.

Theorem C07_hostile_zero_limits :
  wbytes hostile0 /\
  fst (run_ops [OOpen; ORead 0 4; OWrite 0 [1]; OSirm; OClose] (ctl_init, hostile0)) =
    [KOk; KErr CE_IO; KErr CE_IO; KErr CE_IO; KOk].
Proof. exact hostile0_example. Qed.
Print Assumptions C07_hostile_zero_limits.

(* the hypothesis is needed in the model (whose byte strings are lists of integers): a "device" holding an
   integer that is not a byte makes the limit register read as 2^72 and the next read panics.  The
   transport delivers u8, so no such device exists. *)
Theorem C07_bytes_hypothesis_needed :
  ~ wbytes not_bytes /\ fst (run_ops [OOpen; ORead 0 4] (ctl_init, not_bytes)) = [KOk; KPanic].
Proof. exact wbytes_needed. Qed.
Print Assumptions C07_bytes_hypothesis_needed.
