(* C07 — Faulty or hostile device responses yield errors, never panics or made-up data.
   Statements only; proofs in proofs/P_C07.v.  The device is ARBITRARY here: every theorem
   quantifies over all worlds [w] (any plan list: raw byte strings of any content and length,
   edited acknowledges, any number of pending acknowledges, libusb error codes on send / receive,
   any memory) and all handle states [c].  Model: model/Control.v. *)
From Cam Require Import Outcome Bytes Chunks Cmd Ack CmdLayout GenCPLayout Control P_C09 P_C08 P_C06 P_C07 ManifestSpec P_C14b P_C07b P_C07c.

(* decoding is total on arbitrary input *)
Theorem C07_decode_total : forall bs, parse_ack bs <> Panic.
Proof. exact parse_ack_total. Qed.
Print Assumptions C07_decode_total.

(* one transaction: never panics; Ok comes from a received byte string that parses to a successful
   acknowledge carrying the current request id and the kind matching the command; after an error
   the handle is unchanged (same request id, limits, cached maps, still open) *)
Theorem C07_transaction : forall cm c w,
  exists x c' w', send_cmd cm (c, w) = (x, (c', w')) /\ x <> Panic /\
    match x with
    | Ok a => a_status a = 0 /\ a_request_id a = c_next c /\ a_kind a = expected_ack_kind cm /\
              (exists n bytes, w_log w' = WRecv n :: tl (w_log w') /\ parse_ack bytes = Ok a /\ zlen bytes = n) /\
              ctl_step c c'
    | _ => ctl_kept c c'
    end.
Proof. exact send_cmd_spec. Qed.
Print Assumptions C07_transaction.

(* pending acknowledges are retried at most the configured number of times: the receive loop
   performs at most [retry] receives, whatever the device sends *)
Theorem C07_retry_bounded : forall fuel retry ek c w,
  exists x c' w', recv_loop fuel retry ek (c, w) = (x, (c', w')) /\ x <> Panic /\
    (exists evs, w_log w' = evs ++ w_log w /\ Forall recv_event evs /\ zlen evs <= Z.max 0 retry) /\
    w_segs w' = w_segs w /\ w_writes w' = w_writes w /\
    match x with
    | Ok a => a_status a = 0 /\ a_request_id a = c_next c /\ a_kind a = ek /\ a_kind a <> 4 /\
              (exists n bytes, w_log w' = WRecv n :: tl (w_log w') /\ parse_ack bytes = Ok a /\ zlen bytes = n) /\
              ctl_step c c'
    | _ => ctl_kept c c'
    end.
Proof. exact recv_loop_spec. Qed.
Print Assumptions C07_retry_bounded.

(* read: never panics for any device and any limits (degenerate ones included); Ok data has
   exactly the requested size *)
Theorem C07_read_total : forall c w a n, c_max_ack c - 12 < 2 ^ 64 ->
  exists x s', ctl_read a n (c, w) = (x, s') /\ x <> Panic /\ (forall d, x = Ok d -> 0 <= n -> zlen d = n).
Proof. exact ctl_read_total. Qed.
Print Assumptions C07_read_total.

(* write: never panics for any device, any data and any limits *)
Theorem C07_write_total : forall c w a data, 0 <= a ->
  exists x s', ctl_write a data (c, w) = (x, s') /\ x <> Panic.
Proof. exact ctl_write_total. Qed.
Print Assumptions C07_write_total.

(* recovery: whatever the device did during a read or a write (ANY world w, any outcome x), the handle keeps
   its configuration, and once the device behaves again (conforming plans from there on, well-formed memory)
   the next read of mapped memory returns exactly that memory *)
Theorem C07_handle_intact_after_read : forall a n c w x c' w', 0 <= c_next c < 2 ^ 16 ->
  ctl_read a n (c, w) = (x, (c', w')) -> ctl_cfg c c'.
Proof. exact ctl_read_cfg. Qed.
Print Assumptions C07_handle_intact_after_read.

Theorem C07_handle_intact_after_write : forall a data c w x c' w', 0 <= c_next c < 2 ^ 16 ->
  ctl_write a data (c, w) = (x, (c', w')) -> ctl_cfg c c'.
Proof. exact ctl_write_cfg. Qed.
Print Assumptions C07_handle_intact_after_write.

Theorem C07_recovers_after_read : forall a n c w x c' w' a2 n2 d,
  c_opened c = true -> 12 < c_max_ack c < 2 ^ 32 -> 24 <= c_max_cmd c -> 1 <= c_retry c -> 0 <= c_next c < 2 ^ 16 ->
  c_abrm c <> None ->
  ctl_read a n (c, w) = (x, (c', w')) ->
  conf (c_retry c) w' -> segs_sep (w_segs w') -> mem_read (w_segs w') a2 n2 = Some d ->
  exists s'', ctl_read a2 n2 (c', w') = (Ok d, s'').
Proof. exact recovers_after_read. Qed.
Print Assumptions C07_recovers_after_read.

Theorem C07_recovers_after_write : forall a data c w x c' w' a2 n2 d,
  c_opened c = true -> 12 < c_max_ack c < 2 ^ 32 -> 24 <= c_max_cmd c -> 1 <= c_retry c -> 0 <= c_next c < 2 ^ 16 ->
  c_abrm c <> None ->
  ctl_write a data (c, w) = (x, (c', w')) ->
  conf (c_retry c) w' -> segs_sep (w_segs w') -> mem_read (w_segs w') a2 n2 = Some d ->
  exists s'', ctl_read a2 n2 (c', w') = (Ok d, s'').
Proof. exact recovers_after_write. Qed.
Print Assumptions C07_recovers_after_write.

(* an acknowledge of another kind is refused (the pinned code accepted it) *)
Theorem C07_kind_checked : forall a c w w1 bytes ek,
  on_recv w (c_buflen c) = (Ok bytes, w1) -> parse_ack bytes = Ok a -> a_status a = 0 ->
  a_request_id a = c_next c -> a_kind a <> 4 -> a_kind a <> ek ->
  fst (recv_loop 1 1 ek (c, w)) = Err CE_IO.
Proof. exact kind_checked. Qed.
Print Assumptions C07_kind_checked.

(* pinned code: a payload shorter than requested reached copy_from_slice and panicked *)
Theorem C07_short_payload_v0_refuted : exists n data, read_step_v0 n data = Panic.
Proof. exact short_payload_v0_refuted. Qed.
Print Assumptions C07_short_payload_v0_refuted.

(* ---- every operation, every sequence, a hostile device (proofs/P_C07c.v) ------------------------------

   The ONLY assumption on the device is [wbytes w]: what it holds and sends consists of bytes (its memory
   segments, the current acknowledge, raw replies, the bytes that edits put into an acknowledge); the plans
   are arbitrary.  [hinv c]: limits below 2^32, request id below 2^16, cached register values below 2^64.
   [sound true m Q]: from any state with hinv and wbytes, m does not panic, ends in such a state again, and
   an Ok value satisfies Q. *)

(* the device side keeps the world made of bytes; the handle sends bytes and decodes sub-slices *)
Theorem C07_device_side_bytes :
  (forall w cmd, wbytes w -> bytes_ok cmd ->
     bytes_ok (fst (conform w cmd)) /\ wbytes (snd (conform w cmd))) /\
  (forall w cmd, wbytes w -> bytes_ok cmd -> wbytes (snd (on_send w cmd))) /\
  (forall w n, wbytes w ->
     wbytes (snd (on_recv w n)) /\ (forall bs, fst (on_recv w n) = Ok bs -> bytes_ok bs)) /\
  (forall cm id, cmd_bytes cm -> bytes_ok (serialize_vec cm id)) /\
  (forall a d cm, bytes_ok d -> mk_write a d = Ok cm -> cmd_bytes cm) /\
  (forall bs a, bytes_ok bs -> parse_ack bs = Ok a -> bytes_ok (a_raw_scd a)) /\
  (forall a d, bytes_ok (a_raw_scd a) -> view_data a = Ok d -> bytes_ok d).
Proof. exact device_side_bytes. Qed.
Print Assumptions C07_device_side_bytes.

(* C07_read_total without its side condition: the handle invariant supplies it *)
Theorem C07_read_total_inv : forall c w a n, hinv c ->
  exists x s', ctl_read a n (c, w) = (x, s') /\ x <> Panic /\ (forall d, x = Ok d -> 0 <= n -> zlen d = n).
Proof. exact ctl_read_total_inv. Qed.
Print Assumptions C07_read_total_inv.

(* every operation of the model, with what its Ok result is known to be: read data are bytes of the
   requested length, a 4 / 8 byte register is below 2^32 / 2^64 (so the limits adopted in open are) *)
Theorem C07_every_operation_sound :
  sound true ctl_open (fun _ => True) /\
  sound true ctl_close (fun _ => True) /\
  (forall a n, sound true (ctl_read a n) (fun d => bytes_ok d /\ (0 <= n -> zlen d = n))) /\
  (forall a data, bytes_ok data -> sound true (ctl_write a data) (fun _ => True)) /\
  (forall a, sound true (read_reg a 4) is_u32) /\
  (forall a, sound true (read_reg a 8) is_u64) /\
  sound true h_abrm is_u64 /\
  sound true h_sbrm (fun s => is_u64 (fst s) /\ is_u64 (snd s)) /\
  sound true h_sirm is_u64 /\
  sound true ctl_enable_streaming (fun _ => True) /\
  sound true ctl_disable_streaming (fun _ => True) /\
  sound true stream_params (fun l => Forall is_u32 l).
Proof. exact every_operation_sound. Qed.
Print Assumptions C07_every_operation_sound.

(* (a) no operation panics ... *)
Theorem C07_every_operation_total : forall o c w, op_ok o -> hinv c -> wbytes w ->
  fst (run_op o (c, w)) <> KPanic.
Proof. exact op_no_panic. Qed.
Print Assumptions C07_every_operation_total.

(* ... (b) and it ends in a state satisfying the invariant and byte-well-formedness again *)
Theorem C07_invariant_kept : forall o c w, op_ok o -> hinv c -> wbytes w ->
  hinv (fst (snd (run_op o (c, w)))) /\ wbytes (snd (snd (run_op o (c, w)))).
Proof. exact op_invariant_kept. Qed.
Print Assumptions C07_invariant_kept.

(* any sequence of operations on a fresh handle: no operation panics, the invariant holds at the end *)
Theorem C07_sequences_total : forall os w, wbytes w -> Forall op_ok os ->
  Forall (fun k => k <> KPanic) (fst (run_ops os (ctl_init, w))) /\
  hinv (fst (snd (run_ops os (ctl_init, w)))) /\ wbytes (snd (snd (run_ops os (ctl_init, w)))).
Proof. exact sequences_total. Qed.
Print Assumptions C07_sequences_total.

(* ... and after each operation of the sequence (run_ops of a prefix is the state reached by the long run) *)
Theorem C07_sequences_invariant_after_each : forall os k w, wbytes w -> Forall op_ok os ->
  hinv (fst (snd (run_ops (firstn k os) (ctl_init, w)))) /\
  wbytes (snd (snd (run_ops (firstn k os) (ctl_init, w)))).
Proof. exact sequences_invariant_after_each. Qed.
Print Assumptions C07_sequences_invariant_after_each.

Theorem C07_run_ops_app : forall os1 os2 s,
  run_ops (os1 ++ os2) s =
  (fst (run_ops os1 s) ++ fst (run_ops os2 (snd (run_ops os1 s))), snd (run_ops os2 (snd (run_ops os1 s)))).
Proof. exact run_ops_app. Qed.
Print Assumptions C07_run_ops_app.

(* non-vacuity: a device whose SBRM holds limits of 0xFFFFFFFF and that answers with raw garbage, libusb
   errors on send and on receive, pending acknowledges for ever, a truncated header, a wrong request id and
   an overstated payload length: it satisfies the hypotheses, the handle adopts its limits, every attack
   ends in an error of the expected class, and the handle keeps working in between *)
Theorem C07_hostile_example :
  wbytes hostile /\ Forall op_ok hostile_ops /\
  fst (run_ops hostile_ops (ctl_init, hostile)) =
    [KErr CE_NOT_OPENED; KOk; KErr CE_IO; KErr CE_DISCONNECTED; KErr CE_TIMEOUT; KErr CE_IO; KErr CE_IO;
     KErr CE_IO; KErr CE_IO; KOk; KErr CE_IO; KOk; KErr CE_NOT_OPENED] /\
  c_max_ack (fst (snd (run_ops hostile_ops (ctl_init, hostile)))) = 4294967295 /\
  c_max_cmd (fst (snd (run_ops hostile_ops (ctl_init, hostile)))) = 4294967295.
Proof. exact hostile_example. Qed.
Print Assumptions C07_hostile_example.

Theorem C07_hostile_zero_limits :
  wbytes hostile0 /\
  fst (run_ops [OOpen; ORead 0 4; OWrite 0 [1]; OSirm; OClose] (ctl_init, hostile0)) =
    [KOk; KErr CE_IO; KErr CE_IO; KErr CE_IO; KOk].
Proof. exact hostile0_example. Qed.
Print Assumptions C07_hostile_zero_limits.

(* the hypothesis is needed in the model (whose byte strings are lists of integers): a "device" holding an
   integer that is not a byte makes the limit register read as 2^72 and the next read panics.  The
   transport delivers u8, so no such device exists. *)
Theorem C07_bytes_hypothesis_needed :
  ~ wbytes not_bytes /\ fst (run_ops [OOpen; ORead 0 4] (ctl_init, not_bytes)) = [KOk; KPanic].
Proof. exact wbytes_needed. Qed.
Print Assumptions C07_bytes_hypothesis_needed.

(* ================================================================================================================
   USB layer: device enumeration and descriptor parsing of device/src/u3v/device_builder.rs (+ device_info.rs),
   for ALL device lists, descriptor trees, raw "extra" byte strings, string tables and libusb results.
   Model: model/UsbEnum.v (code after fix b32619b; [..._v0]: the pinned code); specification of the descriptor
   layouts, the search order and the accept decision: spec/UsbDescLayout.v; proofs: proofs/P_C07u.v.
   ================================================================================================================ *)
From Cam Require Import UsbEnum UsbDescLayout P_C07u.

(* Iad::from_bytes is total: no byte string makes it panic or index out of bounds *)
Theorem C07_usb_iad_total : forall bs, iad_from_bytes bs <> Panic.
Proof. exact iad_from_bytes_total. Qed.
Print Assumptions C07_usb_iad_total.

(* b32619b: the pinned code indexed bytes[read + 1] and bytes[read + 2 ..= read + 7] unchecked: extra bytes that end
   inside a descriptor header ([05]), inside an IAD ([05 0B]) or inside an IAD after a well-formed descriptor panicked *)
Theorem C07_usb_iad_v0_refuted :
  iad_from_bytes_v0 [5] = Panic /\ iad_from_bytes_v0 [5; 11] = Panic /\
  iad_from_bytes_v0 [3; 48; 0; 8; 11; 0; 2; 239; 5; 0] = Panic /\
  iad_from_bytes [5] = Ok None /\ iad_from_bytes [5; 11] = Ok None /\
  iad_from_bytes [3; 48; 0; 8; 11; 0; 2; 239; 5; 0] = Ok None.
Proof. exact iad_v0_refuted. Qed.
Print Assumptions C07_usb_iad_v0_refuted.

(* ... and one such device made enumerate_devices panic, hiding the healthy cameras next to it; the repaired code
   returns exactly the two healthy ones *)
Theorem C07_usb_enumerate_v0_refuted :
  fst (enumerate_devices_v0 3 [ex_good; ex_cut; ex_good]) = Panic /\
  run_enum_v0 3 [ex_good; ex_cut; ex_good] = [2] /\
  map fst (accepted_from 0 [ex_good; ex_cut; ex_good]) = [0; 2] /\
  exists l, fst (enumerate_devices 3 [ex_good; ex_cut; ex_good]) = Ok l /\ map fst l = [0; 2].
Proof. exact enumerate_v0_refuted. Qed.
Print Assumptions C07_usb_enumerate_v0_refuted.

(* what Iad::from_bytes returns is a descriptor of type 0x0B lying completely inside the bytes, decoded at the
   offsets of USB 3.x 9.6.4 (bLength, bDescriptorType, bFirstInterface, bInterfaceCount, bFunctionClass,
   bFunctionSubClass, bFunctionProtocol, iFunction) *)
Theorem C07_usb_iad_at_offsets : forall bs i, iad_from_bytes bs = Ok (Some i) ->
  exists p, (p + 8 <= length bs)%nat /\ i = spec_iad_at bs p /\ i_type i = 0x0B.
Proof. exact iad_found_at_offsets. Qed.
Print Assumptions C07_usb_iad_at_offsets.

(* round trip over well-formed chains: after any descriptors that are not IADs, the first IAD is found and decoded
   to exactly its fields -- with anything after it, or at the very end of the extra bytes (rest = []) *)
Theorem C07_usb_iad_roundtrip : forall pre d rest, Forall not_iad_desc pre ->
  iad_from_bytes (enc_chain pre ++ encode_iad d ++ rest) = Ok (Some (iad_of_siad d)).
Proof. exact iad_roundtrip. Qed.
Print Assumptions C07_usb_iad_roundtrip.

Theorem C07_usb_iad_none_without_iad : forall pre, Forall not_iad_desc pre ->
  iad_from_bytes (enc_chain pre) = Ok None.
Proof. exact iad_none_without_iad. Qed.
Print Assumptions C07_usb_iad_none_without_iad.

(* the search order inside a configuration: the configuration's extra bytes, then per interface and alternate
   setting the interface's extra bytes followed by those of its endpoints; the result is the first of these byte
   strings whose first IAD is a USB3 Vision function *)
Theorem C07_usb_search_order : forall c,
  find_in_config iad_from_bytes c = first_u3v iad_from_bytes (extras_in_order c) /\
  find_in_config iad_from_bytes c = Ok (spec_find_config c).
Proof. exact search_order_both. Qed.
Print Assumptions C07_usb_search_order.

(* the FIRST U3V IAD in that order is found: when every earlier extra is a well-formed chain without an IAD and
   this one is a well-formed chain, then the IAD of a U3V function (class EF/05/00), then anything *)
Theorem C07_usb_search_finds_first : forall c before x after pre d rest,
  extras_in_order c = before ++ x :: after ->
  Forall (fun y => exists p, Forall not_iad_desc p /\ y = enc_chain p) before ->
  x = enc_chain pre ++ encode_iad d ++ rest -> Forall not_iad_desc pre ->
  bFunctionClass d = 0xEF -> bFunctionSubClass d = 0x05 -> bFunctionProtocol d = 0x00 ->
  find_in_config iad_from_bytes c = Ok (Some (iad_of_siad d)).
Proof. exact search_finds_first. Qed.
Print Assumptions C07_usb_search_finds_first.

(* DeviceInfoDescriptor::from_bytes, for ALL byte strings: InvalidDevice unless there are 20 bytes, bLength >= 20,
   type 0x24, subtype 0x01; then exactly the fields at the offsets of the USB3 Vision device info descriptor
   (GenCP version: minor at 3, major at 5; U3V version: minor at 7, major at 9; string indices at 11..18; speed
   mask at 19), whatever follows.  Never a panic, never a buffer error. *)
Theorem C07_usb_info_spec : forall bs,
  info_from_bytes bs = if spec_info_valid bs then Ok (spec_info bs) else Err UE_INVALID_DEVICE.
Proof. exact info_from_bytes_spec. Qed.
Print Assumptions C07_usb_info_spec.

(* decode (encode d) = d for every device info record (32-bit version fields), with any trailing bytes *)
Theorem C07_usb_info_roundtrip : forall d tail, sinfo_ok d ->
  info_from_bytes (encode_info d ++ tail) = Ok (idesc_of_sinfo d).
Proof. exact info_roundtrip. Qed.
Print Assumptions C07_usb_info_roundtrip.

(* speed = the highest set bit of bmSpeedSupport among bits 0..4 (4 SuperSpeedPlus .. 0 LowSpeed); no such bit:
   InvalidDevice; bits 5..7 are ignored *)
Theorem C07_usb_speed : forall m,
  speed_of m = match spec_speed m with Some k => Ok k | None => Err UE_INVALID_DEVICE end.
Proof. exact speed_of_spec. Qed.
Print Assumptions C07_usb_speed.

Theorem C07_usb_speed_highest_bit : forall m k, speed_of m = Ok k ->
  0 <= k <= 4 /\ Z.testbit m k = true /\ forall j, k < j <= 4 -> Z.testbit m j = false.
Proof. exact speed_highest_bit. Qed.
Print Assumptions C07_usb_speed_highest_bit.

(* DeviceInfoDescriptor::interpret: Ok exactly when every mandatory string and every optional string with a non-zero
   index can be read and a speed bit is set; the DeviceInfo then holds the table's strings at the descriptor's indices *)
Theorem C07_usb_interpret : forall di d x,
  match spec_dinfo d x with
  | Some info => fst (interpret di d x) = Ok info
  | None => exists e, fst (interpret di d x) = Err e
  end.
Proof. exact interpret_spec. Qed.
Print Assumptions C07_usb_interpret.

(* ... optional strings are absent iff their index is 0 *)
Theorem C07_usb_info_fields : forall d x info, spec_dinfo d x = Some info ->
  di_gencp info = (id_gencp_major x, id_gencp_minor x) /\ di_u3v info = (id_u3v_major x, id_u3v_minor x) /\
  spec_string d (id_guid x) = Some (di_guid info) /\ spec_string d (id_vendor x) = Some (di_vendor info) /\
  spec_string d (id_model x) = Some (di_model info) /\ spec_string d (id_version x) = Some (di_version info) /\
  spec_string d (id_manufacturer x) = Some (di_manufacturer info) /\ spec_string d (id_serial x) = Some (di_serial info) /\
  (di_family info = None <-> id_family x = 0) /\ (di_user info = None <-> id_user x = 0) /\
  (forall s, di_family info = Some s -> spec_string d (id_family x) = Some s) /\
  (forall s, di_user info = Some s -> spec_string d (id_user x) = Some s) /\
  spec_speed (id_speed x) = Some (di_speed info).
Proof. exact spec_dinfo_fields. Qed.
Print Assumptions C07_usb_info_fields.

(* interface classification as closed forms: the control interface (first alternate setting EF/05/00 with exactly
   one bulk IN and one bulk OUT endpoint, either order), a receive interface (first alternate setting numbered 0 is
   EF/05, protocol 1 event / 2 stream, exactly one endpoint, bulk IN; never a panic at the unwrap), and the
   (event, stream) pair: at most one of each, in either order *)
Theorem C07_usb_interfaces : forall i rs,
  match spec_ctrl i with Some c => control_iface_info i = Ok c | None => exists e, control_iface_info i = Err e end /\
  recv_info i = Ok (spec_recv i) /\
  match spec_classify rs with Some p => classify rs = Ok p | None => exists e, classify rs = Err e end.
Proof. exact interfaces_spec. Qed.
Print Assumptions C07_usb_interfaces.

(* THE DECISION: one device of the list is kept exactly when the closed-form predicate accept_spec of its
   descriptor tree and libusb answers says so (descriptor readable, class EF/02/01, a configuration with a U3V IAD
   all earlier ones being readable, open / get_configuration succeed, the configuration is active or can be set,
   the interface numbered bFirstInterface exists and has the control shape, a valid device info descriptor whose
   strings can be read, a speed bit, at most one event and one stream interface after it) -- with exactly the
   record accept_spec computes; never a panic, never an error *)
Theorem C07_usb_device_decision : forall di d, fst (enum_device iad_from_bytes di d) = Ok (accept_spec d).
Proof. exact enum_device_spec. Qed.
Print Assumptions C07_usb_device_decision.

(* enumerate_devices: fails only when libusb_get_device_list fails; otherwise the result is the sub-list of the
   accepted devices, in list order, each with its own record -- one broken or hostile device neither makes the
   enumeration fail nor hides or changes another device *)
Theorem C07_usb_enumerate : forall list_code ds,
  fst (enumerate_devices list_code ds) =
  if list_code <? 0 then Err (usb_kind list_code) else Ok (accepted_from 0 ds).
Proof. exact enumerate_spec. Qed.
Print Assumptions C07_usb_enumerate.

Theorem C07_usb_enumerate_total : forall list_code ds,
  fst (enumerate_devices list_code ds) <> Panic /\ run_enum list_code ds <> [2].
Proof. exact enumerate_total_both. Qed.
Print Assumptions C07_usb_enumerate_total.

(* membership: position k is reported with record r iff the k-th device of the list is accepted with r; positions
   are strictly increasing; the decision distributes over concatenation of lists (independence of the devices) *)
Theorem C07_usb_enumerate_members : forall ds k r,
  In (k, r) (accepted_from 0 ds) <->
  exists j, k = 0 + Z.of_nat j /\ exists d, nth_error ds j = Some d /\ accept_spec d = Some r.
Proof. exact enumerate_members. Qed.
Print Assumptions C07_usb_enumerate_members.

Theorem C07_usb_enumerate_order : forall ds a b,
  Sorted.StronglySorted Z.lt (map fst (accepted_from 0 ds)) /\
  accepted_from 0 (a ++ b) = accepted_from 0 a ++ accepted_from (0 + Z.of_nat (length a)) b.
Proof. exact enumerate_order. Qed.
Print Assumptions C07_usb_enumerate_order.

(* libusb usage: a device that is not a candidate (descriptor unreadable or not class EF/02/01) is asked for its
   device descriptor and nothing else -- never opened, never configured; a device that is built is opened once and
   the handle is closed after everything else on every way out; a failing get_device_list touches no device *)
Theorem C07_usb_calls : forall di d x c list_code ds,
  (candidate d = false -> enum_device iad_from_bytes di d = (Ok None, [1; di])) /\
  snd (build di d x c) = [3; di] ++ (if d_open d =? 0 then snd (build_opened di d x c) ++ [7; di] else []) /\
  (list_code < 0 -> enumerate_devices list_code ds = (Err (usb_kind list_code), [13])).
Proof. exact enumerate_calls. Qed.
Print Assumptions C07_usb_calls.

(* what an accepted device is, read off its tree; its control endpoints have the directions rusb insists on (IN bit
   set / clear), its receive endpoints are IN *)
Theorem C07_usb_accepted_shape : forall d r, accept_spec d = Some r ->
  candidate d = true /\
  exists x c ctrl others,
    spec_pick_config (d_confs d) (Z.to_nat (d_nconf d)) 0 = Some (x, c) /\ is_u3v_iad x = true /\
    d_open d = 0 /\ d_getcfg_code d = 0 /\ (d_getcfg_val d mod 256 = cf_value c \/ d_setcfg d = 0) /\
    skip_to (i_first x) (cf_ifaces c) = ctrl :: others /\
    spec_ctrl ctrl = Some (r_ctrl r) /\
    spec_info_valid (a_extra (if_first ctrl)) = true /\
    spec_dinfo d (spec_info (a_extra (if_first ctrl))) = Some (r_info r) /\
    spec_classify (filter_map spec_recv others) = Some (r_event r, r_stream r).
Proof. exact accepted_shape. Qed.
Print Assumptions C07_usb_accepted_shape.

Theorem C07_usb_accepted_endpoints : forall d r, accept_spec d = Some r ->
  (let '(n, a, b) := r_ctrl r in Z.land a 0x80 <> 0 /\ Z.land b 0x80 = 0) /\
  (forall n a, r_event r = Some (n, a) -> Z.land a 0x80 <> 0) /\
  (forall n a, r_stream r = Some (n, a) -> Z.land a 0x80 <> 0).
Proof. exact accepted_endpoints. Qed.
Print Assumptions C07_usb_accepted_endpoints.

(* non-vacuity: a camera (control + event + stream interface, a SuperSpeed companion descriptor in an endpoint's
   extra bytes, optional family name absent, user name present) is accepted with the expected record; the same
   camera with the IAD cut short, and a hub, are left out *)
Theorem C07_usb_example :
  accept_spec ex_good =
    Some (mkDevres (mkDinfo (1, 2) (1, 0) [71; 85] [86] [77] None [49] [] [83; 78] (Some [117]) 3)
                   (0, 129, 1) (Some (1, 130)) (Some (2, 131))) /\
  accept_spec ex_cut = None /\ accept_spec ex_hub = None.
Proof. exact example_camera. Qed.
Print Assumptions C07_usb_example.

(* ================================================================================================================
   TIE TO THE SOURCE CODE: verify_ack and send_cmd of cameleon/src/u3v/control_handle.rs translated on every run by
   tools/translate_control.py into gen/ControlSrc.v (operations: model/CtlOps.v; proofs: proofs/P_C06s.v;
   [same_as_model]: props/C06.v, C06_same_as_model_def).
   ================================================================================================================ *)
From Cam Require Import RustInt CurOps ReadChunks RegTables CtlOps ControlSrc P_C10s P_C06s.

(* verify_ack: first the status, which must be GenCp(Success), then the request id, which must be the handle's next id;
   either failure is Io; nothing is touched *)
Theorem C07_verify_ack_from_source : forall (a : ack) (s : xst),
  src_verify_ack a s =
  (if negb (a_status a =? 0) then Err CE_IO
   else if negb (a_request_id a =? Control.c_next (fst (fst s))) then Err CE_IO else Ok tt, s).
Proof. exact verify_ack_src. Qed.
Print Assumptions C07_verify_ack_from_source.

(* send_cmd<T, U> - FULL equality, not a partial result: for every command whose cached lengths are the true ones (every
   command the constructors of cmd.rs build: C09) and every view U (ReadMem, WriteMem, Pending: C07_views_of_source_ok),
   the translated code - command length against maximum_cmd_length, buffer grown to max(cmd_len, maximum_ack_len) when
   shorter, serialize into the buffer, send of buffer[..cmd_len], the receive loop (recv into the whole buffer, parse of
   buffer[0..recv_len], verify_ack, a Pending acknowledge parsed, slept and counted down, the kind check, the request id
   advanced exactly once), the final parse + scd_as - is the model's send_cmd followed by the view: same traffic, same
   result or error class, same handle, no panic where the model has none *)
Theorem C07_send_cmd_from_source : forall U (V : ack_view U) cm, view_ok V -> cmd_ok cm ->
  same_as_model (src_send_cmd V cm) (do a <- Control.send_cmd cm; Control.lift (view_parse V a) CE_IO) (fun _ => True).
Proof. exact send_cmd_explicit. Qed.
Print Assumptions C07_send_cmd_from_source.

Theorem C07_views_of_source_ok : view_ok view_ReadMem /\ view_ok view_WriteMem /\ view_ok view_Pending.
Proof. exact views_ok. Qed.
Print Assumptions C07_views_of_source_ok.

(* the retry loop alone, for every fuel above the retry count: the translated `while retry_count > 0` leaves with
   (retry_count, Some recv_len) exactly when the model's recv_loop returns the acknowledge parsed from the first recv_len
   bytes of the buffer, with (_, None) exactly when the retry count is used up (the model's Io), and with the model's
   error / panic otherwise; the fuel the translator passes, S (Z.to_nat retry_count), is never used up *)
Theorem C07_retry_loop_from_source : forall fuel retry ek (s : xst), ginv s -> (Z.to_nat retry < fuel)%nat ->
  loop_spec (src_send_cmd_loop1 fuel ek retry None s) (Control.recv_loop fuel retry ek (fst s)).
Proof. exact recv_loop_src. Qed.
Print Assumptions C07_retry_loop_from_source.

(* the property on the translated code alone: against ANY device that sends bytes (raw garbage, wrong ids, truncated or
   oversized acknowledges, libusb errors, any number of pending acknowledges) the TRANSLATED read and write never panic,
   and a read that succeeds has filled the whole buffer (composition with C07_read_total_inv / C07_every_operation_sound) *)
Theorem C07_total_of_source : forall (c : Control.ctl) (w : Control.world) g a,
  hinv c -> wbytes w -> zlen (g_buf g) = Control.c_buflen c -> 0 <= a < 2 ^ 64 ->
  (forall buf, zlen buf < 2 ^ 64 ->
     fst (src_read a buf ((c, w), g)) <> Panic /\
     (forall d, fst (src_read a buf ((c, w), g)) = Ok d -> zlen d = zlen buf)) /\
  (forall data, zlen data < 2 ^ 64 -> bytes_ok data -> fst (src_write a data ((c, w), g)) <> Panic).
Proof. exact total_of_source. Qed.
Print Assumptions C07_total_of_source.

(* non-vacuity: an acknowledge with the wrong request id gives Io through the translated code, as in the model *)
Theorem C07_source_examples :
  let w := {| Control.w_segs := [(0, repeat 7 16)];
              Control.w_plans := [{| tp_send_err := None; tp_replies := [RConform [ESet16 10 9]] |}];
              Control.w_replies := []; Control.w_cur_ack := []; Control.w_cur_rid := 0; Control.w_log := [];
              Control.w_open_err := None; Control.w_writes := [] |} in
  fst (src_read 0 (repeat 0 4) ((ex_ctl, w), g0)) = Err CE_IO /\
  fst (src_read 0 (repeat 0 4) ((ex_ctl, w), g0)) = fst (Control.ctl_read 0 4 (ex_ctl, w)).
Proof. exact c07s_example_wrong_id. Qed.
Print Assumptions C07_source_examples.
