(* C07 — Faulty or hostile device responses yield errors, never panics or made-up data.
   Statements only; proofs in proofs/P_C07.v.  The device is ARBITRARY here: every theorem
   quantifies over all worlds [w] (any plan list: raw byte strings of any content and length,
   edited acknowledges, any number of pending acknowledges, libusb error codes on send / receive,
   any memory) and all handle states [c].  Model: model/Control.v. *)
From Cam Require Import Outcome Bytes Chunks Cmd Ack CmdLayout GenCPLayout Control P_C09 P_C08 P_C06 P_C07 ManifestSpec P_C14b P_C07b.

(* decoding is total on arbitrary input *)
Theorem C07_decode_total : forall bs, parse_ack bs <> Panic.
Proof. exact parse_ack_total. Qed.
Print Assumptions C07_decode_total.

(* one transaction: never panics; Ok comes from a received byte string that parses to a successful
   acknowledge carrying the current request id and the kind matching the command; after an error
   the handle is unchanged (same request id, limits, cached maps, still open) *)
Theorem C07_transaction : forall cm c w,
  exists x c' w', send_cmd cm (c, w) = (x, (c', w')) /\ x <> Panic /\
    match x with
    | Ok a => a_status a = 0 /\ a_request_id a = c_next c /\ a_kind a = expected_ack_kind cm /\
              (exists n bytes, w_log w' = WRecv n :: tl (w_log w') /\ parse_ack bytes = Ok a /\ zlen bytes = n) /\
              ctl_step c c'
    | _ => ctl_kept c c'
    end.
Proof. exact send_cmd_spec. Qed.
Print Assumptions C07_transaction.

(* pending acknowledges are retried at most the configured number of times: the receive loop
   performs at most [retry] receives, whatever the device sends *)
Theorem C07_retry_bounded : forall fuel retry ek c w,
  exists x c' w', recv_loop fuel retry ek (c, w) = (x, (c', w')) /\ x <> Panic /\
    (exists evs, w_log w' = evs ++ w_log w /\ Forall recv_event evs /\ zlen evs <= Z.max 0 retry) /\
    w_segs w' = w_segs w /\ w_writes w' = w_writes w /\
    match x with
    | Ok a => a_status a = 0 /\ a_request_id a = c_next c /\ a_kind a = ek /\ a_kind a <> 4 /\
              (exists n bytes, w_log w' = WRecv n :: tl (w_log w') /\ parse_ack bytes = Ok a /\ zlen bytes = n) /\
              ctl_step c c'
    | _ => ctl_kept c c'
    end.
Proof. exact recv_loop_spec. Qed.
Print Assumptions C07_retry_bounded.

(* read: never panics for any device and any limits (degenerate ones included); Ok data has
   exactly the requested size *)
Theorem C07_read_total : forall c w a n, c_max_ack c - 12 < 2 ^ 64 ->
  exists x s', ctl_read a n (c, w) = (x, s') /\ x <> Panic /\ (forall d, x = Ok d -> 0 <= n -> zlen d = n).
Proof. exact ctl_read_total. Qed.
Print Assumptions C07_read_total.

(* write: never panics for any device, any data and any limits *)
Theorem C07_write_total : forall c w a data, 0 <= a ->
  exists x s', ctl_write a data (c, w) = (x, s') /\ x <> Panic.
Proof. exact ctl_write_total. Qed.
Print Assumptions C07_write_total.

(* recovery: whatever the device did during a read or a write (ANY world w, any outcome x), the handle keeps
   its configuration, and once the device behaves again (conforming plans from there on, well-formed memory)
   the next read of mapped memory returns exactly that memory *)
Theorem C07_handle_intact_after_read : forall a n c w x c' w', 0 <= c_next c < 2 ^ 16 ->
  ctl_read a n (c, w) = (x, (c', w')) -> ctl_cfg c c'.
Proof. exact ctl_read_cfg. Qed.
Print Assumptions C07_handle_intact_after_read.

Theorem C07_handle_intact_after_write : forall a data c w x c' w', 0 <= c_next c < 2 ^ 16 ->
  ctl_write a data (c, w) = (x, (c', w')) -> ctl_cfg c c'.
Proof. exact ctl_write_cfg. Qed.
Print Assumptions C07_handle_intact_after_write.

Theorem C07_recovers_after_read : forall a n c w x c' w' a2 n2 d,
  c_opened c = true -> 12 < c_max_ack c < 2 ^ 32 -> 24 <= c_max_cmd c -> 1 <= c_retry c -> 0 <= c_next c < 2 ^ 16 ->
  c_abrm c <> None ->
  ctl_read a n (c, w) = (x, (c', w')) ->
  conf (c_retry c) w' -> segs_sep (w_segs w') -> mem_read (w_segs w') a2 n2 = Some d ->
  exists s'', ctl_read a2 n2 (c', w') = (Ok d, s'').
Proof. exact recovers_after_read. Qed.
Print Assumptions C07_recovers_after_read.

Theorem C07_recovers_after_write : forall a data c w x c' w' a2 n2 d,
  c_opened c = true -> 12 < c_max_ack c < 2 ^ 32 -> 24 <= c_max_cmd c -> 1 <= c_retry c -> 0 <= c_next c < 2 ^ 16 ->
  c_abrm c <> None ->
  ctl_write a data (c, w) = (x, (c', w')) ->
  conf (c_retry c) w' -> segs_sep (w_segs w') -> mem_read (w_segs w') a2 n2 = Some d ->
  exists s'', ctl_read a2 n2 (c', w') = (Ok d, s'').
Proof. exact recovers_after_write. Qed.
Print Assumptions C07_recovers_after_write.

(* an acknowledge of another kind is refused (the pinned code accepted it) *)
Theorem C07_kind_checked : forall a c w w1 bytes ek,
  on_recv w (c_buflen c) = (Ok bytes, w1) -> parse_ack bytes = Ok a -> a_status a = 0 ->
  a_request_id a = c_next c -> a_kind a <> 4 -> a_kind a <> ek ->
  fst (recv_loop 1 1 ek (c, w)) = Err CE_IO.
Proof. exact kind_checked. Qed.
Print Assumptions C07_kind_checked.

(* pinned code: a payload shorter than requested reached copy_from_slice and panicked *)
Theorem C07_short_payload_v0_refuted : exists n data, read_step_v0 n data = Panic.
Proof. exact short_payload_v0_refuted. Qed.
Print Assumptions C07_short_payload_v0_refuted.
