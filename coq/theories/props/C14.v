From Cam Require Import XmlFetch P_C14.

Theorem C14_text_ascii : forall bs, Forall (fun b => 0 <= b < 128) bs -> lossy bs = bs.
Proof. exact lossy_ascii. Qed.
Print Assumptions C14_text_ascii.
