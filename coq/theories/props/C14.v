(* C14 — device description retrieval returns exactly the newest device XML or fails.
   Statements only; proofs in proofs/P_C14.v.  Model: model/XmlFetch.v (genapi as written);
   vocabulary: spec/ManifestSpec.v (manifest table in device memory, newest_at, doc_spec,
   honest_reads / conforming_reads = what is assumed about DeviceControl::read, the subject of
   C06 / C07).  [sha1] and [unzip] are oracles: every theorem holds for all of them. *)
From Cam Require Import XmlFetch ManifestSpec P_C14 P_C06 P_C07 P_C14b.
From Cam Require U3VTables.

(* The loop over the manifest entries, on a device that may fail but does not lie: it never panics,
   and when it completes every entry has a valid file type and the candidate it kept is the entry
   (address, version, file info) of the DeviceXml entry with the greatest (major, minor, sub-minor),
   the first among equals; no candidate iff the table has no DeviceXml entry. *)
Theorem C14_selects_newest :
  forall (good : st -> Prop) segs t es (xs : xst) r xs',
  honest_reads good -> good (snd xs) -> w_segs (snd (snd xs)) = segs -> entries_at segs (t + 8) es ->
  scan (length es) (t + 8) 0 None xs = (r, xs') ->
  r <> Panic /\
  forall nw, r = Ok nw ->
    Forall valid_type es /\
    match nw with
    | Some (a, v, inf) =>
      exists i e, newest_at es i e /\ a = t + 8 + Z.of_nat i * 64 /\ v = vkey e /\ inf = me_info e
    | None => forall e, In e es -> ~ is_dev e
    end.
Proof. exact selects_newest. Qed.
Print Assumptions C14_selects_newest.

(* Conforming device, table es at the known manifest address, all file types valid, e the newest
   DeviceXml entry, its file inside device memory, hash absent or equal to sha1(file), format plain
   or a zip holding exactly one readable member: genapi returns exactly that text (and leaves the
   device memory and the handle's good standing untouched). *)
Theorem C14_returns_file :
  forall sha1 unzip (good : st -> Prop) x s t es i e text,
  conforming_reads good -> good s -> manifest_known (x_mt x) (w_segs (snd s)) t ->
  table_at (w_segs (snd s)) t es -> t + 8 < 2 ^ 64 -> Forall valid_type es ->
  newest_at es i e -> me_size e < 2 ^ 63 -> doc_spec sha1 unzip lossy (w_segs (snd s)) e text ->
  exists xs', genapi sha1 unzip (x, s) = (Ok text, xs') /\
              good (snd xs') /\ w_segs (snd (snd xs')) = w_segs (snd s).
Proof. exact genapi_returns_file. Qed.
Print Assumptions C14_returns_file.

(* A device that may fail at any transaction but does not lie: whatever genapi returns as Ok is the
   document of the newest DeviceXml entry (file read from its advertised address and size, hash
   checked when present, unzipped when flagged) — never another document; a panic is possible only
   if some entry advertises a file size >= 2^63 (known finding). *)
Theorem C14_never_other_document :
  forall sha1 unzip (good : st -> Prop) x s t es r xs',
  honest_reads good -> good s -> manifest_known (x_mt x) (w_segs (snd s)) t ->
  table_at (w_segs (snd s)) t es ->
  genapi sha1 unzip (x, s) = (r, xs') ->
  (good (snd xs') /\ w_segs (snd (snd xs')) = w_segs (snd s)) /\
  (r = Panic -> exists e, In e es /\ 2 ^ 63 <= me_size e) /\
  (forall text, r = Ok text -> result_spec sha1 unzip lossy (w_segs (snd s)) es text).
Proof. exact genapi_sound. Qed.
Print Assumptions C14_never_other_document.

(* No DeviceXml entry / an entry with an invalid file type / the newest entry's file outside device
   memory / hash present and different from sha1(file) / unknown file format / zip flagged and the
   archive corrupt, not holding exactly one file, or its member unreadable  ==>  Err. *)
Theorem C14_errors :
  forall sha1 unzip (good : st -> Prop) x s t es r xs',
  honest_reads good -> good s -> manifest_known (x_mt x) (w_segs (snd s)) t ->
  table_at (w_segs (snd s)) t es -> (forall e, In e es -> me_size e < 2 ^ 63) ->
  genapi sha1 unzip (x, s) = (r, xs') ->
  ((forall e, In e es -> ~ is_dev e) \/
   (exists e, In e es /\ ~ valid_type e) \/
   (exists i e, newest_at es i e /\
      (mem_read (w_segs (snd s)) (me_addr e) (me_size e) = None \/
       exists file, mem_read (w_segs (snd s)) (me_addr e) (me_size e) = Some file /\
         ((~ hash_absent (me_hash e) /\ sha1 file <> me_hash e) \/
          (file_format e <> 0 /\ file_format e <> 1) \/
          (file_format e = 1 /\ forall xml, unzip file <> Some [Some xml]))))) ->
  exists c, r = Err c.
Proof. exact genapi_error_cases. Qed.
Print Assumptions C14_errors.

(* Any device whatsoever (lying, hostile, any plans, any state of the handle whose negotiated
   maximum acknowledge length is a machine integer): no hypothesis about DeviceControl::read is left
   (its totality is P_C07.ctl_read_total).  genapi panics only when some register read returned a
   value >= 2^63 — the `vec![0; file_size]` capacity overflow of the known finding; in particular a
   corrupt archive, an invalid enumerant, a hostile entry count or address is an error, not a panic. *)
Theorem C14_no_panic :
  forall sha1 unzip (xs : xst),
  c_max_ack (fst (snd xs)) - 12 < 2 ^ 64 ->
  fst (genapi sha1 unzip xs) = Panic ->
  exists v, (exists a n s0 s1, read_reg a n s0 = (Ok v, s1)) /\ 2 ^ 63 <= v.
Proof. exact genapi_no_panic. Qed.
Print Assumptions C14_no_panic.

(* String::from_utf8_lossy is the identity on ASCII documents: the text is the file. *)
Theorem C14_text_ascii : forall bs, Forall (fun b => 0 <= b < 128) bs -> lossy bs = bs.
Proof. exact lossy_ascii. Qed.
Print Assumptions C14_text_ascii.

(* ... and on every well-formed UTF-8 document (utf8_valid: exactly the encodings of Unicode scalar
   values, theorem C13_string_spec). *)
Theorem C14_text_utf8 : forall bs, U3VTables.utf8_valid bs = true -> lossy bs = bs.
Proof. exact lossy_valid. Qed.
Print Assumptions C14_text_utf8.

(* The code before the repair (ZipArchive::new(..).unwrap()): a file flagged as zip that is not an
   archive panics; the repaired code returns InvalidDevice. *)
Theorem C14_zip_v0_refuted :
  exists sha1 unzip xs,
    fst (genapi_v0 sha1 unzip xs) = Panic /\ fst (genapi sha1 unzip xs) = Err CE_INVALID_DEVICE.
Proof. exact zip_v0_refuted. Qed.
Print Assumptions C14_zip_v0_refuted.

(* Known finding: an advertised file size of 2^63 panics (capacity overflow of vec![0; n]). *)
Theorem C14_absurd_size_refuted :
  exists sha1 unzip xs, fst (genapi sha1 unzip xs) = Panic.
Proof. exact absurd_size_refuted. Qed.
Print Assumptions C14_absurd_size_refuted.

(* ---- the two hypotheses about DeviceControl::read are theorems for these classes of states ---------- *)
(* good_honest: handle open, 12 < max_ack < 2^32, request id in u16, ABRM cached; device memory = segments
   inside the 64 bit address space separated by unmapped bytes; every transaction may fail (libusb error on
   send or receive, time-out) or be delayed by pending acknowledges, but an acknowledge, when it comes, is the
   conforming one.  good_conf: moreover max_cmd >= 24, no transaction fails, fewer pending acknowledges than
   the retry limit.  Proofs: proofs/P_C14b.v on top of the C06 / C07 lemmas. *)
Theorem C14_reads_honest : honest_reads good_honest.
Proof. exact honest_reads_honest. Qed.
Print Assumptions C14_reads_honest.

Theorem C14_reads_conforming : conforming_reads good_conf.
Proof. exact conforming_reads_conf. Qed.
Print Assumptions C14_reads_conforming.

Theorem C14_good_states_exist : good_conf (ex_good_ctl, ex_good_world).
Proof. exact good_conf_example. Qed.
Print Assumptions C14_good_states_exist.

(* hence, without any assumption about read: *)
Theorem C14_returns_file_conforming :
  forall sha1 unzip x s t es i e text,
  good_conf s -> manifest_known (x_mt x) (w_segs (snd s)) t ->
  table_at (w_segs (snd s)) t es -> t + 8 < 2 ^ 64 -> Forall valid_type es ->
  newest_at es i e -> me_size e < 2 ^ 63 -> doc_spec sha1 unzip lossy (w_segs (snd s)) e text ->
  exists xs', genapi sha1 unzip (x, s) = (Ok text, xs') /\
              good_conf (snd xs') /\ w_segs (snd (snd xs')) = w_segs (snd s).
Proof. intros sha1 unzip x s t es i e text. exact (genapi_returns_file sha1 unzip good_conf x s t es i e text conforming_reads_conf). Qed.
Print Assumptions C14_returns_file_conforming.

Theorem C14_never_other_document_honest :
  forall sha1 unzip x s t es r xs',
  good_honest s -> manifest_known (x_mt x) (w_segs (snd s)) t ->
  table_at (w_segs (snd s)) t es ->
  genapi sha1 unzip (x, s) = (r, xs') ->
  (good_honest (snd xs') /\ w_segs (snd (snd xs')) = w_segs (snd s)) /\
  (r = Panic -> exists e, In e es /\ 2 ^ 63 <= me_size e) /\
  (forall text, r = Ok text -> result_spec sha1 unzip lossy (w_segs (snd s)) es text).
Proof. intros sha1 unzip x s t es r xs'. exact (genapi_sound sha1 unzip good_honest x s t es r xs' honest_reads_honest). Qed.
Print Assumptions C14_never_other_document_honest.

(* ---- TIE TO THE SOURCE CODE: the register decoders genapi relies on, translated -----------------------------------
   gen/DecodersSrc.v is regenerated on every run by tools/translate_decoders.py from cameleon/src/u3v/register_map.rs
   (typed mini-Rust parser tools/minirust.py, debug-build semantics of lib/RustInt.v).  src_genicam_file_version,
   src_file_type, src_compression_type are the bodies of ManifestEntry::genicam_file_version and
   GenICamFileInfo::{file_type, compression_type} as functions of the register word; DeviceXml / Uncompressed are 0,
   BufferXml / Zip are 1.  Statements hold for every word.  proofs/P_C14s.v. *)
From Cam Require Import DecodersSrc P_C14s.

(* the version the loop compares is the translated decoding of the entry's first register (offset 0, 4 bytes) *)
Theorem C14_file_version_from_source :
  src_genicam_file_version_reg = (0, 4) /\ forall v, src_genicam_file_version v = Ok (version_of v).
Proof. exact file_version_from_source. Qed.
Print Assumptions C14_file_version_from_source.

(* [file_type] / [compression_type] are the raw fields the translated code matches on ([type_of_raw]: 0, 1, otherwise
   InvalidDevice); the tests the model branches on are exactly the outcomes of the translated code *)
Theorem C14_file_info_from_source : forall info,
  src_file_type info = type_of_raw (file_type info) /\
  src_compression_type info = type_of_raw (compression_type info) /\
  ((file_type info =? 0) = true <-> src_file_type info = Ok 0) /\
  ((file_type info =? 1) = true <-> src_file_type info = Ok 1) /\
  (negb ((compression_type info =? 0) || (compression_type info =? 1)) = true <->
     src_compression_type info = Err U3VTables.CE_INVALID_DEVICE).
Proof. exact file_info_from_source. Qed.
Print Assumptions C14_file_info_from_source.

Theorem C14_source_examples :
  src_genicam_file_version 16909060 = Ok (1, 2, 772) /\ version_of 16909060 = (1, 2, 772) /\
  src_file_type 9 = Ok 1 /\ file_type 9 = 1 /\ src_file_type 2 = Err U3VTables.CE_INVALID_DEVICE /\
  src_compression_type 1024 = Ok 1 /\ compression_type 1024 = 1 /\
  src_compression_type 2048 = Err U3VTables.CE_INVALID_DEVICE.
Proof. exact file_examples. Qed.
Print Assumptions C14_source_examples.

(* ---- TIE TO THE SOURCE CODE: the retrieval itself, translated --------------------------------------------------------
   gen/XmlFetchSrc.v is regenerated on every run by tools/translate_xmlfetch.py from cameleon/src/u3v/control_handle.rs
   (DeviceControl::genapi with its local zip_err, ControlHandle::verify_xml) and cameleon/src/u3v/register_map.rs
   (ManifestTable::{new, entries, read_register}, ManifestEntry::{new, file_info, genicam_file_version, file_address,
   file_size, sha1_hash, read_register}): a STATEMENT-level translation into the X monad of model/XmlFetch.v over the
   operation vocabulary model/XfOps.v (`?` / unwrap_or_log! = bind, `let mut` / assignment = rebinding, the `for` loop
   over `(0..entry_num).map(move |i| ManifestEntry::new(first_entry_addr + i * 64))` = xf_for_range with the closure
   evaluated when the item is pulled, debug-build u64 arithmetic), re-using the translated decoders of
   gen/DecodersSrc.v.  Computations are compared pointwise (for every state = handle + device world); the only
   hypotheses are that a table / entry address is not negative (it is a u64).  proofs/P_C14x.v. *)
From Cam Require Import XfOps XmlFetchSrc P_C14x.

(* ManifestTable::entries: same device accesses in the same order, the same validation of the last entry's address
   against the 64-bit address space with the same error; the iterator it returns is the range 0..entry_num with the
   captured first entry address ([iter_of (first, n) = (0, n, first)]) *)
Theorem C14_entries_from_source : forall t s, 0 <= t ->
  src_ManifestTable_entries t s = xbind (entries t) (fun fe => xret (iter_of fe)) s.
Proof. exact entries_from_source. Qed.
Print Assumptions C14_entries_from_source.

(* the body of `for ent in ..` (file_info first, file_type: DeviceXml -> read the version and keep the entry unless the
   current candidate's version is >= (ties keep the EARLIER entry), BufferXml -> skip, anything else -> InvalidDevice)
   and the whole loop, for any number of entries *)
Theorem C14_selection_from_source :
  (forall ent nw s, src_ControlHandle_genapi_loop0_body ent nw s = scan_entry ent nw s) /\
  (forall first n nw s, 0 <= first ->
     src_ControlHandle_genapi_loop0 0 n first nw s = scan (Z.to_nat n) first 0 nw s).
Proof. exact selection_from_source_all. Qed.
Print Assumptions C14_selection_from_source.

(* what follows the loop: no candidate -> InvalidDevice; file_address, file_size (u64 -> usize), compression_type,
   the buffer of file_size bytes (capacity-overflow panic from 2^63), one read, the buffer capacity restored,
   verify_xml, Zip (every zip failure and "not exactly one file" through zip_err = InvalidDevice) / Uncompressed,
   from_utf8_lossy; and verify_xml on its own (hash absent = all zero; mismatch -> InvalidDevice) *)
Theorem C14_fetch_from_source : forall sha1 unzip,
  (forall xml ent s, src_ControlHandle_verify_xml sha1 xml ent s = verify_xml sha1 xml ent s) /\
  (forall nw s, src_ControlHandle_genapi_after0 sha1 unzip nw s =
                match nw with None => xfail CE_INVALID_DEVICE s | Some sel => fetch sha1 unzip sel s end).
Proof. exact fetch_from_source_all. Qed.
Print Assumptions C14_fetch_from_source.

(* the translated genapi as a whole is the model's, in every state in which the manifest table address the handle
   obtains (cached, or ABRM 0x1D0) is not negative *)
Theorem C14_genapi_from_source : forall sha1 unzip s,
  (forall t s1, manifest_table s = (Ok t, s1) -> 0 <= t) ->
  src_ControlHandle_genapi sha1 unzip s = genapi sha1 unzip s.
Proof. exact genapi_from_source. Qed.
Print Assumptions C14_genapi_from_source.

(* hence C14_selects_newest holds of the TRANSLATED loop: on a device that may fail but does not lie it never panics,
   and when it completes the candidate is the DeviceXml entry whose version is maximal, the first among equals *)
Theorem C14_selection_of_source :
  forall (good : st -> Prop) segs t es (xs : xst) r xs',
  honest_reads good -> good (snd xs) -> w_segs (snd (snd xs)) = segs -> entries_at segs (t + 8) es -> 0 <= t + 8 ->
  src_ControlHandle_genapi_loop0 0 (zlen es) (t + 8) None xs = (r, xs') ->
  r <> Panic /\
  forall nw, r = Ok nw ->
    Forall valid_type es /\
    match nw with
    | Some (a, v, inf) =>
      exists i e, newest_at es i e /\ a = t + 8 + Z.of_nat i * 64 /\ v = vkey e /\ inf = me_info e
    | None => forall e, In e es -> ~ is_dev e
    end.
Proof. exact selection_of_source. Qed.
Print Assumptions C14_selection_of_source.

(* non-vacuity (vm_compute): the translated genapi on the device of ex_newest returns the newest document; a file
   flagged as zip that is not an archive is InvalidDevice; a one-file archive is unpacked *)
Theorem C14_retrieval_source_example :
  fst (src_ControlHandle_genapi fake_sha1 (fun _ => None)
         (opened (wit_world (le_bytes 8 3 ++ mk_entry 16777471 0 262144 10 (fake_sha1 doc_a)
                                           ++ mk_entry 16777472 0 262656 10 (fake_sha1 doc_b)
                                           ++ mk_entry 150994944 1 262144 10 (repeat 0 20))
                            [(262144, doc_a); (262656, doc_b)]))) = Ok doc_b /\
  fst (src_ControlHandle_genapi fake_sha1 (fun _ => None)
         (opened (wit_world (le_bytes 8 1 ++ mk_entry 16777216 1024 262144 10 (repeat 0 20)) [(262144, doc_a)])))
    = Err CE_INVALID_DEVICE /\
  fst (src_ControlHandle_genapi fake_sha1 (fun bs => Some [Some (tl bs)])
         (opened (wit_world (le_bytes 8 1 ++ mk_entry 16777216 1024 262144 10 (repeat 0 20)) [(262144, doc_a)])))
    = Ok (tl doc_a).
Proof. exact ex_newest_src. Qed.
Print Assumptions C14_retrieval_source_example.
