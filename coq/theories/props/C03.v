(* Property C03 - feature evaluation follows GenApi dataflow semantics: statements only.
   Model: model/Graph.v; proofs: proofs/P_C03.v (fuel), proofs/P_C03b.v (derived laws).
   [run fops nodes fuel q s] executes request q on the node store [nodes] in state s. *)
From Cam Require Import Outcome Bytes Mem BitField RegCodec Formula Graph P_C01 P_C03 P_C03b.

(* on a store whose references decrease a rank, fuel above the rank of the requested node never runs out, and any additional fuel gives the same outcome and state *)
Theorem C03_fuel_adequate :
  forall (fops : float_ops) (nodes : list node) (rk : nat -> nat),
       ranked nodes rk ->
       forall (f f' : nat) (q : req) (s : state),
       (rk (req_node q) < f)%nat ->
       (f <= f')%nat ->
       fst (run fops nodes f q s) <> Err E_FUEL /\ run fops nodes f' q s = run fops nodes f q s.
Proof. exact fuel_adequate. Qed.
Print Assumptions C03_fuel_adequate.

(* on ANY store: a result obtained without running out of fuel is not changed by more fuel *)
Theorem C03_fuel_monotone :
  forall (fops : float_ops) (nodes : list node) (f f' : nat) (q : req) (s : state),
       (f <= f')%nat -> nf (run fops nodes f q s) -> run fops nodes f' q s = run fops nodes f q s.
Proof. exact run_fuel_mono. Qed.
Print Assumptions C03_fuel_monotone.

(* pValue chain of any length over a register terminal: writing at the top writes the codec image to the device once, fills every pValueCopy slot, and reading the top returns the value *)
Theorem C03_pvalue_chain :
  forall (fops : float_ops) (nodes : list node) (ns : list nat) (t : nat) (vids : list nat)
         (a len sign endian v : Z) (f g : nat) (s : state),
       chain nodes ns t vids ->
       const_intreg nodes t a len sign endian ->
       supported_int_len len = true ->
       in_s 64 a = true ->
       int_in_range len sign v ->
       in_dev (s_dev s) a len ->
       exists s1 s2 : state,
         run fops nodes (length ns + S f) (QIntSet (hd t ns) v) s = (Ok AUnit, s1) /\
         s_vals s1 = set_slots vids v (s_vals s) /\
         d_log (s_dev s1) = WrAcc a (int_image v len endian) :: d_log (s_dev s) /\
         run fops nodes (length ns + S g) (QIntValue (hd t ns)) s1 = (Ok (AZ v), s2) /\
         s_vals s2 = s_vals s1 /\ d_mem (s_dev s2) = d_mem (s_dev s1).
Proof. exact chain_register_roundtrip. Qed.
Print Assumptions C03_pvalue_chain.

(* pValue chain of any length over any integer terminal: the write is the terminal's write followed by the copies, innermost level first, in declaration order *)
Theorem C03_pvalue_chain_set :
  forall (fops : float_ops) (nodes : list node) (ns : list nat) (t : nat) (vids : list nat) (v : Z),
       chain nodes ns t vids ->
       is_int (body_of nodes t) = true ->
       forall (f : nat) (s s1 : state),
       run fops nodes (S f) (QIntSet t v) s = (Ok AUnit, s1) ->
       run fops nodes (length ns + S f) (QIntSet (hd t ns) v) s =
       (Ok AUnit, {| s_vals := set_slots vids v (s_vals s1); s_dev := s_dev s1 |}).
Proof. exact chain_set. Qed.
Print Assumptions C03_pvalue_chain_set.

(* reading the top of a pValue chain of any length is reading the terminal *)
Theorem C03_pvalue_chain_value :
  forall (fops : float_ops) (nodes : list node) (ns : list nat) (t : nat) (vids : list nat),
       chain nodes ns t vids ->
       is_int (body_of nodes t) = true ->
       forall (f : nat) (s : state),
       run fops nodes (length ns + S f) (QIntValue (hd t ns)) s = run fops nodes (S f) (QIntValue t) s.
Proof. exact chain_value. Qed.
Print Assumptions C03_pvalue_chain_value.

(* after a write through the chain every pValueCopy target reads back the value *)
Theorem C03_pvalue_chain_copies :
  forall (fops : float_ops) (nodes : list node) (ns : list nat) (t : nat) (vids : list nat) 
         (v : Z) (f : nat) (s s1 : state) (c vid g : nat),
       chain nodes ns t vids ->
       is_int (body_of nodes t) = true ->
       run fops nodes (S f) (QIntSet t v) s = (Ok AUnit, s1) ->
       In vid vids ->
       slot_int nodes c vid ->
       (vid < length (s_vals s1))%nat ->
       exists s' : state,
         run fops nodes (length ns + S f) (QIntSet (hd t ns) v) s = (Ok AUnit, s') /\
         s_dev s' = s_dev s1 /\ run fops nodes (S g) (QIntValue c) s' = (Ok (AZ v), s').
Proof. exact chain_copies_hold. Qed.
Print Assumptions C03_pvalue_chain_copies.

(* value of a pIndex feature = value of the first entry whose index equals the current index, else of the default, evaluated after the index *)
Theorem C03_pindex_select :
  forall (fops : float_ops) (nodes : list node) (f n idx : nat) (ents : list (Z * src)) 
         (d mn mx : src) (inc : isrc) (s : state) (i : Z) (s1 : state) (x : src),
       body_of nodes n = NInteger (VPIndex idx ents d) mn mx inc ->
       is_int (body_of nodes idx) = true ->
       run fops nodes f (QIntValue idx) s = (Ok (AZ i), s1) ->
       selects i ents d x ->
       run fops nodes (S f) (QIntValue n) s =
       (let! v := src_get_i fops nodes (run fops nodes f) x in mret (AZ v)) s1.
Proof. exact pindex_select_value. Qed.
Print Assumptions C03_pindex_select.

(* same for set_value *)
Theorem C03_pindex_select_set :
  forall (fops : float_ops) (nodes : list node) (f n idx : nat) (ents : list (Z * src)) 
         (d mn mx : src) (inc : isrc) (s : state) (i : Z) (s1 : state) (x : src) 
         (v : Z),
       body_of nodes n = NInteger (VPIndex idx ents d) mn mx inc ->
       is_int (body_of nodes idx) = true ->
       run fops nodes f (QIntValue idx) s = (Ok (AZ i), s1) ->
       selects i ents d x ->
       run fops nodes (S f) (QIntSet n v) s =
       (let! _ := src_set_i fops nodes (run fops nodes f) x v in mret AUnit) s1.
Proof. exact pindex_select_set. Qed.
Print Assumptions C03_pindex_select_set.

(* On/Off mapping of a Boolean *)
Theorem C03_boolean_value :
  forall (fops : float_ops) (nodes : list node) (f n : nat) (v : src) (on off : Z) 
         (s : state) (x : Z) (s1 : state),
       body_of nodes n = NBoolean v on off ->
       src_get_i fops nodes (run fops nodes f) v s = (Ok x, s1) ->
       run fops nodes (S f) (QBoolValue n) s =
       (if x =? on then Ok (AB true) else if x =? off then Ok (AB false) else Err Mem.E_INVALID_NODE, s1).
Proof. exact boolean_value. Qed.
Print Assumptions C03_boolean_value.

(* with OnValue <> OffValue, set b then value gives b whenever the underlying source stores the value *)
Theorem C03_boolean_inverse :
  forall (fops : float_ops) (nodes : list node) (f f' n : nat) (v : src) (on off : Z) 
         (b : bool) (s s1 s2 : state),
       body_of nodes n = NBoolean v on off ->
       on <> off ->
       src_set_i fops nodes (run fops nodes f) v (if b then on else off) s = (Ok tt, s1) ->
       src_get_i fops nodes (run fops nodes f') v s1 = (Ok (if b then on else off), s2) ->
       run fops nodes (S f) (QBoolSet n b) s = (Ok AUnit, s1) /\
       run fops nodes (S f') (QBoolValue n) s1 = (Ok (AB b), s2).
Proof. exact boolean_inverse. Qed.
Print Assumptions C03_boolean_inverse.

(* instance: a Boolean over its own <Value> *)
Theorem C03_boolean_slot_inverse :
  forall (fops : float_ops) (nodes : list node) (f f' n vid : nat) (on off : Z) (b : bool) (s : state),
       body_of nodes n = NBoolean (SImm vid) on off ->
       on <> off ->
       (vid < length (s_vals s))%nat ->
       exists s1 : state,
         run fops nodes (S f) (QBoolSet n b) s = (Ok AUnit, s1) /\
         run fops nodes (S f') (QBoolValue n) s1 = (Ok (AB b), s1) /\ s_dev s1 = s_dev s.
Proof. exact boolean_slot_inverse. Qed.
Print Assumptions C03_boolean_slot_inverse.

(* a value carried by no declared entry is refused, nothing is touched *)
Theorem C03_enum_closed :
  forall (fops : float_ops) (nodes : list node) (f n : nat) (ents : list eentry) 
         (v : src) (x : Z) (s : state),
       body_of nodes n = NEnumeration ents v ->
       (forall e : eentry, In e ents -> ee_val e <> x) ->
       run fops nodes (S f) (QEnumSet n x) s = (Err Mem.E_INVALID_DATA, s).
Proof. exact enum_set_undeclared. Qed.
Print Assumptions C03_enum_closed.

(* a declared value is written to the value source *)
Theorem C03_enum_set_declared :
  forall (fops : float_ops) (nodes : list node) (f n : nat) (ents : list eentry) 
         (v : src) (e : eentry) (s : state),
       body_of nodes n = NEnumeration ents v ->
       In e ents ->
       run fops nodes (S f) (QEnumSet n (ee_val e)) s =
       (let! _ := src_set_i fops nodes (run fops nodes f) v (ee_val e) in mret AUnit) s.
Proof. exact enum_set_declared. Qed.
Print Assumptions C03_enum_set_declared.

(* a reported entry is declared, carries the stored value, and is the first such *)
Theorem C03_enum_entry_declared :
  forall (fops : float_ops) (nodes : list node) (f n : nat) (ents : list eentry) 
         (v : src) (s : state) (k : nat) (s1 : state),
       body_of nodes n = NEnumeration ents v ->
       run fops nodes (S f) (QEnumEntry n) s = (Ok (AE k), s1) ->
       exists e : eentry,
         nth_error ents k = Some e /\
         src_get_i fops nodes (run fops nodes f) v s = (Ok (ee_val e), s1) /\
         (forall (i : nat) (e' : eentry), (i < k)%nat -> nth_error ents i = Some e' -> ee_val e' <> ee_val e).
Proof. exact enum_entry_declared. Qed.
Print Assumptions C03_enum_entry_declared.

(* a stored value without entry is an error *)
Theorem C03_enum_entry_undeclared :
  forall (fops : float_ops) (nodes : list node) (f n : nat) (ents : list eentry) 
         (v : src) (s : state) (x : Z) (s1 : state),
       body_of nodes n = NEnumeration ents v ->
       src_get_i fops nodes (run fops nodes f) v s = (Ok x, s1) ->
       (forall e : eentry, In e ents -> ee_val e <> x) ->
       run fops nodes (S f) (QEnumEntry n) s = (Err Mem.E_INVALID_NODE, s1).
Proof. exact enum_entry_undeclared. Qed.
Print Assumptions C03_enum_entry_undeclared.

(* execute writes the command value to the value source *)
Theorem C03_command_execute :
  forall (fops : float_ops) (nodes : list node) (f n : nat) (v cv : src) (s : state) 
         (c : Z) (s1 : state),
       body_of nodes n = NCommand v cv ->
       src_get_i fops nodes (run fops nodes f) cv s = (Ok c, s1) ->
       run fops nodes (S f) (QCmdExec n) s =
       (let! _ := src_set_i fops nodes (run fops nodes f) v c in mret AUnit) s1.
Proof. exact command_execute. Qed.
Print Assumptions C03_command_execute.

(* is_done of a command over an immediate *)
Theorem C03_command_done_imm :
  forall (fops : float_ops) (nodes : list node) (f n vid : nat) (cv : src) (s : state),
       body_of nodes n = NCommand (SImm vid) cv -> run fops nodes (S f) (QCmdDone n) s = (Ok (AB true), s).
Proof. exact command_done_imm. Qed.
Print Assumptions C03_command_done_imm.

(* is_done of a command over an unreadable node *)
Theorem C03_command_done_unreadable :
  forall (fops : float_ops) (nodes : list node) (f n m : nat) (cv : src) (s s1 : state),
       body_of nodes n = NCommand (SNode m) cv ->
       nid_readable nodes (run fops nodes f) m s = (Ok false, s1) ->
       run fops nodes (S f) (QCmdDone n) s = (Ok (AB true), s1).
Proof. exact command_done_unreadable. Qed.
Print Assumptions C03_command_done_unreadable.

(* is_done <-> stored value <> command value *)
Theorem C03_command_done :
  forall (fops : float_ops) (nodes : list node) (f n m : nat) (cv : src) (s s1 : state) 
         (c : Z) (s2 : state) (x : Z) (s3 : state),
       body_of nodes n = NCommand (SNode m) cv ->
       nid_readable nodes (run fops nodes f) m s = (Ok true, s1) ->
       src_get_i fops nodes (run fops nodes f) cv s1 = (Ok c, s2) ->
       nid_get_i fops nodes (run fops nodes f) m s2 = (Ok x, s3) ->
       run fops nodes (S f) (QCmdDone n) s = (Ok (AB (negb (c =? x))), s3).
Proof. exact command_done_readable. Qed.
Print Assumptions C03_command_done.

(* the register address is the sum of its address elements, evaluated in order (every partial sum an i64) *)
Theorem C03_address_sum :
  forall (fops : float_ops) (nodes : list node) (call : req -> M ans) (r : regb) 
         (s : state) (vs : list Z) (s' : state),
       addr_evals fops nodes call (rb_addrs r) s vs s' ->
       prefix_ok 0 vs -> reg_address fops nodes call r s = (Ok (zsum vs), s').
Proof. exact reg_address_sum. Qed.
Print Assumptions C03_address_sum.

(* a <pIndex Offset/pOffset> element contributes index * offset *)
Theorem C03_address_index_offset :
  forall (fops : float_ops) (nodes : list node) (call : req -> M ans) (o : isrc) 
         (idx : nat) (s : state) (b : Z) (s1 : state) (ov : Z) (s2 : state),
       nid_get_i fops nodes call idx s = (Ok b, s1) ->
       isrc_get_i fops nodes call o s1 = (Ok ov, s2) ->
       in_s 64 (b * ov) = true -> addr_value fops nodes call (AIndex (Some o) idx) s = (Ok (b * ov), s2).
Proof. exact addr_elem_index_offset. Qed.
Print Assumptions C03_address_index_offset.

(* the device read of a register-backed feature uses that address and the Length/pLength value *)
Theorem C03_address_read_access :
  forall (fops : float_ops) (nodes : list node) (call : req -> M ans) (r : regb) 
         (s : state) (len : Z) (s1 : state) (a : Z) (s2 : state),
       reg_length fops nodes call r s = (Ok len, s1) ->
       reg_address fops nodes call r s1 = (Ok a, s2) ->
       0 <= len <= 2 ^ 20 ->
       body_of nodes (rb_port r) = NPort false ->
       reg_fetch fops nodes call r s = m_dev_read a len s2 /\
       d_log (s_dev (snd (m_dev_read a len s2))) = RdAcc a len :: d_log (s_dev s2).
Proof. exact reg_fetch_access. Qed.
Print Assumptions C03_address_read_access.

(* the device write likewise *)
Theorem C03_address_write_access :
  forall (fops : float_ops) (nodes : list node) (call : req -> M ans) (r : regb) 
         (bs : list Z) (s s1 : state) (a : Z) (s2 : state),
       reg_length fops nodes call r s = (Ok (zlen bs), s1) ->
       reg_address fops nodes call r s1 = (Ok a, s2) ->
       body_of nodes (rb_port r) = NPort false ->
       reg_store fops nodes call r bs s = m_dev_write a bs s2 /\
       d_log (s_dev (snd (m_dev_write a bs s2))) = WrAcc a bs :: d_log (s_dev s2).
Proof. exact reg_store_access. Qed.
Print Assumptions C03_address_write_access.

(* a buffer of another length is refused without device access *)
Theorem C03_length_checked :
  forall (fops : float_ops) (nodes : list node) (call : req -> M ans) (r : regb) 
         (bs : list Z) (s : state) (len : Z) (s1 : state),
       reg_length fops nodes call r s = (Ok len, s1) ->
       zlen bs <> len -> reg_store fops nodes call r bs s = (Err E_INVALID_BUFFER, s1).
Proof. exact reg_store_wrong_length. Qed.
Print Assumptions C03_length_checked.

(* name resolution in a formula environment: Expression > Constant > later pVariable > earlier pVariable > TO/FROM *)
Theorem C03_converter_env :
  forall (fops : float_ops) (nodes : list node) (call : req -> M ans) (k : knife)
         (env0 : list (ident * expr)) (s : state) (bs : list (ident * expr)) (s' : state),
       vars_eval fops nodes call (k_vars k) s bs s' ->
       exists env : list (ident * expr),
         collect_env fops nodes call k env0 s = (Ok env, s') /\
         (forall name : ident, lookup name env = resolve k bs env0 name).
Proof. exact collect_env_spec. Qed.
Print Assumptions C03_converter_env.

(* converter read = FormulaFrom over that environment with TO bound to the pValue *)
Theorem C03_converter_value :
  forall (fops : float_ops) (nodes : list node) (call : req -> M ans) (k : knife) 
         (ffrom : expr) (p : nat) (s : state) (to : expr) (s1 : state) (bs : list (ident * expr))
         (s2 : state),
       expr_from_nid fops nodes call p s = (Ok to, s1) ->
       vars_eval fops nodes call (k_vars k) s1 bs s2 ->
       exists env : list (ident * expr),
         conv_value fops nodes call k ffrom p s = eval_formula fops k env ffrom s2 /\
         (forall name : ident, lookup name env = resolve k bs [(S_TO, to)] name).
Proof. exact conv_value_spec. Qed.
Print Assumptions C03_converter_value.

(* converter write = FormulaTo with FROM bound to the written value, stored through the coercion *)
Theorem C03_converter_set :
  forall (fops : float_ops) (nodes : list node) (call : req -> M ans) (k : knife) 
         (fto : expr) (p : nat) (from : expr) (s : state) (bs : list (ident * expr)) 
         (s1 : state),
       vars_eval fops nodes call (k_vars k) s bs s1 ->
       exists env : list (ident * expr),
         conv_set fops nodes call k fto p from s =
         (let! r := eval_formula fops k env fto in set_eval_result fops nodes call p r) s1 /\
         (forall name : ident, lookup name env = resolve k bs [(S_FROM, from)] name).
Proof. exact conv_set_spec. Qed.
Print Assumptions C03_converter_set.

(* swiss knife = Formula over that environment *)
Theorem C03_swissknife_value :
  forall (fops : float_ops) (nodes : list node) (call : req -> M ans) (k : knife) 
         (f : expr) (s : state) (bs : list (ident * expr)) (s1 : state),
       vars_eval fops nodes call (k_vars k) s bs s1 ->
       exists env : list (ident * expr),
         knife_value fops nodes call k f s = eval_formula fops k env f s1 /\
         (forall name : ident, lookup name env = resolve k bs [] name).
Proof. exact knife_value_spec. Qed.
Print Assumptions C03_swissknife_value.

(* the formula result is stored with the coercion of the target's interface kind *)
Theorem C03_converter_coercion :
  forall (fops : float_ops) (nodes : list node) (call : req -> M ans) (p : nat) (r : res),
       set_eval_result fops nodes call p r =
       match coerced_request fops nodes p r with
       | Some q => let! a := call q in as_u a
       | None => merr Mem.E_INVALID_NODE
       end.
Proof. exact set_eval_result_spec. Qed.
Print Assumptions C03_converter_coercion.

(* ==== the value-dispatch layer translated from the source (tools/translate_ivalue.py -> gen/IValueSrc.v over model/IvOps.v;
   proofs/P_C03s.v) ==== *)
From Cam Require Import IvOps IValueSrc P_C03s.

(* the I*Kind::maybe_from tables translated from interface.rs are the model's interface kinds *)
Theorem C03_kinds_from_source :
  forall (fops : float_ops) (nodes : list node) (call : req -> M ans) (ent : nat -> option eentry) (n : nat),
  let E := EV fops nodes call ent in
  src_IIntegerKind_maybe_from E n = (if is_int (body_of nodes n) then Some n else None) /\
  src_IFloatKind_maybe_from E n = (if is_flt (body_of nodes n) then Some n else None) /\
  src_IStringKind_maybe_from E n = (if is_str (body_of nodes n) then Some n else None) /\
  src_IEnumerationKind_maybe_from E n = (if is_enum (body_of nodes n) then Some n else None) /\
  src_IBooleanKind_maybe_from E n = (if is_bool (body_of nodes n) then Some n else None).
Proof. exact kinds_from_source. Qed.
Print Assumptions C03_kinds_from_source.

(* IValue<i64> / <f64> / <String> for NodeId translated from ivalue.rs (order of the as_*_kind tests, what each branch calls, conversions, final errors) are the model's nid_get_i / nid_set_i / nid_get_f / nid_set_f / nid_readable and the pValue arm of its NString clauses, for every store, node and state *)
Theorem C03_nodeid_dispatch_from_source :
  forall (fops : float_ops) (nodes : list node) (call : req -> M ans) (ent : nat -> option eentry)
  (n : nat) (s : state),
  let E := EV fops nodes call ent in
  (IValue_value (src_NodeId_IValue_i64 E) n s = nid_get_i fops nodes call n s /\
  (forall v : Z, IValue_set_value (src_NodeId_IValue_i64 E) n v s = nid_set_i fops nodes call n v s)) /\
  (IValue_value (src_NodeId_IValue_f64 E) n s = nid_get_f fops nodes call n s /\
  (forall v : Z, IValue_set_value (src_NodeId_IValue_f64 E) n v s = nid_set_f fops nodes call n v s)) /\
  (IValue_is_readable (src_NodeId_IValue_i64 E) n s = nid_readable nodes call n s /\
  IValue_is_readable (src_NodeId_IValue_f64 E) n s = nid_readable nodes call n s) /\
  IValue_value (src_NodeId_IValue_String E) n s =
  (if is_str (body_of nodes n) then let! a := call (QStrValue n) in as_l a else merr Mem.E_INVALID_NODE) s /\
  (forall v : list Z,
  IValue_set_value (src_NodeId_IValue_String E) n v s =
  (if is_str (body_of nodes n) then let! a := call (QStrSet n v) in as_u a else merr Mem.E_INVALID_NODE) s).
Proof. exact nodeid_dispatch_from_source. Qed.
Print Assumptions C03_nodeid_dispatch_from_source.

(* the instances impl_ivalue_for_vid! generates (through the translated ValueStore::integer_value / float_value / str_value) are the model's vid_int / vid_flt / vid_str / vid_set; the two cross instances convert after the slot conversion *)
Theorem C03_valueid_from_source :
  forall (fops : float_ops) (nodes : list node) (call : req -> M ans) (ent : nat -> option eentry)
  (vid : nat) (s : state),
  let E := EV fops nodes call ent in
  (IValue_value (src_IntegerId_IValue_i64 E) vid s = vid_int fops vid s /\
  (forall v : Z, IValue_set_value (src_IntegerId_IValue_i64 E) vid v s = vid_set vid (VI v) s)) /\
  (IValue_value (src_FloatId_IValue_f64 E) vid s = vid_flt fops vid s /\
  (forall v : Z, IValue_set_value (src_FloatId_IValue_f64 E) vid v s = vid_set vid (VF v) s)) /\
  (IValue_value (src_StringId_IValue_String E) vid s = vid_str vid s /\
  (forall v : list Z, IValue_set_value (src_StringId_IValue_String E) vid v s = vid_set vid (VS v) s)) /\
  (IValue_value (src_IntegerId_IValue_f64 E) vid s = (let! z := vid_int fops vid in mret (i2f fops z)) s /\
  (forall v : Z, IValue_set_value (src_IntegerId_IValue_f64 E) vid v s = vid_set vid (VF v) s)) /\
  IValue_value (src_FloatId_IValue_i64 E) vid s = (let! b := vid_flt fops vid in mret (f2i fops b)) s /\
  (forall v : Z, IValue_set_value (src_FloatId_IValue_i64 E) vid v s = vid_set vid (VI v) s).
Proof. exact valueid_from_source. Qed.
Print Assumptions C03_valueid_from_source.

(* IValue for ImmOrPNode with the dictionaries rustc resolves (IntegerId / FloatId / i64 / f64 immediates from impl_ivalue_for_imm!) is src_get_i .. isrc_get_f; an immediate is not writable *)
Theorem C03_immorpnode_from_source :
  forall (fops : float_ops) (nodes : list node) (call : req -> M ans) (ent : nat -> option eentry) (s : state),
  (forall x : src, IValue_value (D_src_i fops nodes call ent) (of_src x) s = src_get_i fops nodes call x s) /\
  (forall (x : src) (v : Z),
  IValue_set_value (D_src_i fops nodes call ent) (of_src x) v s = src_set_i fops nodes call x v s) /\
  (forall x : src, IValue_value (D_src_f fops nodes call ent) (of_src x) s = src_get_f fops nodes call x s) /\
  (forall (x : src) (v : Z),
  IValue_set_value (D_src_f fops nodes call ent) (of_src x) v s = src_set_f fops nodes call x v s) /\
  (forall x : src, IValue_is_readable (D_src_i fops nodes call ent) (of_src x) s = src_readable nodes call x s) /\
  (forall x : src, IValue_is_readable (D_src_f fops nodes call ent) (of_src x) s = src_readable nodes call x s) /\
  (forall x : isrc, IValue_value (D_isrc_i fops nodes call ent) (of_isrc x) s = isrc_get_i fops nodes call x s) /\
  (forall x : isrc, IValue_value (D_isrc_f fops nodes call ent) (of_isrc x) s = isrc_get_f fops nodes call x s) /\
  (forall z v : Z,
  IValue_set_value (D_isrc_i fops nodes call ent) (of_isrc (IImm z)) v s = (Err E_NOT_WRITABLE, s)).
Proof. exact immorpnode_from_source. Qed.
Print Assumptions C03_immorpnode_from_source.

(* IValue for ValueKind (Value / PValue / PIndex arms) is vk_get_i / vk_set_i / vk_get_f / vk_set_f / vk_readable for every ValueKind of the model (any number of copies and indexed values) *)
Theorem C03_valuekind_from_source :
  forall (fops : float_ops) (nodes : list node) (call : req -> M ans) (ent : nat -> option eentry)
  (v : vkind) (s : state),
  (IValue_value (D_vk_i fops nodes call ent) (of_vk v) s = vk_get_i fops nodes call v s /\
  (forall x : Z, IValue_set_value (D_vk_i fops nodes call ent) (of_vk v) x s = vk_set_i fops nodes call v x s)) /\
  (IValue_value (D_vk_f fops nodes call ent) (of_vk v) s = vk_get_f fops nodes call v s /\
  (forall x : Z, IValue_set_value (D_vk_f fops nodes call ent) (of_vk v) x s = vk_set_f fops nodes call v x s)) /\
  IValue_is_readable (D_vk_i fops nodes call ent) (of_vk v) s = vk_readable nodes call v s /\
  IValue_is_readable (D_vk_f fops nodes call ent) (of_vk v) s = vk_readable nodes call v s.
Proof. exact valuekind_from_source. Qed.
Print Assumptions C03_valuekind_from_source.

(* IValue for PValue: value from pValue; set_value to pValue and then every pValueCopy in order (mfold), for lists of any length *)
Theorem C03_pvalue_copies_from_source :
  forall (fops : float_ops) (nodes : list node) (call : req -> M ans) (ent : nat -> option eentry)
  (p : nat) (cs : list nat) (s : state),
  (forall v : Z,
  IValue_set_value (src_PValue_IValue (Ty:=nat) (D_ni fops nodes call ent))
  {| PValue_p_value := p; PValue_p_value_copies := cs |} v s =
  (let! _ := nid_set_i fops nodes call p v in mfold (fun c : nat => nid_set_i fops nodes call c v) cs) s) /\
  (forall v : Z,
  IValue_set_value (src_PValue_IValue (Ty:=nat) (D_nf fops nodes call ent))
  {| PValue_p_value := p; PValue_p_value_copies := cs |} v s =
  (let! _ := nid_set_f fops nodes call p v in mfold (fun c : nat => nid_set_f fops nodes call c v) cs) s) /\
  IValue_value (src_PValue_IValue (Ty:=nat) (D_ni fops nodes call ent))
  {| PValue_p_value := p; PValue_p_value_copies := cs |} s = nid_get_i fops nodes call p s /\
  IValue_value (src_PValue_IValue (Ty:=nat) (D_nf fops nodes call ent))
  {| PValue_p_value := p; PValue_p_value_copies := cs |} s = nid_get_f fops nodes call p s.
Proof. exact pvalue_copies_from_source. Qed.
Print Assumptions C03_pvalue_copies_from_source.

(* IValue for PIndex and PIndex::index: the index through expect_iinteger_kind, then the model's pindex_pick *)
Theorem C03_pindex_from_source :
  forall (fops : float_ops) (nodes : list node) (call : req -> M ans) (ent : nat -> option eentry)
  (idx : nat) (ents : list (Z * src)) (d : src) (s : state),
  let x :=
  {| PIndex_p_index := idx; PIndex_value_indexed := map of_ent ents; PIndex_value_default := of_src d |} in
  src_PIndex_index (EV fops nodes call ent) x s = pindex_index nodes call idx s /\
  IValue_value
  (src_PIndex_IValue (EV fops nodes call ent) (D_ii fops nodes call ent) (D_src_i fops nodes call ent)) x s =
  (let! i := pindex_index nodes call idx in src_get_i fops nodes call (pindex_pick i ents d)) s /\
  (forall v : Z,
  IValue_set_value
  (src_PIndex_IValue (EV fops nodes call ent) (D_ii fops nodes call ent) (D_src_i fops nodes call ent)) x v s =
  (let! i := pindex_index nodes call idx in src_set_i fops nodes call (pindex_pick i ents d) v) s) /\
  IValue_value
  (src_PIndex_IValue (EV fops nodes call ent) (D_ff fops nodes call ent) (D_src_f fops nodes call ent)) x s =
  (let! i := pindex_index nodes call idx in src_get_f fops nodes call (pindex_pick i ents d)) s /\
  (forall v : Z,
  IValue_set_value
  (src_PIndex_IValue (EV fops nodes call ent) (D_ff fops nodes call ent) (D_src_f fops nodes call ent)) x v s =
  (let! i := pindex_index nodes call idx in src_set_f fops nodes call (pindex_pick i ents d) v) s).
Proof. exact pindex_from_source. Qed.
Print Assumptions C03_pindex_from_source.

(* value / set_value / min / max of IntegerNode translated from integer.rs are the NInteger clauses of step *)
Theorem C03_integer_from_source :
  forall (fops : float_ops) (nodes : list node) (call : req -> M ans) (ent : nat -> option eentry)
  (n : nat) (v : vkind) (mn mx : src) (inc : isrc) (s : state) (x : Z),
  body_of nodes n = NInteger v mn mx inc ->
  step fops nodes call (QIntValue n) s =
  (let! r := src_IntegerNode_value (EV fops nodes call ent) (integer_node n v mn mx) in mret (AZ r)) s /\
  step fops nodes call (QIntSet n x) s =
  (let! _ := src_IntegerNode_set_value (EV fops nodes call ent) (integer_node n v mn mx) x in mret AUnit) s /\
  step fops nodes call (QIntMin n) s =
  (let! r := src_IntegerNode_min (EV fops nodes call ent) (integer_node n v mn mx) in mret (AZ r)) s /\
  step fops nodes call (QIntMax n) s =
  (let! r := src_IntegerNode_max (EV fops nodes call ent) (integer_node n v mn mx) in mret (AZ r)) s.
Proof. exact integer_node_src. Qed.
Print Assumptions C03_integer_from_source.

(* value / set_value / min / max of FloatNode translated from float.rs are the NFloat clauses of step *)
Theorem C03_float_from_source :
  forall (fops : float_ops) (nodes : list node) (call : req -> M ans) (ent : nat -> option eentry)
  (n : nat) (v : vkind) (mn mx : src) (inc : option isrc) (s : state) (x : Z),
  body_of nodes n = NFloat v mn mx inc ->
  step fops nodes call (QFltValue n) s =
  (let! r := src_FloatNode_value (EV fops nodes call ent) (float_node n v mn mx) in mret (AZ r)) s /\
  step fops nodes call (QFltSet n x) s =
  (let! _ := src_FloatNode_set_value (EV fops nodes call ent) (float_node n v mn mx) x in mret AUnit) s /\
  step fops nodes call (QFltMin n) s =
  (let! r := src_FloatNode_min (EV fops nodes call ent) (float_node n v mn mx) in mret (AZ r)) s /\
  step fops nodes call (QFltMax n) s =
  (let! r := src_FloatNode_max (EV fops nodes call ent) (float_node n v mn mx) in mret (AZ r)) s.
Proof. exact float_node_src. Qed.
Print Assumptions C03_float_from_source.

(* value / set_value of BooleanNode translated from boolean.rs (On / Off both ways, InvalidNode for neither) are the NBoolean clauses of step *)
Theorem C03_boolean_from_source :
  forall (fops : float_ops) (nodes : list node) (call : req -> M ans) (ent : nat -> option eentry)
  (n : nat) (v : src) (on off : Z) (s : state) (b : bool),
  body_of nodes n = NBoolean v on off ->
  step fops nodes call (QBoolValue n) s =
  (let! r := src_BooleanNode_value (EV fops nodes call ent) (boolean_node n v on off) in mret (AB r)) s /\
  step fops nodes call (QBoolSet n b) s =
  (let! _ := src_BooleanNode_set_value (EV fops nodes call ent) (boolean_node n v on off) b in mret AUnit) s.
Proof. exact boolean_node_src. Qed.
Print Assumptions C03_boolean_from_source.

(* current_value / set_entry_by_value of EnumerationNode translated from enumeration.rs (entry lookup over any number of entries) are the NEnumeration clauses of step; ent gives the EnumEntry node behind an id *)
Theorem C03_enumeration_from_source :
  forall (fops : float_ops) (nodes : list node) (call : req -> M ans) (ent : nat -> option eentry)
  (n : nat) (ents : list eentry) (ids : list nat) (v : src) (s : state) (x : Z),
  body_of nodes n = NEnumeration ents v ->
  map ent ids = map Some ents ->
  step fops nodes call (QEnumValue n) s =
  (let! r := src_EnumerationNode_current_value (EV fops nodes call ent) (enumeration_node n ids v)
  in mret (AZ r)) s /\
  step fops nodes call (QEnumSet n x) s =
  (let! _ := src_EnumerationNode_set_entry_by_value (EV fops nodes call ent) (enumeration_node n ids v) x
  in mret AUnit) s.
Proof. exact enumeration_node_src. Qed.
Print Assumptions C03_enumeration_from_source.

(* execute / is_done of CommandNode translated from command.rs are the NCommand clauses of step *)
Theorem C03_command_from_source :
  forall (fops : float_ops) (nodes : list node) (call : req -> M ans) (ent : nat -> option eentry)
  (n : nat) (v cv : src) (s : state),
  body_of nodes n = NCommand v cv ->
  step fops nodes call (QCmdExec n) s =
  (let! _ := src_CommandNode_execute (EV fops nodes call ent) (command_node n v cv) in mret AUnit) s /\
  step fops nodes call (QCmdDone n) s =
  (let! r := src_CommandNode_is_done (EV fops nodes call ent) (command_node n v cv) in mret (AB r)) s.
Proof. exact command_node_src. Qed.
Print Assumptions C03_command_from_source.

(* with the requests to other nodes answered by the model's evaluator at fuel f, the translated node methods are the model's evaluator at fuel S f *)
Theorem C03_run_from_source :
  forall (fops : float_ops) (nodes : list node) (ent : nat -> option eentry) (f n : nat) (s : state),
  (forall (v : vkind) (mn mx : src) (inc : isrc) (x : Z),
  body_of nodes n = NInteger v mn mx inc ->
  let E := EV fops nodes (run fops nodes f) ent in
  run fops nodes (S f) (QIntValue n) s =
  (let! r := src_IntegerNode_value E (integer_node n v mn mx) in mret (AZ r)) s /\
  run fops nodes (S f) (QIntSet n x) s =
  (let! _ := src_IntegerNode_set_value E (integer_node n v mn mx) x in mret AUnit) s) /\
  (forall (v : vkind) (mn mx : src) (inc : option isrc) (x : Z),
  body_of nodes n = NFloat v mn mx inc ->
  let E := EV fops nodes (run fops nodes f) ent in
  run fops nodes (S f) (QFltValue n) s =
  (let! r := src_FloatNode_value E (float_node n v mn mx) in mret (AZ r)) s /\
  run fops nodes (S f) (QFltSet n x) s =
  (let! _ := src_FloatNode_set_value E (float_node n v mn mx) x in mret AUnit) s) /\
  (forall (v : src) (on off : Z) (b : bool),
  body_of nodes n = NBoolean v on off ->
  let E := EV fops nodes (run fops nodes f) ent in
  run fops nodes (S f) (QBoolValue n) s =
  (let! r := src_BooleanNode_value E (boolean_node n v on off) in mret (AB r)) s /\
  run fops nodes (S f) (QBoolSet n b) s =
  (let! _ := src_BooleanNode_set_value E (boolean_node n v on off) b in mret AUnit) s) /\
  (forall (ents : list eentry) (ids : list nat) (v : src) (x : Z),
  body_of nodes n = NEnumeration ents v ->
  map ent ids = map Some ents ->
  let E := EV fops nodes (run fops nodes f) ent in
  run fops nodes (S f) (QEnumValue n) s =
  (let! r := src_EnumerationNode_current_value E (enumeration_node n ids v) in mret (AZ r)) s /\
  run fops nodes (S f) (QEnumSet n x) s =
  (let! _ := src_EnumerationNode_set_entry_by_value E (enumeration_node n ids v) x in mret AUnit) s) /\
  (forall v cv : src,
  body_of nodes n = NCommand v cv ->
  let E := EV fops nodes (run fops nodes f) ent in
  run fops nodes (S f) (QCmdExec n) s =
  (let! _ := src_CommandNode_execute E (command_node n v cv) in mret AUnit) s /\
  run fops nodes (S f) (QCmdDone n) s =
  (let! r := src_CommandNode_is_done E (command_node n v cv) in mret (AB r)) s).
Proof. exact run_from_source. Qed.
Print Assumptions C03_run_from_source.

(* on the translated code alone, for ANY dictionary: set_value through a PValue writes the main target first and then every copy in declaration order, stopping at the first failure *)
Theorem C03_pvalue_write_order_of_source :
  forall (T Ty : Type) (D : src_IValue T nat) (p : nat) (cs : list nat) (v : T) (s : state),
  IValue_set_value (src_PValue_IValue (Ty:=Ty) D) {| PValue_p_value := p; PValue_p_value_copies := cs |} v s =
  writes_in_order D v (p :: cs) s.
Proof. exact pvalue_write_order_of_source. Qed.
Print Assumptions C03_pvalue_write_order_of_source.

(* on the translated code alone, for ANY dictionaries: a PIndex evaluates the index first and then uses the FIRST indexed value with that index, the default only if there is none *)
Theorem C03_pindex_first_match_of_source :
  forall (fops : float_ops) (nodes : list node) (call : req -> M ans) (ent : nat -> option eentry)
  (T Ty : Type) (D1 : src_IValue T Ty) (D2 : src_IValue T (src_ImmOrPNode Ty)) (x : src_PIndex Ty)
  (s : state),
  let E := EV fops nodes call ent in
  IValue_value (src_PIndex_IValue E D1 D2) x s =
  (let! i := src_PIndex_index E x
  in IValue_value D2 (first_match i (PIndex_value_indexed x) (PIndex_value_default x))) s /\
  (forall v : T,
  IValue_set_value (src_PIndex_IValue E D1 D2) x v s =
  (let! i := src_PIndex_index E x
  in IValue_set_value D2 (first_match i (PIndex_value_indexed x) (PIndex_value_default x)) v) s).
Proof. exact pindex_first_match_of_source. Qed.
Print Assumptions C03_pindex_first_match_of_source.

(* on the translated code alone: BooleanNode::value is true for OnValue (also when OnValue = OffValue), false for OffValue, InvalidNode otherwise, in the state the read of the value left *)
Theorem C03_boolean_value_of_source :
  forall (fops : float_ops) (nodes : list node) (call : req -> M ans) (ent : nat -> option eentry)
  (nd : src_BooleanNode) (s : state),
  src_BooleanNode_value (EV fops nodes call ent) nd s =
  (let (o, s') := IValue_value (D_src_i fops nodes call ent) (BooleanNode_value nd) s in
  match o with
  | Ok x =>
  if x =? BooleanNode_on_value nd
  then (Ok true, s')
  else if x =? BooleanNode_off_value nd then (Ok false, s') else (Err Mem.E_INVALID_NODE, s')
  | Err e => (Err e, s')
  | Panic => (Panic, s')
  end).
Proof. exact boolean_value_of_source. Qed.
Print Assumptions C03_boolean_value_of_source.

(* on the translated code alone: set_entry_by_value with a value no entry has is InvalidData and leaves the state unchanged *)
Theorem C03_enumeration_reject_of_source :
  forall (fops : float_ops) (nodes : list node) (call : req -> M ans) (ent : nat -> option eentry)
  (n : nat) (ents : list eentry) (ids : list nat) (v : src) (x : Z) (s : state),
  map ent ids = map Some ents ->
  (forall e : eentry, In e ents -> ee_val e <> x) ->
  src_EnumerationNode_set_entry_by_value (EV fops nodes call ent) (enumeration_node n ids v) x s =
  (Err Mem.E_INVALID_DATA, s).
Proof. exact enumeration_reject_of_source. Qed.
Print Assumptions C03_enumeration_reject_of_source.

(* non-vacuity (vm_compute): the translated IntegerNode::set_value / value on a concrete store with a pIndex over a pValue with a copy *)
Theorem C03_source_example :
  forall fops : float_ops,
  let E := EV fops ex_src_nodes (run fops ex_src_nodes 4) (fun _ : nat => None) in
  let r :=
  src_IntegerNode_set_value E
  (integer_node 3 (VPIndex 1 [(5, SImm 1); (0, SNode 2); (0, SImm 1)] (SImm 1)) (SImm 2) (SImm 2)) 7
  ex_src_state in
  fst r = Ok tt /\
  s_vals (snd r) = [VI 7; VI 50; VI 9] /\
  d_log (s_dev (snd r)) = [WrAcc 256 [7; 0]] /\
  fst
  (src_IntegerNode_value E
  (integer_node 3 (VPIndex 1 [(5, SImm 1); (0, SNode 2); (0, SImm 1)] (SImm 1)) (SImm 2) (SImm 2))
  (snd r)) = Ok 50.
Proof. exact source_example. Qed.
Print Assumptions C03_source_example.
