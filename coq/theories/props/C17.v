(* C17 — Parsing preserves every declared node, property, default and reference.  Statements only; proofs in
   proofs/P_C17.v.

   Model: model/GenApiParse.v (genapi/src/parser/*.rs after the "fix:" commits 70ffa75 and fb880c0) over element
   trees [xml]; [render] turns a declared node ([snode], records in mode [Src]: optional elements are options,
   numbers carry their written form) into elements in schema order; [normalise] / [n_*] is what the accessors
   must report (records in mode [Par], schema defaults filled in).
   Vocabulary (P_C17.v): [wf_i64 / wf_u64 / wf_h64] the literal's value is inside the type (hexadecimal forms:
   non-negative); [wf_f] a float text other than INF / -INF is handed to the float parser, [sniff_f] it is "NaN"
   or does not start with a letter; [ident] starts with an ASCII letter, [ident_f] additionally is not INF / NaN,
   [ident_b] is none of Yes / No / true / false; [leaf p sh nm ok] parser p reads nm x back from the element
   holding the text sh x; [ileaf] the same for the ImmOrPNode sniffing parsers, literals and references;
   [hn ts k] the next element of k (if any) carries none of the tags ts; [wf_snode] the well-formedness of a
   declared node of the kinds Node, Category, Integer, Boolean, Command, Float, String, Port;
   [twin_src s e] the MaskedIntReg declaration equivalent to entry e of structure s (entry's element if present,
   else the structure's, pInvalidator and pError included); [limited s e] the KNOWN limitation: e spells out the
   schema default of Visibility / IsDeprecated / ImposedAccessMode / AccessMode / Cachable / Streamable while s
   declares another value; [seq_results] the children parsed one after the other.
   Second part (P_C17b.v): [wf_node] the well-formedness of a declared node of ANY kind the code parses (all 20
   constructors of [snode]: Node, Category, Integer, IntReg, MaskedIntReg, Boolean, Command, Enumeration with its
   entries, Float, FloatReg, String, StringReg, Register, Converter, IntConverter, SwissKnife, IntSwissKnife, Port,
   StructReg with its entries - outside the known limitation -, Group of such nodes, nested; formula and
   expression texts are opaque strings at this level, formula::parse is property C05): literal values inside their types, sniffed references
   are identifiers, a register's element base carries no pInvalidator; [expect fresh n] what parsing n must
   produce: the nodes stored on the way (embedded swiss knives, enum entries named $symbolic_freshid), the
   normalised node(s) handed to the caller (a StructReg: its MaskedIntReg twins [twin_src]), the invalidator
   registrations (every pInvalidator of a register, in order), the next fresh id; [declared n] the (name, kind)
   pairs n declares; [rb_tags] Cachable, PollingTime, pInvalidator; [doc_nodes ns] / [doc_invs ns] the nodes /
   registrations expected for the document with top-level nodes ns; [find_node name l] first node of l with
   that name.
   Third part (P_C17c.v): [texts ch] the text nodes of a child list in order; [only_noise l] l consists of
   comments and processing instructions only; [scattered pieces gaps tail] the pieces of a text with the noise
   [gaps] before each piece and [tail] at the end; [norm c] the child list c with every comment and processing
   instruction removed and adjacent text nodes glued, at every depth. *)
From Cam Require Import Outcome GenApiParse P_C17 P_C17b P_C17c P_C17d.
From Coq Require Import Permutation.

(* decimal and 0x / 0X hexadecimal literals (both digit cases) of every value of the type convert back to the
   value; bare hexadecimal (EventID, ChunkID) likewise; Yes / No / true / false; INF, -INF, NaN and every other
   float text reach the float parser unchanged *)
Theorem C17_literals :
  ((forall z, I64_MIN <= z <= I64_MAX -> convert_to_int (print_dec z) = Ok z) /\
   (forall z (px : bool) dg, 0 <= z <= I64_MAX -> convert_to_int (48 :: (if px then 88 else 120) :: print_nat dg 16 z) = Ok z) /\
   (forall z, 0 <= z <= U64_MAX -> convert_to_uint (print_dec z) = Ok z) /\
   (forall z (px : bool) dg, 0 <= z <= U64_MAX -> convert_to_uint (48 :: (if px then 88 else 120) :: print_nat dg 16 z) = Ok z) /\
   (forall z up, 0 <= z <= U64_MAX -> from_str_radix false 16 (print_nat up 16 z) = Ok z)) /\
  ((forall l, convert_to_bool (sh_blit l) = Ok (bl_val l)) /\
   convert_to_f64 L_INF = FvInf /\ convert_to_f64 L_NegINF = FvNegInf /\ convert_to_f64 L_NaN = FvText L_NaN /\
   (forall f, wf_f f -> convert_to_f64 (sh_fval f) = f)).
Proof. exact (conj literals_int literals_other). Qed.
Print Assumptions C17_literals.

(* the ImmOrPNode sniffing classifies every rendered literal as immediate and every identifier as a reference
   (integers, floats, booleans), whatever the tag and the attributes of the element *)
Theorem C17_sniffing :
  ileaf p_imm_i64 sh_ilit il_val wf_i64 ident /\
  ileaf p_imm_f64 sh_fval (fun x => x) wf_fs ident_f /\
  ileaf p_imm_bool sh_blit bl_val tt_ok ident_b.
Proof. exact (conj ileaf_i64 (conj ileaf_f64 ileaf_bool)). Qed.
Print Assumptions C17_sniffing.

(* NodeAttributeBase and NodeElementBase (shared by every node kind): every declared attribute and element,
   present or absent, is read back with the schema default when absent; what follows is left untouched *)
Theorem C17_bases : forall a e k,
  parse_attr (r_attr a) = Ok (n_attr a) /\
  (wf_eb e -> hn eb_tags k -> p_eb (r_eb e k) = Ok (n_eb e, k)).
Proof. intros a e k. exact (conj (parse_attr_rt a) (p_eb_rt e k)). Qed.
Print Assumptions C17_bases.

(* ValueKind (Value | pValueCopy* pValue pValueCopy* | pIndex (ValueIndexed | pValueIndexed)* default), for any
   literal type: copies before and after pValue are kept in order, every index and indexed value is kept *)
Theorem C17_value_kind : forall (L L' : Type) (pT : P L') pimm (sh : L -> str) (nm : L -> L') okL okN v k,
  leaf pT sh nm okL -> ileaf pimm sh nm okL okN -> wf_vk okL okN v -> hn [T_pValueCopy] k ->
  p_vkind pT pimm (r_vk sh v k) = Ok (n_vk nm v, k).
Proof. exact @p_vkind_rt. Qed.
Print Assumptions C17_value_kind.

(* round trip for the node kinds built on the element base: the rendered declaration is parsed into exactly the
   normalised node, nothing else is stored or registered, the fresh-id counter is untouched.  (_partial: the
   register kinds, Enumeration, IntSwissKnife and StructReg documents are tied to the model by the
   correspondence only) *)
Theorem C17_roundtrip_partial : forall fixed fresh n, wf_snode n ->
  parse_node fixed fresh (render n) = Ok (mkPres [] (normalise n) [] fresh).
Proof. exact roundtrip_partial. Qed.
Print Assumptions C17_roundtrip_partial.

(* ... and the stored node carries the declared name and kind *)
Theorem C17_names_retrievable_partial : forall n, wf_snode n ->
  exists d, normalise n = [d] /\ nd_name d = declared_name n /\ kind_code d = declared_kind n.
Proof. exact names_partial. Qed.
Print Assumptions C17_names_retrievable_partial.

(* a StructReg is desugared into exactly the MaskedIntReg twins "entry's element if present, else the
   structure's", for every mergeable property including pInvalidator and pError, outside the known limitation *)
Theorem C17_struct_desugar : forall s,
  eb_invs (rb_eb (st_rb s)) = [] -> Forall (fun e => limited s e = false) (st_entries s) ->
  into_masked_int_regs true (n_struct s) = map (fun e => n_masked (twin_src s e)) (st_entries s).
Proof. exact struct_desugar. Qed.
Print Assumptions C17_struct_desugar.

(* the pinned code: structure pInvalidator X, entry E0 pInvalidator Y, entry E1 none -> neither entry has an
   invalidator and nothing is registered; after 70ffa75: [Y] and [X], both registered *)
Theorem C17_struct_v0_refuted :
  exists s, wf_eb (rb_eb (st_rb s)) /\
    (forall p, parse_node false 0 (render (SnStructReg s)) = Ok p ->
       map (fun d => match d with NdMaskedIntReg m => rb_invs (mr_rb m) | _ => [[0]] end) (pr_ret p) = [[]; []] /\
       pr_invs p = []) /\
    (exists p, parse_node false 0 (render (SnStructReg s)) = Ok p) /\
    (exists p, parse_node true 0 (render (SnStructReg s)) = Ok p /\
       map (fun d => match d with NdMaskedIntReg m => rb_invs (mr_rb m) | _ => [[0]] end) (pr_ret p) = [[[89]]; [[88]]] /\
       pr_invs p = [([89], [69; 48]); ([88], [69; 49])]).
Proof. exact struct_v0_refuted. Qed.
Print Assumptions C17_struct_v0_refuted.

(* the pinned TextView::view: an empty element panics, a comment-only element reports the comment *)
Theorem C17_text_view_v0_refuted : text_view_v0 [] = Panic /\ (forall s, text_view_v0 [Comment s] = Ok s).
Proof. exact text_view_v0_refuted. Qed.
Print Assumptions C17_text_view_v0_refuted.

(* a Group hands back what its element children produce one after the other: the same nodes (as a multiset:
   nodes stored on the way come first), the same invalidator registrations in the same order, the same fresh-id
   counter; and the members declared at top level are stored child by child in that order *)
Theorem C17_group_flat : forall fixed,
  (forall fresh attrs ch p, parse_node fixed fresh (Elem T_Group attrs ch) = Ok p ->
     exists rs, seq_results fixed fresh ch = Ok rs /\
       Permutation (pr_stored p ++ pr_ret p) (List.concat (map (fun q => pr_stored q ++ pr_ret q) rs)) /\
       pr_invs p = List.concat (map pr_invs rs) /\
       pr_fresh p = fold_left (fun _ q => pr_fresh q) rs fresh) /\
  (forall c fresh st rs, seq_results fixed fresh c = Ok rs ->
     parse_children fixed c fresh st =
     (let? ns := store_all (s_nodes st) (List.concat (map (fun q => pr_stored q ++ pr_ret q) rs)) in
      Ok (mkStore ns (s_invs st ++ List.concat (map pr_invs rs))))).
Proof. intros fixed. exact (conj (group_flat fixed) (children_seq fixed)). Qed.
Print Assumptions C17_group_flat.

(* RegisterBase: element base, Streamable, every address kind in order (Address / pAddress, embedded IntSwissKnife -
   stored as a node of its own -, pIndex with Offset / pOffset), Length / pLength, AccessMode, pPort, Cachable,
   PollingTime, pInvalidator*, with the defaults No / RO / WriteThrough; what follows is left untouched *)
Theorem C17_register_base : forall r k, wf_rb r -> hn rb_tags k -> p_rb (r_rb r k) = Ok ((n_rb r, rb_nodes r), k).
Proof. exact p_rb_rt. Qed.
Print Assumptions C17_register_base.

(* round trip for EVERY node kind the code parses (mod.rs dispatch; the code after 70ffa75): parsing the rendered declaration produces exactly
   the expected nodes, registrations and fresh id; for a StructReg these are the MaskedIntReg twins of
   C17_struct_desugar, for a Group what its members produce in sequence *)
Theorem C17_roundtrip : forall n fresh, wf_node n -> parse_node true fresh (render n) = Ok (expect fresh n).
Proof. exact roundtrip_all. Qed.
Print Assumptions C17_roundtrip.

(* the nodes handed to the store carry exactly the declared names and kinds (StructReg: one MaskedIntReg per
   entry; Group: those of its members), and enumeration entries are reachable through their enumeration: its
   entry list names exactly the stored entry nodes, whose symbolic names are the declared ones *)
Theorem C17_names_retrievable :
  (forall n fresh, map name_kind (pr_ret (expect fresh n)) = declared n) /\
  (forall fresh x,
     en_entries (n_enumeration fresh x) = map nd_name (pr_stored (expect fresh (SnEnumeration x))) /\
     map (fun e => ee_symbolic e) (n_enumentries fresh (en_entries x)) = map (fun e => a_name (ee_attr e)) (en_entries x)).
Proof. exact (conj names_all enum_entries_retrievable). Qed.
Print Assumptions C17_names_retrievable.

(* the document: for well-formed top-level nodes whose expected node names are pairwise distinct, the build
   succeeds with exactly the expected store (store_node never hits an occupied slot) and registrations; looking a
   stored node up by its name gives that node; every declared (name, kind) is found under that name with that kind *)
Theorem C17_document : forall attrs rd ns,
  parse_regdesc attrs = Ok rd -> Forall wf_node ns -> NoDup (map nd_name (doc_nodes ns)) ->
  parse_doc true (Elem T_RegisterDescription attrs (map render ns)) = Ok (rd, mkStore (doc_nodes ns) (doc_invs ns)) /\
  (forall d, In d (doc_nodes ns) -> find_node (nd_name d) (doc_nodes ns) = Some d) /\
  (forall n name kind, In n ns -> In (name, kind) (declared n) ->
     exists d, find_node name (doc_nodes ns) = Some d /\ nd_name d = name /\ kind_code d = kind).
Proof. exact document. Qed.
Print Assumptions C17_document.

(* non-vacuity of C17_document: a structure with invalidators on the structure and on an entry, its port and an
   integer with pValueCopy / pMax / hexadecimal Inc meet every hypothesis *)
Theorem C17_document_example :
  exists rd, parse_regdesc example_attrs = Ok rd /\ Forall wf_node example_nodes /\
    NoDup (map nd_name (doc_nodes example_nodes)) /\ List.length (doc_nodes example_nodes) = 4%nat /\
    doc_invs example_nodes = [([89], [69; 48]); ([88], [69; 49])].
Proof. exact document_example. Qed.
Print Assumptions C17_document_example.

(* TextView::view (after fb880c0): the text of an element is the concatenation of ALL its text nodes, however many,
   whatever comments, processing instructions or elements stand between, before or after them *)
Theorem C17_text_view_all :
  (forall ch, text_of ch = List.concat (texts ch)) /\
  (forall pieces gaps tail, Forall only_noise gaps -> only_noise tail ->
     text_of (scattered pieces gaps tail) = List.concat pieces).
Proof. exact (conj text_of_all text_of_scattered). Qed.
Print Assumptions C17_text_view_all.

(* comments and processing instructions are ignored everywhere: a document whose normal form builds, builds to the
   same description and store as it stands; in particular a rendered document with comments / processing
   instructions inserted anywhere (between elements, at any positions inside element texts - any number of them -,
   inside nested elements) builds to the expected store of C17_document *)
Theorem C17_comments_ignored :
  (forall fixed t a ch r, parse_doc fixed (Elem t a (norm ch)) = Ok r -> parse_doc fixed (Elem t a ch) = Ok r) /\
  (forall attrs rd ns ch, norm ch = map render ns ->
     parse_regdesc attrs = Ok rd -> Forall wf_node ns -> NoDup (map nd_name (doc_nodes ns)) ->
     parse_doc true (Elem T_RegisterDescription attrs ch) = Ok (rd, mkStore (doc_nodes ns) (doc_invs ns))).
Proof. exact (conj comments_ignored comments_ignored_document). Qed.
Print Assumptions C17_comments_ignored.

(* non-vacuity: <Value>1<!--a-->2<?b?>3<!----></Value> inside an Integer surrounded by noise is the declaration
   Value = 123 *)
Theorem C17_comments_ignored_example :
  norm interrupted_example = map render [SnInteger interrupted_integer] /\
  Forall wf_node [SnInteger interrupted_integer] /\
  NoDup (map nd_name (doc_nodes [SnInteger interrupted_integer])) /\
  i_value (n_integer interrupted_integer) = VkValue 123.
Proof. exact interrupted_example_ok. Qed.
Print Assumptions C17_comments_ignored_example.

(* the formula-carrying kinds on their own: Converter (FormulaTo / FormulaFrom / pValue, Slope, IsLinear, display
   properties), IntConverter, SwissKnife, IntSwissKnife; pVariable / Constant / Expression lists with their Name
   attributes in order, constants as i64 / f64 literals, formula and expression texts unchanged *)
Theorem C17_roundtrip_formula_kinds : forall fixed fresh,
  (forall n, wf_fconv n -> parse_node fixed fresh (render (SnConverter n)) = Ok (pres1 fresh (NdConverter (n_fconv n)))) /\
  (forall n, wf_iconv n -> parse_node fixed fresh (render (SnIntConverter n)) = Ok (pres1 fresh (NdIntConverter (n_iconv n)))) /\
  (forall n, wf_fswiss n -> parse_node fixed fresh (render (SnSwissKnife n)) = Ok (pres1 fresh (NdSwissKnife (n_fswiss n)))) /\
  (forall n, wf_iswiss n -> parse_node fixed fresh (render (SnIntSwissKnife n)) = Ok (pres1 fresh (NdIntSwissKnife (n_iswiss n)))).
Proof. exact roundtrip_formula_kinds. Qed.
Print Assumptions C17_roundtrip_formula_kinds.

(* ... and the stored node carries the declared name and kind, the declared pValue reference, the formula texts and
   the variable / constant / expression lists *)
Theorem C17_names_formula_kinds :
  (forall n, name_kind (NdConverter (n_fconv n)) = (a_name (fc_attr n), 14) /\
             fc_pvalue (n_fconv n) = fc_pvalue n /\ fc_to (n_fconv n) = fc_to n /\ fc_from (n_fconv n) = fc_from n /\
             fc_vars (n_fconv n) = fc_vars n /\ fc_consts (n_fconv n) = fc_consts n /\ fc_exprs (n_fconv n) = fc_exprs n) /\
  (forall n, name_kind (NdIntConverter (n_iconv n)) = (a_name (ic_attr n), 15) /\
             ic_pvalue (n_iconv n) = ic_pvalue n /\ ic_to (n_iconv n) = ic_to n /\ ic_from (n_iconv n) = ic_from n /\
             ic_vars (n_iconv n) = ic_vars n /\ ic_exprs (n_iconv n) = ic_exprs n) /\
  (forall n, name_kind (NdSwissKnife (n_fswiss n)) = (a_name (fk_attr n), 16) /\
             fk_formula (n_fswiss n) = fk_formula n /\ fk_vars (n_fswiss n) = fk_vars n /\
             fk_consts (n_fswiss n) = fk_consts n /\ fk_exprs (n_fswiss n) = fk_exprs n) /\
  (forall n, name_kind (NdIntSwissKnife (n_iswiss n)) = (a_name (sk_attr n), 17) /\
             sk_formula (n_iswiss n) = sk_formula n /\ sk_vars (n_iswiss n) = sk_vars n /\ sk_exprs (n_iswiss n) = sk_exprs n).
Proof. exact names_formula_kinds. Qed.
Print Assumptions C17_names_formula_kinds.

(* non-vacuity: a Converter with two variables, a float constant, an expression, hexadecimal DisplayPrecision,
   Slope Varying and IsLinear Yes *)
Theorem C17_formula_example :
  wf_fconv example_converter /\
  exists p, parse_node true 0 (render (SnConverter example_converter)) = Ok p /\
    map (fun d => match d with
                  | NdConverter c => (fc_pvalue c, slope_ord (fc_slope c), fc_linear c, fc_dprec c, List.length (fc_vars c))
                  | _ => ([], -1, false, -1, O) end) (pr_ret p) = [([86], 2, true, 10, 2%nat)].
Proof. exact formula_example. Qed.
Print Assumptions C17_formula_example.

(* the literal / reference decision at every ImmOrPNode site (pMin / pMax / pInc / pValueIndexed / pValueDefault /
   pValue / pLength / pAddress / pCommandValue ...), whatever the tag and attributes: a legal node name starting
   with a letter is a reference to that name at integer sites; at float sites unless it is spelled exactly INF or
   NaN (so inf, Infinity, nan, NAN, e5 ... are references); at boolean sites unless it is Yes / No / true / false *)
Theorem C17_reference_decision : forall name tag attrs k, ident name ->
  p_imm_i64 (Elem tag attrs (txt name) :: k) = Ok (PNode name, k) /\
  (str_eqb name L_INF = false -> str_eqb name L_NaN = false ->
   p_imm_f64 (Elem tag attrs (txt name) :: k) = Ok (PNode name, k)) /\
  (convert_to_bool_opt name = None -> p_imm_bool (Elem tag attrs (txt name) :: k) = Ok (PNode name, k)).
Proof. exact reference_decision. Qed.
Print Assumptions C17_reference_decision.

(* ... instantiated on the names a sloppy "is it a number?" test would misread (inf, Inf, INFINITY, Infinity,
   infinity, nan, NAN, Nan, NaNx, INFx, e5, E10, x0, xFF, OxFF, True, False, Yes, No, true, false, On, Off): each is a
   reference at the integer and float sites, and at the boolean site unless it is one of the four boolean words *)
Theorem C17_reference_decision_pool :
  List.forallb (fun n => is_ref (p_imm_i64 [Elem T_pMin [] [Text n]]) n &&
                         is_ref (p_imm_f64 [Elem T_pMax [] [Text n]]) n &&
                         (mem_str n bool_words || is_ref (p_imm_bool [Elem T_pValue [] [Text n]]) n)) name_pool = true.
Proof. exact pool_decision. Qed.
Print Assumptions C17_reference_decision_pool.

(* KNOWN finding (the code decides by the text, not by the tag): a node legally named INF / NaN referenced from a
   float site, or Yes / No / true / false from a Boolean pValue, is read as the literal; a name starting with an
   underscore is read as a numeral (panic) *)
Theorem C17_literal_named_nodes_refuted :
  p_imm_f64 [Elem T_pMax [] [Text L_INF]] = Ok (Imm FvInf, []) /\
  p_imm_f64 [Elem T_pMax [] [Text L_NaN]] = Ok (Imm (FvText L_NaN), []) /\
  p_imm_bool [Elem T_pValue [] [Text L_Yes]] = Ok (Imm true, []) /\
  p_imm_bool [Elem T_pValue [] [Text L_false]] = Ok (Imm false, []) /\
  p_imm_i64 [Elem T_pMin [] [Text [95; 120]]] = Panic /\
  p_imm_f64 [Elem T_pMin [] [Text [95; 120]]] = Ok (Imm (FvText [95; 120]), []).
Proof. exact literal_named_nodes_refuted. Qed.
Print Assumptions C17_literal_named_nodes_refuted.

(* TIE TO THE SOURCE NAMES.  gen/ElemNames.v is regenerated from genapi/src/parser/elem_name.rs on every run
   (tools/translate_names.py): the 103 element / attribute tags the model shares with that file are the source's
   constants (paired by constant name), the pairing covers the whole file, and the source's names are pairwise
   different. *)
From Cam Require Import ElemNames P_Names.

Theorem C17_tags_from_source :
  model_tags = source_tags /\ length source_tags = length src_all_names /\ all_distinct src_all_names = true.
Proof. exact (conj tags_from_source (conj tags_cover_source source_names_distinct)). Qed.
Print Assumptions C17_tags_from_source.

(* the text -> variant tables of parser/elem_type.rs (NameSpace, MergePriority, Visibility, AccessMode, CachingMode,
   Integer / Float Representation, Slope, DisplayNotation, StandardNameSpace, Endianness, Sign), regenerated on every
   run: the model's tables ARE the source's arms (texts, variants by name, order) *)
Theorem C17_literal_tables_from_source :
  with_names namespace_rust namespace_tbl = src_lit_NameSpace /\
  with_names mergeprio_rust mergeprio_tbl = src_lit_MergePriority /\
  with_names vis_rust vis_tbl = src_lit_Visibility /\
  with_names access_rust access_tbl = src_lit_AccessMode /\
  with_names caching_rust caching_tbl = src_lit_CachingMode /\
  with_names irep_rust irep_tbl = src_lit_IntegerRepresentation /\
  with_names frep_rust frep_tbl = src_lit_FloatRepresentation /\
  with_names slope_rust slope_tbl = src_lit_Slope /\
  with_names dnot_rust dnot_tbl = src_lit_DisplayNotation /\
  with_names stdns_rust stdns_tbl = src_lit_StandardNameSpace /\
  with_names endian_rust endian_tbl = src_lit_Endianness /\
  with_names sign_rust sign_tbl = src_lit_Sign.
Proof. exact literal_tables_from_source. Qed.
Print Assumptions C17_literal_tables_from_source.

(* TIE TO THE SOURCE CODE: THE ELEMENT SCHEDULES.  gen/ParseOrderSrc.v is regenerated on every run from every
   `impl Parse for X` of genapi/src/parser/*.rs (tools/translate_parseorder.py): for each impl the cursor operations in
   program order - node.parse (required next child), node.parse_if(TAG) [.or_else ..] (optional child, with the
   .unwrap_or.. default), node.parse_while(TAG) / while-let loops (repeated), node.next_if(TAG), attribute reads,
   post-processing of locals - with the local each result is bound to and the struct literal the impl ends with
   (field := local), element parser types taken from the struct definitions, tags = the constants of gen/ElemNames.v.
   The model encodes its schedules as functions, so the tie is by interpretation (model/PoOps.v, proofs/P_C17s.v):
   [run_body E targ attrs b] runs a translated body over the model's cursor primitives, Parse impls of other types are
   looked up in the environment E; [model_env fresh] answers with the model's parsers followed by the injection of their
   results into untyped values (a record = its fields BY RUST FIELD NAME, an enum constructor = the Rust variant name;
   nodes handed to store_node on the way = a log); [closed key karg targ b]: for EVERY fresh-id counter, attribute list
   and child list, running b is what the environment answers for key<karg>.
   Vocabulary: [instances] (name of the schedule in the generated file, key, type argument, type parameter): the 37
   translated impls, the generic ones (NamedValue, ValueKind, PValue, PIndex, ValueIndexed) at every type argument the
   node structs use; [dflts_src b] the (local, default) pairs of a schedule; [model_min impl children] the model's
   result, injected, on a declaration with the required children only ([min_docs]); [run_on fresh b x] the translated
   body b on the attributes and children of element x. *)
From Cam Require Import PoOps ParseOrderSrc P_C17s.

(* every covered Parse impl: the translated schedule, interpreted, IS the model's parser - for every child list (the
   loops are related by induction on the fuel of the model's own loop), every attribute list, every fresh-id counter;
   the schedules of the generated file are all covered; what the translator does not cover is listed *)
Theorem C17_schedules_from_source :
  Forall instance_closed instances /\
  (covers_all = true /\ List.length src_po_all = 37%nat /\ src_po_uncovered = ["GroupNode"; "Vec<NodeData>"]%string).
Proof. exact (conj all_instances_closed schedules_covered). Qed.
Print Assumptions C17_schedules_from_source.

(* ... spelled out for the element base, the register base and the numeric / register node kinds *)
Theorem C17_schedule_numeric_kinds_from_source :
  closed "NodeAttributeBase" None None src_po_NodeAttributeBase /\
  closed "NodeElementBase" None None src_po_NodeElementBase /\
  closed "RegisterBase" None None src_po_RegisterBase /\
  closed "IntegerNode" None None src_po_IntegerNode /\ closed "IntRegNode" None None src_po_IntRegNode /\
  closed "MaskedIntRegNode" None None src_po_MaskedIntRegNode /\ closed "FloatNode" None None src_po_FloatNode /\
  closed "FloatRegNode" None None src_po_FloatRegNode /\
  closed "ValueKind" (Some TIntegerId) (Some TIntegerId) src_po_ValueKind /\
  closed "ValueKind" (Some TFloatId) (Some TFloatId) src_po_ValueKind /\
  closed "PIndex" (Some TIntegerId) (Some TIntegerId) src_po_PIndex /\
  closed "ImmOrPNode" (Some TI64) None src_po_ImmOrPNode_i64 /\ closed "ImmOrPNode" (Some TF64) None src_po_ImmOrPNode_f64 /\
  closed "ImmOrPNode" (Some TBool) None src_po_ImmOrPNode_bool /\ closed "BitMask" None None src_po_BitMask.
Proof.
  exact (conj cl_NodeAttributeBase (conj cl_NodeElementBase (conj cl_RegisterBase (conj cl_IntegerNode (conj cl_IntRegNode
        (conj cl_MaskedIntRegNode (conj cl_FloatNode (conj cl_FloatRegNode (conj cl_ValueKind_IntegerId
        (conj cl_ValueKind_FloatId (conj cl_PIndex_IntegerId (conj cl_ImmOrPNode_i64 (conj cl_ImmOrPNode_f64
        (conj cl_ImmOrPNode_bool cl_BitMask)))))))))))))).
Qed.
Print Assumptions C17_schedule_numeric_kinds_from_source.

(* every default the source applies to an absent optional element / attribute (.unwrap_or_default() resolved through the
   `impl Default` blocks, .unwrap_or(X), .unwrap_or_else(..)) is the model's: an absent element with a default yields
   the default whatever follows, and on a declaration with the required children only the model's result holds, under
   each such name, exactly the source's default - for every schedule of the generated file that has a default *)
Theorem C17_defaults_from_source :
  (forall E targ attrs loc tags ty d c c',
     alt tags (elem_sem E targ attrs ty) c = Ok (None, c') ->
     step_sem E targ attrs loc (SOpt tags ty (DVal d)) c = Ok ((d, []), c')) /\
  Forall defaults_agree min_docs /\ defaults_covered = true.
Proof. exact (conj step_default_when_absent defaults_from_source). Qed.
Print Assumptions C17_defaults_from_source.

(* the property on the TRANSLATED schedules themselves: a well-formed declared element base / register base / Integer /
   IntReg / MaskedIntReg / Float / FloatReg, rendered in schema order, is consumed completely by the translated
   schedule, which yields exactly the normalised node (every declared property under its Rust field name, schema
   defaults filled in) and stores exactly the embedded nodes *)
Theorem C17_roundtrip_of_source : forall fresh,
  (forall e k, wf_eb e -> hn eb_tags k ->
     run_body (model_env fresh) None [] src_po_NodeElementBase (r_eb e k) = Ok ((inj_eb (n_eb e), []), k)) /\
  (forall r k, wf_rb r -> hn rb_tags k ->
     run_body (model_env fresh) None [] src_po_RegisterBase (r_rb r k)
     = Ok ((inj_rb (n_rb r), map inj_nd (rb_nodes r)), k)) /\
  (forall n, wf_integer n ->
     run_on fresh src_po_IntegerNode (r_integer n) = Ok ((inj_integer (n_integer n), []), [])) /\
  (forall n, wf_intreg n ->
     run_on fresh src_po_IntRegNode (r_intreg n)
     = Ok ((inj_intreg (n_intreg n), map inj_nd (rb_nodes (ir_rb n))), [])) /\
  (forall n, wf_masked n ->
     run_on fresh src_po_MaskedIntRegNode (r_masked n)
     = Ok ((inj_masked (n_masked n), map inj_nd (rb_nodes (mr_rb n))), [])) /\
  (forall n, wf_float n ->
     run_on fresh src_po_FloatNode (r_float n) = Ok ((inj_float (n_float n), []), [])) /\
  (forall n, wf_floatreg n ->
     run_on fresh src_po_FloatRegNode (r_floatreg n)
     = Ok ((inj_floatreg (n_floatreg n), map inj_nd (rb_nodes (fr_rb n))), [])).
Proof. exact roundtrip_of_source. Qed.
Print Assumptions C17_roundtrip_of_source.

(* the tag each node impl asserts at its head (debug_assert_eq!(node.tag_name(), TAG)) is the tag under which the model's
   dispatch runs that impl's parser; the impls that end in register_base.store_invalidators(..) are the register kinds *)
Theorem C17_asserted_tags_of_source : forall fixed fresh attrs ch,
  parse_leaf fixed fresh (tag_of "IntegerNode") attrs ch = on_ok (p_integer attrs ch) (fun n => pres1 fresh (NdInteger n)) /\
  parse_leaf fixed fresh (tag_of "FloatNode") attrs ch = on_ok (p_float attrs ch) (fun n => pres1 fresh (NdFloat n)) /\
  parse_leaf fixed fresh (tag_of "IntRegNode") attrs ch =
    on_ok (p_intreg attrs ch)
      (fun n => mkPres (snd n) [NdIntReg (fst n)] (reg_invs (ir_rb (fst n)) (a_name (ir_attr (fst n)))) fresh) /\
  tag_of "StructEntryNode" = T_StructEntry /\ tag_of "EnumEntryNode" = T_EnumEntry /\
  src_po_invalidators = ["FloatRegNode"; "IntRegNode"; "MaskedIntRegNode"; "RegisterNode"; "StringRegNode"]%string.
Proof. exact asserted_tags_of_source. Qed.
Print Assumptions C17_asserted_tags_of_source.

(* computed: <Integer Name="N"><ToolTip>t</ToolTip><Value>0x10</Value><pMax>M</pMax><Representation>HexNumber
   </Representation><pSelected>A</pSelected><pSelected>B</pSelected></Integer> through the translated schedule *)
Theorem C17_schedule_example :
  match run_body (model_env 0) None min_attrs src_po_IntegerNode example_children with
  | Ok ((v, lg), rest) =>
      (field "value_kind" v, field "min" v, field "max" v, field "inc" v, field "p_selected" v,
       field "tooltip" (field "elem_base" v), field "visibility" (field "elem_base" v), lg, rest)
  | _ => (VNone, VNone, VNone, VNone, VNone, VNone, VNone, [], [])
  end
  = (VCtor "Value" [VInt 16], VCtor "Imm" [VInt I64_MIN], VCtor "PNode" [VStr [77]], VCtor "Imm" [VInt 1],
     VList [VStr [65]; VStr [66]], VSome (VStr [116]), VEnum (s2l "Beginner"), [], []).
Proof. exact schedule_example. Qed.
Print Assumptions C17_schedule_example.
