From Cam Require Import Outcome GenApiParse P_C17.

Theorem C17_text_view_v0_refuted : text_view_v0 [] = Panic /\ (forall s, text_view_v0 [Comment s] = Ok s).
Proof. exact text_view_v0_refuted. Qed.
Print Assumptions C17_text_view_v0_refuted.
