(* C18 — Readability and writability reflect every access restriction.  Statements only; proofs in
   proofs/P_C18.v.  Model: model/Access.v ([is_readable] / [is_writable] of every interface kind of
   /repo/genapi after the two "fix:" commits = [fixed_cfg]; the code before them = [pinned_cfg]).
   Specification: spec/AccessSpec.v ([Readable] / [Writable], written from the property text).
   A store is acyclic when some rank decreases along every reference; the fuel F exceeds every rank.
   [iv s F st m] / [bv s F st m] are the current values of node m (number / boolean) in state st. *)
From Cam Require Import Outcome Access AccessSpec AccessAnswer P_C18 P_C18b P_C18c AccessOps AccessSrc P_C18s.
Local Open Scope nat_scope.

(* reported readable exactly when implemented, available, the imposed and register access modes
   permit reading and everything the value is drawn from is readable *)
Theorem C18_readable_iff : forall s rank F st n, Acyclic s rank -> (forall m, rank m < F) ->
  (is_readable fixed_cfg s F st n = Ok true <-> Readable s (iv s F st) (bv s F st) n).
Proof. exact readable_iff. Qed.
Print Assumptions C18_readable_iff.

(* never reported writable unless the specification allows it (no hypothesis on errors) ... *)
Theorem C18_writable_sound : forall s rank F st n, Acyclic s rank -> (forall m, rank m < F) ->
  is_writable fixed_cfg s F st n = Ok true -> Writable s (iv s F st) (bv s F st) n.
Proof. exact writable_sound. Qed.
Print Assumptions C18_writable_sound.

(* ... and exactly when it does, provided no pIsLocked node fails to evaluate *)
Theorem C18_writable_iff : forall s rank F st n, Acyclic s rank -> (forall m, rank m < F) ->
  LocksDecided s (iv s F st) (bv s F st) ->
  (is_writable fixed_cfg s F st n = Ok true <-> Writable s (iv s F st) (bv s F st) n).
Proof. exact writable_iff. Qed.
Print Assumptions C18_writable_iff.

(* the specification itself: a writable (readable) node passed the base conditions, is no swiss
   knife, and if it is a register its access mode is not RO (WO) *)
Theorem C18_spec_sanity : forall s ival bval n nd, nth_error s n = Some nd ->
  (Writable s ival bval n -> BaseW s ival bval nd) /\
  (Readable s ival bval n -> BaseR s ival bval nd) /\
  (Writable s ival bval n -> nkind nd <> KIntSwissKnife /\ nkind nd <> KSwissKnife) /\
  (Writable s ival bval n -> RegisterKind (nkind nd) -> regmode nd <> RO) /\
  (Readable s ival bval n -> RegisterKind (nkind nd) -> regmode nd <> WO).
Proof. exact spec_sanity. Qed.
Print Assumptions C18_spec_sanity.

(* The total characterisation ("readable exactly when"): on a node n that is [Evaluable] — every
   node reachable from n through references has a kind offering the query, its pIsImplemented /
   pIsAvailable / pIsLocked nodes are Boolean or integer features that evaluate, its pIndex index is
   an integer feature that evaluates, and every reference has a kind that can stand there — the
   answer is Ok b with b = true exactly when the specification holds.  (A Command has no
   is_readable; every other kind with a query has both.) *)
Theorem C18_readable_exactly : forall s rank F st n, Acyclic s rank -> (forall m, rank m < F) ->
  Evaluable s (iv s F st) (bv s F st) n -> kind_of s n <> KCommand ->
  exists b, is_readable fixed_cfg s F st n = Ok b /\ (b = true <-> Readable s (iv s F st) (bv s F st) n).
Proof. exact readable_exactly. Qed.
Print Assumptions C18_readable_exactly.

Theorem C18_readable_false_iff : forall s rank F st n, Acyclic s rank -> (forall m, rank m < F) ->
  Evaluable s (iv s F st) (bv s F st) n -> kind_of s n <> KCommand ->
  (is_readable fixed_cfg s F st n = Ok false <-> ~ Readable s (iv s F st) (bv s F st) n).
Proof. exact readable_false_iff. Qed.
Print Assumptions C18_readable_false_iff.

Theorem C18_writable_exactly : forall s rank F st n, Acyclic s rank -> (forall m, rank m < F) ->
  Evaluable s (iv s F st) (bv s F st) n ->
  exists b, is_writable fixed_cfg s F st n = Ok b /\ (b = true <-> Writable s (iv s F st) (bv s F st) n).
Proof. exact writable_exactly. Qed.
Print Assumptions C18_writable_exactly.

Theorem C18_writable_false_iff : forall s rank F st n, Acyclic s rank -> (forall m, rank m < F) ->
  Evaluable s (iv s F st) (bv s F st) n ->
  (is_writable fixed_cfg s F st n = Ok false <-> ~ Writable s (iv s F st) (bv s F st) n).
Proof. exact writable_false_iff. Qed.
Print Assumptions C18_writable_false_iff.

(* with the local hypothesis the global LocksDecided of C18_writable_iff is not needed *)
Theorem C18_writable_iff_evaluable : forall s rank F st n, Acyclic s rank -> (forall m, rank m < F) ->
  Evaluable s (iv s F st) (bv s F st) n ->
  (is_writable fixed_cfg s F st n = Ok true <-> Writable s (iv s F st) (bv s F st) n).
Proof. exact writable_iff_evaluable. Qed.
Print Assumptions C18_writable_iff_evaluable.

(* no query fails on an evaluable node, for the pinned code as well *)
Theorem C18_queries_total : forall c s rank F st n, Acyclic s rank -> (forall m, rank m < F) ->
  Evaluable s (iv s F st) (bv s F st) n ->
  (exists b, is_writable c s F st n = Ok b) /\
  (kind_of s n <> KCommand -> exists b, is_readable c s F st n = Ok b).
Proof. exact queries_total. Qed.
Print Assumptions C18_queries_total.

(* real stores satisfy the hypotheses: a six-node store (register, Boolean, locked Integer over the
   register, SwissKnife, pIndex Integer, Command) is acyclic and evaluable in a state where the lock
   is on; the answers are Ok(true) / Ok(false) as listed, N4 is not Writable, and N2 becomes
   Writable when the Boolean's slot is set to off *)
Theorem C18_evaluable_example :
  Acyclic ev_store (fun n => Nat.min n 6) /\ (forall m, Nat.min m 6 < 7) /\
  (forall n, n < 6 -> Evaluable ev_store (iv ev_store 7 st1) (bv ev_store 7 st1) n) /\
  map (fun n => is_writable fixed_cfg ev_store 7 st1 n) [0; 1; 2; 3; 4; 5]
    = [Ok true; Ok true; Ok false; Ok false; Ok false; Ok false] /\
  map (fun n => is_readable fixed_cfg ev_store 7 st1 n) [0; 1; 2; 3; 4]
    = [Ok true; Ok true; Ok true; Ok true; Ok true] /\
  ~ Writable ev_store (iv ev_store 7 st1) (bv ev_store 7 st1) 4 /\
  Writable ev_store (iv ev_store 7 (upd st1 1 0 (Ok 0%Z))) (bv ev_store 7 (upd st1 1 0 (Ok 0%Z))) 2.
Proof. exact evaluable_example. Qed.
Print Assumptions C18_evaluable_example.

(* Formula variables: [vars nd] is the node of every <pVariable> whatever accessor its name carries
   (X, X.Value, X.Min, X.Max, X.Inc, X.Enum.E — the code asks `variable.value()` only).  A swiss knife
   or converter is reported readable, and a converter writable, only if each of these nodes is. *)
Theorem C18_variable_sources : forall s rank F st n nd m, Acyclic s rank -> (forall x, rank x < F) ->
  nth_error s n = Some nd -> In m (vars nd) ->
  (nkind nd = KSwissKnife \/ nkind nd = KIntSwissKnife \/ nkind nd = KConverter \/ nkind nd = KIntConverter ->
   is_readable fixed_cfg s F st n = Ok true -> is_readable fixed_cfg s F st m = Ok true) /\
  (nkind nd = KConverter \/ nkind nd = KIntConverter ->
   is_writable fixed_cfg s F st n = Ok true -> is_readable fixed_cfg s F st m = Ok true).
Proof. exact variable_sources. Qed.
Print Assumptions C18_variable_sources.

(* THE COMPLETE ANSWER, for every acyclic store and every state, with no hypothesis that anything
   evaluates: the outcome of the query — Ok true, Ok false, an error of whichever class, a panic —
   is exactly the one the fuel-free relations of spec/AccessAnswer.v assign (order of evaluation
   included: implemented, available, [not locked], imposed mode, then the value sources / targets;
   `seq` stops at the first answer other than Ok true, `amp` asks everything and reports the first
   failure).  The relations are functional on acyclic stores since the model is a function. *)
Theorem C18_readable_answer : forall s rank F st n o, Acyclic s rank -> (forall m, rank m < F) ->
  (is_readable fixed_cfg s F st n = o <-> RAns s (bool_from_id s F st) (val s F st) n o).
Proof. exact readable_answer. Qed.
Print Assumptions C18_readable_answer.

Theorem C18_writable_answer : forall s rank F st n o, Acyclic s rank -> (forall m, rank m < F) ->
  (is_writable fixed_cfg s F st n = o <-> WAns s (bool_from_id s F st) (val s F st) n o).
Proof. exact writable_answer. Qed.
Print Assumptions C18_writable_answer.

(* whatever the base conditions yield other than Ok(true) IS the answer (every configuration) *)
Theorem C18_base_decides : forall c s rank F st n nd x, Acyclic s rank -> (forall m, rank m < F) ->
  nth_error s n = Some nd -> x <> Ok true ->
  (HasReadQuery (nkind nd) -> base_r_ans (bool_from_id s F st) nd = x -> is_readable c s F st n = x) /\
  (HasGuardedWrite (nkind nd) -> base_w_ans (bool_from_id s F st) nd = x -> is_writable c s F st n = x).
Proof. exact base_decides. Qed.
Print Assumptions C18_base_decides.

(* the first controlling node, in the order pIsImplemented, pIsAvailable, pIsLocked, that fails to
   evaluate (x = Err e or a panic) makes the query fail with exactly x *)
Theorem C18_first_failing_control : forall c s rank F st n nd x, Acyclic s rank -> (forall m, rank m < F) ->
  nth_error s n = Some nd -> fails x ->
  (forall i, p_impl nd = Some i -> bool_from_id s F st i = x ->
     (HasReadQuery (nkind nd) -> is_readable c s F st n = x) /\
     (HasGuardedWrite (nkind nd) -> is_writable c s F st n = x)) /\
  (forall a, says_yes_ref s F st (p_impl nd) -> p_avail nd = Some a -> bool_from_id s F st a = x ->
     (HasReadQuery (nkind nd) -> is_readable c s F st n = x) /\
     (HasGuardedWrite (nkind nd) -> is_writable c s F st n = x)) /\
  (forall l, says_yes_ref s F st (p_impl nd) -> says_yes_ref s F st (p_avail nd) ->
     p_lock nd = Some l -> bool_from_id s F st l = x ->
     HasGuardedWrite (nkind nd) -> is_writable c s F st n = x).
Proof. exact first_failing_control. Qed.
Print Assumptions C18_first_failing_control.

(* a node reported writable is readable according to the access-mode table: a register exactly
   when neither the imposed nor the register mode is WO, a feature holding its own value exactly
   when the imposed mode is not WO (RW => both, WO => not readable) *)
Theorem C18_writable_then_readable : forall c s rank F st n nd, Acyclic s rank -> (forall m, rank m < F) ->
  nth_error s n = Some nd -> is_writable c s F st n = Ok true ->
  (RegisterKind (nkind nd) ->
     is_readable c s F st n = Ok (reads (imposed nd) && reads (regmode nd))%bool) /\
  (nkind nd = KInteger \/ nkind nd = KFloat \/ nkind nd = KBoolean \/ nkind nd = KEnumeration \/
   nkind nd = KString ->
   (exists k, nvalue nd = VOne (ISlot k)) -> is_readable c s F st n = Ok (reads (imposed nd))).
Proof. exact writable_then_readable. Qed.
Print Assumptions C18_writable_then_readable.

(* non-vacuity: a register the device refuses to read (Err 30) as pIsImplemented / pIsLocked, and a
   dangling pIsAvailable reference (Err 32) *)
Theorem C18_failing_control_example :
  Acyclic err_store err_rank /\ (forall m, err_rank m < 5) /\
  map (fun n => is_readable fixed_cfg err_store 5 err_state n) [0; 1; 2; 3]
    = [Ok true; Err E_DEVICE; Err E_KIND; Ok true] /\
  map (fun n => is_writable fixed_cfg err_store 5 err_state n) [0; 1; 2; 3]
    = [Ok true; Err E_DEVICE; Err E_KIND; Err E_DEVICE] /\
  RAns err_store (bool_from_id err_store 5 err_state) (val err_store 5 err_state) 1 (Err E_DEVICE) /\
  WAns err_store (bool_from_id err_store 5 err_state) (val err_store 5 err_state) 3 (Err E_DEVICE).
Proof. exact failing_control_example. Qed.
Print Assumptions C18_failing_control_example.

(* the corollaries hold for the pinned code as well (any configuration c) *)
Theorem C18_locked_not_writable : forall c s rank F st n nd l, Acyclic s rank -> (forall m, rank m < F) ->
  nth_error s n = Some nd -> p_lock nd = Some l -> bool_from_id s F st l = Ok true ->
  is_writable c s F st n <> Ok true.
Proof. exact locked_not_writable. Qed.
Print Assumptions C18_locked_not_writable.

Theorem C18_unavailable : forall c s rank F st n nd a, Acyclic s rank -> (forall m, rank m < F) ->
  nth_error s n = Some nd -> p_avail nd = Some a -> bool_from_id s F st a <> Ok true ->
  is_readable c s F st n <> Ok true /\ is_writable c s F st n <> Ok true.
Proof. exact unavailable. Qed.
Print Assumptions C18_unavailable.

Theorem C18_unimplemented : forall c s rank F st n nd a, Acyclic s rank -> (forall m, rank m < F) ->
  nth_error s n = Some nd -> p_impl nd = Some a -> bool_from_id s F st a <> Ok true ->
  is_readable c s F st n <> Ok true /\ is_writable c s F st n <> Ok true.
Proof. exact unimplemented. Qed.
Print Assumptions C18_unimplemented.

Theorem C18_ro_not_writable : forall c s rank F st n nd, Acyclic s rank -> (forall m, rank m < F) ->
  nth_error s n = Some nd ->
  imposed nd = RO \/ (RegisterKind (nkind nd) /\ regmode nd = RO) ->
  is_writable c s F st n <> Ok true.
Proof. exact ro_not_writable. Qed.
Print Assumptions C18_ro_not_writable.

Theorem C18_wo_not_readable : forall c s rank F st n nd, Acyclic s rank -> (forall m, rank m < F) ->
  nth_error s n = Some nd ->
  imposed nd = WO \/ (RegisterKind (nkind nd) /\ regmode nd = WO) ->
  is_readable c s F st n <> Ok true.
Proof. exact wo_not_readable. Qed.
Print Assumptions C18_wo_not_readable.

(* a literal is never a value target, a formula is never writable *)
Theorem C18_const_not_writable : forall c s rank F st n nd, Acyclic s rank -> (forall m, rank m < F) ->
  nth_error s n = Some nd ->
  (ValuedKind (nkind nd) /\ exists v, nvalue nd = VOne (IImm v)) \/
  nkind nd = KIntSwissKnife \/ nkind nd = KSwissKnife ->
  is_writable c s F st n <> Ok true.
Proof. exact const_not_writable. Qed.
Print Assumptions C18_const_not_writable.

Theorem C18_const_entry_not_writable : forall c s rank F st n nd idx es d i v,
  Acyclic s rank -> (forall m, rank m < F) ->
  nth_error s n = Some nd -> nkind nd = KInteger \/ nkind nd = KFloat ->
  nvalue nd = VPIndex idx es d -> val s F st idx = Ok i -> select i es d = IImm v ->
  is_writable c s F st n <> Ok true.
Proof. exact const_entry_not_writable. Qed.
Print Assumptions C18_const_entry_not_writable.

(* The answers track the current values of the pIsLocked / pIsAvailable / pIsImplemented nodes: a
   history step is a change of one leaf (a value slot, a register content: [upd st a b v]).  After
   the step the verdict is the one of the new state — a node whose lock now says yes, or whose
   availability / implementation node no longer says yes, is not reported writable (readable),
   whatever was answered before — and when the leaf returns to its old value the old answers
   return exactly (values and errors): nothing is remembered. *)
Theorem C18_tracks_controls : forall c s rank F st n nd a b v,
  Acyclic s rank -> (forall m, rank m < F) -> nth_error s n = Some nd ->
  let st' := upd st a b v in
  let st'' := upd st' a b (st a b) in
  (Blocks s F st' nd -> is_writable c s F st' n <> Ok true) /\
  (Hides s F st' nd -> is_readable c s F st' n <> Ok true) /\
  is_writable c s F st'' n = is_writable c s F st n /\
  is_readable c s F st'' n = is_readable c s F st n.
Proof. exact tracks_controls. Qed.
Print Assumptions C18_tracks_controls.

(* the verdicts depend on the state only through its current leaf values *)
Theorem C18_verdict_of_state : forall c s st st', (forall a b, st a b = st' a b) ->
  forall F n, is_readable c s F st n = is_readable c s F st' n /\
              is_writable c s F st n = is_writable c s F st' n.
Proof. exact verdict_of_state. Qed.
Print Assumptions C18_verdict_of_state.

(* the two defects of the pinned code (repaired by the fix: commits 6f8a4ed and 6803abd):
   a SwissKnife over an unreadable variable was reported readable ... *)
Theorem C18_swissknife_vars_refuted : exists s rank F st n,
  Acyclic s rank /\ (forall m, rank m < F) /\
  is_readable pinned_cfg s F st n = Ok true /\ ~ Readable s (iv s F st) (bv s F st) n.
Proof. exact swissknife_refuted. Qed.
Print Assumptions C18_swissknife_vars_refuted.

(* ... and an Integer whose pValue is a writable Enumeration was reported unwritable *)
Theorem C18_enum_target_refuted : exists s rank F st n,
  Acyclic s rank /\ (forall m, rank m < F) /\ LocksDecided s (iv s F st) (bv s F st) /\
  is_writable pinned_cfg s F st n = Ok false /\ Writable s (iv s F st) (bv s F st) n.
Proof. exact enum_target_refuted. Qed.
Print Assumptions C18_enum_target_refuted.

(* ---- the code itself: gen/AccessSrc.v is regenerated on every run (tools/translate_access.py) from
   NodeElementBase::{is_readable, is_writable, is_locked, is_implemented, is_available} (genapi/src/node_base.rs) and
   RegisterBase::{is_readable, is_writable} (register_base.rs), to which IntReg / MaskedIntReg / FloatReg / StringReg
   are checked to delegate; [bfi] is any behaviour of bool_from_id on the nodes asked. *)
Theorem C18_controls_from_source : forall bfi nd,
  src_is_implemented bfi nd = ctlq bfi (p_impl nd) true /\
  src_is_available bfi nd = ctlq bfi (p_avail nd) true /\
  src_is_locked bfi nd = ctlq bfi (p_lock nd) false.
Proof. exact controls_from_source. Qed.
Print Assumptions C18_controls_from_source.

Theorem C18_base_readable_from_source : forall bfi nd, src_base_is_readable bfi nd = base_r bfi nd.
Proof. exact base_r_from_source. Qed.
Print Assumptions C18_base_readable_from_source.

Theorem C18_base_writable_from_source : forall bfi nd, src_base_is_writable bfi nd = base_w bfi nd.
Proof. exact base_w_from_source. Qed.
Print Assumptions C18_base_writable_from_source.

Theorem C18_register_access_from_source : forall bfi nd,
  src_reg_is_readable bfi nd = andl (base_r bfi nd) (Ok (not_wo (regmode nd))) /\
  src_reg_is_writable bfi nd = andl (base_w bfi nd) (Ok (not_ro (regmode nd))).
Proof. intros bfi nd. split; [apply reg_r_from_source|apply reg_w_from_source]. Qed.
Print Assumptions C18_register_access_from_source.

(* of the translated code alone: implemented, then available, then locked are asked in this order, each only when
   the earlier ones answered Ok(true); the first control that fails or errs decides the answer *)
Theorem C18_source_write_order : forall bfi nd,
  match src_is_implemented bfi nd with
  | Ok true =>
    match src_is_available bfi nd with
    | Ok true =>
      match src_is_locked bfi nd with
      | Ok l => src_base_is_writable bfi nd = Ok (negb l && mode_in [WO; RW] (imposed nd))
      | Err e => src_base_is_writable bfi nd = Err e
      | Panic => src_base_is_writable bfi nd = Panic
      end
    | Ok false => src_base_is_writable bfi nd = Ok false
    | Err e => src_base_is_writable bfi nd = Err e
    | Panic => src_base_is_writable bfi nd = Panic
    end
  | Ok false => src_base_is_writable bfi nd = Ok false
  | Err e => src_base_is_writable bfi nd = Err e
  | Panic => src_base_is_writable bfi nd = Panic
  end.
Proof. exact source_write_order. Qed.
Print Assumptions C18_source_write_order.
