(* C18 — Readability and writability reflect every access restriction.  Statements only; proofs in
   proofs/P_C18.v.  Model: model/Access.v ([is_readable] / [is_writable] of every interface kind of
   /repo/genapi after the two "fix:" commits = [fixed_cfg]; the code before them = [pinned_cfg]).
   Specification: spec/AccessSpec.v ([Readable] / [Writable], written from the property text).
   A store is acyclic when some rank decreases along every reference; the fuel F exceeds every rank.
   [iv s F st m] / [bv s F st m] are the current values of node m (number / boolean) in state st. *)
From Cam Require Import Outcome Access AccessSpec P_C18.
Local Open Scope nat_scope.

(* reported readable exactly when implemented, available, the imposed and register access modes
   permit reading and everything the value is drawn from is readable *)
Theorem C18_readable_iff : forall s rank F st n, Acyclic s rank -> (forall m, rank m < F) ->
  (is_readable fixed_cfg s F st n = Ok true <-> Readable s (iv s F st) (bv s F st) n).
Proof. exact readable_iff. Qed.
Print Assumptions C18_readable_iff.

(* never reported writable unless the specification allows it (no hypothesis on errors) ... *)
Theorem C18_writable_sound : forall s rank F st n, Acyclic s rank -> (forall m, rank m < F) ->
  is_writable fixed_cfg s F st n = Ok true -> Writable s (iv s F st) (bv s F st) n.
Proof. exact writable_sound. Qed.
Print Assumptions C18_writable_sound.

(* ... and exactly when it does, provided no pIsLocked node fails to evaluate *)
Theorem C18_writable_iff : forall s rank F st n, Acyclic s rank -> (forall m, rank m < F) ->
  LocksDecided s (iv s F st) (bv s F st) ->
  (is_writable fixed_cfg s F st n = Ok true <-> Writable s (iv s F st) (bv s F st) n).
Proof. exact writable_iff. Qed.
Print Assumptions C18_writable_iff.

(* the specification itself: a writable (readable) node passed the base conditions, is no swiss
   knife, and if it is a register its access mode is not RO (WO) *)
Theorem C18_spec_sanity : forall s ival bval n nd, nth_error s n = Some nd ->
  (Writable s ival bval n -> BaseW s ival bval nd) /\
  (Readable s ival bval n -> BaseR s ival bval nd) /\
  (Writable s ival bval n -> nkind nd <> KIntSwissKnife /\ nkind nd <> KSwissKnife) /\
  (Writable s ival bval n -> RegisterKind (nkind nd) -> regmode nd <> RO) /\
  (Readable s ival bval n -> RegisterKind (nkind nd) -> regmode nd <> WO).
Proof. exact spec_sanity. Qed.
Print Assumptions C18_spec_sanity.

(* the corollaries hold for the pinned code as well (any configuration c) *)
Theorem C18_locked_not_writable : forall c s rank F st n nd l, Acyclic s rank -> (forall m, rank m < F) ->
  nth_error s n = Some nd -> p_lock nd = Some l -> bool_from_id s F st l = Ok true ->
  is_writable c s F st n <> Ok true.
Proof. exact locked_not_writable. Qed.
Print Assumptions C18_locked_not_writable.

Theorem C18_unavailable : forall c s rank F st n nd a, Acyclic s rank -> (forall m, rank m < F) ->
  nth_error s n = Some nd -> p_avail nd = Some a -> bool_from_id s F st a <> Ok true ->
  is_readable c s F st n <> Ok true /\ is_writable c s F st n <> Ok true.
Proof. exact unavailable. Qed.
Print Assumptions C18_unavailable.

Theorem C18_unimplemented : forall c s rank F st n nd a, Acyclic s rank -> (forall m, rank m < F) ->
  nth_error s n = Some nd -> p_impl nd = Some a -> bool_from_id s F st a <> Ok true ->
  is_readable c s F st n <> Ok true /\ is_writable c s F st n <> Ok true.
Proof. exact unimplemented. Qed.
Print Assumptions C18_unimplemented.

Theorem C18_ro_not_writable : forall c s rank F st n nd, Acyclic s rank -> (forall m, rank m < F) ->
  nth_error s n = Some nd ->
  imposed nd = RO \/ (RegisterKind (nkind nd) /\ regmode nd = RO) ->
  is_writable c s F st n <> Ok true.
Proof. exact ro_not_writable. Qed.
Print Assumptions C18_ro_not_writable.

Theorem C18_wo_not_readable : forall c s rank F st n nd, Acyclic s rank -> (forall m, rank m < F) ->
  nth_error s n = Some nd ->
  imposed nd = WO \/ (RegisterKind (nkind nd) /\ regmode nd = WO) ->
  is_readable c s F st n <> Ok true.
Proof. exact wo_not_readable. Qed.
Print Assumptions C18_wo_not_readable.

(* a literal is never a value target, a formula is never writable *)
Theorem C18_const_not_writable : forall c s rank F st n nd, Acyclic s rank -> (forall m, rank m < F) ->
  nth_error s n = Some nd ->
  (ValuedKind (nkind nd) /\ exists v, nvalue nd = VOne (IImm v)) \/
  nkind nd = KIntSwissKnife \/ nkind nd = KSwissKnife ->
  is_writable c s F st n <> Ok true.
Proof. exact const_not_writable. Qed.
Print Assumptions C18_const_not_writable.

Theorem C18_const_entry_not_writable : forall c s rank F st n nd idx es d i v,
  Acyclic s rank -> (forall m, rank m < F) ->
  nth_error s n = Some nd -> nkind nd = KInteger \/ nkind nd = KFloat ->
  nvalue nd = VPIndex idx es d -> val s F st idx = Ok i -> select i es d = IImm v ->
  is_writable c s F st n <> Ok true.
Proof. exact const_entry_not_writable. Qed.
Print Assumptions C18_const_entry_not_writable.

(* The answers track the current values of the pIsLocked / pIsAvailable / pIsImplemented nodes: a
   history step is a change of one leaf (a value slot, a register content: [upd st a b v]).  After
   the step the verdict is the one of the new state — a node whose lock now says yes, or whose
   availability / implementation node no longer says yes, is not reported writable (readable),
   whatever was answered before — and when the leaf returns to its old value the old answers
   return exactly (values and errors): nothing is remembered. *)
Theorem C18_tracks_controls : forall c s rank F st n nd a b v,
  Acyclic s rank -> (forall m, rank m < F) -> nth_error s n = Some nd ->
  let st' := upd st a b v in
  let st'' := upd st' a b (st a b) in
  (Blocks s F st' nd -> is_writable c s F st' n <> Ok true) /\
  (Hides s F st' nd -> is_readable c s F st' n <> Ok true) /\
  is_writable c s F st'' n = is_writable c s F st n /\
  is_readable c s F st'' n = is_readable c s F st n.
Proof. exact tracks_controls. Qed.
Print Assumptions C18_tracks_controls.

(* the verdicts depend on the state only through its current leaf values *)
Theorem C18_verdict_of_state : forall c s st st', (forall a b, st a b = st' a b) ->
  forall F n, is_readable c s F st n = is_readable c s F st' n /\
              is_writable c s F st n = is_writable c s F st' n.
Proof. exact verdict_of_state. Qed.
Print Assumptions C18_verdict_of_state.

(* the two defects of the pinned code (repaired by the fix: commits 6f8a4ed and 6803abd):
   a SwissKnife over an unreadable variable was reported readable ... *)
Theorem C18_swissknife_vars_refuted : exists s rank F st n,
  Acyclic s rank /\ (forall m, rank m < F) /\
  is_readable pinned_cfg s F st n = Ok true /\ ~ Readable s (iv s F st) (bv s F st) n.
Proof. exact swissknife_refuted. Qed.
Print Assumptions C18_swissknife_vars_refuted.

(* ... and an Integer whose pValue is a writable Enumeration was reported unwritable *)
Theorem C18_enum_target_refuted : exists s rank F st n,
  Acyclic s rank /\ (forall m, rank m < F) /\ LocksDecided s (iv s F st) (bv s F st) /\
  is_writable pinned_cfg s F st n = Ok false /\ Writable s (iv s F st) (bv s F st) n.
Proof. exact enum_target_refuted. Qed.
Print Assumptions C18_enum_target_refuted.
