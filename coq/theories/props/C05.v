(* C05 — Formula evaluation follows GenApi expression semantics and is total.
   Statements only; proofs are in proofs/P_C05.v.  [eval fops true] / [func_of_name true] /
   [parse_toks] are the model of the code as it is now (after the four `fix:` commits);
   the flag [false] selects the code before them (used only by the _refuted lemmas).
   Every theorem about evaluation holds for ALL float primitive records [fops]. *)
From Cam Require Import Outcome Formula FuncTable FormulaSyntax FormulaStd P_C05 P_C05b P_C05c P_C05d.

(* Evaluation never panics: any expression, any environment (entries are expressions, possibly
   cyclic), any fuel, any float primitives. *)
Theorem C05_eval_no_panic : forall fops fuel env e, eval fops true fuel env e <> Panic.
Proof. exact eval_no_panic. Qed.
Print Assumptions C05_eval_no_panic.

(* The only error classes are: unknown identifier (InvalidNode), integer remainder by zero
   (InvalidData), and the model's own out-of-fuel for reference chains deeper than the fuel. *)
Theorem C05_eval_errors : forall fops fuel env e c,
  eval fops true fuel env e = Err c -> c = E_INVALID_NODE \/ c = E_INVALID_DATA \/ c = E_FUEL.
Proof. exact eval_err_class. Qed.
Print Assumptions C05_eval_errors.

(* An operator application fails exactly for an integer remainder by zero. *)
Theorem C05_operator_error_iff : forall fops k a b c,
  binop_strict fops true k a b = Err c <->
  (k = BRem /\ c = E_INVALID_DATA /\ exists x, a = RInt x /\ b = RInt 0).
Proof. exact binop_strict_err_iff. Qed.
Print Assumptions C05_operator_error_iff.

Theorem C05_eval_unknown_ident : forall fops fuel env s,
  lookup s env = None -> eval fops true fuel env (EIdent s) = Err E_INVALID_NODE.
Proof. exact eval_unknown_ident. Qed.
Print Assumptions C05_eval_unknown_ident.

Theorem C05_eval_rem_zero : forall fops fuel env l r x,
  eval fops true fuel env l = Ok (RInt x) -> eval fops true fuel env r = Ok (RInt 0) ->
  eval fops true fuel env (EBin BRem l r) = Err E_INVALID_DATA.
Proof. exact eval_rem_zero. Qed.
Print Assumptions C05_eval_rem_zero.

(* Totality: with an environment of values, an expression whose identifiers are bound and that
   contains no `%` evaluates to a value (one unit of fuel suffices). *)
Theorem C05_eval_total : forall fops fuel env e,
  value_env env -> no_error_source env e -> exists r, eval fops true (S fuel) env e = Ok r.
Proof. exact eval_total. Qed.
Print Assumptions C05_eval_total.

(* Integer operands stay integers with 64-bit wrap-around: on the ring fragment (integer
   literals and variables under + - * & | ^ unary- ~) evaluation is the unbounded-Z meaning
   ([denote]: Z.add, Z.sub, Z.mul, Z.land, Z.lor, Z.lxor, Z.opp, Z.lnot) wrapped to 64 bits. *)
Theorem C05_int_ring_wrap : forall fops fuel env rho e,
  ring_ok env rho e ->
  eval fops true (S fuel) env e = Ok (RInt (sw 64 (denote rho e))).
Proof. exact int_ring_wrap. Qed.
Print Assumptions C05_int_ring_wrap.

(* `**` on integers with a non-negative exponent is the wrapped power. *)
Theorem C05_int_pow_wrap : forall fops a n,
  0 <= n ->
  binop_strict fops true BPow (RInt a) (RInt n) = Ok (RInt (sw 64 (a ^ n))).
Proof. exact int_pow_wrap. Qed.
Print Assumptions C05_int_pow_wrap.

(* Every integer value produced by evaluation is an i64 (all operators wrap or saturate), provided
   the integer literals of the expression and of the environment are. *)
Theorem C05_int_range : forall fops fuel env e i,
  env_lits_ok env -> lits_ok e -> eval fops true fuel env e = Ok (RInt i) -> in_i64 i.
Proof. exact int_range. Qed.
Print Assumptions C05_int_range.

(* Typing: the syntactic kind (Some true = integer, Some false = float) predicts the class of
   the value: integer operands stay integers, `/` and the transcendental / rounding functions
   are float, comparisons, logical and bit operators are integer. *)
Theorem C05_typing : forall fops fuel env e r b,
  value_env env ->
  eval fops true (S fuel) env e = Ok r -> static_kind env e = Some b -> is_integer r = b.
Proof. exact typing. Qed.
Print Assumptions C05_typing.

(* Short circuit: a falsy left operand decides &&, a truthy one decides ||, whatever the right
   operand is (even an erroring one); the ternary evaluates only the taken branch. *)
Theorem C05_short_circuit : forall fops fuel env l r c t f a,
  (eval fops true fuel env l = Ok a -> as_bool a = false ->
   eval fops true fuel env (EBin BAnd l r) = Ok (RInt 0)) /\
  (eval fops true fuel env l = Ok a -> as_bool a = true ->
   eval fops true fuel env (EBin BOr l r) = Ok (RInt 1)) /\
  (eval fops true fuel env c = Ok a ->
   eval fops true fuel env (EIf c t f) =
   if as_bool a then eval fops true fuel env t else eval fops true fuel env f).
Proof. exact short_circuit_all. Qed.
Print Assumptions C05_short_circuit.

(* Function / constant / operator tables regenerated from formula.rs (gen/FuncTable.v): every
   function of the standard maps to its operator and nothing else does; constants; the
   parse_binop! ladder is the parser model's table, which is the standard's precedence table. *)
Theorem C05_func_table :
  (forall k, In k std_functions ->
     func_of_name true (unop_name k) = Some k /\ const_of_name (unop_name k) = None) /\
  (forall s k, func_of_name true s = Some k -> s = unop_name k /\ In k std_functions) /\
  gen_const_table = std_constants.
Proof. exact (conj func_table_complete (conj func_table_sound const_table_std)). Qed.
Print Assumptions C05_func_table.

Theorem C05_ladder_table :
  gen_ladder =
    map (fun l => map (fun tk => (tok_code (fst tk), binop_code (snd tk))) (level_ops l)) (seq 1 10) /\
  (forall k, k <> BPow ->
     In (binop_tok k, k) (level_ops (binop_level k)) /\ (1 <= binop_level k <= 10)%nat) /\
  (forall l t k, In (t, k) (level_ops l) -> binop_level k = l /\ binop_tok k = t).
Proof. exact (conj ladder_table (conj level_ops_std level_ops_only)). Qed.
Print Assumptions C05_ladder_table.

(* Precedence and associativity of the whole grammar: the parser model (one fuel-indexed function
   faithful to the parse_binop! ladder, ternary, unary operators, `**`, function calls,
   parentheses) inverts the printer that parenthesises from the GenApi precedence table alone
   (spec/FormulaStd.v) - minimally, and fully - for EVERY expression tree whose identifiers are not
   constant names, at token level, for every sufficiently large fuel. *)
Theorem C05_parse_pp_min : forall e,
  wf_expr e -> exists f0, forall f, (f0 <= f)%nat -> parse_toks f (pp_min e) = Ok e.
Proof. exact parse_pp_min. Qed.
Print Assumptions C05_parse_pp_min.

Theorem C05_parse_pp_full : forall e,
  wf_expr e -> exists f0, forall f, (f0 <= f)%nat -> parse_toks f (pp_full e) = Ok e.
Proof. exact parse_pp_full. Qed.
Print Assumptions C05_parse_pp_full.

(* The lexer reads back every spelling of a token sequence: tokens separated by white space (space,
   tab, LF, CR), operators raw or written with the XML escapes &amp; &lt; &gt;, identifiers, decimal
   and 0x integers up to i64::MAX, decimal floats (digits with one dot; the value is the conversion
   oracle's). *)
Theorem C05_lex_spelled : forall fops ts src,
  spells_all fops ts src -> lex_all fops (S (length ts)) src = Ok ts.
Proof. exact lex_all_spelled. Qed.
Print Assumptions C05_lex_spelled.

(* Source level: formula::parse (lazy lexer + parser, on bytes) returns e on EVERY such spelling of
   the minimally ([full = false]) or fully ([full = true]) parenthesised print of e. *)
Theorem C05_parse_src_pp : forall fops full e src,
  wf_expr e -> spells_all fops (pr full 0 e) src ->
  exists f0, forall f, (f0 <= f)%nat -> parse_src fops true f src = Ok e.
Proof. exact parse_src_pp. Qed.
Print Assumptions C05_parse_src_pp.

(* non-vacuity of the spelling hypotheses: " A &lt;&lt;\t\n2 + 0x1f " spells pp_min (A << 2 + 31) *)
Theorem C05_spelling_example : forall fops,
  wf_expr ex_expr /\ spells_all fops (pp_min ex_expr) ex_src.
Proof. exact ex_spelled. Qed.
Print Assumptions C05_spelling_example.

(* ---- tight spellings, redundant parentheses, unary plus (proofs/P_C05d.v) ---- *)

(* Token level, loose prints: the parser returns e on EVERY print of e with the necessary
   parentheses plus any redundant ones (also nested), prefix -x or NEG(x), and an optional unary
   plus wherever the grammar takes one ([prints], spec/FormulaStd.v).  pp_min and pp_full are
   two such prints (C05_pr_prints), so this subsumes C05_parse_pp_min/_full. *)
Theorem C05_parse_prints : forall e ts,
  prints 0 e ts -> exists f0, forall f, (f0 <= f)%nat -> parse_toks f ts = Ok e.
Proof. exact parse_prints. Qed.
Print Assumptions C05_parse_prints.

Theorem C05_pr_prints : forall full e, wf_expr e -> forall c, prints c e (pr full c e).
Proof. exact pr_prints. Qed.
Print Assumptions C05_pr_prints.

(* parse (tokens of "( e )") = parse (tokens of "e"), and of "+ e" for a power-level e *)
Theorem C05_parse_redundant_parens : forall e ts,
  prints 0 e ts -> exists f0, forall f, (f0 <= f)%nat -> parse_toks f (TLParen :: ts ++ [TRParen]) = Ok e.
Proof. exact parse_redundant_parens. Qed.
Print Assumptions C05_parse_redundant_parens.

Theorem C05_parse_unary_plus : forall e ts,
  prints 12 e ts -> exists f0, forall f, (f0 <= f)%nat -> parse_toks f (TPlus :: ts) = Ok e.
Proof. exact parse_unary_plus. Qed.
Print Assumptions C05_parse_unary_plus.

(* Lexer without separating white space: a token sequence, each token with any of its spellings
   (operators may mix raw and escaped characters), rendered with a single space exactly where
   [needs_space] holds, lexes back to the sequence. *)
Theorem C05_lex_min_space : forall fops l,
  Forall (spelled fops) l -> lex_all fops (S (length l)) (render_min_space l) = Ok (map fst l).
Proof. exact lex_render_min_space. Qed.
Print Assumptions C05_lex_min_space.

(* [needs_space] is exact: for two adjacent spelled tokens (b the last one or followed by white
   space) the lexer returns a and leaves b's text untouched IF AND ONLY IF needs_space a b = false. *)
Theorem C05_needs_space_exact : forall fops a b rest,
  spelled fops a -> spelled fops b ->
  (rest = [] \/ exists w s, rest = w :: s /\ is_ws w) ->
  (needs_space a b = false <->
   lex1 fops (snd a ++ snd b ++ rest) = Ok (Some (fst a, snd b ++ rest))).
Proof. exact needs_space_exact_ws. Qed.
Print Assumptions C05_needs_space_exact.

(* ... and so does every text that has white space at least there ([spelt]: any white space may
   be added in front of any token and at the end). *)
Theorem C05_lex_spelt : forall fops l src,
  spelt fops l src -> lex_all fops (S (length l)) src = Ok (map fst l).
Proof. exact lex_all_spelt. Qed.
Print Assumptions C05_lex_spelt.

(* Source level: formula::parse on the minimal-space rendering of any spelling of any loose
   print of e returns e (e.g. "-A&lt;=(B)*+0x1f"), and on every text with more white space. *)
Theorem C05_parse_src_min_space : forall fops e l,
  prints 0 e (map fst l) -> Forall (spelled fops) l ->
  exists f0, forall f, (f0 <= f)%nat -> parse_src fops true f (render_min_space l) = Ok e.
Proof. exact parse_src_min_space. Qed.
Print Assumptions C05_parse_src_min_space.

Theorem C05_parse_src_prints : forall fops e l src,
  prints 0 e (map fst l) -> spelt fops l src ->
  exists f0, forall f, (f0 <= f)%nat -> parse_src fops true f src = Ok e.
Proof. exact parse_src_prints. Qed.
Print Assumptions C05_parse_src_prints.

Theorem C05_min_space_example : forall fops,
  prints 0 ex2_expr (map fst ex2_toks) /\ Forall (spelled fops) ex2_toks /\ render_min_space ex2_toks = ex2_src.
Proof. exact ex2_ok. Qed.
Print Assumptions C05_min_space_example.

(* Defects of the pinned code (each repaired by one `fix:` commit in /repo). *)
Theorem C05_rem_zero_refuted : forall fops,
  exists e, eval fops false 0 [] e = Panic /\ eval fops true 0 [] e = Err E_INVALID_DATA.
Proof. exact rem_zero_refuted. Qed.
Print Assumptions C05_rem_zero_refuted.

Theorem C05_neg_abs_min_refuted : forall fops,
  exists x, in_i64 x /\
    eval fops false 0 [] (EUn UNeg (EInt x)) = Panic /\
    eval fops false 0 [] (EUn UAbs (EInt x)) = Panic /\
    eval fops true 0 [] (EUn UNeg (EInt x)) = Ok (RInt x) /\
    eval fops true 0 [] (EUn UAbs (EInt x)) = Ok (RInt x).
Proof. exact neg_abs_min_refuted. Qed.
Print Assumptions C05_neg_abs_min_refuted.

Theorem C05_pow_exponent_refuted : forall fops,
  exists a n, 0 <= n /\ in_i64 n /\
    binop_strict fops false BPow (RInt a) (RInt n) = Ok (RInt 1) /\
    sw 64 (a ^ n) = 0 /\
    binop_strict fops true BPow (RInt a) (RInt n) = Ok (RInt 0).
Proof. exact pow_exponent_refuted. Qed.
Print Assumptions C05_pow_exponent_refuted.

Theorem C05_sgn_parse_refuted :
  exists ts e,
    parse_with (list token) next_tok false 50 ts = Panic /\
    parse_with (list token) next_tok true 50 ts = Ok e.
Proof. exact sgn_parse_refuted. Qed.
Print Assumptions C05_sgn_parse_refuted.

(* ---- the evaluator's code itself: gen/FormulaOpsSrc.v is re-translated from genapi/src/formula.rs on every run by
   tools/translate_formulaops.py (EvaluationResult coercions and From impls, wrapping_pow, Expr::eval_binop,
   Expr::eval_unop, Expr::eval; primitives: model/FormulaOps.v - float arithmetic is the oracle record - and
   lib/RustInt.v); proofs/P_C05s.v.  [res_ok r] : an integer value is an i64. ---- *)
From Cam Require Import RustInt FormulaOps FormulaOpsSrc P_C05s.

(* Every arm of eval_binop is the model's: (1) for EVERY operator other than && and ||, all operand values (every
   i64, every float pattern) and every oracle record, the translated arm returns what binop_strict returns - same
   value, same class (integer / float), same error; (2) with the operands given by their evaluations, as in the
   source, the translated function is [model_binop] - which places the `?` of the right operand of && and || behind
   the test of the left one - and (3) [model_binop] is literally the EBin clause of the model's eval; (4) the
   translated loop of wrapping_pow is the model's power for every base and every u64 exponent; (5) the shift arms
   take the count modulo 64 whatever the `as u32` did to it. *)
Theorem C05_binop_from_source :
  (forall fops k a b, res_ok a -> res_ok b -> k <> BAnd -> k <> BOr ->
     src_eval_binop fops k (Ok a) (Ok b) = binop_strict fops true k a b) /\
  (forall fops k ea eb, out_ok ea -> out_ok eb ->
     src_eval_binop fops k ea eb = model_binop fops k ea eb) /\
  (forall fops fuel env k l r,
     eval fops true fuel env (EBin k l r) =
     model_binop fops k (eval fops true fuel env l) (eval fops true fuel env r)) /\
  (forall base exp, 0 <= exp < 2 ^ 64 -> src_wrapping_pow base exp = Ok (pow_wrap base exp)) /\
  (forall a b, fst (i64_overflowing_shl a (r_cast 32 b)) = sw 64 (Z.shiftl a (b mod 64)) /\
               fst (i64_overflowing_shr a (r_cast 32 b)) = Z.shiftr a (b mod 64)).
Proof. exact binop_from_source_all. Qed.
Print Assumptions C05_binop_from_source.

(* Every arm of eval_unop (~ ABS SGN NEG and the fourteen float functions, with the class of the result). *)
Theorem C05_unop_from_source :
  (forall fops k a, res_ok a -> src_eval_unop fops k (Ok a) = unop_apply fops true k a) /\
  (forall fops k ea, out_ok ea -> src_eval_unop fops k ea = model_unop fops k ea) /\
  (forall fops fuel env k x,
     eval fops true fuel env (EUn k x) = model_unop fops k (eval fops true fuel env x)).
Proof. exact unop_from_source_all. Qed.
Print Assumptions C05_unop_from_source.

(* as_integer / as_float / as_bool / is_integer and the three From impls, for every value. *)
Theorem C05_coercions_from_source : forall fops r,
  src_as_integer fops r = as_integer fops r /\ src_as_float fops r = as_float fops r /\
  src_as_bool r = as_bool r /\ src_is_integer r = is_integer r /\
  (forall b, src_res_from_bool b = of_bool b) /\ (forall i, src_res_from_i64 i = RInt i) /\
  (forall f, src_res_from_f64 f = RFloat f).
Proof. exact coercions_from_source. Qed.
Print Assumptions C05_coercions_from_source.

(* Expr::eval as a whole (dispatch, ternary, literals, identifier lookup): the translated function IS the model's
   eval on every expression and environment whose integer literals are i64s, for every fuel. *)
Theorem C05_eval_from_source : forall fops fuel env,
  env_lits_ok env -> forall e, lits_ok e -> src_eval fops fuel env e = eval fops true fuel env e.
Proof. exact eval_from_source. Qed.
Print Assumptions C05_eval_from_source.

(* The property's clauses on the translated code alone: no operator arm panics for any operands; + - * on integers
   are arithmetic modulo 2^64; << and >> use the count modulo 64 (>> is the floor division: arithmetic shift); an
   integer % fails exactly for the divisor 0 and is the truncated remainder otherwise; the loop of wrapping_pow ends
   with its exponent at 0 within the bits of the exponent (its fuel is never used up). *)
Theorem C05_operators_of_source :
  (forall fops k a b, res_ok a -> res_ok b -> src_eval_binop fops k (Ok a) (Ok b) <> Panic) /\
  (forall fops k a, res_ok a -> src_eval_unop fops k (Ok a) <> Panic) /\
  (forall fops a b,
     src_eval_binop fops BAdd (Ok (RInt a)) (Ok (RInt b)) = Ok (RInt (sw 64 (a + b))) /\
     src_eval_binop fops BSub (Ok (RInt a)) (Ok (RInt b)) = Ok (RInt (sw 64 (a - b))) /\
     src_eval_binop fops BMul (Ok (RInt a)) (Ok (RInt b)) = Ok (RInt (sw 64 (a * b)))) /\
  (forall fops a b, in_i64 a -> in_i64 b ->
     src_eval_binop fops BShl (Ok (RInt a)) (Ok (RInt b)) = Ok (RInt (sw 64 (a * 2 ^ (b mod 64)))) /\
     src_eval_binop fops BShr (Ok (RInt a)) (Ok (RInt b)) = Ok (RInt (a / 2 ^ (b mod 64)))) /\
  (forall fops a b, in_i64 a -> in_i64 b ->
     src_eval_binop fops BRem (Ok (RInt a)) (Ok (RInt b)) =
     if b =? 0 then Err E_INVALID_DATA else Ok (RInt (sw 64 (Z.rem a b)))) /\
  (forall n base exp acc, 0 <= exp < 2 ^ Z.of_nat n ->
     exists b' r, src_wrapping_pow_loop n base exp acc = Ok (b', 0, r)).
Proof. exact operators_of_source. Qed.
Print Assumptions C05_operators_of_source.

(* The translator's reading of the operator enums (constructor per variant, declaration order) agrees with the
   model's numbering and with tools/translate_funcs.py's independent reading of the same declarations. *)
Theorem C05_enums_cross_check :
  src_binop_decl = all_binops /\ src_unop_decl = all_unops /\
  map binop_code src_binop_decl = map Z.of_nat (seq 0 19) /\ map unop_code src_unop_decl = map Z.of_nat (seq 0 18) /\
  zlen src_binop_decl = gen_binop_count /\ zlen src_unop_decl = gen_unop_count /\
  src_binop_names = gen_binop_variants /\ src_unop_names = gen_unop_variants.
Proof. exact decl_cross_check. Qed.
Print Assumptions C05_enums_cross_check.

(* non-vacuity: the translated code evaluated (vm_compute) on concrete operands, with an oracle record of constants *)
Theorem C05_source_examples :
  src_eval_binop fops0 BAdd (Ok (RInt (2 ^ 63 - 1))) (Ok (RInt 1)) = Ok (RInt (- 2 ^ 63)) /\
  src_eval_binop fops0 BMul (Ok (RInt (2 ^ 62))) (Ok (RInt 4)) = Ok (RInt 0) /\
  src_eval_binop fops0 BShl (Ok (RInt 1)) (Ok (RInt 65)) = Ok (RInt 2) /\
  src_eval_binop fops0 BShr (Ok (RInt (-8))) (Ok (RInt (-63))) = Ok (RInt (-4)) /\
  src_eval_binop fops0 BRem (Ok (RInt 5)) (Ok (RInt 0)) = Err E_INVALID_DATA /\
  src_eval_binop fops0 BRem (Ok (RInt (-7))) (Ok (RInt 2)) = Ok (RInt (-1)) /\
  src_eval_binop fops0 BRem (Ok (RInt (- 2 ^ 63))) (Ok (RInt (-1))) = Ok (RInt 0) /\
  src_eval_binop fops0 BPow (Ok (RInt 2)) (Ok (RInt 4294967296)) = Ok (RInt 0) /\
  src_eval_binop fops0 BPow (Ok (RInt 3)) (Ok (RInt 4)) = Ok (RInt 81) /\
  src_eval_binop fops0 BDiv (Ok (RInt 6)) (Ok (RInt 3)) = Ok (RFloat 7) /\
  src_eval_binop fops0 BLe (Ok (RInt 3)) (Ok (RInt 3)) = Ok (RInt 1) /\
  src_eval_binop fops0 BXor (Ok (RInt (-1))) (Ok (RInt 5)) = Ok (RInt (-6)) /\
  src_eval_binop fops0 BAnd (Ok (RInt 0)) Panic = Ok (RInt 0) /\
  src_eval_binop fops0 BOr (Ok (RInt 2)) (Err 5) = Ok (RInt 1) /\
  src_eval_binop fops0 BAnd (Ok (RInt 1)) (Err 5) = Err 5 /\
  src_eval_unop fops0 UNeg (Ok (RInt (- 2 ^ 63))) = Ok (RInt (- 2 ^ 63)) /\
  src_eval_unop fops0 UNot (Ok (RInt 0)) = Ok (RInt (-1)) /\
  src_eval_unop fops0 USgn (Ok (RInt (-9))) = Ok (RInt (-1)) /\
  src_eval fops0 1 [([65], EInt 5)] (EIf (EBin BLt (EIdent [65]) (EInt 7)) (EBin BShl (EIdent [65]) (EInt 2)) (EIdent [66]))
    = Ok (RInt 20) /\
  src_eval fops0 0 [] (EIdent [66]) = Err E_INVALID_NODE.
Proof. exact source_examples. Qed.
Print Assumptions C05_source_examples.
