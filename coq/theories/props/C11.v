(* C11 — Stream leader/trailer decoding and payload assembly are faithful and in-bounds.
   Statements only; proofs in proofs/P_C11.v.  code_to_pf / pf_to_code are regenerated from
   device/src/pixel_format.rs by tools/translate.py on every run of the check. *)
From Cam Require Import Outcome Bytes Ack Stream Payload GenCPLayout StreamLayout P_C08 P_C11.

Theorem C11_leader_faithful : forall bs, agree to_sleader (parse_leader bs) (spec_leader bs).
Proof. exact parse_leader_faithful. Qed.
Print Assumptions C11_leader_faithful.

Theorem C11_trailer_faithful : forall bs, agree to_strailer (parse_trailer bs) (spec_trailer bs).
Proof. exact parse_trailer_faithful. Qed.
Print Assumptions C11_trailer_faithful.

Theorem C11_image_leader_faithful : forall raw,
  agree to_simage (parse_image_leader raw) (spec_image_leader pf_opt raw).
Proof. exact parse_image_leader_faithful. Qed.
Print Assumptions C11_image_leader_faithful.

Theorem C11_chunk_leader_faithful : forall raw,
  agree (fun z => z) (parse_chunk_leader raw) (spec_u64_at 0 raw).
Proof. exact parse_chunk_leader_faithful. Qed.
Print Assumptions C11_chunk_leader_faithful.

Theorem C11_image_trailer_faithful : forall raw,
  agree (fun z => z) (parse_image_trailer raw) (spec_u32_at 0 raw).
Proof. exact parse_image_trailer_faithful. Qed.
Print Assumptions C11_image_trailer_faithful.

Theorem C11_ext_trailer_faithful : forall raw,
  agree (fun p => p) (parse_ext_trailer raw)
        (match spec_u32_at 0 raw, spec_u32_at 4 raw with Some h, Some c => Some (h, c) | _, _ => None end).
Proof. exact parse_ext_trailer_faithful. Qed.
Print Assumptions C11_ext_trailer_faithful.

Theorem C11_chunk_trailer_faithful : forall raw,
  agree (fun z => z) (parse_chunk_trailer raw) (spec_u32_at 0 raw).
Proof. exact parse_chunk_trailer_faithful. Qed.
Print Assumptions C11_chunk_trailer_faithful.

(* pixel formats: codes map one-to-one to formats, over all integers (codes outside the
   table are rejected by the single catch-all arm, which the translator asserts) *)
Theorem C11_pixel_encode_decode : forall p, 0 <= p < pf_count ->
  exists c, code_of_pf p = Some c /\ pf_of_code c = Ok p.
Proof. exact pixel_encode_decode. Qed.
Print Assumptions C11_pixel_encode_decode.

Theorem C11_pixel_decode_encode : forall c p, pf_of_code c = Ok p ->
  code_of_pf p = Some c /\ 0 <= p < pf_count /\ 0 <= c < 2 ^ 32.
Proof. exact pixel_decode_encode. Qed.
Print Assumptions C11_pixel_decode_encode.

(* payload assembly: for any leader, trailer, buffer and received count within the buffer,
   Ok means id/type/timestamp/image info come from that leader and trailer and
   image size <= valid payload size <= received <= buffer, so no view panics *)
Theorem C11_build_sound : forall l t buf rs p,
  bytes_ok buf -> 0 <= t_valid t -> rs <= zlen buf -> build l t buf rs = Ok p ->
  p_id p = l_block_id l /\ p_buf p = buf /\ p_valid p = t_valid t /\ t_status t = 0 /\
  (p_type p = l_type l \/ (p_type p = 2 /\ l_type l <> 0 /\ l_type l <> 1)) /\
  p_valid p <= rs /\
  (forall ii, p_info p = Some ii -> 0 <= ii_image_size ii <= p_valid p) /\
  info_from l t p /\
  view_image p <> Panic /\ view_payload p <> Panic.
Proof. exact build_sound. Qed.
Print Assumptions C11_build_sound.

Theorem C11_build_no_panic : forall l t buf rs,
  bytes_ok buf -> 0 <= t_valid t -> rs <= zlen buf -> build l t buf rs <> Panic.
Proof. exact build_no_panic. Qed.
Print Assumptions C11_build_no_panic.

(* the backwards chunk walk ends within valid/8 + 1 iterations (the fuel given by build)
   with an error or the first chunk's size, which fits below the valid size *)
Theorem C11_chunk_walk_sound : forall fuel buf off, bytes_ok buf -> 0 <= off <= zlen buf ->
  chunk_walk fuel buf off <> Panic /\
  (forall sz, chunk_walk fuel buf off = Ok sz -> 0 <= sz /\ sz + 8 <= off).
Proof. exact chunk_walk_sound. Qed.
Print Assumptions C11_chunk_walk_sound.

(* TIE TO THE SOURCE TABLES (gen/ProtoTables.v, regenerated from device/src/u3v/protocol/stream.rs on every run):
   leader / trailer magic, the payload type and payload status tables, for every 16-bit or larger value. *)
From Cam Require Import ProtoTables P_Tables.

Theorem C11_stream_tables_from_source :
  LEADER_MAGIC = src_leader_magic /\ TRAILER_MAGIC = src_trailer_magic /\
  (forall v, payload_type_of v = table_fn src_payload_type 0 v) /\
  (forall v, payload_status_of v = table_fn src_payload_status 0 v).
Proof. exact (conj (proj1 stream_magic_src) (conj (proj2 stream_magic_src) (conj payload_type_src payload_status_src))). Qed.
Print Assumptions C11_stream_tables_from_source.
