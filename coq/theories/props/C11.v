(* C11 — Stream leader/trailer decoding and payload assembly are faithful and in-bounds.
   Statements only; proofs in proofs/P_C11.v.  code_to_pf / pf_to_code are regenerated from
   device/src/pixel_format.rs by tools/translate.py on every run of the check. *)
From Cam Require Import Outcome Bytes Ack Stream Payload GenCPLayout StreamLayout P_C08 P_C11.

Theorem C11_leader_faithful : forall bs, agree to_sleader (parse_leader bs) (spec_leader bs).
Proof. exact parse_leader_faithful. Qed.
Print Assumptions C11_leader_faithful.

Theorem C11_trailer_faithful : forall bs, agree to_strailer (parse_trailer bs) (spec_trailer bs).
Proof. exact parse_trailer_faithful. Qed.
Print Assumptions C11_trailer_faithful.

Theorem C11_image_leader_faithful : forall raw,
  agree to_simage (parse_image_leader raw) (spec_image_leader pf_opt raw).
Proof. exact parse_image_leader_faithful. Qed.
Print Assumptions C11_image_leader_faithful.

Theorem C11_chunk_leader_faithful : forall raw,
  agree (fun z => z) (parse_chunk_leader raw) (spec_u64_at 0 raw).
Proof. exact parse_chunk_leader_faithful. Qed.
Print Assumptions C11_chunk_leader_faithful.

Theorem C11_image_trailer_faithful : forall raw,
  agree (fun z => z) (parse_image_trailer raw) (spec_u32_at 0 raw).
Proof. exact parse_image_trailer_faithful. Qed.
Print Assumptions C11_image_trailer_faithful.

Theorem C11_ext_trailer_faithful : forall raw,
  agree (fun p => p) (parse_ext_trailer raw)
        (match spec_u32_at 0 raw, spec_u32_at 4 raw with Some h, Some c => Some (h, c) | _, _ => None end).
Proof. exact parse_ext_trailer_faithful. Qed.
Print Assumptions C11_ext_trailer_faithful.

Theorem C11_chunk_trailer_faithful : forall raw,
  agree (fun z => z) (parse_chunk_trailer raw) (spec_u32_at 0 raw).
Proof. exact parse_chunk_trailer_faithful. Qed.
Print Assumptions C11_chunk_trailer_faithful.

(* pixel formats: codes map one-to-one to formats, over all integers (codes outside the
   table are rejected by the single catch-all arm, which the translator asserts) *)
Theorem C11_pixel_encode_decode : forall p, 0 <= p < pf_count ->
  exists c, code_of_pf p = Some c /\ pf_of_code c = Ok p.
Proof. exact pixel_encode_decode. Qed.
Print Assumptions C11_pixel_encode_decode.

Theorem C11_pixel_decode_encode : forall c p, pf_of_code c = Ok p ->
  code_of_pf p = Some c /\ 0 <= p < pf_count /\ 0 <= c < 2 ^ 32.
Proof. exact pixel_decode_encode. Qed.
Print Assumptions C11_pixel_decode_encode.

(* payload assembly: for any leader, trailer, buffer and received count within the buffer,
   Ok means id/type/timestamp/image info come from that leader and trailer and
   image size <= valid payload size <= received <= buffer, so no view panics *)
Theorem C11_build_sound : forall l t buf rs p,
  bytes_ok buf -> 0 <= t_valid t -> rs <= zlen buf -> build l t buf rs = Ok p ->
  p_id p = l_block_id l /\ p_buf p = buf /\ p_valid p = t_valid t /\ t_status t = 0 /\
  (p_type p = l_type l \/ (p_type p = 2 /\ l_type l <> 0 /\ l_type l <> 1)) /\
  p_valid p <= rs /\
  (forall ii, p_info p = Some ii -> 0 <= ii_image_size ii <= p_valid p) /\
  info_from l t p /\
  view_image p <> Panic /\ view_payload p <> Panic.
Proof. exact build_sound. Qed.
Print Assumptions C11_build_sound.

Theorem C11_build_no_panic : forall l t buf rs,
  bytes_ok buf -> 0 <= t_valid t -> rs <= zlen buf -> build l t buf rs <> Panic.
Proof. exact build_no_panic. Qed.
Print Assumptions C11_build_no_panic.

(* the backwards chunk walk ends within valid/8 + 1 iterations (the fuel given by build)
   with an error or the first chunk's size, which fits below the valid size *)
Theorem C11_chunk_walk_sound : forall fuel buf off, bytes_ok buf -> 0 <= off <= zlen buf ->
  chunk_walk fuel buf off <> Panic /\
  (forall sz, chunk_walk fuel buf off = Ok sz -> 0 <= sz /\ sz + 8 <= off).
Proof. exact chunk_walk_sound. Qed.
Print Assumptions C11_chunk_walk_sound.

(* TIE TO THE SOURCE TABLES (gen/ProtoTables.v, regenerated from device/src/u3v/protocol/stream.rs on every run):
   leader / trailer magic, the payload type and payload status tables, for every 16-bit or larger value. *)
From Cam Require Import ProtoTables P_Tables.

Theorem C11_stream_tables_from_source :
  LEADER_MAGIC = src_leader_magic /\ TRAILER_MAGIC = src_trailer_magic /\
  (forall v, payload_type_of v = table_fn src_payload_type 0 v) /\
  (forall v, payload_status_of v = table_fn src_payload_status 0 v).
Proof. exact (conj (proj1 stream_magic_src) (conj (proj2 stream_magic_src) (conj payload_type_src payload_status_src))). Qed.
Print Assumptions C11_stream_tables_from_source.

(* TIE TO THE SOURCE CODE (gen/StreamParseSrc.v, re-translated by tools/translate_streamparse.py on every run from
   device/src/u3v/protocol/stream.rs, cameleon/src/u3v/stream_handle.rs and cameleon/src/payload.rs; cursor reads,
   slicing and loops mean what model/RdOps.v says, integer operations what lib/RustInt.v says).
   src_X are the TRANSLATED functions; to_leader / to_trailer / to_il / to_il_ext / to_payload (proofs/P_C11s.v) only
   rename the fields of the translated structs to those of the models. *)
From Cam Require Import RustInt RdOps StreamParseSrc P_C11s.

(* Leader::parse and the three specific leaders: for EVERY byte list the translated decoder returns what the model
   returns - Ok with the same fields, the same error class, or a panic in the same cases; the getters return their own
   fields; the magic, the payload type table and the pixel format conversion are those of the regenerated tables *)
Theorem C11_leader_parse_from_source :
  (forall bs, omap to_leader (src_Leader_parse bs) = parse_leader bs) /\
  (forall raw, omap to_il (src_ImageLeader_from_bytes raw) = parse_image_leader raw) /\
  (forall raw, omap to_il_ext (src_ImageExtendedChunkLeader_from_bytes raw) = parse_image_leader raw) /\
  (forall raw, omap src_ChunkLeader_timestamp (src_ChunkLeader_from_bytes raw) = parse_chunk_leader raw) /\
  (forall T (f : list Z -> outcome T) l, src_Leader_specific_leader_as f l = f (l_raw (to_leader l))) /\
  (forall l, src_Leader_leader_size l = l_size (to_leader l) /\ src_Leader_block_id l = l_block_id (to_leader l) /\
             src_Leader_payload_type l = l_type (to_leader l)) /\
  (forall il, show_src_il il = show_il (to_il il)) /\ (forall il, show_src_il_ext il = show_il (to_il_ext il)) /\
  src_Leader_LEADER_MAGIC = src_leader_magic /\
  (forall v, src_PayloadType_try_from v = table_fn src_payload_type 0 v) /\
  (forall c, r_map_err E_INVALID_PACKET (pixel_try_from c) = pf_of_code c).
Proof. exact leader_parse_from_source_all. Qed.
Print Assumptions C11_leader_parse_from_source.

(* Trailer::parse (status through the translated table, valid_payload_size, trailer_size) and the specific trailers *)
Theorem C11_trailer_parse_from_source :
  (forall bs, omap to_trailer (src_Trailer_parse bs) = parse_trailer bs) /\
  (forall raw, omap src_ImageTrailer_actual_height (src_ImageTrailer_from_bytes raw) = parse_image_trailer raw) /\
  (forall raw, omap (fun t => (src_ImageExtendedChunkTrailer_actual_height t, src_ImageExtendedChunkTrailer_chunk_layout_id t))
                    (src_ImageExtendedChunkTrailer_from_bytes raw) = parse_ext_trailer raw) /\
  (forall raw, omap src_ChunkTrailer_chunk_layout_id (src_ChunkTrailer_from_bytes raw) = parse_chunk_trailer raw) /\
  (forall T (f : list Z -> outcome T) t, src_Trailer_specific_trailer_as f t = f (t_raw (to_trailer t))) /\
  (forall t, src_Trailer_trailer_size t = t_size (to_trailer t) /\ src_Trailer_block_id t = t_block_id (to_trailer t) /\
             src_Trailer_payload_status t = t_status (to_trailer t) /\
             src_Trailer_valid_payload_size t = t_valid (to_trailer t)) /\
  src_Trailer_TRAILER_MAGIC = src_trailer_magic /\
  (forall v, src_PayloadStatus_try_from v = table_fn src_payload_status 0 v).
Proof. exact trailer_parse_from_source_all. Qed.
Print Assumptions C11_trailer_parse_from_source.

(* PayloadBuilder::build with its three branches, as translated (status check, valid_payload_size against the received
   count, the `as usize` casts, the backwards chunk walk with its checked subtractions, its slice and its overflow
   checks), is the model's build for every leader, trailer, buffer and received count that the Rust types can hold
   (u64 / usize values, a buffer shorter than 2^64, bytes below 256); the loop body is the model's chunk walk for every
   fuel; the translated views payload() / image() are the model's views, into_vec() has the valid length and equals
   payload() when that does not panic *)
Theorem C11_builder_bounds_from_source :
  (forall l t buf rs,
     bytes_ok (l_raw l) -> bytes_ok (t_raw t) -> bytes_ok buf ->
     0 <= t_valid t < 2 ^ 64 -> 0 <= rs < 2 ^ 64 -> zlen buf < 2 ^ 64 ->
     omap to_payload (src_PayloadBuilder_build (S (Z.to_nat (t_valid t / 8))) (mk_builder l t buf rs)) =
     build l t buf rs) /\
  (forall pb fuel off, bytes_ok (PayloadBuilder_payload_buf pb) -> zlen (PayloadBuilder_payload_buf pb) < 2 ^ 64 ->
     r_loop fuel (src_PayloadBuilder_build_image_extended_payload_loop pb) off =
     chunk_walk fuel (PayloadBuilder_payload_buf pb) off) /\
  (forall p, 0 <= Payload_valid_payload_size p -> src_Payload_payload p = view_payload (to_payload p)) /\
  (forall p, (forall ii, Payload_image_info p = Some ii -> 0 <= ImageInfo_image_size ii) ->
     src_Payload_image p = view_image (to_payload p)) /\
  (forall p, 0 <= Payload_valid_payload_size p <= zlen (Payload_payload p) ->
     omap Some (src_Payload_into_vec p) = omap Some (src_Payload_payload p)) /\
  (forall p v, 0 <= Payload_valid_payload_size p -> src_Payload_into_vec p = Ok v ->
     zlen v = Payload_valid_payload_size p) /\
  (forall p, src_Payload_id p = p_id (to_payload p) /\ src_Payload_payload_type p = p_type (to_payload p) /\
             src_Payload_timestamp p = p_timestamp (to_payload p) /\
             option_map to_info (src_Payload_image_info p) = p_info (to_payload p)) /\
  E_STREAM_INVALID_PAYLOAD = E_INVALID_PAYLOAD.
Proof. exact builder_bounds_from_source. Qed.
Print Assumptions C11_builder_bounds_from_source.

(* the property's clause stated on the translated code alone: whatever leader and trailer bytes arrive, when the
   translated decoders and the translated builder return Ok (fuel above valid / 8), the payload carries the leader's
   block id and the buffer, valid size <= received count, and payload() / into_vec() / image() return prefixes of the
   buffer without panicking, with image size <= valid size *)
Theorem C11_views_in_bounds_of_source : forall lb tb buf rs fuel sl st p,
  bytes_ok lb -> bytes_ok tb -> bytes_ok buf -> 0 <= rs <= zlen buf -> zlen buf < 2 ^ 64 ->
  src_Leader_parse lb = Ok sl -> src_Trailer_parse tb = Ok st ->
  Trailer_valid_payload_size st / 8 < Z.of_nat fuel ->
  src_PayloadBuilder_build fuel {| PayloadBuilder_leader := sl; PayloadBuilder_payload_buf := buf;
                                   PayloadBuilder_read_payload_size := rs; PayloadBuilder_trailer := st |} = Ok p ->
  Payload_id p = Leader_block_id sl /\ Payload_payload p = buf /\
  0 <= Payload_valid_payload_size p <= rs /\
  src_Payload_payload p = Ok (take (Payload_valid_payload_size p) buf) /\
  src_Payload_into_vec p = Ok (take (Payload_valid_payload_size p) buf) /\
  match Payload_image_info p with
  | None => src_Payload_image p = Ok None
  | Some ii => 0 <= ImageInfo_image_size ii <= Payload_valid_payload_size p /\
               src_Payload_image p = Ok (Some (take (ImageInfo_image_size ii) buf))
  end.
Proof. exact views_in_bounds_of_source. Qed.
Print Assumptions C11_views_in_bounds_of_source.

(* totality of the translated builder on decoded leaders and trailers: every fuel above valid / 8 gives the same
   result, the chunk walk never stops for lack of fuel, and with received count <= buffer length nothing panics *)
Theorem C11_builder_total_of_source : forall lb tb buf rs f1 f2 sl st,
  bytes_ok lb -> bytes_ok tb -> bytes_ok buf -> 0 <= rs < 2 ^ 64 -> zlen buf < 2 ^ 64 ->
  src_Leader_parse lb = Ok sl -> src_Trailer_parse tb = Ok st ->
  Trailer_valid_payload_size st / 8 < Z.of_nat f1 -> Trailer_valid_payload_size st / 8 < Z.of_nat f2 ->
  let pb := {| PayloadBuilder_leader := sl; PayloadBuilder_payload_buf := buf;
               PayloadBuilder_read_payload_size := rs; PayloadBuilder_trailer := st |} in
  omap to_payload (src_PayloadBuilder_build f1 pb) = omap to_payload (src_PayloadBuilder_build f2 pb) /\
  src_PayloadBuilder_build f1 pb <> Err E_FUEL /\
  (rs <= zlen buf -> src_PayloadBuilder_build f1 pb <> Panic).
Proof. exact builder_total_of_source. Qed.
Print Assumptions C11_builder_total_of_source.

(* non-vacuity: an Image frame and an ImageExtendedChunk frame (two chunks) decoded and assembled by the translated
   code, and the error classes of a short leader, a wrong payload type, a wrong magic, valid size > received *)
Theorem C11_source_examples :
  ex_run 1 8 8 [1; 2; 3; 4; 5; 6; 7; 8; 66; 66] =
    Ok (51, 0, 8, 100, Some (4, 2, 1, 3, 0, 8), Ok (Some [1; 2; 3; 4; 5; 6; 7; 8]), Ok [1; 2; 3; 4; 5; 6; 7; 8],
        Ok [1; 2; 3; 4; 5; 6; 7; 8]) /\
  ex_run 0x4001 22 23 ex_chunks =
    Ok (51, 1, 22, 100, Some (4, 2, 1, 3, 0, 4), Ok (Some [9; 9; 9; 9]), Ok (firstn 22 ex_chunks),
        Ok (firstn 22 ex_chunks)) /\
  ex_run 1 9 8 [1; 2; 3; 4; 5; 6; 7; 8; 66; 66] = Err E_STREAM_INVALID_PAYLOAD /\
  src_Leader_parse (firstn 19 (ex_leader 1)) = Err E_BUFFER_IO /\
  src_Leader_parse (ex_leader 2) = Err E_INVALID_PACKET /\
  src_Trailer_parse (0 :: ex_trailer 8) = Err E_INVALID_PACKET.
Proof. exact source_examples. Qed.
Print Assumptions C11_source_examples.
