(* C16 — Camera start/stop/close keep device acquisition state consistent.
   Statements only; proofs are in proofs/P_C16.v.
   Model of /repo/cameleon/src/camera.rs: model/Camera.v ([run true] = the code that exists now,
   [run false] = the pinned code before the repair d70bfb8).  The acquisition protocol, written
   from the property text and independent of the camera code: spec/CameraProto.v.

   A session is a list of calls over {open, load_context(description), start_streaming(cap),
   stop_streaming, close, params access}; a failure plan [pl i j] says whether the j-th fallible
   DeviceControl / PayloadStream operation of call i fails and with a fault of which class ([Some cls]:
   Io, Timeout, Disconnected, Busy, NotOpened, InvalidData, ...; any set of failures, not only one).
   [trace_of (run true pl cs)] is the list of effects on the device, the stream handle and the
   GenApi context, in order.  Every prefix of a session is a session, so a statement about
   "the trace / the final state of every session" is a statement about every reachable point. *)
From Cam Require Import Outcome CameraProto Camera P_C16.

(* Ordering: in every session under every failure plan, each effect is admissible after the
   effects before it: AcquisitionStart only with the stream enabled and TLParamsLocked = 1,
   LoopStart only after that and with the device acquiring and no loop alive, AcquisitionStop only
   with the loop halted, TLParamsLocked := 0 only after AcquisitionStop, DisableStreaming only
   after that. *)
Theorem C16_order : forall pl cs, proto_ok (trace_of (run true pl cs)).
Proof. exact (order true). Qed.
Print Assumptions C16_order.

(* The same read as "happened before and was not undone since". *)
Theorem C16_order_before : forall pl cs p q,
  (trace_of (run true pl cs) = p ++ AcqStart :: q ->
     since EnableStreaming DisableStreaming p /\
     since (SetTLParamsLocked true) (SetTLParamsLocked false) p) /\
  (trace_of (run true pl cs) = p ++ LoopStart :: q ->
     since EnableStreaming DisableStreaming p /\
     since (SetTLParamsLocked true) (SetTLParamsLocked false) p /\
     since AcqStart AcqStop p /\
     (In LoopStart p -> since LoopStop LoopStart p)) /\
  (trace_of (run true pl cs) = p ++ AcqStop :: q ->
     In LoopStart p -> since LoopStop LoopStart p) /\
  (trace_of (run true pl cs) = p ++ SetTLParamsLocked false :: q ->
     (In LoopStart p -> since LoopStop LoopStart p) /\
     (In AcqStart p -> since AcqStop AcqStart p)) /\
  (trace_of (run true pl cs) = p ++ DisableStreaming :: q ->
     (In LoopStart p -> since LoopStop LoopStart p) /\
     (In AcqStart p -> since AcqStop AcqStart p) /\
     (In (SetTLParamsLocked true) p ->
        since (SetTLParamsLocked false) (SetTLParamsLocked true) p)).
Proof. exact (order_before true). Qed.
Print Assumptions C16_order_before.

(* At most one receive loop is alive after every prefix of every trace (counting LoopStart /
   LoopStop), and LoopStart never happens while a loop is alive. *)
Theorem C16_single_loop : forall pl cs p q,
  trace_of (run true pl cs) = p ++ q ->
  0 <= loops_alive p <= 1 /\
  (forall q', q = LoopStart :: q' -> d_alive (replay p) = false).
Proof. exact (single_loop true). Qed.
Print Assumptions C16_single_loop.

(* Starting while already streaming: InStreaming, nothing is done, the state is unchanged. *)
Theorem C16_start_in_streaming : forall cap pl s,
  loop_running s = true ->
  run_call true (CStart cap) pl s =
  {| r_res := Err E_IN_STREAMING; r_effs := []; r_nops := 0; r_atts := []; r_failed := None; r_cam := s |}.
Proof. exact (start_in_streaming true). Qed.
Print Assumptions C16_start_in_streaming.

(* Starting without a loaded description: GenApiContextMissing, nothing is done. *)
Theorem C16_start_without_context : forall cap pl s,
  loop_running s = false -> ctxt s = None ->
  run_call true (CStart cap) pl s =
  {| r_res := Err E_CTXT_MISSING; r_effs := []; r_nops := 0; r_atts := []; r_failed := None; r_cam := s |}.
Proof. exact start_without_context. Qed.
Print Assumptions C16_start_without_context.

(* A start that does not return Ok — whatever failed, in whatever state — has not started a
   loop: LoopStart is in its effects only when it returns Ok, and otherwise the streaming flag is
   what it was. *)
Theorem C16_start_err_no_loop : forall cap pl s,
  let r := run_call true (CStart cap) pl s in
  (In LoopStart (r_effs r) -> r_res r = Ok (-1)) /\
  (r_res r <> Ok (-1) -> loop_running (r_cam r) = loop_running s).
Proof. exact (start_err_no_loop true). Qed.
Print Assumptions C16_start_err_no_loop.

(* While a loop is alive the device is in the streaming configuration (stream enabled,
   TLParamsLocked = 1, acquiring) — after every prefix of every trace. *)
Theorem C16_streaming_state : forall pl cs p q,
  trace_of (run true pl cs) = p ++ q -> streaming_config (replay p).
Proof. exact (streaming_state true). Qed.
Print Assumptions C16_streaming_state.

(* The state the camera holds — in particular strm.is_loop_running(), the flag it branches on —
   is exactly what replaying the effects that really happened gives, under every failure plan:
   the streaming flag matches whether a loop is running. *)
Theorem C16_state_agrees : forall pl cs,
  dev_of (final (run true pl cs)) = replay (trace_of (run true pl cs)).
Proof. exact (state_agrees true). Qed.
Print Assumptions C16_state_agrees.

Theorem C16_flag_matches : forall pl cs,
  loop_running (final (run true pl cs)) = d_alive (replay (trace_of (run true pl cs))).
Proof. exact (flag_matches true). Qed.
Print Assumptions C16_flag_matches.

(* Clean close: when no operation fails, every start has cap > 0 (documented precondition) and
   every description that parses defines the three nodes, then after any session followed by
   close: close returns Ok, the loop is stopped, TLParamsLocked = 0, the stream is disabled, the
   device is not acquiring, both handles are closed and no register value is cached. *)
Theorem C16_close_clean : forall pl cs,
  (forall i j, pl i j = None) -> Forall good_call cs ->
  clean (final (run true pl (cs ++ [CClose]))) /\
  exists rs r, run true pl (cs ++ [CClose]) = rs ++ [r] /\ r_res r = Ok (-1).
Proof. exact close_clean. Qed.
Print Assumptions C16_close_clean.

(* Defect of the pinned code (repaired by d70bfb8): open, start_streaming without a loaded
   description, close — no operation failed, yet the stream stays enabled after close, because
   start_streaming called ctrl.enable_streaming() before it noticed the missing context. *)
Theorem C16_close_clean_v0_refuted :
  exists cs, Forall good_call cs /\
    stream_enabled (final (run false no_failure (cs ++ [CClose]))) = true /\
    ~ clean (final (run false no_failure (cs ++ [CClose]))).
Proof. exact close_clean_v0_refuted. Qed.
Print Assumptions C16_close_clean_v0_refuted.

Theorem C16_start_without_context_v0 : forall cap s,
  loop_running s = false -> ctxt s = None ->
  let r := run_call false (CStart cap) (fun _ => None) s in
  r_res r = Err E_CTXT_MISSING /\ r_effs r = [EnableStreaming] /\ stream_enabled (r_cam r) = true.
Proof. exact start_without_context_v0. Qed.
Print Assumptions C16_start_without_context_v0.

(* Failure stops the call: in any state, if operation j is the first the plan fails — with a fault of
   ANY class cls (Io, Timeout, Disconnected, Busy, NotOpened, ...) — and the call reaches it, the call
   returns the error of exactly that operation carrying exactly that class, its effects are exactly the
   first j effects of the failure-free execution (nothing of the later sub-operations), the device log
   is those j accesses followed by the ONE failed attempt, and j + 1 operations were attempted (no
   second attempt of the failed access, no later access). *)
Theorem C16_failure_stops : forall c plc s j cls,
  first_fail plc j cls ->
  (j < r_nops (run_call true c (fun _ => None) s))%nat ->
  exists e, nth_error (r_effs (run_call true c (fun _ => None) s)) j = Some e /\
    r_failed (run_call true c plc s) = Some (e, cls) /\
    r_res (run_call true c plc s) = Err (err_of e cls) /\
    r_effs (run_call true c plc s) = firstn j (r_effs (run_call true c (fun _ => None) s)) /\
    r_atts (run_call true c plc s) = firstn j (r_effs (run_call true c (fun _ => None) s)) ++ [e] /\
    r_nops (run_call true c plc s) = S j.
Proof. exact (failure_stops true). Qed.
Print Assumptions C16_failure_stops.

(* Every device access is attempted at most once: in every session under every failure plan, the
   device log of every call (open, load_context, start, stop, close, params access) has no repeated
   access; it is exactly the accesses that succeeded — the call's effects on the device and the stream
   handle — followed, when one failed, by that single failed attempt; its length is the number of
   operations attempted. *)
Theorem C16_access_once : forall pl cs r,
  In r (run true pl cs) ->
  NoDup (r_atts r) /\ r_atts r = filter is_access (r_effs r) ++ failed_att r /\
  length (r_atts r) = r_nops r.
Proof. exact (attempts_session true). Qed.
Print Assumptions C16_access_once.

(* The same for one call from ANY state (not only reachable ones). *)
Theorem C16_access_once_call : forall c plc s,
  NoDup (r_atts (run_call true c plc s)) /\
  r_atts (run_call true c plc s) =
    filter is_access (r_effs (run_call true c plc s)) ++ failed_att (run_call true c plc s) /\
  length (r_atts (run_call true c plc s)) = r_nops (run_call true c plc s).
Proof. exact (attempts_call true). Qed.
Print Assumptions C16_access_once_call.

(* A failure planned at an operation the call never reaches changes nothing. *)
Theorem C16_unreached_failure : forall c plc s,
  (forall k, (k < r_nops (run_call true c (fun _ => None) s))%nat -> plc k = None) ->
  run_call true c plc s = run_call true c (fun _ => None) s.
Proof. exact (unreached_failure true). Qed.
Print Assumptions C16_unreached_failure.

(* In every session, a call in which an operation failed with a fault of class cls returns that
   operation's error with that class (a failed access ends the call with its own error), and the failed
   operation is the last one it attempted. *)
Theorem C16_failure_session : forall pl cs r e cls,
  In r (run true pl cs) -> r_failed r = Some (e, cls) ->
  r_res r = Err (err_of e cls) /\ exists k j, pl k j = Some cls /\ r_nops r = S j.
Proof. exact (failure_session true). Qed.
Print Assumptions C16_failure_session.

(* The only panic is the documented one, start_streaming(0); it happens after AcquisitionStart
   and before any loop is started. *)
Theorem C16_panic_only_cap0 : forall pl cs r,
  In r (run true pl cs) -> r_res r = Panic -> In (CStart 0) cs.
Proof. exact (panic_session true). Qed.
Print Assumptions C16_panic_only_cap0.

Theorem C16_start_cap0 : forall plc s c0,
  loop_running s = false -> ctxt s = Some c0 -> n_tl c0 = true -> n_start c0 = true ->
  (forall j, plc j = None) ->
  r_res (run_call true (CStart 0) plc s) = Panic /\
  r_effs (run_call true (CStart 0) plc s) = [EnableStreaming; SetTLParamsLocked true; AcqStart] /\
  loop_running (r_cam (run_call true (CStart 0) plc s)) = false.
Proof. exact (start_cap0 true). Qed.
Print Assumptions C16_start_cap0.

(* Non-vacuity: the intended session and a session with a failing AcquisitionStart write. *)
Theorem C16_session_example :
  let rs := run true no_failure [COpen; CLoad xml_good; CStart 3; CParams; CStop; CClose] in
  trace_of rs =
    [CtrlOpen; StrmOpen; GenApiFetch; LoadCtxt true true true;
     EnableStreaming; SetTLParamsLocked true; AcqStart; LoopStart;
     LoopStop; AcqStop; SetTLParamsLocked false; DisableStreaming;
     CtrlClose; StrmClose; ClearCache] /\
  map r_res rs = [Ok (-1); Ok (-1); Ok (-1); Ok 1; Ok (-1); Ok (-1)] /\
  clean (final rs).
Proof. exact session_example. Qed.
Print Assumptions C16_session_example.

Theorem C16_failure_example :
  let rs := run true (plan_of [(2%nat, 2%nat, 1)]) [COpen; CLoad xml_good; CStart 3] in
  map r_res rs = [Ok (-1); Ok (-1); Err (E_GENAPI_DEVICE + 1)] /\
  trace_of rs = [CtrlOpen; StrmOpen; GenApiFetch; LoadCtxt true true true;
                 EnableStreaming; SetTLParamsLocked true] /\
  loop_running (final rs) = false.
Proof. exact failure_example. Qed.
Print Assumptions C16_failure_example.

(* Cached register values: whenever a params access returns a value it is the device's
   TLParamsLocked — the context never serves a stale cached value, whatever failed before
   (a failing register write leaves both the register and the cache as they were). *)
Theorem C16_params_value : forall pl cs plc v,
  r_res (run_call true CParams plc (final (run true pl cs))) = Ok v ->
  v = Z.b2z (tl_locked (final (run true pl cs))).
Proof. exact (params_value true). Qed.
Print Assumptions C16_params_value.
