(* C16 — Camera start/stop/close keep device acquisition state consistent.
   Statements only; proofs are in proofs/P_C16.v.
   Model of /repo/cameleon/src/camera.rs: model/Camera.v ([run true] = the code that exists now,
   [run false] = the pinned code before the repair d70bfb8).  The acquisition protocol, written
   from the property text and independent of the camera code: spec/CameraProto.v.

   A session is a list of calls over {open, load_context(description), start_streaming(cap),
   stop_streaming, close, params access, bank access (select slot k of a selector-addressed register
   bank and read it through params_ctxt), and the environment step "the device's bank slot k becomes v"};
   a description may declare TLParamsLocked with a <pValueCopy> mirror ([x_copy]); a failure plan [pl i j] says whether the j-th fallible
   DeviceControl / PayloadStream operation of call i fails and with a fault of which class ([Some cls]:
   Io, Timeout, Disconnected, Busy, NotOpened, InvalidData, ...; any set of failures, not only one).
   [trace_of (run true pl cs)] is the list of effects on the device, the stream handle and the
   GenApi context, in order.  Every prefix of a session is a session, so a statement about
   "the trace / the final state of every session" is a statement about every reachable point. *)
From Cam Require Import Outcome CameraProto Camera P_C16 CamOps CameraSrc P_C16s.

(* Ordering: in every session under every failure plan, each effect is admissible after the
   effects before it: AcquisitionStart only with the stream enabled and TLParamsLocked = 1,
   LoopStart only after that and with the device acquiring and no loop alive, AcquisitionStop only
   with the loop halted, TLParamsLocked := 0 only after AcquisitionStop, DisableStreaming only
   after that. *)
Theorem C16_order : forall pl cs, proto_ok (trace_of (run true pl cs)).
Proof. exact (order true). Qed.
Print Assumptions C16_order.

(* The same read as "happened before and was not undone since".  TLParamsLocked is written through its
   register ([SetTLParamsLocked b]) or, where the description keeps it on the host side, as a variable of
   the context ([HostTL b]): [tl_since b p] = it was given the value b and not the other value since. *)
Theorem C16_order_before : forall pl cs p q,
  (trace_of (run true pl cs) = p ++ AcqStart :: q ->
     since EnableStreaming DisableStreaming p /\ tl_since true p) /\
  (trace_of (run true pl cs) = p ++ LoopStart :: q ->
     since EnableStreaming DisableStreaming p /\ tl_since true p /\
     since AcqStart AcqStop p /\
     (In LoopStart p -> since LoopStop LoopStart p)) /\
  (trace_of (run true pl cs) = p ++ AcqStop :: q ->
     In LoopStart p -> since LoopStop LoopStart p) /\
  (forall e, tl_write false e -> trace_of (run true pl cs) = p ++ e :: q ->
     (In LoopStart p -> since LoopStop LoopStart p) /\
     (In AcqStart p -> since AcqStop AcqStart p)) /\
  (trace_of (run true pl cs) = p ++ DisableStreaming :: q ->
     (In LoopStart p -> since LoopStop LoopStart p) /\
     (In AcqStart p -> since AcqStop AcqStart p) /\
     ((exists e, In e p /\ tl_write true e) -> tl_since false p)).
Proof. exact (order_before true). Qed.
Print Assumptions C16_order_before.

(* At most one receive loop is alive after every prefix of every trace (counting LoopStart /
   LoopStop), and LoopStart never happens while a loop is alive. *)
Theorem C16_single_loop : forall pl cs p q,
  trace_of (run true pl cs) = p ++ q ->
  0 <= loops_alive p <= 1 /\
  (forall q', q = LoopStart :: q' -> d_alive (replay p) = false).
Proof. exact (single_loop true). Qed.
Print Assumptions C16_single_loop.

(* Starting while already streaming: InStreaming, nothing is done, the state is unchanged. *)
Theorem C16_start_in_streaming : forall cap pl s,
  loop_running s = true ->
  run_call true (CStart cap) pl s =
  {| r_res := Err E_IN_STREAMING; r_effs := []; r_nops := 0; r_atts := []; r_failed := None; r_cam := s |}.
Proof. exact (start_in_streaming true). Qed.
Print Assumptions C16_start_in_streaming.

(* Starting without a loaded description: GenApiContextMissing, nothing is done. *)
Theorem C16_start_without_context : forall cap pl s,
  loop_running s = false -> ctxt s = None ->
  run_call true (CStart cap) pl s =
  {| r_res := Err E_CTXT_MISSING; r_effs := []; r_nops := 0; r_atts := []; r_failed := None; r_cam := s |}.
Proof. exact start_without_context. Qed.
Print Assumptions C16_start_without_context.

(* A start that does not return Ok — whatever failed, in whatever state — has not started a
   loop: LoopStart is in its effects only when it returns Ok, and otherwise the streaming flag is
   what it was. *)
Theorem C16_start_err_no_loop : forall cap pl s,
  let r := run_call true (CStart cap) pl s in
  (In LoopStart (r_effs r) -> r_res r = Ok (-1)) /\
  (r_res r <> Ok (-1) -> loop_running (r_cam r) = loop_running s).
Proof. exact (start_err_no_loop true). Qed.
Print Assumptions C16_start_err_no_loop.

(* While a loop is alive the device is in the streaming configuration (stream enabled,
   TLParamsLocked = 1, acquiring) — after every prefix of every trace. *)
Theorem C16_streaming_state : forall pl cs p q,
  trace_of (run true pl cs) = p ++ q -> streaming_config (replay p).
Proof. exact (streaming_state true). Qed.
Print Assumptions C16_streaming_state.

(* The state the camera holds — in particular strm.is_loop_running(), the flag it branches on —
   is exactly what replaying the effects that really happened gives, under every failure plan:
   the streaming flag matches whether a loop is running. *)
Theorem C16_state_agrees : forall pl cs,
  dev_of (final (run true pl cs)) = replay (trace_of (run true pl cs)).
Proof. exact (state_agrees true). Qed.
Print Assumptions C16_state_agrees.

Theorem C16_flag_matches : forall pl cs,
  loop_running (final (run true pl cs)) = d_alive (replay (trace_of (run true pl cs))).
Proof. exact (flag_matches true). Qed.
Print Assumptions C16_flag_matches.

(* Clean close: when no operation fails, every start has cap > 0 (documented precondition) and
   every description that parses defines the three nodes, then after any session followed by
   close: close returns Ok, the loop is stopped, TLParamsLocked = 0, the stream is disabled, the
   device is not acquiring, both handles are closed and no register value is cached (none of
   TLParamsLocked, its mirror, AcquisitionStart, AcquisitionStop, and no slot of the bank). *)
Theorem C16_close_clean : forall pl cs,
  (forall i j, pl i j = None) -> Forall good_call cs ->
  clean (final (run true pl (cs ++ [CClose]))) /\
  exists rs r, run true pl (cs ++ [CClose]) = rs ++ [r] /\ r_res r = Ok (-1).
Proof. exact close_clean. Qed.
Print Assumptions C16_close_clean.

(* Defect of the pinned code (repaired by d70bfb8): open, start_streaming without a loaded
   description, close — no operation failed, yet the stream stays enabled after close, because
   start_streaming called ctrl.enable_streaming() before it noticed the missing context. *)
Theorem C16_close_clean_v0_refuted :
  exists cs, Forall good_call cs /\
    stream_enabled (final (run false no_failure (cs ++ [CClose]))) = true /\
    ~ clean (final (run false no_failure (cs ++ [CClose]))).
Proof. exact close_clean_v0_refuted. Qed.
Print Assumptions C16_close_clean_v0_refuted.

Theorem C16_start_without_context_v0 : forall cap s,
  loop_running s = false -> ctxt s = None ->
  let r := run_call false (CStart cap) (fun _ => None) s in
  r_res r = Err E_CTXT_MISSING /\ r_effs r = [EnableStreaming] /\ stream_enabled (r_cam r) = true.
Proof. exact start_without_context_v0. Qed.
Print Assumptions C16_start_without_context_v0.

(* (The operations are ALL device / stream accesses of the model, including the write of the
   <pValueCopy> mirror of TLParamsLocked and the bank reads: the statements below quantify over
   every call, state and effect.) *)
(* Failure stops the call: in any state, if operation j is the first the plan fails — with a fault of
   ANY class cls (Io, Timeout, Disconnected, Busy, NotOpened, ...) — and the call reaches it, the call
   returns the error of exactly that operation (the j-th access e of the failure-free device log) carrying
   exactly that class, its effects are exactly the effects of the failure-free execution that precede e
   (nothing of the later sub-operations; host-side steps such as the write of a host-side TLParamsLocked
   are effects without being accesses), the device log is the first j accesses followed by the ONE failed
   attempt, and j + 1 operations were attempted (no second attempt of the failed access, no later access). *)
Theorem C16_failure_stops : forall c plc s j cls,
  first_fail plc j cls ->
  (j < r_nops (run_call true c (fun _ => None) s))%nat ->
  exists e, nth_error (r_atts (run_call true c (fun _ => None) s)) j = Some e /\
    r_failed (run_call true c plc s) = Some (e, cls) /\
    r_res (run_call true c plc s) = Err (err_of e cls) /\
    (exists q, r_effs (run_call true c (fun _ => None) s) = r_effs (run_call true c plc s) ++ e :: q) /\
    r_atts (run_call true c plc s) = firstn j (r_atts (run_call true c (fun _ => None) s)) ++ [e] /\
    r_nops (run_call true c plc s) = S j.
Proof. exact (failure_stops true). Qed.
Print Assumptions C16_failure_stops.

(* Every device access is attempted at most once: in every session under every failure plan, the
   device log of every call (open, load_context, start, stop, close, params access) has no repeated
   access; it is exactly the accesses that succeeded — the call's effects on the device and the stream
   handle — followed, when one failed, by that single failed attempt; its length is the number of
   operations attempted. *)
Theorem C16_access_once : forall pl cs r,
  In r (run true pl cs) ->
  NoDup (r_atts r) /\ r_atts r = filter is_access (r_effs r) ++ failed_att r /\
  length (r_atts r) = r_nops r.
Proof. exact (attempts_session true). Qed.
Print Assumptions C16_access_once.

(* The same for one call from ANY state (not only reachable ones). *)
Theorem C16_access_once_call : forall c plc s,
  NoDup (r_atts (run_call true c plc s)) /\
  r_atts (run_call true c plc s) =
    filter is_access (r_effs (run_call true c plc s)) ++ failed_att (run_call true c plc s) /\
  length (r_atts (run_call true c plc s)) = r_nops (run_call true c plc s).
Proof. exact (attempts_call true). Qed.
Print Assumptions C16_access_once_call.

(* A failure planned at an operation the call never reaches changes nothing. *)
Theorem C16_unreached_failure : forall c plc s,
  (forall k, (k < r_nops (run_call true c (fun _ => None) s))%nat -> plc k = None) ->
  run_call true c plc s = run_call true c (fun _ => None) s.
Proof. exact (unreached_failure true). Qed.
Print Assumptions C16_unreached_failure.

(* In every session, a call in which an operation failed with a fault of class cls returns that
   operation's error with that class (a failed access ends the call with its own error), and the failed
   operation is the last one it attempted. *)
Theorem C16_failure_session : forall pl cs r e cls,
  In r (run true pl cs) -> r_failed r = Some (e, cls) ->
  r_res r = Err (err_of e cls) /\ exists k j, pl k j = Some cls /\ r_nops r = S j.
Proof. exact (failure_session true). Qed.
Print Assumptions C16_failure_session.

(* The only panic is the documented one, start_streaming(0); it happens after AcquisitionStart
   and before any loop is started. *)
Theorem C16_panic_only_cap0 : forall pl cs r,
  In r (run true pl cs) -> r_res r = Panic -> In (CStart 0) cs.
Proof. exact (panic_session true). Qed.
Print Assumptions C16_panic_only_cap0.

Theorem C16_start_cap0 : forall plc s c0,
  loop_running s = false -> ctxt s = Some c0 -> n_tl c0 = true -> n_start c0 = true ->
  (forall j, plc j = None) ->
  r_res (run_call true (CStart 0) plc s) = Panic /\
  r_effs (run_call true (CStart 0) plc s) =
    EnableStreaming ::
    match h_tl c0 with
    | Some _ => [HostTL true]
    | None => tl_read_effs c0 ++ SetTLParamsLocked true :: (if n_copy c0 then [CopyTL true] else [])
    end ++ [AcqStart] /\
  loop_running (r_cam (run_call true (CStart 0) plc s)) = false.
Proof. exact (start_cap0 true). Qed.
Print Assumptions C16_start_cap0.

(* Non-vacuity: the intended session and a session with a failing AcquisitionStart write. *)
Theorem C16_session_example :
  let rs := run true no_failure [COpen; CLoad xml_good; CStart 3; CParams; CStop; CClose] in
  trace_of rs =
    [CtrlOpen; StrmOpen; GenApiFetch; LoadCtxt true true true false false false false;
     EnableStreaming; SetTLParamsLocked true; AcqStart; LoopStart;
     LoopStop; AcqStop; SetTLParamsLocked false; DisableStreaming;
     CtrlClose; StrmClose; ClearCache] /\
  map r_res rs = [Ok (-1); Ok (-1); Ok (-1); Ok 1; Ok (-1); Ok (-1)] /\
  clean (final rs).
Proof. exact session_example. Qed.
Print Assumptions C16_session_example.

Theorem C16_failure_example :
  let rs := run true (plan_of [(2%nat, 2%nat, 1)]) [COpen; CLoad xml_good; CStart 3] in
  map r_res rs = [Ok (-1); Ok (-1); Err (E_GENAPI_DEVICE + 1)] /\
  trace_of rs = [CtrlOpen; StrmOpen; GenApiFetch; LoadCtxt true true true false false false false;
                 EnableStreaming; SetTLParamsLocked true] /\
  loop_running (final rs) = false.
Proof. exact failure_example. Qed.
Print Assumptions C16_failure_example.

(* Cached register values: whenever a params access returns a value it is the device's
   TLParamsLocked — the context never serves a stale cached value, whatever failed before
   (a failing register write leaves both the register and the cache as they were); where the
   description keeps TLParamsLocked on the host side it is that variable ([tl_value]). *)
Theorem C16_params_value : forall pl cs plc v,
  r_res (run_call true CParams plc (final (run true pl cs))) = Ok v ->
  v = Z.b2z (tl_value (final (run true pl cs))).
Proof. exact (params_value true). Qed.
Print Assumptions C16_params_value.

(* ---- cached register values are dropped by close ------------------------------------------- *)

(* The bank access in ANY state: it returns a value either by a device read of exactly that slot,
   when the slot is not cached (the value is the device's current one, and it is cached from then on),
   or without any device access from the block cached for that slot; it fails only without a context
   or when the device read fails, and then changes nothing. *)
Theorem C16_bank_read_call : forall plc s k,
  let r := run_call true (CBank k) plc s in
  match r_res r with
  | Ok v =>
      (bank_cache s k = None /\ r_effs r = [BankRead k] /\ r_atts r = [BankRead k] /\ v = bank s k /\
       bank_cache (r_cam r) k = Some v /\ bank (r_cam r) = bank s) \/
      (bank_cache s k = Some v /\ r_effs r = [] /\ r_atts r = [] /\ r_cam r = s)
  | Err e =>
      r_effs r = [] /\ r_cam r = s /\
      ((ctxt s = None /\ r_atts r = [] /\ e = E_CTXT_MISSING) \/
       (exists cls, bank_cache s k = None /\ plc 0%nat = Some cls /\ r_atts r = [BankRead k] /\
                    e = err_of (BankRead k) cls))
  | Panic => False
  end.
Proof. exact (bank_read_call true). Qed.
Print Assumptions C16_bank_read_call.

(* Cached register values are dropped by close.  For every session  cs1 . close . cs2 . read of bank
   slot k  under every failure plan (the device's bank memory may change at any point of cs1 / cs2,
   cs2 may open, load, start, stop, read other slots ...): if that close returned Ok (none of its
   operations failed) and the read returns a value v, then
   - if it is the first read of slot k after the close, it is a device access (exactly one device
     read, of that slot) and v is the device's current value of the slot: nothing cached before the
     close is served, whatever was cached then and however many other slots were read since;
   - in general, if the read is served without a device access, then v was obtained by a device read
     of slot k made AFTER the close (one of the calls of cs2): no read after a clean close returns a
     value cached before it. *)
Theorem C16_cache_dropped_on_close : forall pl cs1 cs2 k rs1 rc rs2 r v,
  run true pl (cs1 ++ CClose :: cs2 ++ [CBank k]) = rs1 ++ rc :: rs2 ++ [r] ->
  length rs1 = length cs1 ->
  r_res rc = Ok (-1) ->
  r_res r = Ok v ->
  (~ In (CBank k) cs2 ->
     r_effs r = [BankRead k] /\ r_atts r = [BankRead k] /\
     v = bank (final (run true pl (cs1 ++ CClose :: cs2))) k) /\
  (r_effs r = [] ->
     exists r', In r' rs2 /\ r_effs r' = [BankRead k] /\ r_atts r' = [BankRead k] /\ r_res r' = Ok v).
Proof. exact cache_dropped_on_close. Qed.
Print Assumptions C16_cache_dropped_on_close.

(* Non-vacuity: slot 0 is read (7) and cached; close; the device's slots change; open (same context);
   slot 1 is read; then slot 0 is a device read returning 9, not the 7 cached before the close. *)
Theorem C16_cache_example :
  let rs := run true no_failure [COpen; CLoad xml_good; CPoke 0 7; CBank 0; CBank 0; CClose;
                                 CPoke 0 9; CPoke 1 8; COpen; CBank 1; CBank 0; CBank 0] in
  map r_res rs = [Ok (-1); Ok (-1); Ok (-1); Ok 7; Ok 7; Ok (-1); Ok (-1); Ok (-1); Ok (-1); Ok 8; Ok 9; Ok 9] /\
  map r_effs (skipn 8 rs) = [[CtrlOpen; StrmOpen]; [BankRead 1]; [BankRead 0]; []] /\
  map r_effs (firstn 5 (skipn 2 rs)) = [[BankPoke 0 7]; [BankRead 0]; []; [CtrlClose; StrmClose; ClearCache]; [BankPoke 0 9]].
Proof. exact cache_example. Qed.
Print Assumptions C16_cache_example.

(* ---- TLParamsLocked declared with <pValue> and <pValueCopy> --------------------------------- *)

(* In every session under every failure plan: a call in which the write of the mirror register (the
   <pValueCopy> of TLParamsLocked) failed with a fault of class cls returns that error with that class;
   the failed write is the last operation it attempted; it is start_streaming having done exactly
   EnableStreaming and the <pValue> write (no AcquisitionStart, no receive loop), or stop_streaming /
   close having done exactly LoopStop, AcquisitionStop and the <pValue> write (no DisableStreaming, no
   channel closed, no cache cleared); no loop is running afterwards. *)
Theorem C16_copy_failure_stops : forall pl cs r b cls,
  In r (run true pl cs) -> r_failed r = Some (CopyTL b, cls) ->
  r_res r = Err (E_GENAPI_DEVICE + cls) /\
  r_atts r = r_effs r ++ [CopyTL b] /\
  loop_running (r_cam r) = false /\
  (exists rb, (rb = [] \/ rb = [GenApiRead]) /\
     ((b = true /\ r_effs r = EnableStreaming :: rb ++ [SetTLParamsLocked true]) \/
      (b = false /\ r_effs r = [LoopStop; AcqStop] ++ rb ++ [SetTLParamsLocked false]))) /\
  exists k j, pl k j = Some cls /\ r_nops r = S j.
Proof. exact (copy_failure_stops true). Qed.
Print Assumptions C16_copy_failure_stops.

(* Non-vacuity: the description with the mirror, failure-free (the mirror is written right after the
   <pValue> register, before AcquisitionStart / before DisableStreaming) and with the mirror write of
   start, resp. of stop, failing with a Timeout. *)
Theorem C16_copy_example :
  let cs := [COpen; CLoad xml_copy; CStart 3; CStop; CClose] in
  trace_of (run true no_failure cs) =
    [CtrlOpen; StrmOpen; GenApiFetch; LoadCtxt true true true true false false false;
     EnableStreaming; SetTLParamsLocked true; CopyTL true; AcqStart; LoopStart;
     LoopStop; AcqStop; SetTLParamsLocked false; CopyTL false; DisableStreaming;
     CtrlClose; StrmClose; ClearCache] /\
  clean (final (run true no_failure cs)) /\ tl_copy (final (run true no_failure cs)) = false /\
  (let rs := run true (plan_of [(2%nat, 2%nat, 1)]) cs in
   map r_res rs = [Ok (-1); Ok (-1); Err (E_GENAPI_DEVICE + 1); Ok (-1); Ok (-1)] /\
   map r_atts rs = [[CtrlOpen; StrmOpen]; [GenApiFetch]; [EnableStreaming; SetTLParamsLocked true; CopyTL true];
                    []; [CtrlClose; StrmClose]]) /\
  (let rs := run true (plan_of [(3%nat, 3%nat, 1)]) cs in
   map r_res rs = [Ok (-1); Ok (-1); Ok (-1); Err (E_GENAPI_DEVICE + 1); Ok (-1)] /\
   nth 3 (map r_atts rs) [] = [LoopStop; AcqStop; SetTLParamsLocked false; CopyTL false] /\
   stream_enabled (final rs) = true /\ tl_copy (final rs) = true).
Proof. exact copy_example. Qed.
Print Assumptions C16_copy_example.

(* Clean close with the mirror: under the hypotheses of C16_close_clean, when every description
   loaded in the session declares the <pValueCopy>, the mirror register of TLParamsLocked is 0 after
   close as well (with descriptions that differ in this respect loaded in one session the mirror may
   stay set: stop_streaming writes what the description loaded at that moment declares). *)
Theorem C16_close_clean_copy : forall pl cs,
  (forall i j, pl i j = None) -> Forall good_call cs -> Forall copy_call cs ->
  tl_copy (final (run true pl (cs ++ [CClose]))) = false.
Proof. exact close_clean_copy. Qed.
Print Assumptions C16_close_clean_copy.

(* ---- TLParamsLocked on the host side; command values; availability of the commands ---------- *)

(* When every description loaded keeps TLParamsLocked in its register, the register holds what
   TLParamsLocked was given last ([tl_feat], the TLParamsLocked of the protocol and of [clean]) --
   under every failure plan; so after a clean close the device register is 0. *)
Theorem C16_register_is_feature : forall pl cs,
  Forall reg_call cs -> tl_locked (final (run true pl cs)) = tl_feat (final (run true pl cs)).
Proof. exact (register_is_feature true). Qed.
Print Assumptions C16_register_is_feature.

Theorem C16_close_clean_reg : forall pl cs,
  (forall i j, pl i j = None) -> Forall good_call cs -> Forall reg_call cs ->
  tl_locked (final (run true pl (cs ++ [CClose]))) = false.
Proof. exact close_clean_reg. Qed.
Print Assumptions C16_close_clean_reg.

(* Non-vacuity: TLParamsLocked as a host-side variable, AcquisitionStop with CommandValue 0: the
   variable is written between EnableStreaming and AcquisitionStart without any device access, a params
   access reads it, close leaves everything clean. *)
Theorem C16_host_example :
  let rs := run true no_failure [COpen; CLoad xml_host; CStart 3; CParams; CStop; CParams; CClose] in
  trace_of rs =
    [CtrlOpen; StrmOpen; GenApiFetch; LoadCtxt true true true false true true false;
     EnableStreaming; HostTL true; AcqStart; LoopStart;
     LoopStop; AcqStop; HostTL false; DisableStreaming;
     CtrlClose; StrmClose; ClearCache] /\
  map r_res rs = [Ok (-1); Ok (-1); Ok (-1); Ok 1; Ok (-1); Ok 0; Ok (-1)] /\
  map r_atts rs = [[CtrlOpen; StrmOpen]; [GenApiFetch]; [EnableStreaming; AcqStart; LoopStart]; [];
                   [LoopStop; AcqStop; DisableStreaming]; []; [CtrlClose; StrmClose]] /\
  clean (final rs).
Proof. exact host_example. Qed.
Print Assumptions C16_host_example.

(* No device operation fails => no error: after any session within the property's quantifier, under a
   plan that fails nothing, open / stop_streaming / close return Ok, and start_streaming returns Ok or
   is refused for one of the two documented reasons (InStreaming, GenApiContextMissing) -- whatever the
   device does to its own memory in between ([CPoke] calls of the session, among them the availability
   registers that some descriptions attach to AcquisitionStart / AcquisitionStop with <pIsAvailable>:
   CommandNode::execute does not consult them). *)
Theorem C16_no_failure_no_error : forall pl cs c,
  (forall i j, pl i j = None) -> Forall good_call cs -> good_call c ->
  run true pl (cs ++ [c]) = run true pl cs ++ [run_call true c (pl (length cs)) (final (run true pl cs))] /\
  match c with
  | COpen | CStop | CClose | CPoke _ _ =>
      r_res (run_call true c (pl (length cs)) (final (run true pl cs))) = Ok (-1)
  | CStart _ =>
      r_res (run_call true c (pl (length cs)) (final (run true pl cs))) = Ok (-1) \/
      (loop_running (final (run true pl cs)) = true /\
       r_res (run_call true c (pl (length cs)) (final (run true pl cs))) = Err E_IN_STREAMING) \/
      (loop_running (final (run true pl cs)) = false /\ ctxt (final (run true pl cs)) = None /\
       r_res (run_call true c (pl (length cs)) (final (run true pl cs))) = Err E_CTXT_MISSING)
  | _ => True
  end.
Proof. exact no_failure_no_error. Qed.
Print Assumptions C16_no_failure_no_error.

(* ---- TIE TO THE SOURCE CODE: cameleon/src/camera.rs ------------------------------------------- *)
(* gen/CameraSrc.v is regenerated on every run by tools/translate_camera.py from Camera::{params_ctxt, open,
   load_context, start_streaming, stop_streaming, close}: every statement in source order, over the
   operation vocabulary model/CamOps.v (self.ctrl.<m>()? / self.strm.<m>(..)? = one fallible operation, the
   guards, expect_node!(&ctxt, NAME, as_X).set_value(&mut ctxt, v)? / .execute(&mut ctxt)? with the node name,
   the interface and the literal taken from the source, channel(cap, DEFAULT_BUFFER_CAP), the assignment of the
   context, clear_cache).  The translated methods ARE the model's methods, as functions of the failure plan
   and the state ([cam_start true]: the code that exists; [cam_start false], the pinned code before d70bfb8,
   lacks the `if self.ctxt.is_none()` guard and is not what the source says any more). *)
Theorem C16_open_from_source : forall pl s, src_cam_open pl s = cam_open pl s.
Proof. exact cam_open_src. Qed.
Print Assumptions C16_open_from_source.

Theorem C16_load_from_source : forall x pl s, src_cam_load x pl s = cam_load x pl s.
Proof. exact cam_load_src. Qed.
Print Assumptions C16_load_from_source.

Theorem C16_start_from_source : forall cap pl s, src_cam_start cap pl s = cam_start true cap pl s.
Proof. exact cam_start_src. Qed.
Print Assumptions C16_start_from_source.

Theorem C16_stop_from_source : forall pl s, src_cam_stop pl s = cam_stop pl s.
Proof. exact cam_stop_src. Qed.
Print Assumptions C16_stop_from_source.

Theorem C16_close_from_source : forall pl s, src_cam_close pl s = cam_close pl s.
Proof. exact cam_close_src. Qed.
Print Assumptions C16_close_from_source.

Theorem C16_params_ctxt_from_source : forall pl s, src_params_ctxt pl s = params_ctxt pl s.
Proof. exact params_ctxt_src. Qed.
Print Assumptions C16_params_ctxt_from_source.

(* Hence a session executed with the TRANSLATED methods ([src_run]: open / load_context / start / stop / close
   from gen/CameraSrc.v, the application's parameter accesses and the environment steps as in the model) is the
   model's session, and every theorem above speaks about the translated code.  In particular the ordering:
   every effect of every session of the translated code, under every failure plan, is admissible after the
   effects before it. *)
Theorem C16_run_from_source : forall pl cs, src_run pl cs = run true pl cs.
Proof. exact src_run_eq. Qed.
Print Assumptions C16_run_from_source.

Theorem C16_order_of_source : forall pl cs, proto_ok (trace_of (src_run pl cs)).
Proof. exact order_of_source. Qed.
Print Assumptions C16_order_of_source.

(* The device log of a translated start_streaming in which nothing fails, on a camera that is not streaming and
   holds a conforming description: EnableStreaming, TLParamsLocked := 1 (then its mirror where declared; no
   device access where TLParamsLocked is a host-side variable), AcquisitionStart, LoopStart -- exactly these, in
   this order; and of a translated stop_streaming of a streaming camera: LoopStop first, AcquisitionStop,
   TLParamsLocked := 0, DisableStreaming. *)
Theorem C16_start_of_source : forall cap plc s c0,
  loop_running s = false -> ctxt s = Some c0 -> n_tl c0 = true -> n_start c0 = true -> cap <> 0 ->
  (forall j, plc j = None) ->
  let r := src_run_call (CStart cap) plc s in
  r_res r = Ok (-1) /\
  r_atts r = EnableStreaming ::
             match h_tl c0 with
             | Some _ => []
             | None => tl_read_effs c0 ++ SetTLParamsLocked true :: (if n_copy c0 then [CopyTL true] else [])
             end ++ [AcqStart; LoopStart] /\
  filter is_access (r_effs r) = r_atts r /\
  loop_running (r_cam r) = true.
Proof. exact start_of_source. Qed.
Print Assumptions C16_start_of_source.

Theorem C16_stop_of_source : forall plc s c0,
  loop_running s = true -> ctxt s = Some c0 -> n_tl c0 = true -> n_stop c0 = true ->
  (forall j, plc j = None) ->
  let r := src_run_call CStop plc s in
  r_res r = Ok (-1) /\
  r_atts r = [LoopStop; AcqStop] ++
             match h_tl c0 with
             | Some _ => []
             | None => tl_read_effs c0 ++ SetTLParamsLocked false :: (if n_copy c0 then [CopyTL false] else [])
             end ++ [DisableStreaming] /\
  filter is_access (r_effs r) = r_atts r /\
  loop_running (r_cam r) = false.
Proof. exact stop_of_source. Qed.
Print Assumptions C16_stop_of_source.

(* Non-vacuity (vm_compute): the intended session through the translated methods, a failing AcquisitionStart
   write, the documented panic of start_streaming(0). *)
Theorem C16_source_example :
  let rs := src_run no_failure [COpen; CLoad xml_good; CStart 3; CParams; CStop; CClose] in
  trace_of rs =
    [CtrlOpen; StrmOpen; GenApiFetch; LoadCtxt true true true false false false false;
     EnableStreaming; SetTLParamsLocked true; AcqStart; LoopStart;
     LoopStop; AcqStop; SetTLParamsLocked false; DisableStreaming;
     CtrlClose; StrmClose; ClearCache] /\
  map r_res rs = [Ok (-1); Ok (-1); Ok (-1); Ok 1; Ok (-1); Ok (-1)] /\
  map r_res (src_run (plan_of [(2%nat, 2%nat, 1)]) [COpen; CLoad xml_good; CStart 3]) =
    [Ok (-1); Ok (-1); Err (E_GENAPI_DEVICE + 1)] /\
  map r_res (src_run no_failure [COpen; CLoad xml_good; CStart 0]) = [Ok (-1); Ok (-1); Panic].
Proof. exact source_example. Qed.
Print Assumptions C16_source_example.

(* ---- TLParamsLocked declared as a <MaskedIntReg>; second handles of the context ---------------- *)

(* Non-vacuity: with TLParamsLocked a <MaskedIntReg> its set_value is a read-modify-write: the register is
   read back (one more fallible device access, GenApiRead) before the first write, served from the cache
   before the second; when that read fails start_streaming returns its error having done EnableStreaming
   only -- no write, no AcquisitionStart, no loop (C16_failure_stops / C16_failure_session / C16_access_once
   cover this access as every other). *)
Theorem C16_masked_example :
  let cs := [COpen; CLoad xml_mask; CStart 3; CStop; CClose] in
  trace_of (run true no_failure cs) =
    [CtrlOpen; StrmOpen; GenApiFetch; LoadCtxt true true true false false false true;
     EnableStreaming; GenApiRead; SetTLParamsLocked true; AcqStart; LoopStart;
     LoopStop; AcqStop; SetTLParamsLocked false; DisableStreaming;
     CtrlClose; StrmClose; ClearCache] /\
  clean (final (run true no_failure cs)) /\
  (let rs := run true (plan_of [(2%nat, 1%nat, 2)]) cs in
   map r_res rs = [Ok (-1); Ok (-1); Err (E_GENAPI_DEVICE + 2); Ok (-1); Ok (-1)] /\
   map r_atts rs = [[CtrlOpen; StrmOpen]; [GenApiFetch]; [EnableStreaming; GenApiRead]; []; [CtrlClose; StrmClose]] /\
   nth 2 (map r_effs rs) [] = [EnableStreaming] /\
   tl_feat (final rs) = false /\ loop_running (final rs) = false).
Proof. exact masked_example. Qed.
Print Assumptions C16_masked_example.

(* The application taking ([CHold true]) or dropping ([CHold false]) a second handle of the camera's context
   (a clone of a sharable context) is no step of the camera: nothing is attempted and the state is unchanged;
   so C16_close_clean and C16_cache_dropped_on_close -- which hold for every session, hence for sessions
   containing such steps anywhere -- say that close drops the cached values whoever else holds the context. *)
Theorem C16_hold_call : forall b plc s,
  run_call true (CHold b) plc s =
  {| r_res := Ok (-1); r_effs := []; r_nops := 0; r_atts := []; r_failed := None; r_cam := s |}.
Proof. exact (hold_call true). Qed.
Print Assumptions C16_hold_call.
